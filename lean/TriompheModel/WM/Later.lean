import TriompheModel.WM.Unique
/-!
# M4 — the "later sharers" half of C03 / C08

`unique_verdict_exclusive` (WM/Unique.lean) orders every access through a handle that existed when
the gate's load read the count *before* the gate.  This file is the other direction: every handle
that comes into existence *after* the point the gate read from is a descendant of the gate's own
handle `h`, and — because the clone that starts such a family needs `&h` while the gate's caller holds
`&mut h` — its birth, and therefore everything ever done through it, happens-after the granted write.

The one new assumption is `MutExcl`, the borrow-checker fact the property text calls "sole owner":
while the `&mut` borrow that the gate was called through is in use (from the gate's load `l` to the
granted write `w`), no `clone` takes `&h`; so an increment whose source is `h` either happens-before
the load or happens-after the write.
-/
open Facts
namespace WM

variable {X : CountExec} {decOrd : MemOrd} {fenceOrd : Option MemOrd}

/-- `&mut` exclusivity of the gate's handle: a clone taken from `h` does not overlap the region
between the gate's load `l` and the write `w` it grants -/
def MutExcl (X : CountExec) (l w : X.A) (h : H) : Prop :=
  ∀ {i : Nat} {c : H}, X.ops[i]? = some (Op.inc c h) → X.hb (.rmw i) (.oth l) ∨ X.hb (.oth w) (.rmw i)

/-- the part of the modification order a load with this `rf` has seen -/
def seenPrefix (ops : List Op) : Option Nat → List Op
  | none => []
  | some j => ops.take (j+1)

/-- position `i` lies beyond what the load read from -/
def Beyond (rf : Option Nat) (i : Nat) : Prop := ∀ j, rf = some j → j < i

/-- At a load through `h` that returns 1, `h` is the only live handle of the prefix it read from:
every other handle born in that prefix was released inside it. -/
theorem sole_live_at_verdict (hc : Consistent X) (hp : Protocol X decOrd fenceOrd)
    (hrw : CoRW X) (hvb : ViaBorn X)
    {l : X.A} {h : H} {o : MemOrd} {rf : Option Nat}
    (hl : X.kind l = .load h o rf) (hone : valRead X.ops rf = 1) :
    ∀ x, x ∈ (run (seenPrefix X.ops rf)).born → x ≠ h →
      ∃ m j, rf = some j ∧ m ≤ j ∧ X.ops[m]? = some (Op.dec x) := by
  intro x hxb hne
  have hli : (X.kind l).loadInfo = some (o, rf) := by rw [hl]; rfl
  have hvl : (X.kind l).via = some h := by rw [hl]; rfl
  have hwP : WF (seenPrefix X.ops rf) := by
    cases rf with
    | none => exact WF.nil
    | some j => exact wf_take hc hp (j+1)
  have hvalP : (run (seenPrefix X.ops rf)).val = 1 := by
    cases rf with
    | none => rfl
    | some j => exact hone
  have hiP := inv_run hwP
  obtain ⟨hl1, _⟩ := live_iff hwP
  have hlen : (run (seenPrefix X.ops rf)).live.length = 1 := by
    have := hiP.val; rw [hvalP] at this; omega
  have hdeadP : ∀ y, y ∈ deads (seenPrefix X.ops rf) →
      ∃ m j, rf = some j ∧ m ≤ j ∧ X.ops[m]? = some (Op.dec y) := by
    intro y hy
    cases rf with
    | none => simp [seenPrefix, deads] at hy
    | some j =>
      obtain ⟨m, hm, hmd⟩ := exists_lt_of_mem_take (mem_deads.1 hy)
      exact ⟨m, j, rfl, by omega, hmd⟩
  have hhlive : h ∈ (run (seenPrefix X.ops rf)).live := by
    rw [hl1]
    refine ⟨?_, ?_⟩
    · rw [born_run]
      by_cases h0 : h = 0
      · exact Or.inl h0
      · obtain ⟨i, s, hi, hhb⟩ := hvb hvl h0
        obtain ⟨j, hj, hij⟩ := hc.coWR hli hhb
        subst hj
        exact Or.inr (mem_kids.2 ⟨s, mem_take_of_lt hi (by omega)⟩)
    · intro hd
      obtain ⟨m, j, hj, hmj, hmd⟩ := hdeadP h hd
      have := hrw hli (hp.via_alive hvl hmd) j hj
      omega
  have hxdead : x ∈ deads (seenPrefix X.ops rf) := by
    apply Classical.byContradiction
    intro hnd
    have : x ∈ (run (seenPrefix X.ops rf)).live := by rw [hl1]; exact ⟨hxb, hnd⟩
    exact hne (length_one_mem hlen hhlive this)
  exact hdeadP x hxdead

/-- a handle created at a position inside the prefix is born in the prefix -/
theorem born_of_inc_in_prefix {ops : List Op} {rf : Option Nat} {i : Nat} {c s : H}
    (hi : ops[i]? = some (Op.inc c s)) (hin : ¬ Beyond rf i) : c ∈ (run (seenPrefix ops rf)).born := by
  rw [born_run]
  cases rf with
  | none => exact absurd (fun j hj => by cases hj) hin
  | some j =>
    have : i ≤ j := by
      apply Classical.byContradiction
      intro hlt
      exact hin (fun j' hj' => by cases hj'; omega)
    exact Or.inr (mem_kids.2 ⟨s, mem_take_of_lt hi (by omega)⟩)

/-- **C03 / C08, schedule part, later sharers.**  After a gate's load through `h` returned 1, every
handle created beyond the point that load read from is born — its increment is ordered —
*after the granted write* `w`. -/
theorem later_births_after_write (hc : Consistent X) (hp : Protocol X decOrd fenceOrd)
    (hrw : CoRW X) (hvb : ViaBorn X)
    {l w : X.A} {h : H} {o : MemOrd} {rf : Option Nat}
    (hl : X.kind l = .load h o rf) (hone : valRead X.ops rf = 1) (hex : MutExcl X l w h) :
    ∀ (i : Nat) (c s : H), X.ops[i]? = some (Op.inc c s) → Beyond rf i → X.hb (.oth w) (.rmw i) := by
  have hli : (X.kind l).loadInfo = some (o, rf) := by rw [hl]; rfl
  have hsole := sole_live_at_verdict hc hp hrw hvb hl hone
  intro i
  induction i using Nat.strongRecOn with
  | _ i ih =>
    intro c s hi hbey
    by_cases hsh : s = h
    · subst hsh
      rcases hex hi with hbefore | hafter
      · -- the clone would be visible to the load: it cannot have read from before it
        obtain ⟨j, hj, hij⟩ := hc.coWR hli hbefore
        have := hbey j hj
        omega
      · exact hafter
    · -- the source is itself a later handle
      have hs_notin : s ∉ (run (seenPrefix X.ops rf)).born := by
        intro hsb
        obtain ⟨m, j, hj, hmj, hmd⟩ := hsole s hsb hsh
        have h1 := hc.coWW (hp.src_alive hi hmd)
        have h2 := hbey j hj
        omega
      have hs0 : s ≠ 0 := by
        intro h0
        apply hs_notin
        rw [born_run]; exact Or.inl h0
      obtain ⟨i', s', hi', hhb⟩ := hp.src_born hi hs0
      have hlt : i' < i := hc.coWW hhb
      have hbey' : Beyond rf i' := by
        apply Classical.byContradiction
        intro hnb
        exact hs_notin (born_of_inc_in_prefix hi' hnb)
      exact hc.hb_trans (ih i' hlt s s' hi' hbey') hhb

/-- … hence **every access through a later sharer happens-after the granted write**: a thread that
obtains a handle after the mutation sees the mutated value, never a torn one, and the mutation never
races with it. -/
theorem later_sharers_after_write (hc : Consistent X) (hp : Protocol X decOrd fenceOrd)
    (hrw : CoRW X) (hvb : ViaBorn X)
    {l w : X.A} {h : H} {o : MemOrd} {rf : Option Nat}
    (hl : X.kind l = .load h o rf) (hone : valRead X.ops rf = 1) (hex : MutExcl X l w h) :
    ∀ (a : X.A) (h' : H), (X.kind a).via = some h' → h' ≠ 0 →
      (∀ i s, X.ops[i]? = some (Op.inc h' s) → Beyond rf i) → X.hb (.oth w) (.oth a) := by
  intro a h' hva h0 hlate
  obtain ⟨i, s, hi, hhb⟩ := hvb hva h0
  exact hc.hb_trans (later_births_after_write hc hp hrw hvb hl hone hex i h' s hi (hlate i s hi)) hhb

/-- Together with `unique_verdict_exclusive`: with respect to a successful gate, every handle other
than the gate's own is either a *former* sharer (all its accesses before the gate's load) or a
*later* one (all its accesses after the granted write) — no access through another handle is
concurrent with the write. -/
theorem no_access_concurrent_with_granted_write (hc : Consistent X) (hp : Protocol X decOrd fenceOrd)
    (hrw : CoRW X) (hvb : ViaBorn X) (hrel : decOrd.isRel = true)
    {l w : X.A} {h : H} {o : MemOrd} {rf : Option Nat}
    (hl : X.kind l = .load h o rf) (hacq : o.isAcq = true) (hone : valRead X.ops rf = 1)
    (hlw : X.hb (.oth l) (.oth w)) (hex : MutExcl X l w h) :
    ∀ (a : X.A) (h' : H), (X.kind a).via = some h' → h' ≠ h →
      X.hb (.oth a) (.oth w) ∨ X.hb (.oth w) (.oth a) := by
  intro a h' hva hne
  by_cases hformer : h' = 0 ∨ ∃ j, rf = some j ∧ h' ∈ kids (X.ops.take (j+1))
  · exact Or.inl (hc.hb_trans (unique_verdict_exclusive hc hp hrw hvb hrel hl hacq hone a h' hva hne hformer) hlw)
  · refine Or.inr (later_sharers_after_write hc hp hrw hvb hl hone hex a h' hva (fun h0 => hformer (Or.inl h0)) ?_)
    intro i s hi j hj
    apply Classical.byContradiction
    intro hnlt
    exact hformer (Or.inr ⟨j, hj, mem_kids.2 ⟨s, mem_take_of_lt hi (by omega)⟩⟩)

end WM
