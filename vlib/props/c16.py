"""C16 — reference-count overflow terminates the process instead of wrapping.

Deciding method: Lean theorems of `TriompheModel.Props.C16` about the executable guard model
`Model/Overflow.lean` (∀ w : BitVec 64, ∀ word width, ∀ clone/drop/forget sequences, ∀ interleavings
with n clones in flight), instantiated at the guard facts the translator reads from /repo/src on
this run (Tie A: MAX_REFCOUNT, comparison operator, action, what `abort()` is with and without
`std`, funnelling of every clone path into `Arc::clone`, census of fetch_add sites).

Tie B: one child process per (configuration, clone entry point, start count): the harness binary
`ovf` presets the count word through `heap_ptr()`, reads it back through `strong_count`, performs
exactly one clone; exit status / signal / output are compared with what the Lean driver `drv_ovf`
computes from the model for the same start count, in the std and the no_std configuration.

Monitor (independent of the model — the property itself): never `cloned` from a start count above
isize::MAX; a `cloned` count is exactly start+1; never `caught-panic`; a start above isize::MAX ends
in SIGABRT; a start at or below it succeeds.
"""
import json
import os
import random
import re
import subprocess
from concurrent.futures import ThreadPoolExecutor

from vlib import common

MODULE = "TriompheModel.Props.C16"
BITS = 64
ISIZE_MAX = 2 ** 63 - 1
USIZE_MAX = 2 ** 64 - 1
SIGABRT = 6

ENTRIES = ["arc_sized", "arc_slice", "arc_dyn", "thin", "offset_clone", "offset_clone_arc",
           "borrow_clone_arc", "union_first", "union_second",
           "with_arc_offset", "with_arc_thin", "with_arc_borrow",
           # over-aligned payloads (data offset 16 / 64: the count is not the word in front of the value)
           "arc_sized_oa", "offset_clone_oa", "offset_clone_arc_oa", "borrow_clone_arc_oa", "union_first_oa", "union_second_oa",
           "asw_arc_load_full", "asw_thin_load_full"]       # handles produced by arc-swap (RefCnt::inc), both configs have the feature
STARTS = [1, 2, 2 ** 31, 2 ** 32, ISIZE_MAX - 1, ISIZE_MAX, ISIZE_MAX + 1, ISIZE_MAX + 2,
          USIZE_MAX - 1, USIZE_MAX]
# configuration -> features of the triomphe crate the harness is built with
CONFIGS = {
    "std": ("std", "serde", "stable_deref_trait", "unsize", "arc-swap"),
    "nostd": ("serde", "stable_deref_trait", "unsize", "arc-swap"),   # the no_std library in a std binary
}
ASSUME = [
    "the count word is the first word of the heap block (repr(C) ArcInner): checked in every child by reading the preset value back through strong_count",
    "64-bit usize on this machine; the theorems are also proved for every word width >= 2 bits, but only the 64-bit instance is run against the code",
    "no_std configuration = the library built without feature `std`, linked into a std harness binary (the double panic is turned into SIGABRT by the std panic runtime)",
    "the concurrent theorem C16_no_wrap_inflight models fetch_add and guard check as two atomic steps of an interleaving machine (the count is one atomic location, so sequential consistency per location applies)",
    "Generated/Consts.lean, Generated/Atomics.lean are produced by the translator /verif/extract (funnelling and census facts are static facts, not observable at run time)",
]


# ------------------------------------------------------------------------------------------------
def gen_cases(ctx):
    """[(cfg, entry, start)] — the property's grid first, then PRNG-drawn extras."""
    cases = [(c, e, s) for c in CONFIGS for e in ENTRIES for s in STARTS]
    rnd = random.Random(ctx.seed)
    n_extra = 48 if not ctx.thorough() else 6000
    for _ in range(n_extra):
        k = rnd.randrange(5)
        if k == 0:
            s = rnd.randrange(1, 2 ** 64)
        elif k == 1:
            s = ISIZE_MAX + rnd.randrange(-40, 41)
        elif k == 2:
            s = rnd.randrange(1, 2 ** 20)
        elif k == 3:
            s = min(USIZE_MAX, max(1, 2 ** rnd.randrange(1, 64) + rnd.randrange(-1, 2)))
        else:
            s = USIZE_MAX - rnd.randrange(0, 1000)
        cases.append((rnd.choice(sorted(CONFIGS)), rnd.choice(ENTRIES), s))
    seen = set()
    out = []
    for c in cases:
        if c not in seen:
            seen.add(c)
            out.append(c)
    return out


def run_child(binpath, entry, start, stderr_mode=None):
    """stderr_mode: None = captured; "full" = /dev/full (every write fails with ENOSPC); "closed" = a pipe whose reader
    is gone (EPIPE) — an `abort` path that prints first must still end in SIGABRT"""
    env = dict(os.environ)
    env["RUST_BACKTRACE"] = "0"
    try:
        if stderr_mode is None:
            p = subprocess.run([binpath, entry, str(start)], stdout=subprocess.PIPE, stderr=subprocess.PIPE,
                               timeout=60, text=True, errors="replace", env=env)
            rc, out, err = p.returncode, p.stdout, p.stderr
        else:
            if stderr_mode == "full":
                fd = os.open("/dev/full", os.O_WRONLY)
            else:
                r_, fd = os.pipe()
                os.close(r_)
            try:
                p = subprocess.run([binpath, entry, str(start)], stdout=subprocess.PIPE, stderr=fd, timeout=60, text=True, errors="replace", env=env)
            finally:
                os.close(fd)
            rc, out, err = p.returncode, p.stdout, "[stderr was %s]" % stderr_mode
    except subprocess.TimeoutExpired:
        rc, out, err = 124, "", "[timeout]"
    obs = {"rc": rc, "stdout": out.strip().split("\n") if out.strip() else [], "stderr_tail": err.strip()[-400:],
           "panics_printed": len(re.findall(r"panicked at", err))}
    for key in ("fresh", "preset", "cloned", "caught-panic"):
        m = re.search(r"^%s count=(\d+)$" % re.escape(key), out, re.M)
        obs[key] = int(m.group(1)) if m else None
    obs["status"] = ("signal:%d" % -rc) if rc < 0 else ("exit:%d" % rc)
    return obs


def canon_impl(obs):
    """canonical observation line of the implementation"""
    if obs["status"] == "exit:0" and obs["cloned"] is not None and obs["caught-panic"] is None:
        return "ok %d" % obs["cloned"]
    if obs["status"] == "signal:%d" % SIGABRT and obs["cloned"] is None and obs["caught-panic"] is None:
        return "abort " + ("processAbort" if obs["panics_printed"] == 0 else "doublePanic")
    if obs["status"] == "exit:3" and obs["caught-panic"] is not None:
        return "abort unwinding %d" % obs["caught-panic"]
    return "other %s cloned=%s caught=%s" % (obs["status"], obs["cloned"], obs["caught-panic"])


def canon_model(line):
    """canonical line of the model: the word after an abort is not observable (the process is gone)"""
    t = line.split()
    if t[:1] == ["ok"]:
        return "ok " + t[1]
    if t[:1] == ["abort"] and t[1] in ("processAbort", "doublePanic"):
        return "abort " + t[1]
    if t[:1] == ["abort"] and t[1] == "unwinding":
        return "abort unwinding " + t[2]
    return "model-" + line


def monitor(start, obs):
    """The property itself on one observation; returns list of violated clauses (empty = holds)."""
    bad = []
    if obs["caught-panic"] is not None:
        bad.append("the overflow `abort` was caught by catch_unwind (count now %d): a catchable panic, the process lives on with the count incremented" % obs["caught-panic"])
    if obs["cloned"] is not None:
        if start > ISIZE_MAX:
            bad.append("a clone from count %d > isize::MAX returned a new handle (count read through it: %d)" % (start, obs["cloned"]))
        if obs["cloned"] != start + 1:
            bad.append("count after the clone is %d, not start+1 = %d%s" % (
                obs["cloned"], start + 1, " (wrapped)" if obs["cloned"] < start else ""))
    if start > ISIZE_MAX and obs["status"] != "signal:%d" % SIGABRT:
        bad.append("start count %d > isize::MAX but the process was not terminated by SIGABRT (status %s)" % (start, obs["status"]))
    if start <= ISIZE_MAX and not (obs["status"] == "exit:0" and obs["cloned"] is not None):
        bad.append("start count %d <= isize::MAX but the clone did not succeed (status %s)" % (start, obs["status"]))
    return bad


def machinery_ok(start, obs):
    return obs["fresh"] == 1 and obs["preset"] == start and obs["rc"] not in (2, 4, 124)


def model_answers(drv, cases):
    q = "".join("clone %s %d %d\n" % (c, BITS, s) for c, _, s in cases) + "facts\n"
    rc, out, err = common.sh2([drv], stdin=q, timeout=120)
    lines = out.split("\n")
    if rc != 0 or len(lines) < len(cases) + 1:
        raise RuntimeError("drv_ovf failed rc=%d: %s %s" % (rc, out[-500:], err[-500:]))
    return lines[:len(cases)], lines[len(cases)]


def lean_failures(out):
    """[(theorem-or-example owner, line, first line of the message)] from a failed build of the module"""
    rel = MODULE.replace(".", "/") + ".lean"
    ths = common.theorems_in(MODULE)
    res = []
    for m in re.finditer(r"error: " + re.escape(rel) + r":(\d+):\d+: ([^\n]*(?:\n  [^\n]*)?)", out):
        ln = int(m.group(1))
        owner = None
        for name, l in ths:
            if l <= ln:
                owner = name
        res.append("%s (line %d; at or after theorem %s): %s" % (rel, ln, owner, " ".join(m.group(2).split())[:300]))
    return res


def describe(case, obs, model_line):
    c, e, s = case
    return ("config: %s   (triomphe features: %s)\nargv: ovf %s %d\nobserved status: %s\nobserved stdout: %s\nobserved stderr (tail): %s\n"
            "implementation (canonical): %s\nmodel drv_ovf `clone %s %d %d`: %s\n" % (
                c, ",".join(CONFIGS[c]), e, s, obs["status"], " | ".join(obs["stdout"]), obs["stderr_tail"].replace("\n", " / ")[-300:],
                canon_impl(obs), c, BITS, s, model_line))


DEMAND = ("the property demands: start <= isize::MAX (%d) => exit 0 and `cloned count=start+1`; start > isize::MAX => "
          "killed by SIGABRT, nothing printed after `preset`, never `caught-panic`\n" % ISIZE_MAX)


def build_all(ctx, release=False):
    bins = {}
    errs = {}

    def one(cfg):
        p, out = common.cargo_build_bin(ctx, "ovf", features=CONFIGS[cfg], release=release)
        if p is None:
            errs[cfg] = out
        bins[cfg] = p
    with ThreadPoolExecutor(max_workers=2) as ex:
        list(ex.map(one, sorted(CONFIGS)))
    if errs:
        cfg = sorted(errs)[0]
        common.harness_build_failed(ctx, "ovf", errs[cfg], features=CONFIGS[cfg], release=release, what="the overflow child-process harness")
        raise common.HarnessBuildChanged()
    return bins


def correspondence(ctx, cases, bins, drv, label=""):
    model_lines, facts_line = model_answers(drv, cases)
    with ThreadPoolExecutor(max_workers=min(16, (os.cpu_count() or 4))) as ex:
        obs = list(ex.map(lambda c: run_child(bins[c[0]], c[1], c[2]), cases))
    res = []
    for case, o, ml in zip(cases, obs, model_lines):
        if not machinery_ok(case[2], o):
            if o["rc"] in (2, 124) or o["fresh"] is None:
                raise RuntimeError("child did not reach the clone (the harness failed): %s %s" % (case, o))
            # the handle's OWN count accessor does not read the count word of its block (a fresh handle must report 1, and the
            # value stored into the first word of the block must be what the accessor reads back): the clone entry point works on
            # another word than the count — the guard cannot protect the count.  An observation, not a machinery failure.
            res.append({"case": case, "obs": o, "model": ml, "impl_c": "other count-accessor fresh=%s preset-readback=%s" % (o["fresh"], o["preset"]),
                        "model_c": canon_model(ml), "agree": False,
                        "monitor": ["through this entry point the count reads %s on a fresh handle and %s after the count word of the block was set to %d: "
                                    "the entry point does not work on the block's count word" % (o["fresh"], o["preset"], case[2])], "label": label})
            continue
        res.append({"case": case, "obs": o, "model": ml, "impl_c": canon_impl(o), "model_c": canon_model(ml),
                    "agree": canon_impl(o) == canon_model(ml), "monitor": monitor(case[2], o), "label": label})
    return res, facts_line


def run(ctx):
    ctx.assumptions = ASSUME
    facts = common.regen_facts(ctx)
    at = facts.get("atomics", {})
    ctx.coverage["generated_facts"] = {
        "consts": facts.get("consts"),
        "funnels": [(f.get("name"), f.get("ownAtomics"), f.get("reaches")) for f in at.get("funnels", [])],
        "fetch_add_sites": [s for s in at.get("sites", []) if s.get("kind") == "fetchAdd"],
        "unknownWrites": at.get("unknownWrites"),
    }
    ok, out = common.lean_obligations(ctx, MODULE, ["TriompheModel.Props.TraitCensus"])

    drv = common.lean_exe("drv_ovf")
    cases = gen_cases(ctx)
    bins = build_all(ctx)
    res, facts_line = correspondence(ctx, cases, bins, drv, "debug")
    # the release profile too, in both tiers: `cfg!(debug_assertions)`-dependent guards differ only there
    rbins = build_all(ctx, release=True)
    rcases = cases if ctx.thorough() else [c for c in cases if c[2] in STARTS]
    r2, _ = correspondence(ctx, rcases, rbins, drv, "release")
    res += r2
    ctx.coverage["model_facts"] = facts_line
    # hostile stderr: the abort must not depend on being able to print (a diagnostic printed before aborting can panic)
    hostile = []
    with ThreadPoolExecutor(max_workers=min(16, (os.cpu_count() or 4))) as ex:
        hc = [(cfg, e, s0, md) for cfg in sorted(CONFIGS) for e in ENTRIES for s0 in (ISIZE_MAX + 1, USIZE_MAX - 1, USIZE_MAX) for md in ("full", "closed")]
        hobs = list(ex.map(lambda c: run_child(bins[c[0]], c[1], c[2], c[3]), hc))
    for c, o in zip(hc, hobs):
        m = monitor(c[2], o)
        if m:
            hostile.append((c, o, m))
    ctx.oblige("faults:abort-with-unwritable-stderr", not hostile, "%d cases" % len(hostile))
    # two threads cloning at the limit: from isize::MAX two increments cannot both stay at or below the limit, so every
    # trial must end in SIGABRT (a guard that looks before it increments lets both through in some interleavings)
    ntr = 160 if not ctx.thorough() else 2000
    with ThreadPoolExecutor(max_workers=8) as ex:
        robs = list(ex.map(lambda i: run_child(bins["std" if i % 2 == 0 else "nostd"], "arc_race2", ISIZE_MAX), range(ntr)))
    racing = [(i, o) for i, o in enumerate(robs) if o["status"] != "signal:%d" % SIGABRT]
    ctx.oblige("schedule:two-racing-clones-at-the-limit-abort", not racing, "%d of %d trials survived" % (len(racing), ntr))
    ctx.coverage["racing_clone_trials"] = ntr
    if racing and not hostile:
        i, o = racing[0]
        hostile_body = ["C16 violated by a concrete child-process run (%d of %d trials): two threads each clone once from count isize::MAX = %d;" % (len(racing), ntr, ISIZE_MAX),
                        "the second increment is above the limit in every interleaving, so the process must be killed by SIGABRT.", "",
                        "config: %s   argv: ovf arc_race2 %d" % ("std" if i % 2 == 0 else "nostd", ISIZE_MAX), "observed status: %s" % o["status"],
                        "observed stdout: %s" % " | ".join(o["stdout"]), "", DEMAND, "replay by hand: run `<harness>/ovf arc_race2 %d` repeatedly" % ISIZE_MAX]
        ctx.violation("child", "\n".join(hostile_body), True)
        return
    ctx.coverage["hostile_stderr_cases"] = len(hc)

    for cfg in CONFIGS:
        sub = [r for r in res if r["case"][0] == cfg]
        ctx.oblige("corr:ovf-%s" % cfg, all(r["agree"] for r in sub),
                   "%d disagreements" % sum(1 for r in sub if not r["agree"]))
    viol = [r for r in res if r["monitor"]]
    ctx.oblige("monitor:no-wrap-no-catchable-abort", not viol, "%d cases" % len(viol))

    # ---- coverage -------------------------------------------------------------------------------
    by_out = {}
    for r in res:
        k = r["impl_c"].split()[0] + ("" if r["impl_c"].startswith("ok") else " " + r["impl_c"].split()[1])
        by_out[k] = by_out.get(k, 0) + 1
    distinct = {(r["label"],) + tuple(r["case"]) for r in res if r["obs"]["preset"] == r["case"][2]}
    ctx.coverage.update({
        "evaluations": len(res),
        "distinct_nontrivial": len(distinct),
        "rule": ("one child process per (profile, configuration, clone entry point, start count); the property's grid "
                 "(2 configurations x %d entry points x %d start counts) plus PRNG-drawn start counts (seed = VERIF_SEED); "
                 "non-trivial = the preset count was read back unchanged through the handle kind's own strong_count "
                 "and exactly one clone was then attempted; distinct = distinct (profile, cfg, entry, start)" % (len(ENTRIES), len(STARTS))),
        "grid_cases": 2 * len(ENTRIES) * len(STARTS),
        "random_cases": len(cases) - 2 * len(ENTRIES) * len(STARTS),
        "outcomes": by_out,
        "by_config": {c: sum(1 for r in res if r["case"][0] == c) for c in CONFIGS},
        "by_entry": {e: sum(1 for r in res if r["case"][1] == e) for e in ENTRIES},
        "above_limit_cases": sum(1 for r in res if r["case"][2] > ISIZE_MAX),
        "at_or_below_limit_cases": sum(1 for r in res if r["case"][2] <= ISIZE_MAX),
        "model_impl_disagreements": sum(1 for r in res if not r["agree"]),
        "exhaustive": False,
        "samples": [{"config": r["case"][0], "argv": ["ovf", r["case"][1], str(r["case"][2])], "status": r["obs"]["status"],
                     "stdout": r["obs"]["stdout"], "model": r["model"]}
                    for r in (res[5:7] + res[len(res) // 2: len(res) // 2 + 2] + res[-2:])],
    })

    # ---- verdict --------------------------------------------------------------------------------
    if hostile and not viol:
        c, o, m = hostile[0]
        body = ["C16 violated by a concrete child-process run with an UNWRITABLE stderr (%d of %d such runs):" % (len(hostile), len(hc)), "",
                "config: %s   argv: ovf %s %d   stderr: %s" % (c[0], c[1], c[2], "/dev/full (ENOSPC on every write)" if c[3] == "full" else "a pipe whose reader is gone (EPIPE)"),
                "observed status: %s" % o["status"], "observed stdout: %s" % " | ".join(o["stdout"]), "", "property clauses violated:"]
        body += ["  - " + x for x in m]
        body += ["", DEMAND, "replay by hand: <harness>/ovf %s %d 2>/dev/full ; echo $?" % (c[1], c[2])]
        ctx.violation("child", "\n".join(body), True)
        return
    if viol:
        # smallest failing input first: prefer std, then the smallest start count
        viol.sort(key=lambda r: (r["case"][0] != "std", r["case"][2], r["case"][1]))
        r = viol[0]
        body = ["C16 violated by a concrete child-process run (%d of %d runs violate the property; the first by (config, start):" % (len(viol), len(res)), ""]
        body.append(describe(r["case"], r["obs"], r["model"]))
        body.append("property clauses violated:")
        body += ["  - " + m for m in r["monitor"]]
        body.append("")
        body.append(DEMAND)
        body.append("all violating cases (config entry start -> observation):")
        body += ["  case: %s %s %d -> %s" % (x["case"][0], x["case"][1], x["case"][2], x["impl_c"]) for x in viol[:60]]
        if not ok:
            body.append("\nLean declarations of Props/C16.lean that no longer check at the regenerated facts:")
            body += ["  " + x for x in lean_failures(out)]
            body.append("model facts: " + facts_line)
        bad_corr = [n for n in ctx.failed_obligations() if n.startswith("corr:")]
        if bad_corr:
            body.append("model/implementation disagreements: " + ", ".join(bad_corr))
        body.append("\nreplay: /verif/bin/check C16 --replay <this file> [--repo %s]" % ctx.repo)
        ctx.violation("child", "\n".join(body), True)
    elif ctx.failed_obligations():
        body = ["Obligations of C16 that no longer check:"]
        body += ["  " + n for n in ctx.failed_obligations() if not n.startswith("lean:") or ok]
        if not ok:
            body.append("Lean declarations of Props/C16.lean that no longer check at the regenerated facts:")
            body += ["  " + x for x in lean_failures(out)]
        body.append("model facts: " + facts_line)
        dis = [r for r in res if not r["agree"]]
        if dis:
            body.append("\nfirst model/implementation disagreement:")
            body.append(describe(dis[0]["case"], dis[0]["obs"], dis[0]["model"]))
            body += ["  case: %s %s %d -> impl %s / model %s" % (x["case"][0], x["case"][1], x["case"][2], x["impl_c"], x["model_c"]) for x in dis[:40]]
        body.append("\nsearch: %d child-process runs (every entry point x the property's start counts x std/no_std + %d random start counts), "
                    "the property monitor held on every one of them" % (len(res), ctx.coverage["random_cases"]))
        body.append(DEMAND)
        if not ok:
            body.append("Lean output:\n" + out[-3000:])
        ctx.violation("theorem", "\n".join(body), False)


# ------------------------------------------------------------------------------------------------
def replay(ctx, path):
    """Re-run the child-process cases named in a replay file (`case: <cfg> <entry> <start>` lines, or the
    `config:` / `argv:` pair of the header) and evaluate the property monitor on them."""
    ctx.assumptions = ASSUME
    text = open(path).read()
    cases = []
    for m in re.finditer(r"^\s*case: (\w+) (\w+) (\d+)", text, re.M):
        c = (m.group(1), m.group(2), int(m.group(3)))
        if c[0] in CONFIGS and c[1] in ENTRIES and c not in cases:
            cases.append(c)
    m = re.search(r"^config: (\w+).*\nargv: ovf (\w+) (\d+)", text, re.M)
    if m and (m.group(1), m.group(2), int(m.group(3))) not in cases:
        cases.insert(0, (m.group(1), m.group(2), int(m.group(3))))
    if not cases:
        # a `theorem` replay: re-check the obligations
        ok, out = common.lean_obligations(ctx, MODULE)
        print("replay: no child case in %s; Lean obligations re-checked: %s" % (path, "ok" if ok else "FAILED"))
        if not ok:
            ctx.violation("theorem", "Lean obligations of C16 fail:\n" + out[-3000:], False, tag="r")
        ctx.coverage.update({"evaluations": 1, "distinct_nontrivial": 0, "rule": "replay of a theorem-kind file", "samples": [path]})
        return
    drv = common.lean_exe("drv_ovf")
    bins = build_all(ctx)
    res, _ = correspondence(ctx, cases, bins, drv, "replay")
    bad = [r for r in res if r["monitor"]]
    for r in res:
        print("replay %s %s %d: %s  [model: %s]  %s" % (r["case"][0], r["case"][1], r["case"][2], r["impl_c"], r["model_c"],
                                                       "VIOLATES: " + "; ".join(r["monitor"]) if r["monitor"] else "holds"))
    ctx.oblige("replay:monitor", not bad)
    ctx.coverage.update({"evaluations": len(res), "distinct_nontrivial": len({tuple(r["case"]) for r in res}),
                         "rule": "replayed child-process cases", "samples": [{"case": list(r["case"]), "impl": r["impl_c"]} for r in res[:5]]})
    if bad:
        r = bad[0]
        ctx.violation("child", describe(r["case"], r["obs"], r["model"]) + "\n".join("  - " + m for m in r["monitor"]) + "\n" + DEMAND +
                      "".join("  case: %s %s %d -> %s\n" % (x["case"][0], x["case"][1], x["case"][2], x["impl_c"]) for x in bad), True, tag="r")
