-- stub: replaced by the slice's driver
def main : IO Unit := IO.println "stub"
