import TriompheModel.Props.Gates
import TriompheModel.Model.Ops
/-!
# C09 — unwrapping conserves the value: handed out once or kept, never both or neither

History half (any memory, any handle): `try_unique` / `try_unwrap` / `into_inner` move the value or
sole ownership out exactly when the gate reads 1, without running the destructor and with exactly one
deallocation; otherwise the very same handle value comes back and memory is unchanged.
Schedule half: `WM.consume_excludes_destroy`, `WM.consume_unique`, `WM.consume_after_all_former_sharers`
at the gate facts of this run: under every schedule the value is moved out to at most one thread, and
then it is never destroyed; if nobody takes it, C02 says it is destroyed exactly once.
-/
open Facts WM Gates
namespace C09

theorem obl_gate_try_unique : gateOk "Arc::try_unique" = true := by decide
theorem obl_gate_try_unwrap : gateOk "Arc::try_unwrap" = true := by decide
theorem obl_gate_unwrap_or_clone : gateOk "Arc::unwrap_or_clone" = true := by decide
theorem obl_gate_try_from : gateOk "UniqueArc::try_from" = true := by decide
theorem obl_verdict_is_eq_one : Generated.isUniqueGuard = ⟨.eq, some 1⟩ := Gates.obl_verdict_is_eq_one
theorem obl_dec_release : Generated.decOrd.isRel = true := Gates.obl_dec_release

variable {X : CountExec} {fenceOrd : Option MemOrd}

/-- **C09 (schedules): at most one winner.**  Two threads whose unwrapping gates both succeeded on
the same allocation are the same handle. -/
theorem C09_one_winner (hc : Consistent X) (hp : Protocol X Generated.decOrd fenceOrd)
    (hrw : CoRW X) (hvb : ViaBorn X) {l₁ l₂ : X.A} {h₁ h₂ : H} {o₁ o₂ : MemOrd} {rf₁ rf₂ : Option Nat}
    (c₁ : Consume X l₁ h₁ o₁ rf₁) (c₂ : Consume X l₂ h₂ o₂ rf₂) : h₁ = h₂ :=
  consume_unique hc hp hrw hvb c₁ c₂

/-- **C09 (schedules): moved out ⇒ not destroyed.** -/
theorem C09_moved_out_never_destroyed (hc : Consistent X) (hp : Protocol X Generated.decOrd fenceOrd)
    (hrw : CoRW X) (hvb : ViaBorn X) {l : X.A} {h : H} {o : MemOrd} {rf : Option Nat}
    (c : Consume X l h o rf) : ¬ ∃ f k, X.kind f = .destroy k := by
  rintro ⟨f, k, hf⟩
  exact consume_excludes_destroy hc hp hrw hvb c hf

/-- **C09 (schedules): the move-out is ordered after every former sharer's accesses.** -/
theorem C09_after_all_former_sharers (hc : Consistent X) (hp : Protocol X Generated.decOrd fenceOrd)
    (hrw : CoRW X) (hvb : ViaBorn X) {l : X.A} {h : H} {o : MemOrd} {rf : Option Nat}
    (c : Consume X l h o rf) :
    ∀ (a : X.A) (h' : H), (X.kind a).via = some h' → h' ≠ h →
      (h' = 0 ∨ ∃ j, rf = some j ∧ h' ∈ kids (X.ops.take (j+1))) → X.hb (.oth a) (.oth l) :=
  consume_after_all_former_sharers hc hp hrw hvb obl_dec_release c

/-- non-vacuity: the concrete execution of `WM/ExampleConsume.lean` is a `Consume` and meets every
hypothesis of the general theorems (stated at that execution's own orderings, so that this example
does not depend on the generated facts) -/
example : ¬ ∃ f k, ExC.exX.kind f = .destroy k := by
  rintro ⟨f, k, hf⟩
  exact consume_excludes_destroy ExC.ex_consistent ExC.ex_protocol ExC.ex_corw ExC.ex_viaborn ExC.ex_consume hf

open M1

/-- **declined: the very same handle comes back, memory untouched** -/
theorem C09_shared_returns_same (m : Mem) (a : HV) (hu : Arc.is_unique m a = false) :
    Arc.try_unique m a = .error a ∧ Arc.try_unwrap m a = (m, .error a) := by
  simp [Arc.try_unique, Arc.try_unwrap, hu]

/-- **sole owner: the value is moved out — no destructor event, exactly one deallocation, the block
is dead** -/
theorem C09_sole_owner_moves_out (m : Mem) (a : HV) (k : Block) (hu : Arc.is_unique m a = true)
    (hk : m.blocks[a.blk]? = some k) :
    ∃ m' v, Arc.try_unwrap m a = (m', .ok v) ∧ v = (k.elems.head?).join ∧
      m'.log = m.log ++ [.dealloc a.blk (a.ty.releaseLayout (viewLen m { a with kind := .uniq })).size
                                  (a.ty.releaseLayout (viewLen m { a with kind := .uniq })).align] ∧
      (m'.blocks[a.blk]?).map (·.live) = some false := by
  have e : Arc.try_unwrap m a =
      ((m.upd a.blk fun k => { k with count := 0, live := false }).emit
        [.dealloc a.blk (a.ty.releaseLayout (viewLen m { a with kind := .uniq })).size
                        (a.ty.releaseLayout (viewLen m { a with kind := .uniq })).align],
       .ok (k.elems.head?).join) := by
    simp [Arc.try_unwrap, Arc.try_unique, hu, UniqueArc.into_inner, hk]
  refine ⟨_, _, e, rfl, ?_, ?_⟩
  · simp [Mem.emit, Mem.upd]
  · simp [Mem.emit, Mem.upd, List.getElem?_modify, hk]

end C09
