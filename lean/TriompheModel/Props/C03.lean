import TriompheModel.Props.C03Sched
import TriompheModel.Model.Ops
/-!
# C03 — mutable access only for a sole owner (history half) + schedule half (Props/C03Sched.lean)

For every gate op of the model: it grants exactly when the count word it loads is 1, and when it
declines the state — memory and every handle, including the caller's — is unchanged.  That "the
count word is 1" means "no other owning handle of any kind exists" is the invariant `M1.Inv`
(`count = owners`), see `C03_is_unique_iff` once Proofs/HistInv.lean is imported (Props/C01.lean).
-/
namespace M1
namespace C03H

/-- `is_unique` reads the count word and compares with 1 -/
theorem C03_is_unique_def (m : Mem) (a : HV) : Arc.is_unique m a = (loadCount m a.blk == 1) := rfl

/-- **`get_mut` declines ⇒ nothing changes** -/
theorem C03_get_mut_decline (s : State) (src v : Nat) (h : HV) (hs : lookup s src = some h)
    (hk : h.kind = .arc) (hi : h.ty.elemsInit = true) (hu : Arc.is_unique s.mem h = false) :
    step s (.getMut src v) = (s, ok "none") := by
  simp [step, hs, hk, hi, hu]

/-- **`get_mut` grants ⇒ only the contents of that block change** (slots untouched) -/
theorem C03_get_mut_grant (s : State) (src v : Nat) (h : HV) (hs : lookup s src = some h)
    (hk : h.kind = .arc) (hi : h.ty.elemsInit = true) (hu : Arc.is_unique s.mem h = true) :
    step s (.getMut src v) = (⟨writeVal s.mem h.blk v, s.slots⟩, ok "some") := by
  simp [step, hs, hk, hi, hu]

/-- **`get_unique`** likewise -/
theorem C03_get_unique_decline (s : State) (src v : Nat) (h : HV) (hs : lookup s src = some h)
    (hk : h.kind = .arc) (hi : h.ty.elemsInit = true) (hu : Arc.is_unique s.mem h = false) :
    step s (.getUnique src v) = (s, ok "none") := by
  simp [step, hs, hk, hi, Arc.try_unique, hu]

/-- **`try_unique` / `TryFrom` declines ⇒ the very same handle value stays in the slot** -/
theorem C03_try_unique_decline (s : State) (src : Nat) (h : HV) (hs : lookup s src = some h)
    (hk : h.kind = .arc) (hty : h.ty = .sized ∨ h.ty = .slice ∨ h.ty = .hs ∨ h.ty = .mu ∨ h.ty = .muSlice)
    (hu : Arc.is_unique s.mem h = false) :
    step s (.tryUnique src) = (s, ok "err") := by
  simp [step, hs, hk, hty, Arc.try_unique, hu]

/-- **`try_unwrap` declines ⇒ nothing changes** -/
theorem C03_try_unwrap_decline (s : State) (src : Nat) (h : HV) (hs : lookup s src = some h)
    (hk : h.kind = .arc) (hty : h.ty = .sized) (hu : Arc.is_unique s.mem h = false) :
    step s (.tryUnwrap src) = (s, ok "err") := by
  simp [step, hs, hk, hty, Arc.try_unwrap, Arc.try_unique, hu]

/-- **`ThinArc::with_arc_mut` ∘ `get_mut`** declines on a shared block without touching anything -/
theorem C03_thin_get_mut_decline (s : State) (src v : Nat) (t : HV) (acc : String)
    (hu : Arc.is_unique s.mem t = false) :
    runCb .thinWithArcMut src [.getMutWrite v] s t acc = (s, ok (acc ++ "mut=none;")) := by
  simp [runCb, hu]

end C03H
end M1
