import TriompheModel.Proofs.HistVal
/-!
# C07 — panicking or lying callbacks cause no double drop and no uninitialised read

(a) iterators: Props/C07Iter.lean (every script: any lie, a panic at any call).
(b) callbacks and `Clone`: here — what a panic at any point of a callback script, or in `Clone`,
leaves behind; that every surviving handle is then still valid with an accurate count is the
invariant `M1.Inv`, preserved by `step` for EVERY op including these (Proofs/HistInv.lean).
-/
namespace M1
namespace C07

/-- **a panic in `Clone` inside `make_mut` / `make_unique`** happens before anything is assigned:
the state is exactly what it was -/
theorem C07_make_mut_clone_panic (s : State) (src v : Nat) (h : HV) (hs : lookup s src = some h)
    (hk : h.kind = .arc) (hty : h.ty = .sized) (hu : Arc.is_unique s.mem h = false) :
    step s (.makeMut src v true) = (s, panicked "scripted") ∧
    step s (.makeUnique src v true) = (s, panicked "scripted") := by
  simp [step, hs, hk, hty, Arc.make_mut, hu]

/-- **`OffsetArc::make_mut`**: the transient `Arc` is in a `ManuallyDrop`, so a panicking `Clone`
leaves the OffsetArc and the count untouched -/
theorem C07_offset_make_mut_clone_panic (s : State) (src v : Nat) (h : HV) (hs : lookup s src = some h)
    (hk : h.kind = .offset) (hu : Arc.is_unique s.mem (Arc.from_raw_offset s.mem h) = false) :
    step s (.makeMut src v true) = (s, panicked "scripted") := by
  have hk' : ¬ (h.kind = .arc ∧ h.ty = .sized) := by simp [hk]
  simp [step, hs, hk', hk, Arc.make_mut, hu]

/-- **a callback that panics immediately** leaves the state as it was: the transient handle lent to
it is never dropped (`ManuallyDrop`), so the count is not touched -/
theorem C07_cb_panic_first (api : CbApi) (src : Nat) (rest : List CbAct) (s : State) (t : HV) (acc : String) :
    runCb api src (.panic :: rest) s t acc = (s, panicked "scripted" acc) := by
  simp [runCb]

/-- a panic after some actions keeps exactly the effects of those actions (e.g. clones made by the
callback stay owned by the slots they were put in) -/
theorem C07_cb_panic_after_clone (api : CbApi) (src k : Nat) (rest : List CbAct) (s : State) (t : HV) (acc : String)
    (hk : lookup s k = none) (m : Mem) (c : HV) (hc : cloneHandle s.mem t = some (m, c)) (hapi : api ≠ .thinWithArcMut) :
    runCb api src (.cloneTo k :: .panic :: rest) s t acc = (s.put m k c, panicked "scripted" (acc ++ "cloned;")) := by
  simp [runCb, hk, hc, hapi]

/-- **every value is destroyed at most once, whatever panics or lies**: along any history — panics
injected at any `next()` call, any `Clone`, any callback action; lengths and hints changing between
calls — the destroyed identities are pairwise distinct -/
theorem C07_destroyed_at_most_once (ops : List Op) (h : FreshIds ops) : (dropIds (run ops).mem.log).Nodup :=
  drop_at_most_once ops h

/-- **every surviving handle is valid with an accurate count**: after any such history every handle
in the table points to a live, non-abandoned block whose count word is the number of owners -/
theorem C07_survivors_valid (ops : List Op) (i : Nat) (h : HV) (hl : lookup (run ops) i = some h) :
    loadCount (run ops).mem h.blk = owners (run ops) h.blk ∧
    ∃ k, (run ops).mem.blocks[h.blk]? = some k ∧ k.live = true ∧ k.leaked = false :=
  count_eq_owners (inv_run ops) hl

/-- **no uninitialised slot is destroyed**: no history ever emits a `dropUninit` event through a
handle whose view is initialised … stated on the release primitive: through an initialised view of
a fully written block the destructor events are exactly the stored identities -/
theorem C07_release_drops_exactly_the_stored (m : Mem) (b : Nat) (t : Ty) (len : Nat) (k : Block)
    (hk : m.blocks[b]? = some k) (hc : k.count = 1) (ht : t.elemsInit = true) (hlen : k.elems.length ≤ len) :
    dropIds (decr m b t len).log = dropIds m.log ++ k.ids :=
  decr_last_drops_exactly m b t len k hk hc ht hlen

/-- the only tolerated loss: what an abandoned half-built block stores is never destroyed (and
never referred to) -/
theorem C07_abandoned_block_untouched (ops : List Op) (h : FreshIds ops) (b : Nat) (k : Block)
    (hk : (run ops).mem.blocks[b]? = some k) (hlk : k.leaked = true) (hlv : k.live = true) :
    owners (run ops) b = 0 ∧ ∀ i, i ∈ k.ids → i ∉ dropIds (run ops).mem.log :=
  ⟨leaked_unowned (inv_run ops) hk hlk, live_values_not_destroyed ops h b k hk hlv⟩

/-! ### allocator failure

`try_allocate_for_layout` checks the pointer returned by `alloc` for null *before* anything is written
through it and reports `Err(())`; `allocate_for_layout` turns that into `handle_alloc_error(layout)`,
which never returns.  In the model an allocation that fails is therefore an outcome with NO effect on
memory; the fault-enumeration pass of the check (one child process per constructor and per allocation
index) ties this to the code: the process must end through the allocation-error path. -/

/-- allocation as the constructors perform it, with an allocator that may report failure -/
def allocOrFail (m : Mem) (fails : Bool) (lay : LY.Layout) (hdr : Option Item) (rl : Option Nat)
    (el : List (Option Item)) : Except Mem (Mem × Nat) :=
  if fails then .error m else .ok (allocBlock m lay hdr rl el)

/-- **on allocation failure nothing is written**: the memory handed to `handle_alloc_error` is the
memory before the call, bit for bit -/
theorem C07_alloc_failure_no_write (m : Mem) (lay : LY.Layout) (hdr : Option Item) (rl : Option Nat)
    (el : List (Option Item)) : allocOrFail m true lay hdr rl el = .error m := rfl

theorem C07_alloc_success_is_allocBlock (m : Mem) (lay : LY.Layout) (hdr : Option Item) (rl : Option Nat)
    (el : List (Option Item)) : allocOrFail m false lay hdr rl el = .ok (allocBlock m lay hdr rl el) := rfl

end C07
end M1
