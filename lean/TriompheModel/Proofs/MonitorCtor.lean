import TriompheModel.Proofs.MonitorBase
/-!
# Soundness of the trace monitor, part 4: K11 (C06, constructors)

From `runCtor_eq` (every plain constructor, as one closed form) and `runIterCtor_spec` (every possible result of an
iterator-driven constructor, for EVERY script): a constructor op that does not panic appends ONE block, holding exactly
the header and the values handed in, logs one `alloc` event for it, and puts a handle on it into the empty slot `dst`.
-/
namespace M1
namespace Mon
open LY

/-! ## closing lemmas -/

theorem k11_none {pre : List (Nat × SlotObs)} {op : Op} {o : Obs} (h : ctorSpec op = none) : checkK11 pre op o = [] := by
  unfold checkK11; rw [h]

theorem k11_skip {pre : List (Nat × SlotObs)} {op : Op} {o : Obs} (h : o.badOp = true ∨ o.panicked = true) :
    checkK11 pre op o = [] := by
  unfold checkK11
  split
  · rfl
  · rcases h with h | h <;> simp [h]

theorem k11_of {pre : List (Nat × SlotObs)} {op : Op} {o : Obs} {dst : Nat} {d : Dig} {ids : List Nat} {q : SlotObs}
    (hop : ctorSpec op = some (dst, d, ids)) (hq : lookupO o.slots dst = some q)
    (hc : q.cnt.all (· == 1) = true) (h1 : ownersO o.slots q.blk = 1) (h0 : ownersO pre q.blk = 0)
    (hv : q.vals = some d) (hd : o.evs.countP (isDropOf ids) = 0) (ha : o.evs.countP isAllocEv = 1)
    (hb : o.evs.countP (isAllocOf q.blk) = 1) : checkK11 pre op o = [] := by
  unfold checkK11
  rw [hop]
  simp only
  split
  · rfl
  · split
    · rfl
    · simp [hq, hc, h1, h0, hv, hd, ha, hb]

/-! ## a fresh block, a handle on it put into an empty slot -/

theorem owners_fresh {s : State} (hi : Inv s) : owners s s.mem.blocks.length = 0 := by
  apply ownersL_eq_zero
  intro e he
  have := hi.inb e he
  omega

theorem K11_put {s : State} (hi : Inv s) {op : Op} {dst : Nat} {d : Dig} {ids : List Nat}
    (hop : ctorSpec op = some (dst, d, ids)) {k : Block} {hv : HV} {sz a nc : Nat}
    (hstep : step s op =
      (s.put ⟨s.mem.blocks ++ [k], s.mem.log ++ [.alloc s.mem.blocks.length sz a], nc⟩ dst hv, ok))
    (hk1 : k.count = 1) (hb : hv.blk = s.mem.blocks.length)
    (hdig : digObs ⟨s.mem.blocks ++ [k], s.mem.log ++ [.alloc s.mem.blocks.length sz a], nc⟩ hv = some d) :
    checkK11 (observeSlots s) op (observe s op) = [] := by
  generalize hm : (⟨s.mem.blocks ++ [k], s.mem.log ++ [.alloc s.mem.blocks.length sz a], nc⟩ : Mem) = m' at hstep hdig
  have hobs := observe_eq hstep
  have hslots : (observe s op).slots = observeSlots (s.put m' dst hv) := by rw [hobs]
  have hevs : (observe s op).evs = [.alloc s.mem.blocks.length sz a] := by
    rw [hobs]; simp [← hm, State.put]
  have hq : lookupO (observe s op).slots dst = some (slotObs m' hv) := by
    rw [hslots, lookupO_observe]
    show (lookupL ((dst, hv) :: s.slots) dst).map _ = _
    rw [lookupL_cons_self]; rfl
  have hload : loadCount m' hv.blk = 1 := by
    rw [hb, ← hm]; simp [loadCount, hk1]
  refine k11_of hop hq ?_ ?_ ?_ ?_ ?_ ?_ ?_
  · show (obsCnt m' hv).all (· == 1) = true
    unfold obsCnt
    split <;> simp [hload]
  · rw [hslots, ownersO_observe]
    show ownersL ((dst, hv) :: s.slots) hv.blk = 1
    rw [ownersL_cons, hb]
    have := owners_fresh hi
    rw [owners_eq] at this
    simp [this]
  · rw [ownersO_observe]
    show owners s hv.blk = 0
    rw [hb]; exact owners_fresh hi
  · exact hdig
  · rw [hevs]; rfl
  · rw [hevs]; rfl
  · rw [hevs]
    show List.countP (isAllocOf hv.blk) [Event.alloc s.mem.blocks.length sz a] = 1
    simp [isAllocOf, hb]

/-! ## what the fresh handle shows -/

theorem digObs_new (bs : List Block) (log : List Event) (nc : Nat) (k : Block) (hv : HV) (hb : hv.blk = bs.length) :
    digObs ⟨bs ++ [k], log, nc⟩ hv =
      some ⟨k.hdr, if hv.ty.elemsInit then some (k.elems.take (viewLen ⟨bs ++ [k], log, nc⟩ hv)) else none⟩ := by
  unfold digObs
  simp [hb]

theorem take_map_some (vs : List Item) : (vs.map some).take vs.length = vs.map some :=
  List.take_of_length_le (by simp)

theorem ctor_handle_blk (c : Ctor) (b : Nat) : (c.handle b).blk = b := by cases c <;> rfl

theorem ctor_dig (c : Ctor) (bs : List Block) (log : List Event) (nc : Nat) (cnt : Nat) (lv : Bool) (lay : Layout)
    (lk : Bool) :
    digObs ⟨bs ++ [⟨cnt, lv, lay, c.hdr, c.recLen, c.elems, lk⟩], log, nc⟩ (c.handle bs.length) = some (ctorDig c) := by
  rw [digObs_new _ _ _ _ _ (ctor_handle_blk c _)]
  cases c <;>
    simp [Ctor.handle, Ctor.hdr, Ctor.elems, Ctor.takesValues, Ctor.vals, ctorDig, Ty.elemsInit, viewLen,
      Ty.isSlicey, take_map_some]

theorem iter_dig (w : IterCtor) (h : Option Item) (items : List Item) (bs : List Block) (log : List Event) (nc : Nat)
    (cnt : Nat) (lv : Bool) (lay : Layout) (lk : Bool) :
    digObs ⟨bs ++ [⟨cnt, lv, lay, w.hdrOf h, w.recOf items.length, items.map some, lk⟩], log, nc⟩
      ⟨w.kind, w.ty, bs.length, 0, w.lenOf items.length⟩ = some ⟨iterHdr w h, some (items.map some)⟩ := by
  rw [digObs_new _ _ _ _ _ rfl]
  cases w <;>
    simp [IterCtor.hdrOf, IterCtor.recOf, IterCtor.kind, IterCtor.ty, IterCtor.lenOf, iterHdr, Ty.elemsInit, viewLen,
      Ty.isSlicey, take_map_some]

/-! ## K11 on the model -/

/-- **K11 (C06)** on every state that satisfies the count invariant -/
theorem K11_sound {s : State} (hi : Inv s) (op : Op) : checkK11 (observeSlots s) op (observe s op) = [] := by
  have hbad : ∀ {op : Op}, step s op = (s, badOp) → checkK11 (observeSlots s) op (observe s op) = [] := by
    intro op e
    apply k11_skip; left
    show isBadOpStatus (step s op).2.status = true
    rw [e]; exact isBadOp_badOp
  have hpan : ∀ {op : Op} {s' : State} {cls : String}, step s op = (s', panicked cls) →
      checkK11 (observeSlots s) op (observe s op) = [] := by
    intro op s' cls e
    apply k11_skip; right
    show isPanicStatus (step s op).2.status = true
    rw [e]; exact isPanic_panicked _ _
  cases op with
  | create dst c =>
    cases hd : lookup s dst with
    | some x => exact hbad (by simp [step, hd])
    | none =>
      cases hl : c.lay? with
      | none =>
        exact hpan (s' := s) (cls := "layout-overflow") (by simp [step, hd, runCtor_eq, hl])
      | some lay =>
        refine K11_put hi (k := ⟨1, true, lay, c.hdr, c.recLen, c.elems, false⟩) (hv := c.handle s.mem.blocks.length)
          (sz := lay.size) (a := lay.align) (nc := s.mem.nextClone) rfl ?_ rfl (ctor_handle_blk c _) (ctor_dig ..)
        simp [step, hd, runCtor_eq, hl]
  | iterCtor dst w h sc =>
    cases hd : lookup s dst with
    | some x => exact hbad (by simp [step, hd])
    | none =>
      have hs := runIterCtor_spec s.mem true w h sc
      have eb : ∀ m hv, runIterCtor s.mem true w h sc = .built m hv →
          step s (.iterCtor dst w h sc) = (s.put m dst hv, ok) := by
        intro m hv hr; simp [step, hd, hr]
      have ep : ∀ m cls, runIterCtor s.mem true w h sc = .panicked m cls →
          step s (.iterCtor dst w h sc) = (⟨m, s.slots⟩, panicked cls) := by
        intro m cls hr; simp [step, hd, hr]
      generalize hr : runIterCtor s.mem true w h sc = r at hs
      cases hs with
      | built lay hal =>
        exact K11_put hi rfl (eb _ _ hr) rfl rfl (iter_dig ..)
      | noBlock k cls => exact hpan (ep _ _ hr)
      | noAlloc n hal => exact hpan (ep _ _ hr)
      | thinMismatch lay n1 hw hn hal => exact hpan (ep _ _ hr)
      | leaked lay rl es k cls hes => exact hpan (ep _ _ hr)
  | _ => exact k11_none rfl

/-- K11 only counts events -/
theorem checkK11_withEvs (pre : List (Nat × SlotObs)) (op : Op) (o : Obs) (evs' : List Event)
    (h : evs'.Perm o.evs) : checkK11 pre op (o.withEvs evs') = checkK11 pre op o := by
  unfold checkK11 Obs.withEvs
  simp only [h.countP_eq]

end Mon
end M1
