"""C13 — thread-safety and borrow lifetimes are enforced by the type system.

Deciding method: Lean theorems of `Props/C13.lean` about the model M7 (`Model/AutoTraits.lean`: rustc's
auto-trait resolution + lifetime elision / signature-level outlives) instantiated at the tables the
translator /verif/extract_traits reads from <repo>/src on this run (Tie A).

Tie B with **rustc as the implementation**: a few hundred probe programs (/verif/probes/gen.py) are
compiled against the current crate; for every probe
    model prediction (drv_traits on the generated tables)  ==  rustc's verdict        (correspondence)
    rustc's verdict  ==  what the property statement demands (computed independently)  (monitor)
A probe on which the monitor fails is the failing input: a safe program that sends a !Send payload
across threads / lets a borrow escape and still compiles (or a sound use that is refused).
"""
import concurrent.futures
import hashlib
import json
import os
import random
import re
import shutil

from vlib import common
from vlib import traits_facts
from probes import gen as probegen

MODULE = "TriompheModel.Props.C13"
AUTO_CODES = {"E0277"}
BORROW_CODES = {"E0597", "E0505", "E0521", "E0515", "E0499", "E0502", "E0716", "E0506", "E0503", "E0373", "E0713", "E0310", "E0311"}
BORROW_MSGS = ("lifetime may not live long enough", "borrowed data escapes", "is not general enough")
FEATURES = "unsize,arc-swap"

ASSUME = [
    "M7 is a model of two rustc rules (auto-trait resolution over explicit impls / field structure; lifetime elision and the outlives relation a signature implies); that rustc implements exactly these rules is modelled, not verified - the rustc probes are the tie",
    "lifetime half is PARTIAL: M7 models elision + signature-level outlives, NOT the borrow checker; 'a borrow cannot escape' rests on: extracted signature satisfies the rule (theorem) + escape probes rejected by rustc (bounded search)",
    "auto-trait half is a complete decision over the extracted impls: by C13_class_abstraction_complete the extracted bound language (Send, Sync, ?Sized, Sized, T:'a) cannot distinguish two types of the same (send?, sync?, sized?) class, so the 8 classes (64 pairs) stand for all T",
    "T: 'a on an auto-trait impl is taken as implied by well-formedness of the self type K<'a, T> (hypothesis wfFor of the abstraction lemma)",
    "the translator /verif/extract_traits reports impl headers, struct fields and signatures faithfully (fails closed to unknown/other); macro-generated impls are not seen",
    "probes are compiled with the stable toolchain and features default+unsize+arc-swap and, for the drop-check probes, nightly + unstable_dropck_eyepatch (skipped with a note when the nightly toolchain cannot build the crate offline)",
]


# --------------------------------------------------------------------------------------------------
def repo_tag(repo):
    return "default" if repo == "/repo" else hashlib.sha1(repo.encode()).hexdigest()[:8]


def build_rlib(ctx, toolchain=None, features=FEATURES, suffix=""):
    """Build the crate once; returns (rlib, deps dir, rustc argv prefix)."""
    tag = repo_tag(ctx.repo) + suffix
    tdir = os.path.join(common.BUILD, "probe-target-" + tag)
    cargo = ["cargo"] + (["+" + toolchain] if toolchain else [])
    cmd = cargo + ["build", "--offline", "--manifest-path", os.path.join(ctx.repo, "Cargo.toml"), "--target-dir", tdir,
                   "--features", features]
    with common.Lock("cargo-probe-" + tag):
        rc, out = common.sh(cmd, timeout=900)
    if rc != 0:
        return None, None, out
    rlib = os.path.join(tdir, "debug", "libtriomphe.rlib")
    if not os.path.exists(rlib):
        return None, None, "no rlib produced:\n" + out
    return rlib, os.path.join(tdir, "debug", "deps"), out


def classify(rc, stderr):
    """rustc verdict: accept | reject-auto | reject-borrow | machinery, with the codes/messages seen."""
    codes, msgs = [], []
    for line in stderr.splitlines():
        line = line.strip()
        if not line.startswith("{"):
            continue
        try:
            d = json.loads(line)
        except ValueError:
            continue
        if d.get("level") != "error":
            continue
        m = d.get("message", "")
        if m.startswith("aborting due to"):
            continue
        code = (d.get("code") or {}).get("code")
        codes.append(code)
        msgs.append(("[%s] " % code if code else "") + m)
    if rc == 0 and not codes:
        return "accept", codes, msgs
    if rc == 0:
        return "machinery", codes, msgs
    if not codes:
        return "machinery", codes, msgs + ["rustc failed without a diagnostic: " + stderr[-300:]]
    auto = all(c in AUTO_CODES for c in codes)
    borrow = all((c in BORROW_CODES) or (c is None and any(b in m for b in BORROW_MSGS)) for c, m in zip(codes, msgs))
    if auto:
        return "reject-auto", codes, msgs
    if borrow:
        return "reject-borrow", codes, msgs
    return "machinery", codes, msgs


def compile_probe(p, rlib, deps, workdir, toolchain=None):
    src = os.path.join(workdir, p["id"] + ".rs")
    out = os.path.join(workdir, p["id"] + ".rmeta")
    open(src, "w").write(p["src"])
    rustc = ["rustc"] + (["+" + toolchain] if toolchain else [])
    cmd = rustc + ["--edition", "2021", "--crate-type", "bin", "--crate-name", "probe", "--emit=metadata", "--error-format=json",
                   "--cap-lints", "allow", "--extern", "triomphe=" + rlib, "-L", "dependency=" + deps]
    if "extern crate unsize" in p["src"]:
        # the safe front end of feature `unsize` (`CoerceUnsize::unsize`) lives in the `unsize` crate the library was built with
        import glob
        us = sorted(glob.glob(os.path.join(deps, "libunsize-*.rlib")))
        if us:
            cmd += ["--extern", "unsize=" + us[-1]]
    cmd += [src, "-o", out]
    rc, so, se = common.sh2(cmd, timeout=120)
    v, codes, msgs = classify(rc, se)
    return {"id": p["id"], "rustc": v, "codes": codes, "msgs": msgs[:4], "cmd": " ".join(cmd)}


def model_predictions(probes, drv):
    lines = []
    for p in probes:
        lines += p["queries"]
    if lines:
        rc, so, se = common.sh2([drv], stdin="\n".join(lines) + "\n", timeout=120)
        ans = so.splitlines()
        if rc != 0 or len(ans) != len(lines):
            raise RuntimeError("drv_traits: rc=%d, %d answers for %d queries\n%s" % (rc, len(ans), len(lines), se[-800:]))
    else:
        ans = []
    i = 0
    for p in probes:
        a = ans[i:i + len(p["queries"])]
        i += len(p["queries"])
        p["model_answers"] = a
        pr = p["predict"]
        if "const" in pr:
            p["model"] = pr["const"]
        elif "accept_if_all" in pr:
            p["model"] = "accept" if all(x in pr["accept_if_all"] for x in a) else "reject"
        else:
            p["model"] = "reject" if all(x in pr["reject_if_all"] for x in a) else "accept"
        if any(x.startswith("error:") or x == "missing" for x in a):
            p["model"] = "unknown(%s)" % ",".join(a)


def run_probes(ctx, probes, rlib, deps, drv, toolchain=None):
    model_predictions(probes, drv)
    workdir = os.path.join(common.BUILD, "probes-%s-%d" % (repo_tag(ctx.repo), os.getpid()))
    shutil.rmtree(workdir, ignore_errors=True)
    os.makedirs(workdir)
    try:
        with concurrent.futures.ThreadPoolExecutor(max_workers=min(16, (os.cpu_count() or 4))) as ex:
            res = list(ex.map(lambda p: compile_probe(p, rlib, deps, workdir, toolchain), probes))
    finally:
        shutil.rmtree(workdir, ignore_errors=True)
    for p, r in zip(probes, res):
        p.update(r)
        v = r["rustc"]
        p["verdict"] = "accept" if v == "accept" else ("reject" if v.startswith("reject") else "machinery")
        # rejected, but not for the reason this probe is about => the probe itself is broken
        if v.startswith("reject") and p["expect"] == "reject" and v != "reject-" + p["eclass"]:
            p["verdict"] = "machinery"
            p["msgs"] = ["rejected with the wrong error family (%s, wanted %s)" % (v, p["eclass"])] + p["msgs"]
    return probes


def select(probes, keys):
    keep, skipped = [], []
    for p in probes:
        missing = [k for k in p["needs"] if k not in keys]
        if missing:
            skipped.append({"id": p["id"], "missing": missing})
        else:
            keep.append(p)
    return keep, skipped


def facts_summary(facts):
    def b(ps):
        return {p["name"]: p["bounds"] for p in ps if p["kind"] == "type"}
    return {
        "autoImpls": ["%s:%d unsafe=%s impl %s for %s %s" % (i["file"], i["line"], i["unsafe"], i["trait"].capitalize(), i["selfTy"], json.dumps(b(i["params"])))
                      for i in facts["autoImpls"]],
        "structs": {s["name"]: [f["name"] + ": " + f["ty"] for f in s["fields"]] for s in facts["structs"]},
        "signatures": len(facts["sigs"]),
        "obligated_signatures": [s["key"] for s in facts["sigs"] if s["pub"] and (not s["unsafe"] or s.get("trait") == "CoerciblePtr" or s.get("trait_") == "CoerciblePtr")],
        "callbacks": [s["key"] for s in facts["sigs"] if s["callbacks"]],
        "translator_notes": facts.get("notes", []),
    }


HINTS = {
    "C13_ownership_markers": "a handle kind no longer mentions each type parameter in an OWNING field type (PhantomData<T>, T, Arc<T>). With the plain "
                             "`impl Drop` of the stable configuration rustc's drop check is conservative anyway, so no stable probe can show a difference; the "
                             "marker is what keeps `a handle cannot outlive data its payload borrows` true under `#[may_dangle]` (feature unstable_dropck_eyepatch).",
    "C13_borrow_markers": "ArcBorrow<'a, T> must carry PhantomData<&'a T> (ArcUnionBorrow: be an enum of ArcBorrow<'a, _>): that is what ties the view to 'a.",
    "C13_sigs_table": "a pub, safe, borrow-returning signature no longer ties every region of its return type to the receiver borrow / a Self lifetime.",
    "C13_callbacks_table": "a callback bound of a pub, safe function is no longer higher-ranked in the region of the reference it is handed.",
    "C13_bound_language_ok": "a Send/Sync impl has a shape outside the understood fragment (not `unsafe impl<P..> Tr for K<P..>`, foreign trait bound, 'static, where-predicate on a compound type, negative impl).",
    "C13_explicit_impls_only_on_handles": "a Send/Sync impl exists on a type that is not one of ArcInner, Arc, ThinArc, OffsetArc, ArcBorrow, ArcUnion, UniqueArc.",
    "C13_named_accessors_extracted": "one of the accessors the property names (Arc::deref, borrow_arc, get_mut, make_mut, ArcBorrow::get, ArcBorrow::deref) or every callback-taking function vanished from the extracted table.",
}


def hints_for(decls):
    out = []
    for k, v in HINTS.items():
        if any(k in d for d in decls):
            out.append("  %s: %s" % (k, v))
    return out


def lean_failing(out):
    """Props/C13.lean declarations in which Lean reports an error (this Lean prints `error: file:line:col: msg`)."""
    path = os.path.join(common.LEAN, MODULE.replace(".", "/") + ".lean")
    decls = []
    for i, line in enumerate(open(path).read().split("\n"), 1):
        m = re.match(r"^(theorem|example|def)\s*([A-Za-z_][\w'.]*)?", line)
        if m:
            decls.append((i, (m.group(1) + " " + (m.group(2) or "")).strip()))
    res = []
    for m in re.finditer(r"error: TriompheModel/Props/C13\.lean:(\d+):\d+: ([^\n]*(?:\n  [^\n]*)?)", out):
        ln = int(m.group(1))
        owner = "?"
        for l, name in decls:
            if l <= ln:
                owner = "%s (line %d)" % (name, l)
        res.append("%s: %s" % (owner, " ".join(m.group(2).split())[:260]))
    return res


def describe(p):
    lines = ["probe: %s   family: %s   triple: %s" % (p["id"], p["family"], " | ".join(p["triple"])),
             "property demands : %s" % p["expect"] + ("" if p["expect"] == "accept" else " (error family: %s)" % p["eclass"]),
             "rustc verdict    : %s %s" % (p["rustc"], [c for c in p["codes"] if c]),
             "model prediction : %s   (drv_traits: %s)" % (p["model"], "; ".join("%s -> %s" % qa for qa in zip(p["queries"], p.get("model_answers", []))) or "constant"),
             "rustc command    : " + p["cmd"]]
    for m in p["msgs"]:
        lines.append("  rustc: " + m)
    lines += ["--- program ---", p["src"].rstrip("\n"), "--- end program ---"]
    return "\n".join(lines)


def rank(p):
    fam = {"auto-concrete": 0, "escape-outer": 1, "escape-return": 1, "callback-return": 1, "arcborrow": 1, "auto-thread": 2}.get(p["family"], 3)
    return (fam, len(p["src"]), p["id"])


# --------------------------------------------------------------------------------------------------
def run(ctx):
    try:
        _run(ctx)
    finally:
        if ctx.repo != "/repo":
            # scratch copies are transient: do not let their build output pile up under .build
            for suf in ("", "-nightly"):
                shutil.rmtree(os.path.join(common.BUILD, "probe-target-" + repo_tag(ctx.repo) + suf), ignore_errors=True)


def _run(ctx):
    ctx.assumptions = ASSUME
    ctx.notes.append("lifetime half PARTIAL: M7 models lifetime elision + signature-level outlives, not the borrow checker; "
                     "auto-trait half is a complete decision over the extracted impls (class abstraction lemma)")
    facts = traits_facts.regen(ctx)
    ctx.coverage["generated_facts"] = facts_summary(facts)
    ok, out = common.lean_obligations(ctx, MODULE, ["TriompheModel.Props.ApiShape"])
    ctx.coverage["checker_cmd"] = ("extract_traits --repo <repo> --out Generated/ && cd /verif/lean && lake build TriompheModel.Props.C13 drv_traits "
                                   "&& lake env lean <#print axioms audit>; then rustc probes vs drv_traits")
    ctx.coverage["trusted_base"] = common.TRUSTED_BASE + [
        "translator /verif/extract_traits (syn): impl headers, struct fields, signatures; fails closed",
        "rustc (stable) as the implementation under test for the probe programs; its error codes classify rejections",
    ]

    # the model behind the line protocol: needs the tables to compile; if they do not, the Lean failure above says why
    drv = None
    try:
        drv = common.lean_exe("drv_traits")
    except RuntimeError as e:
        if ok:
            raise
        ctx.notes.append("drv_traits did not build (generated tables do not fit the model): " + str(e)[-400:])

    rlib, deps, cout = build_rlib(ctx)
    if rlib is None:
        raise RuntimeError("the crate at %s does not build (cargo build --offline --features %s):\n%s" % (ctx.repo, FEATURES, cout[-3000:]))

    keys = set(ctx.coverage["generated_facts"]["obligated_signatures"])
    rng = random.Random(ctx.seed)      # the one PRNG: which witness payload stands for each class in the quick tier
    probes, skipped = select(probegen.all_probes(thorough=ctx.thorough(), rng=rng), keys)
    if drv is None:
        for p in probes:
            p["queries"], p["predict"] = [], {"const": "unknown"}
        drv = "/bin/true"
    run_probes(ctx, probes, rlib, deps, drv)
    configs = ["stable/" + FEATURES]

    extra = []
    if True:   # both tiers: under `#[may_dangle]` the ownership marker is the only thing the drop check has
        extra = nightly_eyepatch(ctx, drv, keys)
        if extra:
            configs.append("nightly/unstable_dropck_eyepatch")
    allp = probes + extra

    failing, mach = judge(ctx, allp)

    searched = len(allp)
    if (ctx.failed_obligations() and not failing) and not ctx.thorough():
        # widen the search before giving up: the thorough probe set (more escape routes, more witnesses)
        more, _ = select(probegen.all_probes(thorough=True), keys)
        have = {p["id"] for p in allp}
        more = [p for p in more if p["id"] not in have]
        if drv == "/bin/true":
            for p in more:
                p["queries"], p["predict"] = [], {"const": "unknown"}
        run_probes(ctx, more, rlib, deps, drv)
        f2 = [p for p in more if p["verdict"] != "machinery" and p["strict"] and p["verdict"] != p["expect"]]
        failing += f2
        mach += [p for p in more if p["verdict"] == "machinery"]
        searched += len(more)
        allp += more
        ctx.coverage["search_probes"] = len(more)

    fill_coverage(ctx, allp, skipped, configs, mach)

    if failing:
        failing.sort(key=rank)
        first = failing[0]
        body = ["A safe client program on which rustc's verdict differs from what property C13 demands.",
                "(accepted although it must be rejected = a !Send/!Sync payload crosses threads or a borrow escapes, in safe code;",
                " rejected although it must be accepted = the handle is not Send/Sync for a payload that is.)", "",
                describe(first), ""]
        if not ok:
            body += ["Lean declarations of Props/C13.lean that fail at the regenerated tables:"] + ["  " + x for x in lean_failing(out)]
        rel = related_facts(facts, first)
        if rel:
            body += ["", "extracted facts this probe depends on:"] + ["  " + r for r in rel]
        if len(failing) > 1:
            body += ["", "%d further failing probes:" % (len(failing) - 1)]
            body += ["  %s: property demands %s, rustc %s, model %s" % (p["id"], p["expect"], p["rustc"], p["model"]) for p in failing[1:40]]
        if not ok:
            body += ["", "Lean output:", out[-2500:]]
        ctx.violation("probe", "\n".join(body), True)
    elif ctx.failed_obligations():
        body = ["Obligations of C13 that no longer check (Props/C13.lean at the regenerated tables, or model-vs-rustc correspondence):"]
        body += ["  " + n for n in ctx.failed_obligations() if not n.startswith("lean:")]
        if not ok:
            body += ["Lean declarations of Props/C13.lean that fail at the regenerated tables:"] + ["  " + x for x in lean_failing(out)]
            ctx.coverage["lean_failing_declarations"] = lean_failing(out)
            hs = hints_for(lean_failing(out))
            if hs:
                body += ["what these obligations mean:"] + hs
        body += ["", "search: %d probe programs compiled against the current crate (%s); on every one rustc's verdict equals what the property demands," % (
            searched, ", ".join(configs)),
            "so no program exhibiting a !Send payload crossing threads / an escaping borrow was found."]
        dis = [p for p in allp if p["verdict"] != "machinery" and p["model"] != p["verdict"]]
        if dis:
            body += ["", "probes on which the MODEL's prediction differs from rustc (the model, not the code, is what disagrees):"]
            body += ["  %s: model %s (%s), rustc %s" % (p["id"], p["model"], ",".join(p.get("model_answers", [])), p["rustc"]) for p in dis[:20]]
        body += ["", "generated facts: " + json.dumps(ctx.coverage["generated_facts"]["autoImpls"], indent=1)]
        if not ok:
            body += ["", "Lean output:", out[-3500:]]
        ctx.violation("theorem", "\n".join(body), False)
    elif mach:
        raise RuntimeError("%d probe(s) failed for reasons unrelated to the property (wrong error family / API mismatch): %s" % (
            len(mach), "; ".join("%s: %s" % (p["id"], (p["msgs"] or ["?"])[0][:160]) for p in mach[:8])))


def judge(ctx, probes):
    mach = [p for p in probes if p["verdict"] == "machinery"]
    live = [p for p in probes if p["verdict"] != "machinery"]
    disagree = [p for p in live if p["model"] != p["verdict"]]
    failing = [p for p in live if p["strict"] and p["verdict"] != p["expect"]]
    soft = [p for p in live if not p["strict"] and p["verdict"] != p["expect"]]
    fams = sorted({p["family"] for p in probes})
    for f in fams:
        ctx.oblige("corr:model-vs-rustc:" + f, not [p for p in disagree if p["family"] == f],
                   "; ".join("%s model=%s rustc=%s" % (p["id"], p["model"], p["rustc"]) for p in disagree if p["family"] == f)[:600])
    ctx.oblige("monitor:rustc-vs-property", not failing,
               "; ".join("%s demands=%s rustc=%s" % (p["id"], p["expect"], p["rustc"]) for p in failing)[:600])
    for p in soft:
        ctx.notes.append("API-shape control %s: expected %s, rustc %s (not a soundness statement)" % (p["id"], p["expect"], p["rustc"]))
    for p in mach:
        ctx.notes.append("probe machinery failure %s: %s" % (p["id"], "; ".join(p["msgs"])[:300]))
    return failing, mach


def nightly_eyepatch(ctx, drv, keys):
    """thorough: the drop-check probes again with `#[may_dangle]` in force (nightly + unstable_dropck_eyepatch),
    where the PhantomData<T> ownership marker is what makes the drop check reject a dangling payload."""
    rc, out = common.sh(["rustc", "+nightly", "--version"], timeout=60)
    if rc != 0:
        ctx.notes.append("nightly toolchain not available: eyepatch configuration skipped")
        return []
    class _C:
        repo = ctx.repo
    rlib, deps, cout = build_rlib(_C, toolchain="nightly", features=FEATURES + ",unstable_dropck_eyepatch", suffix="-nightly")
    if rlib is None:
        ctx.notes.append("nightly build of the crate with unstable_dropck_eyepatch failed (tooling, not a finding): " + cout[-300:])
        return []
    ps = probegen.payload_probes(True, eyepatch=True)
    for p in ps:
        p["id"] = "nightly-" + p["id"]
        p["family"] = "nightly-" + p["family"]
    ps, _ = select(ps, keys)
    run_probes(ctx, ps, rlib, deps, drv, toolchain="nightly")
    return ps


def related_facts(facts, p):
    out = []
    kind = p["triple"][0]
    for i in facts["autoImpls"]:
        if i["selfTy"] == kind and p["eclass"] == "auto":
            out.append("%s:%d  impl %s for %s  bounds %s  whereOther %s" % (
                i["file"], i["line"], i["trait"], i["selfTy"],
                {q["name"]: q["bounds"] for q in i["params"] if q["kind"] == "type"}, i["whereOther"]))
    keys = [q.split(" ", 1)[1] for q in p["queries"] if q.split(" ")[0] in ("region", "hr", "tie")]
    for s in facts["sigs"]:
        if s["key"] in keys:
            out.append("%s:%d  %s  recv=%s(%s) fnLts=%s selfLts=%s out=%s %s callbacks=%s" % (
                s["file"], s["line"], s["key"], s["recv"], s["recvRegion"], s["fnLts"], s["selfLts"], s["outShape"],
                [o["region"] for o in s["outRegions"]],
                [(c["param"], c["forLts"], [o["region"] for o in c["argRegions"]]) for c in s["callbacks"]]))
    return out


def fill_coverage(ctx, probes, skipped, configs, mach):
    live = [p for p in probes if p["verdict"] != "machinery"]
    good = [p for p in live if p["verdict"] == p["expect"]]
    triples = {tuple(p["triple"]) for p in good}
    fam = {}
    for p in probes:
        d = fam.setdefault(p["family"], {"programs": 0, "accepted": 0, "rejected": 0, "machinery": 0})
        d["programs"] += 1
        d["accepted" if p["verdict"] == "accept" else ("rejected" if p["verdict"] == "reject" else "machinery")] += 1
    codes = {}
    for p in live:
        for c in p["codes"]:
            codes[c or "no-code(lifetime)"] = codes.get(c or "no-code(lifetime)", 0) + 1
    want = ["auto-Arc-send-sn-w", "esc-outer-Arc-borrow_arc", "cb-outer-ThinArc-with_arc_mut", "payload-drop-Arc-droppy", "ctl-ab-get-outlives-borrow"]
    samples = []
    for p in probes:
        if any(p["id"] == w or (w.endswith("-w") and p["id"].startswith(w)) for w in want) and len(samples) < 8:
            samples.append({"id": p["id"], "triple": list(p["triple"]), "property_demands": p["expect"], "rustc": p["rustc"],
                            "codes": [c for c in p["codes"] if c], "model": p["model"], "model_queries": p["queries"],
                            "model_answers": p.get("model_answers", []), "program": p["src"][len(probegen.PRELUDE):]})
    ctx.coverage.update({
        "programs": len(probes),
        "evaluations": len(live),
        "distinct_nontrivial": len(triples),
        "rule": ("one evaluation = one probe program compiled by rustc against the current crate and compared with (a) the model's prediction and "
                 "(b) the property's demand; distinct = distinct (handle kind, payload class or accessor, route) triples among probes that were "
                 "accepted-as-demanded or rejected-as-demanded with the demanded error family (E0277 for auto traits; E0597/E0505/E0521/E0515/E0499/E0502/E0716 "
                 "or the code-less lifetime errors for borrows); machinery failures are excluded"),
        "samples": samples,
        "per_family": fam,
        "accepted_as_demanded": sum(1 for p in good if p["expect"] == "accept"),
        "rejected_as_demanded": sum(1 for p in good if p["expect"] == "reject"),
        "error_codes": codes,
        "model_queries": sum(len(p["queries"]) for p in probes),
        "configs": configs,
        "skipped_probes": skipped,
        "probe_machinery_failures": [{"id": p["id"], "msgs": p["msgs"]} for p in mach],
        "prelude": probegen.PRELUDE,
    })


# --------------------------------------------------------------------------------------------------
def replay(ctx, path):
    """Re-run a `probe` replay: compile the recorded program against ctx.repo and compare with the demand."""
    text = open(path).read()
    m = re.search(r"--- program ---\n(.*?)\n--- end program ---", text, re.S)
    d = re.search(r"^property demands : (accept|reject)(?: \(error family: (\w+)\))?", text, re.M)
    if not m or not d:
        print("replay file names no program (a `theorem` replay): re-running the full check instead")
        return run(ctx)
    nightly = "rustc +nightly" in text
    if nightly:
        rlib, deps, cout = build_rlib(ctx, toolchain="nightly", features=FEATURES + ",unstable_dropck_eyepatch", suffix="-nightly")
    else:
        rlib, deps, cout = build_rlib(ctx)
    if rlib is None:
        raise RuntimeError("the crate at %s does not build:\n%s" % (ctx.repo, cout[-2000:]))
    p = {"id": "replay", "family": "replay", "src": m.group(1) + "\n", "expect": d.group(1), "eclass": d.group(2) or "auto",
         "queries": [], "predict": {"const": d.group(1)}, "triple": ("replay", os.path.basename(path), "replay"), "needs": [], "strict": True}
    run_probes(ctx, [p], rlib, deps, "/bin/true", toolchain="nightly" if nightly else None)
    ctx.coverage.update({"programs": 1, "evaluations": 1, "distinct_nontrivial": 1, "rule": "replay of one probe program",
                         "samples": [{"rustc": p["rustc"], "codes": p["codes"], "property_demands": p["expect"]}]})
    print("replay: property demands %s, rustc says %s %s" % (p["expect"], p["rustc"], [c for c in p["codes"] if c]))
    if p["verdict"] == "machinery":
        raise RuntimeError("replay program fails for an unrelated reason: %s" % p["msgs"])
    ctx.oblige("monitor:replay", p["verdict"] == p["expect"])
    if p["verdict"] != p["expect"]:
        ctx.violation("probe", "replay of %s still fails\n\n%s" % (path, describe(p)), True)
