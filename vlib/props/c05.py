"""C05 — each block fits its contents and is freed once with the layout it was requested with.

Deciding method: Lean theorems of `Props/C05.lean` over the executable layout model M2
(`Model/Layout.lean`): request side = release side for every header/element layout, length and
word width; fits / aligned / overflow refused.  Tie B: the model (`drv_layout`) against the real
crate (harness binary `layout`, tracking allocator) on the 49-shape size/alignment matrix x
constructors x release paths, plus near-overflow lengths in child processes.  The property
itself is evaluated on the crate's own observations (alloc layout == dealloc layout, fits,
aligned, refused-before-allocating) to produce the failing input.
"""
from vlib import layout_corr

MODULE = "TriompheModel.Props.C05"
ASSUME = [
    "M2 transcribes core::alloc::Layout (from_size_align, extend, pad_to_align, array) and the repr(C) struct layout rule; "
    "the transcription is cross-checked numerically against core on random and boundary inputs (ext/arr queries), not derived from core's source",
    "the release side is modelled as Layout::for_value of the (fat) ArcInner pointer = repr(C) type layout; rustc's layout of "
    "repr(C) structs and of dyn vtables is trusted",
    "the global allocator returns blocks aligned as requested (observed: base % align = 0 in every case)",
    "the harness runs on a 64-bit target; 16/32-bit widths are covered by the theorems only",
    "'freed exactly once with the request layout along every history' is Props/C05Hist.lean over the history model M1 (LenInv, LayInv, LogInv), tied by the history pass of this check",
]


DP_PATHS = ["arc", "clone_last", "raw", "unique", "offset", "union1", "union2", "dyn", "hs", "slice", "thin"]


UNINIT_DP_PATHS = ["hsu_drop", "hsu_init", "mu_drop", "mu_init", "mus_drop", "mus_init", "mu3_drop"]


def drop_panic_pass(ctx, prop="C05", paths=None):
    """the last handle is released while a payload destructor panics: through every handle kind the
    block must still go back to the allocator exactly once with its request layout (in the model the
    release emits the dealloc event unconditionally: `C01_destructor_with_release` / `decr_log`)."""
    import subprocess
    from vlib import common
    exe, out = common.cargo_build_bin(ctx, "uninit")
    if exe is None:
        return
    lines = ["dp %s %s" % (p, w) for p in (paths or DP_PATHS) for w in ("none", "hdr", "el")]
    pr = subprocess.run([exe], input="\n".join(lines) + "\n", capture_output=True, text=True, timeout=120)
    outs = pr.stdout.split("\n")
    bad = []
    for k, ln in enumerate(lines):
        o = dict(x.split("=", 1) for x in (outs[k].split() if k < len(outs) and outs[k] else ["st=missing"]))
        _, path, which = ln.split()
        has_hdr = path in ("hs", "thin", "hsu_drop", "hsu_init")
        n_el = 3 if path in ("hs", "slice", "thin", "hsu_init") else (0 if path in ("hsu_drop", "mu_drop", "mus_drop", "mu3_drop") else 1)
        want_st = "panic" if (which == "el" and n_el > 0) or (which == "hdr" and has_hdr) else "ok"
        why = []
        if o.get("st") != want_st:
            why.append("status %s, expected %s" % (o.get("st"), want_st))
        if o.get("never_freed") != "0":
            why.append("the block was never returned to the allocator")
        if o.get("freed_twice") != "0":
            why.append("a block was freed twice")
        if o.get("wrong_layout") != "0":
            why.append("freed with a layout different from the requested one")
        if o.get("edrop") != str(n_el) or o.get("hdrop") != ("1" if has_hdr else "0"):
            why.append("destructor runs: header %s, elements %s (expected %d / %d)" % (o.get("hdrop"), o.get("edrop"), 1 if has_hdr else 0, n_el))
        if why:
            bad.append((ln, outs[k] if k < len(outs) else "", why))
    if pr.returncode != 0:
        bad.append(("(whole sweep)", "exit status %s" % pr.returncode, ["the harness process died: " + pr.stderr[-300:]]))
    ctx.oblige("faults:release-with-panicking-destructor", not bad, "%d failing" % len(bad))
    ctx.coverage["destructor_panic_sweep"] = {"cases": len(lines), "failures": len(bad), "sample": {"case": lines[len(lines) // 2], "impl": outs[len(lines) // 2] if len(outs) > len(lines) // 2 else ""}}
    ctx.coverage["evaluations"] = ctx.coverage.get("evaluations", 0) + len(lines)
    if bad:
        body = ["last handle released while a payload destructor panics (caught by catch_unwind); the tracking allocator's view:", ""]
        for (ln, o, why) in bad[:6]:
            body += ["case : " + ln, "  impl : " + o, "  PROPERTY %s FAILS: " % prop + "; ".join(why), ""]
        ctx.violation("ops", "\n".join(body), True)


def run(ctx):
    layout_corr.run_property(ctx, "C05", MODULE, ASSUME,
                             extra_modules=["TriompheModel.Props.C05Hist", "TriompheModel.Proofs.HistLen", "TriompheModel.Props.ApiShape"])
    # history clause: every dealloc event carries the layout of the block's alloc event, along
    # histories over every handle kind / conversion path (theorem C05_dealloc_layout_invariant);
    # the correspondence compares allocator events of the real crate with the model's
    from vlib import histcheck
    histcheck.run(ctx, MODULE, dict(create=22, iter=10, conv=22, drop=16, clone=10, intoThin=5, tryUnwrap=4, intoInner=3, cb=6),
                  ["C05"], lean=False, cov_key="history_pass", n_quick=150)
    drop_panic_pass(ctx)


def replay(ctx, path):
    layout_corr.replay(ctx, "C05", path)
