import TriompheModel.WM.Consume
import TriompheModel.WM.Later
import TriompheModel.WM.RelSeq
/-!
# Finite executions of M4 and a proved-sound Boolean checker

The hand-made executions of `WM/Example*.lean` each need ~180 lines of case analysis to establish
`Consistent` / `Protocol` / `CoRW` / `ViaBorn` / `Consume`.  This file replaces the method: a
*finite* execution is a first-order value `FinExec` (event type `Fin n`, happens-before a finite list
of pairs), every hypothesis of the M4 theorems has a Boolean checker that quantifies over finite
ranges only, and each checker is proved sound (`check… = true → …`).  A concrete execution is then
discharged by `checkConsistent_sound (by decide)`.

`closure` (fuel-bounded transitive closure) is an unverified convenience: the checker re-validates
transitivity, so nothing has to be proved about it.
-/
open Facts
namespace WM

namespace FinInst
deriving instance DecidableEq for Ev
deriving instance DecidableEq for AKind
end FinInst

/-! ## bounded quantifiers that the kernel evaluates quickly -/

/-- `p i` for every `i < n` -/
def allNat : Nat → (Nat → Bool) → Bool
  | 0, _ => true
  | n+1, p => p n && allNat n p

theorem allNat_sound {n : Nat} {p : Nat → Bool} (h : allNat n p = true) : ∀ i, i < n → p i = true := by
  induction n with
  | zero => intro i hi; omega
  | succ n ih =>
    simp only [allNat, Bool.and_eq_true] at h
    intro i hi
    by_cases e : i = n
    · subst e; exact h.1
    · exact ih h.2 i (by omega)

/-- `p a` for every `a : Fin n` -/
def allFin : (n : Nat) → (Fin n → Bool) → Bool
  | 0, _ => true
  | n+1, p => p ⟨n, Nat.lt_succ_self n⟩ && allFin n (fun i => p ⟨i.1, Nat.lt_succ_of_lt i.2⟩)

theorem allFin_sound : ∀ {n : Nat} {p : Fin n → Bool}, allFin n p = true → ∀ i, p i = true
  | 0, _, _, i => i.elim0
  | n+1, p, h, ⟨i, hi⟩ => by
    simp only [allFin, Bool.and_eq_true] at h
    by_cases e : i = n
    · subst e; exact h.1
    · exact allFin_sound h.2 ⟨i, by omega⟩

/-- `p a` for some `a : Fin n` -/
def anyFin : (n : Nat) → (Fin n → Bool) → Bool
  | 0, _ => false
  | n+1, p => p ⟨n, Nat.lt_succ_self n⟩ || anyFin n (fun i => p ⟨i.1, Nat.lt_succ_of_lt i.2⟩)

theorem anyFin_sound : ∀ {n : Nat} {p : Fin n → Bool}, anyFin n p = true → ∃ i, p i = true
  | 0, _, h => by simp [anyFin] at h
  | n+1, p, h => by
    simp only [anyFin, Bool.or_eq_true] at h
    rcases h with h | h
    · exact ⟨_, h⟩
    · obtain ⟨i, hi⟩ := anyFin_sound h
      exact ⟨_, hi⟩

/-- the RMWs with their position in modification order -/
def indexed : List Op → Nat → List (Nat × Op)
  | [], _ => []
  | o :: r, k => (k, o) :: indexed r (k+1)

theorem mem_indexed : ∀ {l : List Op} {k i : Nat} {o : Op}, l[i]? = some o → (k + i, o) ∈ indexed l k
  | [], _, _, _, h => by simp at h
  | x :: r, k, 0, o, h => by
    simp at h; subst h; simp [indexed]
  | x :: r, k, i+1, o, h => by
    simp at h
    have := mem_indexed (k := k+1) h
    simp only [indexed, List.mem_cons]
    right
    have e : k + (i + 1) = k + 1 + i := by omega
    rw [e]; exact this

theorem of_mem_indexed : ∀ {l : List Op} {k m : Nat} {o : Op}, (m, o) ∈ indexed l k → ∃ i, m = k + i ∧ l[i]? = some o
  | [], _, _, _, h => by simp [indexed] at h
  | x :: r, k, m, o, h => by
    simp only [indexed, List.mem_cons, Prod.mk.injEq] at h
    rcases h with ⟨rfl, rfl⟩ | h
    · exact ⟨0, rfl, rfl⟩
    · obtain ⟨i, rfl, hi⟩ := of_mem_indexed h
      exact ⟨i + 1, by omega, by simpa using hi⟩

/-- `p i o` for every RMW `o` at position `i` -/
def allOps (ops : List Op) (p : Nat → Op → Bool) : Bool := (indexed ops 0).all fun io => p io.1 io.2
/-- `p i o` for some RMW `o` at position `i` -/
def anyOps (ops : List Op) (p : Nat → Op → Bool) : Bool := (indexed ops 0).any fun io => p io.1 io.2

theorem allOps_sound {ops : List Op} {p : Nat → Op → Bool} (h : allOps ops p = true)
    {i : Nat} {o : Op} (hi : ops[i]? = some o) : p i o = true := by
  have := List.all_eq_true.1 h _ (mem_indexed (k := 0) hi)
  simpa using this

theorem anyOps_sound {ops : List Op} {p : Nat → Op → Bool} (h : anyOps ops p = true) :
    ∃ i o, ops[i]? = some o ∧ p i o = true := by
  obtain ⟨⟨m, o⟩, hm, hp⟩ := List.any_eq_true.1 h
  obtain ⟨i, rfl, hi⟩ := of_mem_indexed hm
  exact ⟨i, o, hi, by simpa using hp⟩

/-! ## finite executions -/

/-- equality test on events, evaluated with `Nat.beq` (fast in the kernel) -/
def evBeq {n : Nat} : Ev (Fin n) → Ev (Fin n) → Bool
  | .rmw i, .rmw j => Nat.beq i j
  | .oth a, .oth b => Nat.beq a.val b.val
  | _, _ => false

theorem nbeq_false {a b : Nat} : (Nat.beq a b = false) = (a ≠ b) := by
  apply propext
  constructor
  · intro h e; subst e; rw [Nat.beq_refl] at h; cases h
  · intro h
    cases hb : Nat.beq a b with
    | false => rfl
    | true => exact absurd (Nat.eq_of_beq_eq_true hb) h

theorem evBeq_iff {n : Nat} {x y : Ev (Fin n)} : evBeq x y = true ↔ x = y := by
  cases x <;> cases y <;> simp [evBeq, Nat.beq_eq, Fin.ext_iff]

/-- i-th element, with a default beyond the list -/
def nthD {α : Type} (d : α) : List α → Nat → α
  | [], _ => d
  | x :: _, 0 => x
  | _ :: r, i+1 => nthD d r i

/-! ### forcing: `forcePairs l k = k l`, but a call-by-name evaluator (the kernel) evaluates `l` — spine
and events — once, before `k` duplicates it -/

def forceEv {n : Nat} {β : Type} : Ev (Fin n) → (Ev (Fin n) → β) → β
  | .rmw i, k => k (.rmw i)
  | .oth ⟨a, h⟩, k => k (.oth ⟨a, h⟩)

theorem forceEv_eq {n : Nat} {β : Type} (x : Ev (Fin n)) (k : Ev (Fin n) → β) : forceEv x k = k x := by
  cases x <;> rfl

def forcePairs {n : Nat} {β : Type} :
    List (Ev (Fin n) × Ev (Fin n)) → (List (Ev (Fin n) × Ev (Fin n)) → β) → β
  | [], k => k []
  | (x, y) :: xs, k => forceEv x fun x' => forceEv y fun y' => forcePairs xs (fun ys => k ((x', y') :: ys))

theorem forcePairs_eq {n : Nat} {β : Type} :
    ∀ (l : List (Ev (Fin n) × Ev (Fin n))) (k : List (Ev (Fin n) × Ev (Fin n)) → β), forcePairs l k = k l
  | [], _ => rfl
  | (x, y) :: xs, k => by
    simp only [forcePairs, forceEv_eq]
    exact forcePairs_eq xs _

structure FinExec where
  /-- number of non-RMW events; the event type is `Fin n` -/
  n : Nat
  /-- the RMWs on the count, in modification order -/
  ops : List Op
  /-- ordering of the i-th RMW (`.relaxed` beyond the list) -/
  ords : List MemOrd
  /-- kind of event `a` is `kinds[a]` (`.access 0` beyond the list; `checkConsistent` requires `kinds.length = n`) -/
  kinds : List AKind
  /-- happens-before as a finite relation -/
  pairs : List (Ev (Fin n) × Ev (Fin n))

namespace FinExec

def ordR (F : FinExec) (i : Nat) : MemOrd := nthD .relaxed F.ords i
def kind (F : FinExec) (a : Fin F.n) : AKind := nthD (.access 0) F.kinds a.val

def toExec (F : FinExec) : CountExec where
  A := Fin F.n
  ops := F.ops
  ordR := F.ordR
  kind := F.kind
  hb := fun x y => (x, y) ∈ F.pairs

/-- Boolean happens-before -/
def hbB (F : FinExec) (x y : Ev (Fin F.n)) : Bool := F.pairs.any fun p => evBeq p.1 x && evBeq p.2 y

theorem hbB_iff {F : FinExec} {x y : Ev (Fin F.n)} : F.hbB x y = true ↔ (x, y) ∈ F.pairs := by
  simp only [hbB, List.any_eq_true, Bool.and_eq_true, evBeq_iff]
  constructor
  · rintro ⟨⟨a, b⟩, hm, rfl, rfl⟩; exact hm
  · intro h; exact ⟨(x, y), h, rfl, rfl⟩

theorem hb_of_hbB {F : FinExec} {x y : Ev (Fin F.n)} (h : F.hbB x y = true) : F.toExec.hb x y := hbB_iff.1 h

/-! ### `Consistent` -/

def chkTrans (F : FinExec) : Bool :=
  F.pairs.all fun p => F.pairs.all fun q => !(evBeq p.2 q.1) || F.hbB p.1 q.2
def chkIrrefl (F : FinExec) : Bool := F.pairs.all fun p => !(evBeq p.1 p.2)
def chkCoWW (F : FinExec) : Bool := F.pairs.all fun p => match p with
  | (.rmw i, .rmw j) => Nat.blt i j
  | _ => true
def chkCoWR (F : FinExec) : Bool := F.pairs.all fun p => match p with
  | (.rmw i, .oth a) => match (F.kind a).loadInfo with
      | some (_, some j) => Nat.ble i j
      | some (_, none) => false
      | none => true
  | _ => true
/-- `i` ranges over `0..j` (the load may name a position beyond `ops`; the check is still finite) -/
def chkSwLoad (F : FinExec) : Bool := allFin F.n fun a => match (F.kind a).loadInfo with
  | some (o, some j) => !o.isAcq || allNat (j+1) fun i => !(F.ordR i).isRel || F.hbB (.rmw i) (.oth a)
  | _ => true
def chkSwRmw (F : FinExec) : Bool := allNat F.ops.length fun j =>
  !(F.ordR j).isAcq || allNat j fun i => !(F.ordR i).isRel || F.hbB (.rmw i) (.rmw j)

/-- all six fields of `Consistent`, plus the well-formedness requirement `kinds.length = n` -/
def checkConsistent (F : FinExec) : Bool :=
  Nat.beq F.kinds.length F.n && F.chkTrans && F.chkIrrefl && F.chkCoWW && F.chkCoWR && F.chkSwLoad && F.chkSwRmw

theorem chkTrans_sound {F : FinExec} (h : F.chkTrans = true) {a b c : Ev (Fin F.n)}
    (h1 : (a, b) ∈ F.pairs) (h2 : (b, c) ∈ F.pairs) : (a, c) ∈ F.pairs := by
  have := List.all_eq_true.1 (List.all_eq_true.1 h _ h1) _ h2
  simp only [Bool.or_eq_true, Bool.not_eq_true'] at this
  rcases this with h | h
  · have : evBeq b b = true := evBeq_iff.2 rfl
    rw [this] at h; cases h
  · exact hbB_iff.1 h

theorem chkIrrefl_sound {F : FinExec} (h : F.chkIrrefl = true) (a : Ev (Fin F.n)) : (a, a) ∉ F.pairs := by
  intro hm
  have := List.all_eq_true.1 h _ hm
  have e : evBeq a a = true := evBeq_iff.2 rfl
  simp [e] at this

theorem checkConsistent_sound {F : FinExec} (h : F.checkConsistent = true) : Consistent F.toExec := by
  simp only [checkConsistent, Bool.and_eq_true] at h
  obtain ⟨⟨⟨⟨⟨⟨_, hT⟩, hI⟩, hWW⟩, hWR⟩, hSL⟩, hSR⟩ := h
  refine ⟨?_, ?_, ?_, ?_, ?_, ?_⟩
  · intro a b c h1 h2; exact chkTrans_sound hT h1 h2
  · intro a; exact chkIrrefl_sound hI a
  · intro i j hb
    have := List.all_eq_true.1 hWW _ hb
    simp [Nat.blt] at this
    omega
  · intro i a o rf hl hb
    have := List.all_eq_true.1 hWR _ hb
    change (F.kind a).loadInfo = some (o, rf) at hl
    simp only [hl] at this
    cases rf with
    | none => simp at this
    | some j => exact ⟨j, rfl, by simpa using this⟩
  · intro i j a o hrel hl hacq hij
    change (F.kind a).loadInfo = some (o, some j) at hl
    change (F.ordR i).isRel = true at hrel
    have := allFin_sound hSL a
    simp only [hl, hacq, Bool.not_true, Bool.false_or] at this
    have := allNat_sound this i (by omega)
    simp only [hrel, Bool.not_true, Bool.false_or] at this
    exact hbB_iff.1 this
  · intro i j hrel hacq hij hj
    change (F.ordR i).isRel = true at hrel
    change (F.ordR j).isAcq = true at hacq
    change j < F.ops.length at hj
    have := allNat_sound hSR j hj
    simp only [hacq, Bool.not_true, Bool.false_or] at this
    have := allNat_sound this i hij
    simp only [hrel, Bool.not_true, Bool.false_or] at this
    exact hbB_iff.1 this

/-- loads only read RMWs that exist (`ConsistentPrim.rf_in_range`; the index form `Consistent` does not
need it) -/
def checkRfInRange (F : FinExec) : Bool := allFin F.n fun a => match (F.kind a).loadInfo with
  | some (_, some j) => Nat.blt j F.ops.length
  | _ => true

theorem checkRfInRange_sound {F : FinExec} (h : F.checkRfInRange = true) :
    ∀ {a : F.toExec.A} {o : MemOrd} {w : Nat}, (F.toExec.kind a).loadInfo = some (o, some w) → w < F.toExec.ops.length := by
  intro a o w hl
  change (F.kind a).loadInfo = some (o, some w) at hl
  have := allFin_sound h a
  simp only [hl] at this
  simp [Nat.blt] at this
  exact this

/-- the checked execution is also consistent in the primitive (release-sequence) form of `WM/RelSeq.lean` -/
theorem checkConsistentPrim_sound {F : FinExec} (h : F.checkConsistent = true) (hr : F.checkRfInRange = true) :
    ConsistentPrim F.toExec := by
  have c := checkConsistent_sound h
  refine ⟨c.hb_trans, c.hb_irrefl, c.coWW, c.coWR, ?_, ?_, checkRfInRange_sound hr⟩
  · intro i w a o hrel hin hl hacq
    exact c.sw_load hrel hl hacq (inRelSeq_iff.1 hin).1
  · intro i w j hrel hin hj hrf hacq
    cases j with
    | zero => cases hrf
    | succ j' =>
      have : j' = w := by simpa [rmwReadsFrom] using hrf
      subst this
      exact c.sw_rmw hrel hacq (by have := (inRelSeq_iff.1 hin).1; omega) hj

/-! ### `Protocol` -/

def chkFresh (F : FinExec) : Bool := allOps F.ops fun i o => allOps F.ops fun j o' => match o, o' with
  | .inc c _, .inc c' _ => !(Nat.beq c c') || Nat.beq i j
  | _, _ => true
def chkKidNeZero (F : FinExec) : Bool := allOps F.ops fun _ o => match o with
  | .inc c _ => !(Nat.beq c 0)
  | _ => true
def chkDecOnce (F : FinExec) : Bool := allOps F.ops fun i o => allOps F.ops fun j o' => match o, o' with
  | .dec h, .dec h' => !(Nat.beq h h') || Nat.beq i j
  | _, _ => true
def chkBirth (F : FinExec) : Bool := allOps F.ops fun j o => match o with
  | .dec h => Nat.beq h 0 || anyOps F.ops fun i o' => match o' with
      | .inc c _ => Nat.beq c h && F.hbB (.rmw i) (.rmw j)
      | _ => false
  | _ => true
def chkSrcBorn (F : FinExec) : Bool := allOps F.ops fun j o => match o with
  | .inc _ s => Nat.beq s 0 || anyOps F.ops fun i o' => match o' with
      | .inc c _ => Nat.beq c s && F.hbB (.rmw i) (.rmw j)
      | _ => false
  | _ => true
def chkSrcAlive (F : FinExec) : Bool := allOps F.ops fun j o => match o with
  | .inc _ s => allOps F.ops fun k o' => match o' with
      | .dec h => !(Nat.beq h s) || F.hbB (.rmw j) (.rmw k)
      | _ => true
  | _ => true
def chkDecOrd (F : FinExec) (decOrd : MemOrd) : Bool := allOps F.ops fun i o => match o with
  | .dec _ => decide (F.ordR i = decOrd)
  | _ => true
def chkViaReal (F : FinExec) : Bool := allFin F.n fun a => match (F.kind a).via with
  | some h => Nat.beq h 0 || (kids F.ops).any (fun c => Nat.beq c h)
  | none => true
def chkViaAlive (F : FinExec) : Bool := allFin F.n fun a => match (F.kind a).via with
  | some h => allOps F.ops fun k o => match o with
      | .dec h' => !(Nat.beq h' h) || F.hbB (.oth a) (.rmw k)
      | _ => true
  | none => true
def isDec : Option Op → Bool
  | some (.dec _) => true
  | _ => false
def isFenceLoad (k : Nat) (o : MemOrd) : AKind → Bool
  | .fenceLoad k' o' _ => Nat.beq k' k && decide (o' = o)
  | _ => false
def chkDestroyShape (F : FinExec) (fenceOrd : Option MemOrd) : Bool := allFin F.n fun f => match F.kind f with
  | .destroy k => isDec F.ops[k]? && decide ((run (F.ops.take k)).val = 1) &&
      (match fenceOrd with
        | some o => anyFin F.n fun l => isFenceLoad k o (F.kind l) && F.hbB (.rmw k) (.oth l) && F.hbB (.oth l) (.oth f)
        | none => F.hbB (.rmw k) (.oth f))
  | _ => true
def chkDestroyInj (F : FinExec) : Bool := allFin F.n fun f₁ => allFin F.n fun f₂ => match F.kind f₁, F.kind f₂ with
  | .destroy k₁, .destroy k₂ => !(Nat.beq k₁ k₂) || Nat.beq f₁.val f₂.val
  | _, _ => true

/-- all eleven fields of `Protocol` -/
def checkProtocol (F : FinExec) (decOrd : MemOrd) (fenceOrd : Option MemOrd) : Bool :=
  F.chkFresh && F.chkKidNeZero && F.chkDecOnce && F.chkBirth && F.chkSrcBorn && F.chkSrcAlive &&
  F.chkDecOrd decOrd && F.chkViaReal && F.chkViaAlive && F.chkDestroyShape fenceOrd && F.chkDestroyInj

theorem isDec_sound {x : Option Op} (h : isDec x = true) : ∃ h', x = some (Op.dec h') := by
  match x, h with
  | some (.dec h'), _ => exact ⟨h', rfl⟩

theorem isFenceLoad_sound {k : Nat} {o : MemOrd} {x : AKind} (h : isFenceLoad k o x = true) :
    ∃ rf, x = .fenceLoad k o rf := by
  match x, h with
  | .fenceLoad k' o' rf, h =>
    simp only [isFenceLoad, Bool.and_eq_true, Nat.beq_eq, decide_eq_true_eq] at h
    obtain ⟨rfl, rfl⟩ := h
    exact ⟨rf, rfl⟩

theorem checkProtocol_sound {F : FinExec} {decOrd : MemOrd} {fenceOrd : Option MemOrd}
    (h : F.checkProtocol decOrd fenceOrd = true) : Protocol F.toExec decOrd fenceOrd := by
  simp only [checkProtocol, Bool.and_eq_true] at h
  obtain ⟨⟨⟨⟨⟨⟨⟨⟨⟨⟨h1, h2⟩, h3⟩, h4⟩, h5⟩, h6⟩, h7⟩, h8⟩, h9⟩, h10⟩, h11⟩ := h
  refine ⟨?_, ?_, ?_, ?_, ?_, ?_, ?_, ?_, ?_, ?_, ?_⟩
  · -- fresh
    intro i j c s s' hi hj
    have := allOps_sound (allOps_sound h1 hi) hj
    simpa [Nat.beq_eq] using this
  · -- kid_ne_zero
    intro i c s hi
    have := allOps_sound h2 hi
    simpa [nbeq_false] using this
  · -- dec_once
    intro i j h hi hj
    have := allOps_sound (allOps_sound h3 hi) hj
    simpa [Nat.beq_eq] using this
  · -- birth_before_death
    intro j h hj hne
    have := allOps_sound h4 hj
    simp only [Bool.or_eq_true, Nat.beq_eq] at this
    rcases this with h0 | this
    · exact absurd h0 hne
    · obtain ⟨i, o, hi, hp⟩ := anyOps_sound this
      cases o with
      | dec _ => simp at hp
      | inc c s =>
        simp only [Bool.and_eq_true, Nat.beq_eq] at hp
        obtain ⟨rfl, hp⟩ := hp
        exact ⟨i, s, hi, hbB_iff.1 hp⟩
  · -- src_born
    intro j c s hj hne
    have := allOps_sound h5 hj
    simp only [Bool.or_eq_true, Nat.beq_eq] at this
    rcases this with h0 | this
    · exact absurd h0 hne
    · obtain ⟨i, o, hi, hp⟩ := anyOps_sound this
      cases o with
      | dec _ => simp at hp
      | inc c' s' =>
        simp only [Bool.and_eq_true, Nat.beq_eq] at hp
        obtain ⟨rfl, hp⟩ := hp
        exact ⟨i, s', hi, hbB_iff.1 hp⟩
  · -- src_alive
    intro j c s k hj hk
    have := allOps_sound (allOps_sound h6 hj) hk
    simp only [Bool.or_eq_true, Bool.not_eq_true'] at this
    rcases this with h | h
    · rw [Nat.beq_refl] at h; cases h
    · exact hbB_iff.1 h
  · -- dec_ord
    intro i h hi
    have := allOps_sound h7 hi
    simp only [decide_eq_true_eq] at this
    exact this
  · -- via_real
    intro a h hv
    change (F.kind a).via = some h at hv
    have := allFin_sound h8 a
    simp only [hv, Bool.or_eq_true, Nat.beq_eq, List.any_eq_true] at this
    rcases this with h0 | ⟨c, hc, rfl⟩
    · exact Or.inl h0
    · exact Or.inr hc
  · -- via_alive
    intro a h k hv hk
    change (F.kind a).via = some h at hv
    have := allFin_sound h9 a
    simp only [hv] at this
    have := allOps_sound this hk
    simp only [Bool.or_eq_true, Bool.not_eq_true'] at this
    rcases this with h | h
    · rw [Nat.beq_refl] at h; cases h
    · exact hbB_iff.1 h
  · -- destroy_shape
    intro f k hf
    change F.kind f = .destroy k at hf
    have := allFin_sound h10 f
    simp only [hf, Bool.and_eq_true, decide_eq_true_eq] at this
    obtain ⟨⟨hd, hv⟩, hs⟩ := this
    refine ⟨isDec_sound hd, hv, ?_⟩
    cases fenceOrd with
    | none => exact hbB_iff.1 hs
    | some o =>
      obtain ⟨l, hl⟩ := anyFin_sound hs
      simp only [Bool.and_eq_true] at hl
      obtain ⟨⟨hfl, hb1⟩, hb2⟩ := hl
      obtain ⟨rf, hrf⟩ := isFenceLoad_sound hfl
      exact ⟨l, rf, hrf, hbB_iff.1 hb1, hbB_iff.1 hb2⟩
  · -- destroy_inj
    intro f₁ f₂ k hf₁ hf₂
    change F.kind f₁ = .destroy k at hf₁
    change F.kind f₂ = .destroy k at hf₂
    have := allFin_sound (allFin_sound h11 f₁) f₂
    simp only [hf₁, hf₂, Bool.or_eq_true, Bool.not_eq_true', Nat.beq_eq] at this
    rcases this with h | h
    · rw [Nat.beq_refl] at h; cases h
    · exact Fin.ext h

/-! ### `CoRW`, `ViaBorn`, `Consume`, `MutExcl` -/

def checkCoRW (F : FinExec) : Bool := F.pairs.all fun p => match p with
  | (.oth a, .rmw m) => match (F.kind a).loadInfo with
      | some (_, some j) => Nat.blt j m
      | _ => true
  | _ => true

theorem checkCoRW_sound {F : FinExec} (h : F.checkCoRW = true) : CoRW F.toExec := by
  intro m a o rf hl hb j hj
  change (F.kind a).loadInfo = some (o, rf) at hl
  subst hj
  have := List.all_eq_true.1 h _ hb
  simp only [hl] at this
  simp [Nat.blt] at this
  omega

def checkViaBorn (F : FinExec) : Bool := allFin F.n fun a => match (F.kind a).via with
  | some h => Nat.beq h 0 || anyOps F.ops fun i o => match o with
      | .inc c _ => Nat.beq c h && F.hbB (.rmw i) (.oth a)
      | _ => false
  | none => true

theorem checkViaBorn_sound {F : FinExec} (h : F.checkViaBorn = true) : ViaBorn F.toExec := by
  intro a h' hv hne
  change (F.kind a).via = some h' at hv
  have := allFin_sound h a
  simp only [hv, Bool.or_eq_true, Nat.beq_eq] at this
  rcases this with h0 | this
  · exact absurd h0 hne
  · obtain ⟨i, o, hi, hp⟩ := anyOps_sound this
    cases o with
    | dec _ => simp at hp
    | inc c s =>
      simp only [Bool.and_eq_true, Nat.beq_eq] at hp
      obtain ⟨rfl, hp⟩ := hp
      exact ⟨i, s, hi, hbB_iff.1 hp⟩

def checkConsume (F : FinExec) (l : Fin F.n) (h : H) (ord : MemOrd) (rf : Option Nat) : Bool :=
  decide (F.kind l = .load h ord rf) && ord.isAcq && decide (valRead F.ops rf = 1) &&
  (allOps F.ops fun _ o => match o with
    | .dec h' => !(Nat.beq h' h)
    | _ => true) &&
  (allOps F.ops fun j o => match o with
    | .inc _ s => !(Nat.beq s h) || F.hbB (.rmw j) (.oth l)
    | _ => true)

theorem checkConsume_sound {F : FinExec} {l : Fin F.n} {h : H} {ord : MemOrd} {rf : Option Nat}
    (hc : F.checkConsume l h ord rf = true) : Consume F.toExec l h ord rf := by
  simp only [checkConsume, Bool.and_eq_true, decide_eq_true_eq] at hc
  obtain ⟨⟨⟨⟨hk, ha⟩, hv⟩, hn⟩, hcl⟩ := hc
  refine ⟨hk, ha, hv, ?_, ?_⟩
  · intro m hm
    have := allOps_sound hn hm
    simp at this
  · intro j c hj
    have := allOps_sound hcl hj
    simp only [Bool.or_eq_true, Bool.not_eq_true'] at this
    rcases this with h' | h'
    · rw [Nat.beq_refl] at h'; cases h'
    · exact hbB_iff.1 h'

def checkMutExcl (F : FinExec) (l w : Fin F.n) (h : H) : Bool := allOps F.ops fun i o => match o with
  | .inc _ s => !(Nat.beq s h) || F.hbB (.rmw i) (.oth l) || F.hbB (.oth w) (.rmw i)
  | _ => true

theorem checkMutExcl_sound {F : FinExec} {l w : Fin F.n} {h : H}
    (hc : F.checkMutExcl l w h = true) : MutExcl F.toExec l w h := by
  intro i c hi
  have := allOps_sound hc hi
  simp only [Bool.or_eq_true, Bool.not_eq_true'] at this
  rcases this with (h' | h') | h'
  · rw [Nat.beq_refl] at h'; cases h'
  · exact Or.inl (hbB_iff.1 h')
  · exact Or.inr (hbB_iff.1 h')

/-- a refutation is also available: if the check fails, `MutExcl` fails (the checker is complete for
this property), so a negative example really is a counterexample to the hypothesis -/
theorem checkMutExcl_complete {F : FinExec} {l w : Fin F.n} {h : H}
    (hm : MutExcl F.toExec l w h) : F.checkMutExcl l w h = true := by
  apply List.all_eq_true.2
  rintro ⟨m, o⟩ hmem
  obtain ⟨i, rfl, hi⟩ := of_mem_indexed hmem
  cases o with
  | dec _ => rfl
  | inc c s =>
    show (!(Nat.beq s h) || F.hbB (.rmw (0 + i)) (.oth l) || F.hbB (.oth w) (.rmw (0 + i))) = true
    rw [Nat.zero_add]
    by_cases e : s = h
    · subst e
      rcases hm hi with h' | h'
      · have := hbB_iff.2 h'
        simp only [Bool.or_eq_true]; exact Or.inl (Or.inr this)
      · have := hbB_iff.2 h'
        simp only [Bool.or_eq_true]; exact Or.inr this
    · have : Nat.beq s h = false := by
        cases hb : Nat.beq s h with
        | false => rfl
        | true => exact absurd (by simpa [Nat.beq_eq] using hb) e
      simp [this]

/-! ### everything at once -/

/-- the standing hypotheses of the M4 theorems about an execution -/
structure Admitted (X : CountExec) (decOrd : MemOrd) (fenceOrd : Option MemOrd) : Prop where
  consistent : Consistent X
  consistentPrim : ConsistentPrim X
  protocol : Protocol X decOrd fenceOrd
  corw : CoRW X
  viaborn : ViaBorn X

/-- `F.forced k = k F`, evaluating `F.pairs` (typically `closure …`) once before `k` uses it many times -/
def forced {β : Type} (F : FinExec) (k : FinExec → β) : β :=
  forcePairs F.pairs fun ps => k ⟨F.n, F.ops, F.ords, F.kinds, ps⟩

theorem forced_eq {β : Type} (F : FinExec) (k : FinExec → β) : F.forced k = k F := by
  simp only [forced, forcePairs_eq]

/-- one evaluation for all standing hypotheses (the kernel computes `closure …` once) -/
def checkAll (F : FinExec) (decOrd : MemOrd) (fenceOrd : Option MemOrd) : Bool :=
  F.forced fun F =>
    F.checkConsistent && F.checkRfInRange && F.checkProtocol decOrd fenceOrd && F.checkCoRW && F.checkViaBorn

theorem checkAll_sound {F : FinExec} {decOrd : MemOrd} {fenceOrd : Option MemOrd}
    (h : F.checkAll decOrd fenceOrd = true) : Admitted F.toExec decOrd fenceOrd := by
  simp only [checkAll, forced_eq, Bool.and_eq_true] at h
  obtain ⟨⟨⟨⟨h1, h2⟩, h3⟩, h4⟩, h5⟩ := h
  exact ⟨checkConsistent_sound h1, checkConsistentPrim_sound h1 h2, checkProtocol_sound h3,
    checkCoRW_sound h4, checkViaBorn_sound h5⟩

/-- every increment creating `h'` lies beyond what a load with this `rf` read from (the side
condition of `later_sharers_after_write`) -/
def checkLate (F : FinExec) (h' : H) (rf : Option Nat) : Bool := allOps F.ops fun i o => match o with
  | .inc c _ => !(Nat.beq c h') || (match rf with
      | some j => Nat.blt j i
      | none => true)
  | _ => true

theorem checkLate_sound {F : FinExec} {h' : H} {rf : Option Nat} (hc : F.checkLate h' rf = true) :
    ∀ i s, F.toExec.ops[i]? = some (Op.inc h' s) → Beyond rf i := by
  intro i s hi j hj
  subst hj
  have := allOps_sound hc hi
  simp only [Bool.or_eq_true, Bool.not_eq_true'] at this
  rcases this with h | h
  · rw [Nat.beq_refl] at h; cases h
  · simp [Nat.blt] at h; omega

theorem not_hb_of_hbB {F : FinExec} {x y : Ev (Fin F.n)} (h : F.hbB x y = false) : ¬ F.toExec.hb x y := by
  intro hb
  rw [hbB_iff.2 hb] at h; cases h

end FinExec

/-! ## transitive closure (executable helper; nothing is proved about it — the checker re-validates) -/

/-- add every composition `(a,c)` of pairs `(a,b)`, `(b,c)` of `l` that is not yet present -/
def closeStep {α : Type} (eq : α → α → Bool) (l : List (α × α)) : List (α × α) :=
  l.foldl (fun acc p => l.foldl (fun acc q =>
    if eq p.2 q.1 && !(acc.any fun r => eq r.1 p.1 && eq r.2 q.2) then acc ++ [(p.1, q.2)] else acc) acc) l

/-- `force l k = k l`, written so that a call-by-name evaluator (the kernel) computes `l` once -/
abbrev Forcer (α : Type) := List (α × α) → (List (α × α) → List (α × α)) → List (α × α)

/-- forces the spine of the list only -/
def forceSpine {α : Type} : Forcer α
  | [], k => k []
  | x :: xs, k => forceSpine xs (fun ys => k (x :: ys))

def closureFuel {α : Type} (eq : α → α → Bool) (force : Forcer α) : Nat → List (α × α) → List (α × α)
  | 0, l => l
  | k+1, l =>
    force (closeStep eq l) fun l' =>
    if Nat.beq l'.length l.length then l else closureFuel eq force k l'

/-- remove duplicates, keeping first occurrences -/
def dedupPairs {α : Type} (eq : α → α → Bool) (l : List (α × α)) : List (α × α) :=
  l.foldl (fun acc p => if acc.any fun r => eq r.1 p.1 && eq r.2 p.2 then acc else acc ++ [p]) []

/-- transitive closure of a finite relation (paths double at every round, so `length + 1` rounds are plenty) -/
def closureWith {α : Type} (eq : α → α → Bool) (force : Forcer α := forceSpine) (l : List (α × α)) : List (α × α) :=
  force (dedupPairs eq l) fun l' => closureFuel eq force (l.length + 1) l'

/-- transitive closure of a happens-before skeleton (program order ∪ synchronisation edges) -/
def closure {n : Nat} (l : List (Ev (Fin n) × Ev (Fin n))) : List (Ev (Fin n) × Ev (Fin n)) :=
  closureWith evBeq forcePairs l

end WM
