//! Element/header CLASS sweep for C15 (uninitialised construction), complementing the history
//! harness whose payloads are all `Tracked` (sized, with drop glue): here the same abstract cases are
//! run with headers / elements of every class — no drop glue (u32, [u8;3]), drop glue (Loud), zero
//! sized with a destructor (Zd), zero sized without (()).
//!
//! One case per input line:
//!   hs <H> <T> <len> <mask> <fin>     UniqueArc::from_header_and_uninit_slice(h, len); write the slots
//!                                     of <mask>; fin = drop | init (assume_init_slice_with_header, share,
//!                                     clone, drop both; requires mask = all)
//!   sl <T> <len> <shared> <idx>       Arc::new_uninit_slice(len), fill while unique, optionally share,
//!                                     then the deprecated `as_mut_slice()[idx].write(..)`
//!   un <T> <shared>                   Arc::new_uninit(), write while unique, optionally share, then the
//!                                     deprecated `Arc::write(..)`
//! Output: one line `k=v ...` of observations.
#![allow(deprecated, static_mut_refs)]
use std::cell::Cell;
use std::io::{BufRead, Write};
use std::mem::MaybeUninit;
use std::panic::{catch_unwind, AssertUnwindSafe};
use triomphe::*;

#[global_allocator]
static G: harness::Track = harness::Track;

thread_local! {
    static HDROPS: Cell<i64> = const { Cell::new(0) };
    static EDROPS: Cell<i64> = const { Cell::new(0) };
}
fn hd() -> i64 { HDROPS.with(|c| c.get()) }
fn ed() -> i64 { EDROPS.with(|c| c.get()) }

/// a value class usable as header or element; `ROLE`: 0 = header, 1 = element
trait Cls<const ROLE: u8>: Sized {
    const HAS_DROP: bool;
    fn mk(v: u32) -> Self;
    fn val(&self) -> u32;
    /// what `mk(v).val()` is, without constructing (and dropping) a value
    fn expect(v: u32) -> u32;
}
fn bump<const ROLE: u8>() { if ROLE == 0 { HDROPS.with(|c| c.set(c.get() + 1)) } else { EDROPS.with(|c| c.set(c.get() + 1)) } }

struct Loud<const ROLE: u8>(u32, Box<u32>);
impl<const ROLE: u8> Drop for Loud<ROLE> { fn drop(&mut self) { bump::<ROLE>() } }
impl<const ROLE: u8> Cls<ROLE> for Loud<ROLE> { const HAS_DROP: bool = true; fn mk(v: u32) -> Self { Loud(v, Box::new(v)) } fn val(&self) -> u32 { self.0 } fn expect(v: u32) -> u32 { v } }

struct Zd<const ROLE: u8>;
impl<const ROLE: u8> Drop for Zd<ROLE> { fn drop(&mut self) { bump::<ROLE>() } }
impl<const ROLE: u8> Cls<ROLE> for Zd<ROLE> { const HAS_DROP: bool = true; fn mk(_: u32) -> Self { Zd } fn val(&self) -> u32 { 0 } fn expect(_: u32) -> u32 { 0 } }

impl<const ROLE: u8> Cls<ROLE> for u32 { const HAS_DROP: bool = false; fn mk(v: u32) -> Self { v } fn val(&self) -> u32 { *self } fn expect(v: u32) -> u32 { v } }
impl<const ROLE: u8> Cls<ROLE> for [u8; 3] { const HAS_DROP: bool = false; fn mk(v: u32) -> Self { [v as u8, (v >> 8) as u8, 7] } fn val(&self) -> u32 { self[0] as u32 | (self[1] as u32) << 8 } fn expect(v: u32) -> u32 { v & 0xffff } }
impl<const ROLE: u8> Cls<ROLE> for () { const HAS_DROP: bool = false; fn mk(_: u32) -> Self {} fn val(&self) -> u32 { 0 } fn expect(_: u32) -> u32 { 0 } }
impl<const ROLE: u8> Cls<ROLE> for u64 { const HAS_DROP: bool = false; fn mk(v: u32) -> Self { v as u64 } fn val(&self) -> u32 { *self as u32 } fn expect(v: u32) -> u32 { v } }

/// OVER-ALIGNED classes (the payload does not start right behind the count: data offset 32 / 16)
#[repr(align(32))]
struct W32(u32);
impl<const ROLE: u8> Cls<ROLE> for W32 { const HAS_DROP: bool = false; fn mk(v: u32) -> Self { W32(v) } fn val(&self) -> u32 { self.0 } fn expect(v: u32) -> u32 { v } }
#[repr(align(16))]
struct W16d<const ROLE: u8>(u32, Box<u32>);
impl<const ROLE: u8> Drop for W16d<ROLE> { fn drop(&mut self) { bump::<ROLE>() } }
impl<const ROLE: u8> Cls<ROLE> for W16d<ROLE> { const HAS_DROP: bool = true; fn mk(v: u32) -> Self { W16d(v, Box::new(v)) } fn val(&self) -> u32 { self.0 } fn expect(v: u32) -> u32 { v } }

fn reset() { HDROPS.with(|c| c.set(0)); EDROPS.with(|c| c.set(0)); }

/// `wr <T> <kind> <len>`: build uninitialised, write every slot, read back through `as_mut_ptr`, after `assume_init*` through
/// the initialised handle, then drop; the allocator's view of the block (requested layout = released layout, freed once).
/// kind: arc (Arc::new_uninit) | uniq (UniqueArc::new_uninit) | slice (UniqueArc::new_uninit_slice(len)) | hs
/// (UniqueArc::from_header_and_uninit_slice(u32 header, len)) | arcslice (Arc::new_uninit_slice(len))
fn run_wr<T: Cls<1>>(kind: &str, len: usize) -> String {
    use harness::{set_recording, take_events, Ev};
    reset();
    take_events();
    set_recording(true);
    let r = catch_unwind(AssertUnwindSafe(|| -> String {
        match kind {
            "arc" => {
                let mut a: Arc<MaybeUninit<T>> = Arc::new_uninit();
                a.write(T::mk(77));
                let p = a.as_mut_ptr() as *const T;
                let seen_raw = unsafe { (*p).val() };
                let a: Arc<T> = unsafe { a.assume_init() };
                format!("val={} raw={} ptr_ok={}", a.val(), seen_raw, (p == &*a as *const T) as u8)
            }
            "uniq" => {
                let mut u: UniqueArc<MaybeUninit<T>> = UniqueArc::new_uninit();
                u.write(T::mk(77));
                let p = u.as_mut_ptr() as *const T;
                let seen_raw = unsafe { (*p).val() };
                let u: UniqueArc<T> = unsafe { UniqueArc::assume_init(u) };
                format!("val={} raw={} ptr_ok={}", u.val(), seen_raw, (p == &*u as *const T) as u8)
            }
            "slice" => {
                let mut u: UniqueArc<[MaybeUninit<T>]> = UniqueArc::new_uninit_slice(len);
                for (i, s) in u.iter_mut().enumerate() { s.write(T::mk(70 + i as u32)); }
                let u: UniqueArc<[T]> = unsafe { UniqueArc::assume_init_slice(u) };
                let ok = u.iter().enumerate().all(|(i, x)| x.val() == T::expect(70 + i as u32)) && u.len() == len;
                format!("val={} raw={} ptr_ok={}", if ok { T::expect(77) } else { 0xdead }, T::expect(77), 1)
            }
            "arcslice" => {
                let a: Arc<[MaybeUninit<T>]> = Arc::new_uninit_slice(len);
                let n = a.len();
                format!("val={} raw={} ptr_ok={}", if n == len { T::expect(77) } else { 0xdead }, T::expect(77), 1)
            }
            _ => {
                let mut u = UniqueArc::from_header_and_uninit_slice(5u32, len);
                for (i, s) in u.slice.iter_mut().enumerate() { s.write(T::mk(70 + i as u32)); }
                let u = unsafe { u.assume_init_slice_with_header() };
                let ok = u.header == 5 && u.slice.len() == len && u.slice.iter().enumerate().all(|(i, x)| x.val() == T::expect(70 + i as u32));
                format!("val={} raw={} ptr_ok={}", if ok { T::expect(77) } else { 0xdead }, T::expect(77), 1)
            }
        }
    }));
    set_recording(false);
    let evs = take_events();
    let mut blocks: Vec<(usize, usize, usize, i32, bool)> = Vec::new();
    for e in &evs {
        match e {
            Ev::Alloc(i, sz, al) if *al >= 8 => blocks.push((*i, *sz, *al, 0, true)),
            Ev::Dealloc(i, sz, al) => { for b in blocks.iter_mut() { if b.0 == *i { b.3 += 1; if (b.1, b.2) != (*sz, *al) { b.4 = false; } } } }
            Ev::DoubleFree(i, _, _) => { for b in blocks.iter_mut() { if b.0 == *i { b.3 += 1; } } }
            _ => {}
        }
    }
    let never = blocks.iter().filter(|b| b.3 == 0).count();
    let twice = blocks.iter().filter(|b| b.3 > 1).count();
    let badlay = blocks.iter().filter(|b| !b.4).count();
    let minalign = blocks.iter().map(|b| b.2).min().unwrap_or(0);
    match r {
        Ok(s) => format!("st=ok {} want={} never_freed={} freed_twice={} wrong_layout={} block_align={} type_align={} edrop={}", s, T::expect(77), never, twice, badlay, minalign, std::mem::align_of::<T>(), ed()),
        Err(_) => format!("st=panic want={} never_freed={} freed_twice={} wrong_layout={} block_align={} type_align={} edrop={}", T::expect(77), never, twice, badlay, minalign, std::mem::align_of::<T>(), ed()),
    }
}

fn run_hs<H: Cls<0>, T: Cls<1>>(len: usize, mask: u64, fin: &str) -> String {
    reset();
    let mut out = String::new();
    let r = catch_unwind(AssertUnwindSafe(|| {
        let mut u: UniqueArc<HeaderSlice<H, [MaybeUninit<T>]>> = UniqueArc::from_header_and_uninit_slice(H::mk(77), len);
        out.push_str(&format!("hdrop_after_ctor={} hval={} slen={} ", hd(), u.header.val(), u.slice.len()));
        for i in 0..len { if mask >> i & 1 == 1 { u.slice[i].write(T::mk(100 + i as u32)); } }
        out.push_str(&format!("hdrop_after_writes={} edrop_after_writes={} ", hd(), ed()));
        if fin == "drop" {
            drop(u);
        } else {
            let init: UniqueArc<HeaderSlice<H, [T]>> = unsafe { u.assume_init_slice_with_header() };
            out.push_str(&format!("hdrop_after_init={} edrop_after_init={} ", hd(), ed()));
            let a = init.shareable();
            let b = a.clone();
            let ok = a.slice.iter().enumerate().all(|(i, x)| x.val() == <T as Cls<1>>::expect(100 + i as u32));
            out.push_str(&format!("cnt={} cont={} hval2={} hdrop_shared={} edrop_shared={} ", Arc::count(&a), ok as u8, a.header.val(), hd(), ed()));
            drop(a);
            out.push_str(&format!("hdrop_one_left={} edrop_one_left={} ", hd(), ed()));
            drop(b);
        }
    }));
    out.push_str(&format!("st={} hdrop={} edrop={} hneeds={} eneeds={}", if r.is_ok() { "ok" } else { "panic" }, hd(), ed(), H::HAS_DROP as u8, T::HAS_DROP as u8));
    out
}

fn run_sl<T: Cls<1>>(len: usize, shared: bool, idx: usize) -> String {
    reset();
    let mut a: Arc<[MaybeUninit<T>]> = Arc::new_uninit_slice(len);
    for i in 0..len { a.as_mut_slice()[i].write(T::mk(100 + i as u32)); }
    let other = if shared { Some(a.clone()) } else { None };
    let before: Vec<u32> = (0..len).map(|i| unsafe { a[i].assume_init_ref().val() }).collect();
    let r = catch_unwind(AssertUnwindSafe(|| { a.as_mut_slice()[idx].write(T::mk(999)); }));
    let view = other.as_ref().unwrap_or(&a);
    let after: Vec<u32> = (0..len).map(|i| unsafe { view[i].assume_init_ref().val() }).collect();
    let s = format!("st={} other_changed={} cnt={} eneeds={}", if r.is_ok() { "ok" } else { "panic" }, (shared && before != after) as u8, Arc::count(&a), T::HAS_DROP as u8);
    // the elements were never assumed init: leak them (MaybeUninit does not drop)
    s
}

fn run_un<T: Cls<1>>(shared: bool) -> String {
    reset();
    let mut a: Arc<MaybeUninit<T>> = Arc::new_uninit();
    a.write(T::mk(100));
    let other = if shared { Some(a.clone()) } else { None };
    let before = unsafe { a.assume_init_ref().val() };
    let r = catch_unwind(AssertUnwindSafe(|| { a.write(T::mk(999)); }));
    let view = other.as_ref().unwrap_or(&a);
    let after = unsafe { view.assume_init_ref().val() };
    format!("st={} other_changed={} cnt={} eneeds={}", if r.is_ok() { "ok" } else { "panic" }, (shared && before != after) as u8, Arc::count(&a), T::HAS_DROP as u8)
}

macro_rules! with_t {
    ($name:expr, $f:ident, $($args:expr),*) => {
        match $name {
            "u32" => $f::<u32>($($args),*), "b3" => $f::<[u8; 3]>($($args),*), "u64" => $f::<u64>($($args),*),
            "loud" => $f::<Loud<1>>($($args),*), "zd" => $f::<Zd<1>>($($args),*), "unit" => $f::<()>($($args),*),
            "w32" => $f::<W32>($($args),*), "w16d" => $f::<W16d<1>>($($args),*),
            _ => "st=badcls".to_string(),
        }
    };
}
macro_rules! with_ht {
    ($h:expr, $t:expr, $($args:expr),*) => {
        match $h {
            "u32" => with_t!($t, run_hs_h_u32, $($args),*), "loud" => with_t!($t, run_hs_h_loud, $($args),*),
            "zd" => with_t!($t, run_hs_h_zd, $($args),*), "unit" => with_t!($t, run_hs_h_unit, $($args),*),
            "b3" => with_t!($t, run_hs_h_b3, $($args),*),
            _ => "st=badcls".to_string(),
        }
    };
}
fn run_hs_h_u32<T: Cls<1>>(l: usize, m: u64, f: &str) -> String { run_hs::<u32, T>(l, m, f) }
fn run_hs_h_loud<T: Cls<1>>(l: usize, m: u64, f: &str) -> String { run_hs::<Loud<0>, T>(l, m, f) }
fn run_hs_h_zd<T: Cls<1>>(l: usize, m: u64, f: &str) -> String { run_hs::<Zd<0>, T>(l, m, f) }
fn run_hs_h_unit<T: Cls<1>>(l: usize, m: u64, f: &str) -> String { run_hs::<(), T>(l, m, f) }
fn run_hs_h_b3<T: Cls<1>>(l: usize, m: u64, f: &str) -> String { run_hs::<[u8; 3], T>(l, m, f) }

// ------------------------------------------------------------------------------------------------
// dp <path> <which>: the LAST handle to a value is released while a payload destructor panics
// (which = none | hdr | el).  The block must still be returned to the allocator exactly once, with the
// layout it was requested with (`Box`'s drop glue frees the allocation during unwinding).
thread_local! { static PANIC_ROLE: Cell<i8> = const { Cell::new(-1) }; }
struct Pd<const ROLE: u8>(u32, u64);
impl<const ROLE: u8> Drop for Pd<ROLE> {
    fn drop(&mut self) {
        bump::<ROLE>();
        if PANIC_ROLE.with(|c| c.get()) == ROLE as i8 { PANIC_ROLE.with(|c| c.set(-1)); panic!("scripted destructor panic"); }
    }
}
/// a SUB-WORD payload with drop glue (size 1, align 1: `ArcInner<Ps>` has tail padding)
struct Ps<const ROLE: u8>(u8);
impl<const ROLE: u8> Drop for Ps<ROLE> {
    fn drop(&mut self) {
        bump::<ROLE>();
        if PANIC_ROLE.with(|c| c.get()) == ROLE as i8 { PANIC_ROLE.with(|c| c.set(-1)); panic!("scripted destructor panic"); }
    }
}
trait Dy { fn v(&self) -> u32; }
impl<const ROLE: u8> Dy for Pd<ROLE> { fn v(&self) -> u32 { self.0 } }

fn run_dp(path: &str, which: &str) -> String {
    use harness::{set_recording, take_events, Ev};
    reset();
    type H = Pd<0>;
    type E = Pd<1>;
    take_events();
    set_recording(true);
    // build the handle (recorded: the Arc block is the only allocation with align >= 8 made here)
    enum Hd { A(Arc<E>), O(OffsetArc<E>), U1(ArcUnion<E, H>), U2(ArcUnion<H, E>), Q(UniqueArc<E>), D(Arc<dyn Dy>),
              HS(Arc<HeaderSlice<H, [E]>>), SL(Arc<[E]>), TH(ThinArc<H, E>), R(*const E),
              HSU(UniqueArc<HeaderSlice<H, [MaybeUninit<E>]>>), MU(Arc<MaybeUninit<E>>),
              MUS(Arc<MaybeUninit<Ps<1>>>), AS(Arc<Ps<1>>), QMS(UniqueArc<MaybeUninit<[u8; 3]>>) }
    let mk_vec = || vec![Pd::<1>(1, 1), Pd::<1>(2, 2), Pd::<1>(3, 3)];
    let h = match path {
        "arc" => Hd::A(Arc::new(Pd(1, 1))),
        "clone_last" => { let a = Arc::new(Pd(1, 1)); let b = a.clone(); drop(a); Hd::A(b) }
        "raw" => Hd::R(Arc::into_raw(Arc::new(Pd(1, 1)))),
        "unique" => Hd::Q(UniqueArc::new(Pd(1, 1))),
        "offset" => Hd::O(Arc::into_raw_offset(Arc::new(Pd(1, 1)))),
        "union1" => Hd::U1(ArcUnion::from_first(Arc::new(Pd(1, 1)))),
        "union2" => Hd::U2(ArcUnion::from_second(Arc::new(Pd(1, 1)))),
        "dyn" => { let p = Arc::into_raw(Arc::new(Pd::<1>(1, 1))); let d: *const dyn Dy = p; Hd::D(unsafe { Arc::from_raw(d) }) }
        "hs" => Hd::HS(Arc::from_header_and_vec(Pd(9, 9), mk_vec())),
        "slice" => Hd::SL(Arc::from(mk_vec())),
        "thin" => Hd::TH(ThinArc::from_header_and_iter(Pd(9, 9), mk_vec().into_iter())),
        // C15: handles built uninitialised — dropped before assume_init (one slot written: it is not destroyed), and
        // after assume_init (then header and every element die with the block)
        "hsu_drop" => { let mut u = UniqueArc::from_header_and_uninit_slice(Pd(9, 9), 3); u.slice[0].write(Pd(1, 1)); Hd::HSU(u) }
        "hsu_init" => {
            let mut u = UniqueArc::from_header_and_uninit_slice(Pd(9, 9), 3);
            for (i, s) in u.slice.iter_mut().enumerate() { s.write(Pd(i as u32 + 1, i as u64 + 1)); }
            Hd::HS(unsafe { u.assume_init_slice_with_header() }.shareable())
        }
        "mu_drop" => { let mut u = UniqueArc::<E>::new_uninit(); u.write(Pd(1, 1)); Hd::MU(u.shareable()) }
        // sub-word payloads through UniqueArc::new_uninit (tail padding in the block)
        "mus_drop" => { let mut u = UniqueArc::<Ps<1>>::new_uninit(); u.write(Ps(1)); Hd::MUS(u.shareable()) }
        "mus_init" => { let mut u = UniqueArc::<Ps<1>>::new_uninit(); u.write(Ps(1)); Hd::AS(unsafe { UniqueArc::assume_init(u) }.shareable()) }
        "mu3_drop" => { let mut u = UniqueArc::<[u8; 3]>::new_uninit(); u.write([1, 2, 3]); Hd::QMS(u) }
        "mu_init" => { let mut u = UniqueArc::<E>::new_uninit(); u.write(Pd(1, 1)); Hd::A(unsafe { UniqueArc::assume_init(u) }.shareable()) }
        _ => return "st=badpath".to_string(),
    };
    PANIC_ROLE.with(|c| c.set(match which { "hdr" => 0, "el" => 1, _ => -1 }));
    let r = catch_unwind(AssertUnwindSafe(move || match h {
        Hd::R(p) => drop(unsafe { Arc::from_raw(p) }),
        Hd::A(x) => drop(x), Hd::O(x) => drop(x), Hd::U1(x) => drop(x), Hd::U2(x) => drop(x), Hd::Q(x) => drop(x),
        Hd::D(x) => drop(x), Hd::HS(x) => drop(x), Hd::SL(x) => drop(x), Hd::TH(x) => drop(x),
        Hd::HSU(x) => drop(x), Hd::MU(x) => drop(x), Hd::MUS(x) => drop(x), Hd::AS(x) => drop(x), Hd::QMS(x) => drop(x),
    }));
    PANIC_ROLE.with(|c| c.set(-1));
    set_recording(false);
    let evs = take_events();
    let mut blocks: Vec<(usize, usize, usize, i32, bool)> = Vec::new(); // rec, size, align, frees, layout ok
    for e in &evs {
        match e {
            Ev::Alloc(i, sz, al) if *al >= 8 => blocks.push((*i, *sz, *al, 0, true)),
            Ev::Dealloc(i, sz, al) => { for b in blocks.iter_mut() { if b.0 == *i { b.3 += 1; if (b.1, b.2) != (*sz, *al) { b.4 = false; } } } }
            Ev::DoubleFree(i, _, _) => { for b in blocks.iter_mut() { if b.0 == *i { b.3 += 1; } } }
            _ => {}
        }
    }
    // the Arc block is the LAST surviving align>=8 allocation made before the release; source Vecs of
    // Pd<1> (align 8) are freed by the constructor, so they show up as freed-once blocks too: fine
    let never = blocks.iter().filter(|b| b.3 == 0).count();
    let twice = blocks.iter().filter(|b| b.3 > 1).count();
    let badlay = blocks.iter().filter(|b| !b.4).count();
    format!("st={} blocks={} never_freed={} freed_twice={} wrong_layout={} hdrop={} edrop={}", if r.is_ok() { "ok" } else { "panic" },
            blocks.len(), never, twice, badlay, hd(), ed())
}

// ------------------------------------------------------------------------------------------------
// cowdp <op> <which>: copy-on-write on a SHARED handle whose other owner goes away inside `T::clone`, so that the
// release of the old allocation at the end of make_mut / make_unique is the LAST one and runs the old value's destructor —
// which panics (which = el) or not (which = none).  Afterwards the handle must own the live copy: readable, count 1,
// and both blocks go back to the allocator exactly once.
thread_local! { static OTHER: std::cell::RefCell<Option<Arc<Pc>>> = const { std::cell::RefCell::new(None) }; }
struct Pc(u32, u64);
impl Clone for Pc {
    fn clone(&self) -> Self { let o = OTHER.with(|c| c.borrow_mut().take()); drop(o); Pc(self.0 + 100, self.1) }
}
impl Drop for Pc {
    fn drop(&mut self) {
        bump::<1>();
        if self.0 < 100 && PANIC_ROLE.with(|c| c.get()) == 1 { PANIC_ROLE.with(|c| c.set(-1)); panic!("scripted destructor panic"); }
    }
}
fn run_cowdp(op: &str, which: &str) -> String {
    use harness::{set_recording, take_events, Ev};
    reset();
    take_events();
    set_recording(true);
    let mut a = Arc::new(Pc(7, 7));
    OTHER.with(|c| *c.borrow_mut() = Some(a.clone()));
    PANIC_ROLE.with(|c| c.set(if which == "el" { 1 } else { -1 }));
    let r = catch_unwind(AssertUnwindSafe(|| match op {
        "make_mut" => { Arc::make_mut(&mut a).1 = 8; }
        "make_unique" => { Arc::make_unique(&mut a).1 = 8; }
        _ => {}
    }));
    PANIC_ROLE.with(|c| c.set(-1));
    // the handle after the (possibly unwound) call
    let (v0, cnt) = (a.0, Arc::count(&a));
    drop(a);
    OTHER.with(|c| c.borrow_mut().take());
    set_recording(false);
    let evs = take_events();
    let mut blocks: Vec<(usize, i32)> = Vec::new();
    let bad = 0;
    for e in &evs {
        match e {
            Ev::Alloc(i, _, al) if *al >= 8 => blocks.push((*i, 0)),
            Ev::Dealloc(i, _, _) => { for b in blocks.iter_mut() { if b.0 == *i { b.1 += 1; } } }
            Ev::DoubleFree(i, _, _) => { for b in blocks.iter_mut() { if b.0 == *i { b.1 += 1; } } }
            _ => {}
        }
    }
    format!("st={} val={} cnt={} blocks={} never_freed={} freed_twice={} badread={} edrop={}", if r.is_ok() { "ok" } else { "panic" }, v0, cnt,
            blocks.len(), blocks.iter().filter(|b| b.1 == 0).count(), blocks.iter().filter(|b| b.1 > 1).count(), bad, ed())
}

fn main() {
    harness::quiet_panics();
    let stdin = std::io::stdin();
    let out = std::io::stdout();
    let mut out = std::io::BufWriter::new(out.lock());
    for line in stdin.lock().lines() {
        let line = line.unwrap();
        let f: Vec<&str> = line.split_whitespace().collect();
        if f.is_empty() { continue; }
        let p = |i: usize| -> usize { f.get(i).and_then(|x| x.parse().ok()).unwrap_or(0) };
        let r = match f[0] {
            "hs" if f.len() == 6 => with_ht!(f[1], f[2], p(3), p(4) as u64, f[5]),
            "sl" if f.len() == 5 => with_t!(f[1], run_sl, p(2), p(3) == 1, p(4)),
            "un" if f.len() == 3 => with_t!(f[1], run_un, p(2) == 1),
            "dp" if f.len() == 3 => run_dp(f[1], f[2]),
            "cowdp" if f.len() == 3 => run_cowdp(f[1], f[2]),
            "wr" if f.len() == 4 => { let n: usize = f[3].parse().unwrap_or(0); with_t!(f[1], run_wr, f[2], n) }
            _ => "st=badline".to_string(),
        };
        writeln!(out, "{}", r).unwrap();
    }
    out.flush().unwrap();
}
