import TriompheModel.Model.Cmp
/-!
# Helper definitions and lemmas for C14 (model M5)

`Lawful` is what the Rust documentation of `PartialEq`/`PartialOrd`/`Ord`/`Hash` demands of an
implementation; it is used only for the *consistency* half of C14.  It does **not** demand
reflexivity (floats are `Lawful`, NaN included).
-/
namespace Cmp

/-- the comparison operators of `Q` agree with each other on the pair `(x, y)` -/
structure ConsistentAt {β : Type} (Q : PayloadOps β) (x y : β) : Prop where
  ne_eq : Q.ne x y = !Q.eq x y
  lt_pc : Q.lt x y = isLt (Q.partialCmp x y)
  le_pc : Q.le x y = isLe (Q.partialCmp x y)
  gt_pc : Q.gt x y = isGt (Q.partialCmp x y)
  ge_pc : Q.ge x y = isGe (Q.partialCmp x y)
  eq_pc : Q.eq x y = (Q.partialCmp x y == some .eq)

/-- `PartialEq` + `PartialOrd` contract: `ne` is the complement of `eq`, `lt le gt ge` agree with
`partial_cmp`, and `a == b` iff `partial_cmp(a, b) == Some(Equal)`. -/
def Lawful {β : Type} (Q : PayloadOps β) : Prop := ∀ x y, ConsistentAt Q x y

/-- `Ord` + `Hash` contract on a pair: `partial_cmp` is `Some(cmp)`; equal values hash equally. -/
structure OrdConsistentAt {β : Type} (Q : PayloadOps β) (x y : β) : Prop where
  pc_cmp : Q.partialCmp x y = some (Q.cmp x y)
  eq_hash : Q.eq x y = true → Q.hash x = Q.hash y

/-- lawful payload that is also `Ord + Hash` -/
def LawfulOrd {β : Type} (Q : PayloadOps β) : Prop := Lawful Q ∧ ∀ x y, OrdConsistentAt Q x y

/-! ### small facts -/

theorem thenPartial_eq_some_eq (o r : Option Ordering) :
    (thenPartial o r == some .eq) = ((o == some .eq) && (r == some .eq)) := by
  cases o with
  | none => rfl
  | some v => cases v <;> simp [thenPartial]

theorem thenOrd_some (a b : Ordering) :
    thenPartial (some a) (some b) = some (thenOrd a b) := by
  cases a <;> rfl

theorem nat_compare_beq (a b : Nat) : (compare a b == Ordering.eq) = (a == b) := by
  by_cases h : a = b
  · subst h; simp
  · have hne : compare a b ≠ .eq := fun hc => h (Nat.compare_eq_eq.mp hc)
    have h2 : (a == b) = false := by simp [h]
    rw [h2]
    cases hc : compare a b with
    | lt => rfl
    | gt => rfl
    | eq => exact absurd hc hne

theorem some_beq_some (a b : Ordering) : ((some a : Option Ordering) == some b) = (a == b) := by
  cases a <;> cases b <;> rfl

/-! ### slices -/

theorem elemDiffers_lawful {α : Type} (c : StdCfg) {P : PayloadOps α} (hP : Lawful P) (x y : α) :
    elemDiffers c P x y = !P.eq x y := by
  unfold elemDiffers
  cases c.sliceEqViaNe <;> simp [(hP x y).ne_eq]

theorem sliceEq_nil_nil {α : Type} (c : StdCfg) (P : PayloadOps α) : sliceEq c P [] [] = true := by
  simp [sliceEq, sliceEqLoop]

theorem sliceEq_nil_cons {α : Type} (c : StdCfg) (P : PayloadOps α) (y : α) (ys : List α) :
    sliceEq c P [] (y :: ys) = false := by
  simp [sliceEq]

theorem sliceEq_cons_nil {α : Type} (c : StdCfg) (P : PayloadOps α) (x : α) (xs : List α) :
    sliceEq c P (x :: xs) [] = false := by
  simp [sliceEq]

theorem sliceEq_cons_cons {α : Type} (c : StdCfg) (P : PayloadOps α) (x y : α) (xs ys : List α) :
    sliceEq c P (x :: xs) (y :: ys) = (!elemDiffers c P x y && sliceEq c P xs ys) := by
  unfold sliceEq
  by_cases h : xs.length = ys.length
  · cases hd : elemDiffers c P x y <;> simp [h, sliceEqLoop, hd]
  · cases hd : elemDiffers c P x y <;> simp [h]

/-- equal slices have equal lengths — for *any* payload -/
theorem sliceEq_length {α : Type} (c : StdCfg) (P : PayloadOps α) (xs ys : List α)
    (h : sliceEq c P xs ys = true) : xs.length = ys.length := by
  unfold sliceEq at h
  by_cases hl : xs.length = ys.length
  · exact hl
  · simp [hl] at h

/-- `partial_cmp == Some(Equal)` on slices forces equal lengths — for *any* payload -/
theorem slicePartialCmp_eq_length {α : Type} (P : PayloadOps α) :
    ∀ (xs ys : List α), slicePartialCmp P xs ys = some .eq → xs.length = ys.length
  | [], [], _ => rfl
  | [], _ :: _, h => by simp [slicePartialCmp] at h
  | _ :: _, [], h => by simp [slicePartialCmp] at h
  | x :: xs, y :: ys, h => by
    unfold slicePartialCmp at h
    cases hp : P.partialCmp x y with
    | none => simp [hp] at h
    | some v =>
      cases v with
      | lt => simp [hp] at h
      | gt => simp [hp] at h
      | eq =>
        simp [hp] at h
        simp [slicePartialCmp_eq_length P xs ys h]

/-- `cmp == Equal` on slices forces equal lengths — for *any* payload -/
theorem sliceCmp_eq_length {α : Type} (P : PayloadOps α) :
    ∀ (xs ys : List α), sliceCmp P xs ys = .eq → xs.length = ys.length
  | [], [], _ => rfl
  | [], _ :: _, h => by simp [sliceCmp] at h
  | _ :: _, [], h => by simp [sliceCmp] at h
  | x :: xs, y :: ys, h => by
    unfold sliceCmp at h
    cases hp : P.cmp x y with
    | lt => simp [hp] at h
    | gt => simp [hp] at h
    | eq =>
      simp [hp] at h
      simp [sliceCmp_eq_length P xs ys h]

theorem slicePartialCmp_cons {α : Type} (P : PayloadOps α) (x y : α) (xs ys : List α) :
    slicePartialCmp P (x :: xs) (y :: ys) =
      (match P.partialCmp x y with
       | some .eq => slicePartialCmp P xs ys
       | o => o) := by
  rw [slicePartialCmp]
  cases P.partialCmp x y with
  | none => rfl
  | some v => cases v <;> rfl

/-- for a lawful element type, slice equality is `partial_cmp == Some(Equal)` -/
theorem sliceEq_pc {α : Type} (c : StdCfg) {P : PayloadOps α} (hP : Lawful P) :
    ∀ (xs ys : List α), sliceEq c P xs ys = (slicePartialCmp P xs ys == some .eq)
  | [], [] => by simp [sliceEq_nil_nil, slicePartialCmp]
  | [], _ :: _ => by simp [sliceEq_nil_cons, slicePartialCmp]
  | _ :: _, [] => by simp [sliceEq_cons_nil, slicePartialCmp]
  | x :: xs, y :: ys => by
    rw [sliceEq_cons_cons, elemDiffers_lawful c hP, sliceEq_pc c hP xs ys, (hP x y).eq_pc,
      slicePartialCmp_cons]
    cases hp : P.partialCmp x y with
    | none => simp
    | some v => cases v <;> simp

theorem slice_pc_cmp {α : Type} {P : PayloadOps α} (hP : ∀ x y, P.partialCmp x y = some (P.cmp x y)) :
    ∀ (xs ys : List α), slicePartialCmp P xs ys = some (sliceCmp P xs ys)
  | [], [] => rfl
  | [], _ :: _ => rfl
  | _ :: _, [] => rfl
  | x :: xs, y :: ys => by
    unfold slicePartialCmp sliceCmp
    rw [hP x y]
    cases P.cmp x y <;> simp [slice_pc_cmp hP xs ys]

theorem sliceEq_hashEach {α : Type} (c : StdCfg) {P : PayloadOps α} (hP : Lawful P)
    (hH : ∀ x y, P.eq x y = true → P.hash x = P.hash y) :
    ∀ (xs ys : List α), sliceEq c P xs ys = true → hashEach P xs = hashEach P ys
  | [], [], _ => rfl
  | [], _ :: _, h => by simp [sliceEq_nil_cons] at h
  | _ :: _, [], h => by simp [sliceEq_cons_nil] at h
  | x :: xs, y :: ys, h => by
    rw [sliceEq_cons_cons, elemDiffers_lawful c hP] at h
    simp at h
    simp [hashEach, hH x y h.1, sliceEq_hashEach c hP hH xs ys h.2]

theorem lawful_slice {α : Type} (c : StdCfg) {P : PayloadOps α} (hP : Lawful P) :
    Lawful (sliceOps c P) := fun xs ys =>
  { ne_eq := rfl, lt_pc := rfl, le_pc := rfl, gt_pc := rfl, ge_pc := rfl
    eq_pc := sliceEq_pc c hP xs ys }

theorem lawfulOrd_slice {α : Type} (c : StdCfg) {P : PayloadOps α} (hP : LawfulOrd P) :
    LawfulOrd (sliceOps c P) :=
  ⟨lawful_slice c hP.1, fun xs ys =>
    { pc_cmp := slice_pc_cmp (fun x y => (hP.2 x y).pc_cmp) xs ys
      eq_hash := fun h => by
        show sliceHash P xs = sliceHash P ys
        unfold sliceHash
        rw [sliceEq_length c P xs ys h, sliceEq_hashEach c hP.1 (fun x y => (hP.2 x y).eq_hash) xs ys h] }⟩

/-! ### header-slice types -/

theorem lawful_hs {η σ : Type} {PH : PayloadOps η} {PS : PayloadOps σ} (hH : Lawful PH) (hS : Lawful PS) :
    Lawful (hsOps PH PS) := fun x y =>
  { ne_eq := rfl, lt_pc := rfl, le_pc := rfl, gt_pc := rfl, ge_pc := rfl
    eq_pc := by
      show (PH.eq x.header y.header && PS.eq x.slice y.slice) = _
      rw [(hH _ _).eq_pc, (hS _ _).eq_pc]
      exact (thenPartial_eq_some_eq _ _).symm }

theorem lawfulOrd_hs {η σ : Type} {PH : PayloadOps η} {PS : PayloadOps σ} (hH : LawfulOrd PH) (hS : LawfulOrd PS) :
    LawfulOrd (hsOps PH PS) :=
  ⟨lawful_hs hH.1 hS.1, fun x y =>
    { pc_cmp := by
        show thenPartial (PH.partialCmp x.header y.header) (PS.partialCmp x.slice y.slice) = _
        rw [(hH.2 _ _).pc_cmp, (hS.2 _ _).pc_cmp]
        exact thenOrd_some _ _
      eq_hash := fun h => by
        have h' : (PH.eq x.header y.header && PS.eq x.slice y.slice) = true := h
        simp at h'
        show PH.hash x.header ++ PS.hash x.slice = PH.hash y.header ++ PS.hash y.slice
        rw [(hH.2 _ _).eq_hash h'.1, (hS.2 _ _).eq_hash h'.2] }⟩

/-- `==` of `HeaderSlice<HeaderWithLength<H>, T>` spelled out: header, recorded length, slice -/
theorem hswl_eq_unfold {η σ : Type} (PH : PayloadOps η) (PS : PayloadOps σ) (x y : HSWL η σ) :
    (hswlOps PH PS).eq x y =
      ((PH.eq x.header.header y.header.header && (x.header.length == y.header.length)) && PS.eq x.slice y.slice) := rfl

theorem hswl_hash_unfold {η σ : Type} (PH : PayloadOps η) (PS : PayloadOps σ) (x : HSWL η σ) :
    (hswlOps PH PS).hash x = (PH.hash x.header.header ++ usizeBytes x.header.length) ++ PS.hash x.slice := rfl

/-- the current (fixed) source: ordering and equality of `HeaderSlice<HeaderWithLength<H>, T>` agree
for **every** value, also when the recorded length is not the slice length (F2 repaired) -/
theorem lawful_hswl {η σ : Type} {PH : PayloadOps η} {PS : PayloadOps σ} (hH : Lawful PH) (hS : Lawful PS) :
    Lawful (hswlOps PH PS) := fun x y =>
  { ne_eq := rfl, lt_pc := rfl, le_pc := rfl, gt_pc := rfl, ge_pc := rfl
    eq_pc := by
      rw [hswl_eq_unfold, (hH _ _).eq_pc, (hS _ _).eq_pc]
      show _ = (hswlPartialCmp PH PS x y == some .eq)
      unfold hswlPartialCmp
      rw [thenPartial_eq_some_eq, thenPartial_eq_some_eq]
      have : (usizeOps.partialCmp x.header.length y.header.length == some Ordering.eq)
          = (x.header.length == y.header.length) := by
        show (some (compare x.header.length y.header.length) == some Ordering.eq) = _
        rw [some_beq_some, nat_compare_beq]
      rw [this]
      cases (PH.partialCmp x.header.header y.header.header == some Ordering.eq) <;>
        cases (PS.partialCmp x.slice y.slice == some Ordering.eq) <;>
        cases (x.header.length == y.header.length) <;> rfl }

theorem lawfulOrd_hswl {η σ : Type} {PH : PayloadOps η} {PS : PayloadOps σ} (hH : LawfulOrd PH) (hS : LawfulOrd PS) :
    LawfulOrd (hswlOps PH PS) :=
  ⟨lawful_hswl hH.1 hS.1, fun x y =>
    { pc_cmp := by
        show hswlPartialCmp PH PS x y = some (hswlCmp PH PS x y)
        unfold hswlPartialCmp hswlCmp
        rw [(hH.2 _ _).pc_cmp, (hS.2 _ _).pc_cmp]
        show thenPartial _ (thenPartial _ (some (usizeOps.cmp _ _))) = _
        rw [thenOrd_some, thenOrd_some]
      eq_hash := fun h => by
        rw [hswl_eq_unfold] at h
        simp at h
        rw [hswl_hash_unfold, hswl_hash_unfold, (hH.2 _ _).eq_hash h.1.1, h.1.2, (hS.2 _ _).eq_hash h.2] }⟩

theorem lawful_prot {η τ : Type} (c : StdCfg) {PH : PayloadOps η} {PT : PayloadOps τ}
    (hH : Lawful PH) (hT : Lawful PT) : Lawful (protOps c PH PT) := fun x y =>
  { ne_eq := rfl, lt_pc := rfl, le_pc := rfl, gt_pc := rfl, ge_pc := rfl
    eq_pc := (lawful_hswl hH (lawful_slice c hT) x.inner y.inner).eq_pc }

theorem lawfulOrd_prot {η τ : Type} (c : StdCfg) {PH : PayloadOps η} {PT : PayloadOps τ}
    (hH : LawfulOrd PH) (hT : LawfulOrd PT) : LawfulOrd (protOps c PH PT) :=
  ⟨lawful_prot c hH.1 hT.1, fun x y =>
    { pc_cmp := ((lawfulOrd_hswl hH (lawfulOrd_slice c hT)).2 x.inner y.inner).pc_cmp
      eq_hash := ((lawfulOrd_hswl hH (lawfulOrd_slice c hT)).2 x.inner y.inner).eq_hash }⟩

/-- for values whose recorded length is the slice length the tie-break never decides
(`partial_cmp`), for any payload -/
theorem hswl_pc_lenOk {η τ : Type} (c : StdCfg) (PH : PayloadOps η) (PT : PayloadOps τ)
    (x y : HSWL η (List τ)) (hx : lenOk x) (hy : lenOk y) :
    (hswlOps PH (sliceOps c PT)).partialCmp x y =
      thenPartial (PH.partialCmp x.header.header y.header.header) (slicePartialCmp PT x.slice y.slice) := by
  show hswlPartialCmp PH (sliceOps c PT) x y = _
  unfold hswlPartialCmp
  congr 1
  show thenPartial (slicePartialCmp PT x.slice y.slice) (some (compare x.header.length y.header.length)) = _
  cases hs : slicePartialCmp PT x.slice y.slice with
  | none => rfl
  | some v =>
    cases v with
    | lt => rfl
    | gt => rfl
    | eq =>
      have := slicePartialCmp_eq_length PT _ _ hs
      unfold lenOk at hx hy
      simp [thenPartial, hx, hy, this]

theorem hswl_cmp_lenOk {η τ : Type} (c : StdCfg) (PH : PayloadOps η) (PT : PayloadOps τ)
    (x y : HSWL η (List τ)) (hx : lenOk x) (hy : lenOk y) :
    (hswlOps PH (sliceOps c PT)).cmp x y =
      thenOrd (PH.cmp x.header.header y.header.header) (sliceCmp PT x.slice y.slice) := by
  show hswlCmp PH (sliceOps c PT) x y = _
  unfold hswlCmp
  congr 1
  show thenOrd (sliceCmp PT x.slice y.slice) (compare x.header.length y.header.length) = _
  cases hs : sliceCmp PT x.slice y.slice with
  | lt => rfl
  | gt => rfl
  | eq =>
    have := sliceCmp_eq_length PT _ _ hs
    unfold lenOk at hx hy
    simp [thenOrd, hx, hy, this]

theorem hswl_eq_lenOk {η τ : Type} (c : StdCfg) (PH : PayloadOps η) (PT : PayloadOps τ)
    (x y : HSWL η (List τ)) (hx : lenOk x) (hy : lenOk y) :
    (hswlOps PH (sliceOps c PT)).eq x y =
      (PH.eq x.header.header y.header.header && sliceEq c PT x.slice y.slice) := by
  rw [hswl_eq_unfold]
  show ((PH.eq _ _ && _) && sliceEq c PT x.slice y.slice) = _
  unfold lenOk at hx hy
  cases hs : sliceEq c PT x.slice y.slice with
  | false => simp
  | true =>
    have := sliceEq_length c PT _ _ hs
    simp [hx, hy, this]

/-! ### handles -/

theorem arc_see_through {α : Type} (P : PayloadOps α) (a b : Handle α) (h : a.alloc ≠ b.alloc)
    (o : Observer) : observe (arcOps P) o a b = observe P o a.val b.val := by
  cases o <;> simp [observe, arcOps, ptrEq, h]

/-- every observer of `Arc` other than `eq`/`ne` ignores the allocation altogether -/
theorem arc_see_through_any {α : Type} (P : PayloadOps α) (a b : Handle α)
    (o : Observer) (h1 : o ≠ .eq) (h2 : o ≠ .ne) : observe (arcOps P) o a b = observe P o a.val b.val := by
  cases o <;> simp_all [observe, arcOps]

theorem consistent_arc {α : Type} {P : PayloadOps α} (hP : Lawful P) (a b : Handle α)
    (hwf : a.WF b) (h : a.alloc ≠ b.alloc ∨ P.eq a.val a.val = true) : ConsistentAt (arcOps P) a b where
  ne_eq := by
    show (!ptrEq a b && P.ne a.val b.val) = !(ptrEq a b || P.eq a.val b.val)
    rw [(hP _ _).ne_eq]; cases ptrEq a b <;> simp
  lt_pc := (hP _ _).lt_pc
  le_pc := (hP _ _).le_pc
  gt_pc := (hP _ _).gt_pc
  ge_pc := (hP _ _).ge_pc
  eq_pc := by
    show (ptrEq a b || P.eq a.val b.val) = (P.partialCmp a.val b.val == some .eq)
    by_cases hab : a.alloc = b.alloc
    · have hv : a.val = b.val := hwf hab
      have hr : P.eq a.val a.val = true := by
        cases h with
        | inl h => exact absurd hab h
        | inr h => exact h
      rw [← hv, ← (hP _ _).eq_pc, hr]; simp
    · simp [ptrEq, hab, (hP _ _).eq_pc]

theorem ordConsistent_arc {α : Type} {P : PayloadOps α} (hP : LawfulOrd P) (a b : Handle α)
    (hwf : a.WF b) : OrdConsistentAt (arcOps P) a b where
  pc_cmp := (hP.2 _ _).pc_cmp
  eq_hash := fun h => by
    show P.hash a.val = P.hash b.val
    by_cases hab : a.alloc = b.alloc
    · rw [hwf hab]
    · have : (ptrEq a b || P.eq a.val b.val) = true := h
      simp [ptrEq, hab] at this
      exact (hP.2 _ _).eq_hash this

theorem thin_see_through {η τ : Type} (c : StdCfg) (PH : PayloadOps η) (PT : PayloadOps τ)
    (a b : ThinH η τ) (h : a.alloc ≠ b.alloc) (o : Observer) (ho : o ∈ Kind.thin.traits) :
    observe (thinOps c PH PT) o a b = observe (hswlOps PH (sliceOps c PT)) o a.val b.val := by
  simp [Kind.traits] at ho
  rcases ho with rfl | rfl | rfl | rfl | rfl | rfl | rfl | rfl | rfl | rfl <;>
    simp [observe, thinOps, arcOps, ptrEq, h, defNe, defLt, defLe, defGt, defGe, hswlOps, hsOps]

theorem consistent_thin {η τ : Type} (c : StdCfg) {PH : PayloadOps η} {PT : PayloadOps τ}
    (hH : Lawful PH) (hT : Lawful PT) (a b : ThinH η τ) (hwf : a.WF b)
    (h : a.alloc ≠ b.alloc ∨ (hswlOps PH (sliceOps c PT)).eq a.val a.val = true) :
    ConsistentAt (thinOps c PH PT) a b where
  ne_eq := rfl
  lt_pc := rfl
  le_pc := rfl
  gt_pc := rfl
  ge_pc := rfl
  eq_pc := (consistent_arc (lawful_hswl hH (lawful_slice c hT)) a b hwf h).eq_pc

theorem ordConsistent_thin {η τ : Type} (c : StdCfg) {PH : PayloadOps η} {PT : PayloadOps τ}
    (hH : LawfulOrd PH) (hT : LawfulOrd PT) (a b : ThinH η τ) (hwf : a.WF b) :
    OrdConsistentAt (thinOps c PH PT) a b where
  pc_cmp := (ordConsistent_arc (lawfulOrd_hswl hH (lawfulOrd_slice c hT)) a b hwf).pc_cmp
  eq_hash := (ordConsistent_arc (lawfulOrd_hswl hH (lawfulOrd_slice c hT)) a b hwf).eq_hash

/-! ### concrete payloads are lawful (non-vacuity) -/

theorem consistent_nat (x y : Nat) : ConsistentAt natOps x y := by
  rcases Nat.lt_trichotomy x y with h | h | h
  · have h1 := Nat.compare_eq_lt.mpr h
    have h2 : x ≠ y := Nat.ne_of_lt h
    have h3 : ¬ y < x := Nat.not_lt.mpr (Nat.le_of_lt h)
    have h4 : x ≤ y := Nat.le_of_lt h
    have h5 : ¬ y ≤ x := Nat.not_le.mpr h
    constructor <;> first | rfl | simp [natOps, usizeOps, isLt, isLe, isGt, isGe, h1, h2, h3, h4, h5, h]
  · subst h
    constructor <;> simp [natOps, usizeOps, isLt, isLe, isGt, isGe]
  · have h1 := Nat.compare_eq_gt.mpr h
    have h2 : x ≠ y := Nat.ne_of_gt h
    have h3 : ¬ x < y := Nat.not_lt.mpr (Nat.le_of_lt h)
    have h4 : y ≤ x := Nat.le_of_lt h
    have h5 : ¬ x ≤ y := Nat.not_le.mpr h
    constructor <;> first | rfl | simp [natOps, usizeOps, isLt, isLe, isGt, isGe, h1, h2, h3, h4, h5, h]

theorem lawfulOrd_nat : LawfulOrd natOps :=
  ⟨consistent_nat, fun x y => ⟨rfl, fun h => by
      have : (x == y) = true := h
      simp at this; rw [this]⟩⟩

theorem lawful_flt : Lawful fltOps := fun _ _ =>
  { ne_eq := rfl, lt_pc := rfl, le_pc := rfl, gt_pc := rfl, ge_pc := rfl, eq_pc := rfl }

end Cmp
