"""C03 — mutable access only for a sole owner, ordered after all former sharers.

Deciding method: (histories) Lean theorems in Props/C03.lean over M1: every uniqueness gate succeeds
iff `owners = 1` and leaves the state unchanged when it declines — tied by the history
correspondence; (schedules) `unique_verdict_exclusive` of the weak-memory model M4 instantiated at
the gate facts the translator reads from the source on this run (every load a gate reaches is at
least Acquire, the verdict compares with 1).  Miri litmus programs are the failing-input search.
"""
import json

from vlib import common, histcheck, miri

MODULE = "TriompheModel.Props.C03"
EXTRA = ["TriompheModel.Props.C03Sched", "TriompheModel.Props.Gates", "TriompheModel.WM.Later", "TriompheModel.Props.Monitor", "TriompheModel.Props.ApiShape", "TriompheModel.Props.C03Programs"]
TAGS = ["C03"]
WEIGHTS = dict(isUnique=12, getMut=12, getUnique=8, tryUnique=10, tryUnwrap=6, writeSlot=10, cb=14, makeMut=6, clone=16, conv=14)
PROGRAMS_QUICK = ["poll_get_mut_write", "sole_owner_gates"]


def schedule_part(ctx, prop, programs_quick):
    facts = common.regen_facts(ctx)
    a = facts.get("atomics", {})
    ctx.coverage["generated_facts"] = {"gates": a.get("gates"), "isUniqueGuard": a.get("isUniqueGuard"), "countLoadOrd": a.get("countLoadOrd"),
                                       "decOrd": a.get("decOrd")}
    progs = programs_quick if not ctx.thorough() else miri.programs_for(prop)
    res = miri.run_suite(ctx, progs, miri.seeds(ctx, 2 if not ctx.thorough() else 24))
    cov = miri.coverage(res)
    ctx.coverage["miri"] = {k: cov[k] for k in cov if k not in ("samples",)}
    ctx.coverage["miri_samples"] = cov.get("samples", [])[:3]
    bad = miri.failing(res)
    ctx.oblige("miri:litmus-race-free", not bad, "%d failing runs" % len(bad))
    return facts, res, bad


def schedule_search(ctx, prop, bad, lean_failed):
    """called when a Lean obligation on the gate facts failed: find a Miri witness"""
    if not bad:
        more = miri.run_suite(ctx, miri.programs_for(prop), miri.seeds(ctx, 16), stop_first=True)
        bad = miri.failing(more)
        ctx.coverage["search_runs"] = len(more)
    body = ["Lean obligations on the regenerated gate facts that no longer check: %s" % lean_failed,
            "generated facts: " + json.dumps(ctx.coverage.get("generated_facts")), ""]
    try:
        body += [common.wm_search(ctx, common.regen_facts(ctx))[1], ""]
    except Exception as e:
        body += ["model-side search failed to run: %s" % e, ""]
    if bad:
        r = bad[0]
        body += ["failing input: Miri litmus program `%s` with -Zmiri-seed=%d:" % (r["program"], r["seed"]), "  replay: " + r["cmd"], r["report"]]
        ctx.violation("miri", "\n".join(body), True)
    else:
        nat = miri.run_native(ctx, miri.programs_for(prop))
        nbad = miri.failing(nat)
        if nbad:
            r = nbad[0]
            body += ["failing input: litmus program `%s` run natively (%d rounds, real threads):" % (r["program"], r.get("rounds", 0)), "  replay: " + r["cmd"], r["report"]]
            ctx.violation("native", "\n".join(body), True)
        else:
            body.append("search: Miri runs and native stress runs found no race")
            ctx.defer_nfi("\n".join(body))


def run(ctx):
    facts, res, bad = schedule_part(ctx, "C03", PROGRAMS_QUICK)
    histcheck.run(ctx, MODULE, WEIGHTS, TAGS, lean_extra=EXTRA,
                  release_quick_filter=lambda h: any(op.split()[0] in ('writeSlot', 'getMut', 'tryUnique') for op in h))
    if bad and not any(v["kind"] == "miri" for v in ctx.violations) and not getattr(ctx, "sched_handled", False):
        schedule_search(ctx, "C03", bad, [])


def replay(ctx, path):
    if "kind: miri" in open(path).read():
        miri.replay(ctx, path)
    else:
        histcheck.replay(ctx, path, TAGS)
