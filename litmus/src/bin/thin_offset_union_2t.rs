//! C02: one clone/read/drop scenario per non-`Arc` handle kind (ThinArc, OffsetArc, ArcUnion first
//! and second, ArcBorrow::clone_arc): every kind must funnel into the same ordered decrement.
use litmus::*;
use triomphe::OffsetArc;

fn main() {
    let mut t = Tally::new();
    for r in 0..rounds(2) {
        let b = 50 + 10 * r as u64;
        clone_read_drop::<Thin>(&mut t, 2, b);
        clone_read_drop::<OffsetArc<Payload>>(&mut t, 2, b + 1);
        clone_read_drop::<UnionFirst>(&mut t, 2, b + 2);
        clone_read_drop::<UnionSecond>(&mut t, 2, b + 3);
        clone_read_drop::<ViaBorrow>(&mut t, 2, b + 4);
    }
    t.finish();
}
