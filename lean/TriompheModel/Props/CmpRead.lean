import TriompheModel.Model.Ops
/-!
# Comparison, hashing and formatting through handles are reads (C04, C07, C14 — history half)

In the model a `cmp a b` line is **not a `step`**: `cmpAnswer` returns an answer computed from the
memory and the driver prints the unchanged state (`Driver/Hist.lean`).  That they leave every count,
block and value alone on the real code — also while the payload's `eq` / `cmp` / `hash` / `fmt` runs, and
also when it panics — is what the correspondence and the monitors check on every `cmp` line
(vlib/hist.py: state identical, no events, counts read inside the payload's impl equal the owning handles).

What is proved here is that the *answers* the model gives are those of a comparison by value:
an ordering that is `eq` exactly on equal keys (so `==` and `partial_cmp` agree — the property the
`fix:` commit on `HeaderWithLength`'s ordering restored), antisymmetric, and blind to which allocation or
which handle the values were reached through.
-/
namespace M1
namespace CmpRead

theorem lexCmp_eq_iff (a b : List Nat) : lexCmp a b = .eq ↔ a = b := by
  induction a generalizing b with
  | nil => cases b <;> simp [lexCmp]
  | cons x xs ih =>
    cases b with
    | nil => simp [lexCmp]
    | cons y ys =>
      simp only [lexCmp]
      by_cases h1 : x < y
      · simp [h1]; omega
      · by_cases h2 : y < x
        · simp [h1, h2]; omega
        · have : x = y := by omega
          simp [h1, h2, this, ih]

theorem lexCmp_swap (a b : List Nat) : (lexCmp a b).swap = lexCmp b a := by
  induction a generalizing b with
  | nil => cases b <;> simp [lexCmp, Ordering.swap]
  | cons x xs ih =>
    cases b with
    | nil => simp [lexCmp, Ordering.swap]
    | cons y ys =>
      simp only [lexCmp]
      by_cases h1 : x < y
      · have : ¬ y < x := by omega
        simp [h1, this, Ordering.swap]
      · by_cases h2 : y < x
        · simp [h1, h2, Ordering.swap]
        · simp [h1, h2, ih]

/-- **the ordering is consistent with equality**: `partial_cmp` answers `Equal` exactly when `==`
answers `true` (keys with the same shape: both with or both without a recorded length) -/
theorem keyCmp_eq_iff (x y : List Nat × List Nat × Option Nat) (hs : x.2.2.isSome = y.2.2.isSome) :
    keyCmp x y = .eq ↔ x = y := by
  obtain ⟨x1, x2, x3⟩ := x
  obtain ⟨y1, y2, y3⟩ := y
  simp only [keyCmp]
  constructor
  · intro h
    cases h1 : lexCmp x1 y1 <;> simp [h1] at h
    cases h2 : lexCmp x2 y2 <;> simp [h2] at h
    have e1 := (lexCmp_eq_iff _ _).1 h1
    have e2 := (lexCmp_eq_iff _ _).1 h2
    have e3 : x3.getD 0 = y3.getD 0 := by
      exact h
    subst e1; subst e2
    cases x3 <;> cases y3 <;> simp_all
  · intro h
    cases h
    simp [(lexCmp_eq_iff x1 x1).2 rfl, (lexCmp_eq_iff x2 x2).2 rfl, compare, compareOfLessAndEq]

/-- **antisymmetry**: swapping the operands swaps the answer -/
theorem keyCmp_swap (x y : List Nat × List Nat × Option Nat) : (keyCmp x y).swap = keyCmp y x := by
  obtain ⟨x1, x2, x3⟩ := x
  obtain ⟨y1, y2, y3⟩ := y
  simp only [keyCmp]
  rw [← lexCmp_swap y1 x1, ← lexCmp_swap y2 x2]
  cases lexCmp y1 x1 <;> simp [Ordering.swap]
  cases lexCmp y2 x2 <;> simp [Ordering.swap]
  rcases Nat.lt_trichotomy (x3.getD 0) (y3.getD 0) with l | e | g
  · have : ¬ y3.getD 0 < x3.getD 0 := by omega
    have ne : y3.getD 0 ≠ x3.getD 0 := by omega
    simp [compare, compareOfLessAndEq, l, this, ne]
  · simp [compare, compareOfLessAndEq, e]
  · have : ¬ x3.getD 0 < y3.getD 0 := by omega
    have ne : x3.getD 0 ≠ y3.getD 0 := by omega
    simp [compare, compareOfLessAndEq, g, this, ne]

/-- **the licence "same allocation ⇒ equal" is consistent with comparison by value**: two handles of
the same type to the same block see the same key (the payload universe has no value unequal to itself) -/
theorem same_allocation_same_key (m : Mem) (x y : HV) (hk : x.kind = y.kind) (ht : x.ty = y.ty)
    (hb : x.blk = y.blk) (hl : x.len = y.len) : cmpKey m x = cmpKey m y := by
  simp [cmpKey, viewLen, hk, ht, hb, hl]

/-- the answer does not depend on the counts: another owner coming or going changes nothing -/
theorem cmpKey_incr (m : Mem) (b : Nat) (x : HV) : cmpKey (incr m b) x = cmpKey m x := by
  have hget : ∀ i, (incr m b).blocks[i]? = (m.blocks[i]?).map (fun k => if b = i then { k with count := k.count + 1 } else k) := by
    intro i
    simp only [incr, Mem.upd, List.getElem?_modify]
    cases m.blocks[i]? <;> simp
  have hrec : ∀ i : Nat, ((incr m b).blocks[i]?.bind Block.recLen) = (m.blocks[i]?.bind Block.recLen) := by
    intro i; rw [hget]; cases m.blocks[i]? <;> simp; split <;> rfl
  have hv : viewLen (incr m b) x = viewLen m x := by
    unfold viewLen; rw [hrec]
  unfold cmpKey
  rw [hv, hget]
  cases m.blocks[x.blk]? with
  | none => rfl
  | some k => simp only [Option.map]; split <;> rfl

example : keyCmp ([9], [1, 2], some 2) ([9], [1, 2], some 3) = .lt := by decide
example : keyCmp ([9], [1, 2], none) ([9], [1], none) = .gt := by decide

end CmpRead
end M1
