"""C06 — constructors deliver exactly the given contents and move each element once.

Deciding method: Lean theorems in Props/C06.lean over the sequential handle machine M1/M3 (invariant
`Inv` preserved by every op, by induction over histories of any length), tied to the code by the
history correspondence (Tie B): the same op lines run on the Lean driver and on the real library.
"""
from vlib import histcheck

MODULE = "TriompheModel.Props.C06"
EXTRA = ["TriompheModel.Props.Monitor"]
TAGS = ['C06']
WEIGHTS = {'create': 30, 'iter': 22, 'conv': 8, 'drop': 10, 'clone': 6}


def run(ctx):
    histcheck.run(ctx, MODULE, WEIGHTS, TAGS, lean_extra=EXTRA,
                  release_quick_filter=lambda h: any(op.split()[0] in ('iter',) for op in h))
    # constructors that need `T: Copy` (from_header_and_slice, From<&[T]>, From<&str>, From<String>) and every
    # header/element size-alignment class: the shape-matrix harness, contents read back
    from vlib import layout_corr
    okc, stats, texts = layout_corr.contents_pass(ctx)
    ctx.oblige("corr:constructor-contents-over-shape-matrix", okc, str(stats))
    ctx.coverage["shape_matrix_contents"] = stats
    ctx.coverage["evaluations"] = ctx.coverage.get("evaluations", 0) + stats["cases"]
    if not okc:
        ctx.violation("ops", "constructor over the size/alignment matrix: contents read back differ from the input\n\n" + "\n\n".join(texts), True)


def replay(ctx, path):
    histcheck.replay(ctx, path, TAGS)
