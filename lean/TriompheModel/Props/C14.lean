import TriompheModel.Proofs.Cmp
/-!
# C14 — comparison, ordering, hashing and formatting see through the pointer

Model: `Model/Cmp.lean` (M5) — every trait method of every handle kind written as the source
delegates, `#[derive]`s expanded, trait default methods where the source defines none.

All theorems quantify over **every** `PayloadOps` (eleven independent functions, no relation assumed
between them) and every `StdCfg`; only `C14_consistent_of_lawful` and `C14_eq_hash` assume that the
payload's own operators are `Lawful` / `LawfulOrd` (which does not include reflexivity: floats
qualify).  `Handle.WF a b` says that two handles into one allocation see one value.

What "the payload's own operator" means for operators a type does not define itself: Rust supplies
the default (`ne := !eq`, `lt := partial_cmp == Some(Less)`, …).  `ThinArc`, `ArcUnion` and the
derived impls of the header types use those defaults, so e.g. `ArcUnion`'s `!=` is `!(a == b)` on
the payload, which is the payload's `!=` exactly when the payload's `ne` is the complement of its
`eq` (`Lawful`).  The statements below say precisely which form holds.
-/
open Cmp
namespace C14

/-- **See-through.**  For handles in distinct allocations every observer that exists on the handle
kind returns what the same observer returns on the held values.
* `Arc`: all eleven.
* `OffsetArc`, `ArcBorrow`: `eq`, `ne`, `Debug` (all there is) — whatever the allocations.
* `ArcUnion`, same variant: `eq` is the payload's, `ne` is its negation (trait default), `Debug`
  is the variant name around the payload's `Debug`.
* `ThinArc`: all ten (no `Display`) equal those of the `HeaderSlice<HeaderWithLength<H>, [T]>` it
  dereferences to; `Arc<HeaderSliceWithLengthProtected>` forwards to `inner`.
* the header-slice value types themselves compose the payload operators lexicographically
  (`C14_header_then_slice`). -/
theorem C14_see_through {α β η τ : Type} (c : StdCfg)
    (P : PayloadOps α) (PB : PayloadOps β) (PH : PayloadOps η) (PT : PayloadOps τ) :
    (∀ (a b : Handle α) (o : Observer), a.alloc ≠ b.alloc →
        observe (arcOps P) o a b = observe P o a.val b.val) ∧
    (∀ (a b : Handle α) (o : Observer), o ∈ Kind.offset.traits →
        observe (offsetOps P) o a b = observe P o a.val b.val) ∧
    (∀ (a b : Handle α) (o : Observer), o ∈ Kind.borrow.traits →
        observe (borrowOps P) o a b = observe P o a.val b.val) ∧
    (∀ (a b : Handle α),
        (unionOps P PB).eq (.first a) (.first b) = P.eq a.val b.val ∧
        (unionOps P PB).ne (.first a) (.first b) = !P.eq a.val b.val ∧
        (unionOps P PB).debug (.first a) = "First(" ++ P.debug a.val ++ ")") ∧
    (∀ (a b : Handle β),
        (unionOps P PB).eq (.second a) (.second b) = PB.eq a.val b.val ∧
        (unionOps P PB).ne (.second a) (.second b) = !PB.eq a.val b.val ∧
        (unionOps P PB).debug (.second a) = "Second(" ++ PB.debug a.val ++ ")") ∧
    (∀ (a b : ThinH η τ) (o : Observer), o ∈ Kind.thin.traits → a.alloc ≠ b.alloc →
        observe (thinOps c PH PT) o a b = observe (hswlOps PH (sliceOps c PT)) o a.val b.val) ∧
    (∀ (x y : Protected η τ) (o : Observer), o ∈ Kind.prot.traits → o ≠ .debug →
        observe (protOps c PH PT) o x y = observe (hswlOps PH (sliceOps c PT)) o x.inner y.inner) := by
  refine ⟨fun a b o h => arc_see_through P a b h o, ?_, ?_, ?_, ?_, ?_, ?_⟩
  · intro a b o ho
    simp [Kind.traits] at ho
    rcases ho with rfl | rfl | rfl <;> rfl
  · intro a b o ho
    simp [Kind.traits] at ho
    rcases ho with rfl | rfl | rfl <;> rfl
  · intro a b; exact ⟨rfl, rfl, rfl⟩
  · intro a b; exact ⟨rfl, rfl, rfl⟩
  · intro a b o ho h; exact thin_see_through c PH PT a b h o ho
  · intro x y o ho hd
    simp [Kind.traits] at ho
    rcases ho with rfl | rfl | rfl | rfl | rfl | rfl | rfl | rfl | rfl | rfl <;>
      first | rfl | exact absurd rfl hd

/-- An `ArcUnion` holding the first variant never equals one holding the second — whatever the
payloads answer and wherever the allocations are. -/
theorem C14_cross_variant_ne {α β : Type} (PA : PayloadOps α) (PB : PayloadOps β)
    (a : Handle α) (b : Handle β) :
    (unionOps PA PB).eq (.first a) (.second b) = false ∧
    (unionOps PA PB).eq (.second b) (.first a) = false ∧
    (unionOps PA PB).ne (.first a) (.second b) = true ∧
    (unionOps PA PB).ne (.second b) (.first a) = true :=
  ⟨rfl, rfl, rfl, rfl⟩

/-- **The one licence.**  Two handles to the same allocation: `Arc`'s (and `ThinArc`'s) `==` is `true`
and `!=` is `false` without consulting the payload (so also for a NaN); every other observer is
still the payload's.  `OffsetArc`/`ArcBorrow`/`ArcUnion` take no licence at all (see
`C14_see_through`: their statements need no allocation hypothesis). -/
theorem C14_same_alloc_licence {α η τ : Type} (c : StdCfg)
    (P : PayloadOps α) (PH : PayloadOps η) (PT : PayloadOps τ) :
    (∀ (a b : Handle α), a.alloc = b.alloc →
        (arcOps P).eq a b = true ∧ (arcOps P).ne a b = false) ∧
    (∀ (a b : Handle α) (o : Observer), o ≠ .eq → o ≠ .ne →
        observe (arcOps P) o a b = observe P o a.val b.val) ∧
    (∀ (a b : ThinH η τ), a.alloc = b.alloc →
        (thinOps c PH PT).eq a b = true ∧ (thinOps c PH PT).ne a b = false) ∧
    (∀ (a b : ThinH η τ) (o : Observer), o ∈ Kind.thin.traits → o ≠ .eq → o ≠ .ne →
        observe (thinOps c PH PT) o a b = observe (hswlOps PH (sliceOps c PT)) o a.val b.val) := by
  refine ⟨?_, fun a b o h1 h2 => arc_see_through_any P a b o h1 h2, ?_, ?_⟩
  · intro a b h
    simp [arcOps, Cmp.ptrEq, h]
  · intro a b h
    simp [thinOps, arcOps, Cmp.ptrEq, h, defNe]
  · intro a b o ho h1 h2
    simp [Kind.traits] at ho
    rcases ho with rfl | rfl | rfl | rfl | rfl | rfl | rfl | rfl | rfl | rfl <;>
      first | exact absurd rfl h1 | exact absurd rfl h2 | rfl

/-- **Header first, then slice.**  `HeaderSlice<H, T>` compares, orders and hashes as the pair
(header, slice), lexicographically, its `lt le gt ge` being read off that `partial_cmp`; slices are
lexicographic in their elements with the shorter prefix first and hash as length-then-elements.
`HeaderSlice<HeaderWithLength<H>, [T]>` orders as (header, slice, recorded length); whenever the
recorded length is the slice length on both sides — everything behind a `ThinArc` or a
`HeaderSliceWithLengthProtected` — the length never decides: `partial_cmp`, `cmp` and `==` are those
of (header, slice).  All of it for arbitrary payload operators. -/
theorem C14_header_then_slice {η σ τ : Type} (c : StdCfg)
    (PH : PayloadOps η) (PS : PayloadOps σ) (PT : PayloadOps τ) :
    (∀ (x y : HeaderSlice η σ),
        (hsOps PH PS).partialCmp x y =
          (match PH.partialCmp x.header y.header with
           | some .eq => PS.partialCmp x.slice y.slice
           | o => o) ∧
        (hsOps PH PS).cmp x y =
          (match PH.cmp x.header y.header with
           | .eq => PS.cmp x.slice y.slice
           | o => o) ∧
        (hsOps PH PS).eq x y = (PH.eq x.header y.header && PS.eq x.slice y.slice) ∧
        (hsOps PH PS).ne x y = !(hsOps PH PS).eq x y ∧
        (hsOps PH PS).lt x y = isLt ((hsOps PH PS).partialCmp x y) ∧
        (hsOps PH PS).le x y = isLe ((hsOps PH PS).partialCmp x y) ∧
        (hsOps PH PS).gt x y = isGt ((hsOps PH PS).partialCmp x y) ∧
        (hsOps PH PS).ge x y = isGe ((hsOps PH PS).partialCmp x y) ∧
        (hsOps PH PS).hash x = PH.hash x.header ++ PS.hash x.slice) ∧
    (∀ (x y : τ) (xs ys : List τ),
        (sliceOps c PT).partialCmp (x :: xs) (y :: ys) =
          (match PT.partialCmp x y with
           | some .eq => (sliceOps c PT).partialCmp xs ys
           | o => o) ∧
        (sliceOps c PT).partialCmp [] (y :: ys) = some .lt ∧
        (sliceOps c PT).partialCmp (x :: xs) [] = some .gt ∧
        (sliceOps c PT).partialCmp ([] : List τ) [] = some .eq ∧
        (sliceOps c PT).hash xs = usizeBytes xs.length ++ hashEach PT xs) ∧
    (∀ (x y : HSWL η (List τ)),
        (hswlOps PH (sliceOps c PT)).partialCmp x y =
          thenPartial (PH.partialCmp x.header.header y.header.header)
            (thenPartial (slicePartialCmp PT x.slice y.slice)
              (some (compare x.header.length y.header.length)))) ∧
    (∀ (x y : HSWL η (List τ)), lenOk x → lenOk y →
        (hswlOps PH (sliceOps c PT)).partialCmp x y =
          thenPartial (PH.partialCmp x.header.header y.header.header) (slicePartialCmp PT x.slice y.slice) ∧
        (hswlOps PH (sliceOps c PT)).cmp x y =
          thenOrd (PH.cmp x.header.header y.header.header) (sliceCmp PT x.slice y.slice) ∧
        (hswlOps PH (sliceOps c PT)).eq x y =
          (PH.eq x.header.header y.header.header && sliceEq c PT x.slice y.slice)) := by
  refine ⟨fun x y => ⟨?_, ?_, rfl, rfl, rfl, rfl, rfl, rfl, rfl⟩, fun x y xs ys => ⟨?_, rfl, rfl, rfl, rfl⟩,
    fun x y => rfl, fun x y hx hy => ⟨hswl_pc_lenOk c PH PT x y hx hy, hswl_cmp_lenOk c PH PT x y hx hy,
      hswl_eq_lenOk c PH PT x y hx hy⟩⟩
  · show thenPartial _ _ = _
    unfold thenPartial
    cases PH.partialCmp x.header y.header with
    | none => rfl
    | some v => cases v <;> rfl
  · show thenOrd _ _ = _
    unfold thenOrd
    cases PH.cmp x.header y.header <;> rfl
  · exact slicePartialCmp_cons PT x y xs ys

/-- **Consistency.**  If the payload's own operators are lawful then on every publicly constructible
value the operators of each handle kind and header type agree with one another: `ne = !eq`,
`lt le gt ge` as read off `partial_cmp`, and `==` iff `partial_cmp == Some(Equal)`.
For `HeaderSlice<HeaderWithLength<H>, [T]>` this holds for **all** values, including those whose
recorded length differs from the slice length (`Arc::from_header_and_slice(HeaderWithLength::new(h, n), ..)`
is public): that is the repaired defect F2.  For `Arc`/`ThinArc` the same-allocation licence is
excluded exactly as the property says: the pair is in distinct allocations or the value equals
itself; `ne = !eq` holds even without that. -/
theorem C14_consistent_of_lawful {α β η τ : Type} (c : StdCfg)
    {P : PayloadOps α} {PB : PayloadOps β} {PH : PayloadOps η} {PT : PayloadOps τ}
    (hP : Lawful P) (hH : Lawful PH) (hT : Lawful PT) :
    (∀ (a b : Handle α), a.WF b → (a.alloc ≠ b.alloc ∨ P.eq a.val a.val = true) →
        ConsistentAt (arcOps P) a b) ∧
    (∀ (a b : Handle α), (arcOps P).ne a b = !(arcOps P).eq a b) ∧
    (∀ (a b : Handle α), (offsetOps P).ne a b = !(offsetOps P).eq a b) ∧
    (∀ (a b : Handle α), (borrowOps P).ne a b = !(borrowOps P).eq a b) ∧
    (∀ (a b : UnionH α β), (unionOps P PB).ne a b = !(unionOps P PB).eq a b) ∧
    Lawful (sliceOps c PT) ∧
    Lawful (hsOps PH (sliceOps c PT)) ∧
    Lawful (hswlOps PH (sliceOps c PT)) ∧
    Lawful (protOps c PH PT) ∧
    (∀ (a b : ThinH η τ), a.WF b →
        (a.alloc ≠ b.alloc ∨ (hswlOps PH (sliceOps c PT)).eq a.val a.val = true) →
        ConsistentAt (thinOps c PH PT) a b) := by
  refine ⟨fun a b hwf h => consistent_arc hP a b hwf h, ?_, ?_, ?_, fun _ _ => rfl,
    lawful_slice c hT, lawful_hs hH (lawful_slice c hT), lawful_hswl hH (lawful_slice c hT),
    lawful_prot c hH hT, fun a b hwf h => consistent_thin c hH hT a b hwf h⟩
  · intro a b
    show (!Cmp.ptrEq a b && P.ne a.val b.val) = !(Cmp.ptrEq a b || P.eq a.val b.val)
    rw [(hP _ _).ne_eq]; cases Cmp.ptrEq a b <;> simp
  · intro a b; exact (hP _ _).ne_eq
  · intro a b; exact (hP _ _).ne_eq

/-- **Equal handles hash equally** (and `partial_cmp = Some(cmp)`), for `Ord + Hash` payloads:
`Arc`, `ThinArc`, the three header-slice types and slices. -/
theorem C14_eq_hash {α η τ : Type} (c : StdCfg)
    {P : PayloadOps α} {PH : PayloadOps η} {PT : PayloadOps τ}
    (hP : LawfulOrd P) (hH : LawfulOrd PH) (hT : LawfulOrd PT) :
    (∀ (a b : Handle α), a.WF b → OrdConsistentAt (arcOps P) a b) ∧
    (∀ (a b : ThinH η τ), a.WF b → OrdConsistentAt (thinOps c PH PT) a b) ∧
    LawfulOrd (sliceOps c PT) ∧
    LawfulOrd (hsOps PH (sliceOps c PT)) ∧
    LawfulOrd (hswlOps PH (sliceOps c PT)) ∧
    LawfulOrd (protOps c PH PT) :=
  ⟨fun a b hwf => ordConsistent_arc hP a b hwf, fun a b hwf => ordConsistent_thin c hH hT a b hwf,
    lawfulOrd_slice c hT, lawfulOrd_hs hH (lawfulOrd_slice c hT), lawfulOrd_hswl hH (lawfulOrd_slice c hT),
    lawfulOrd_prot c hH hT⟩

/-- **`Borrow<T> for Arc<T>`**: an `Arc<T>` can stand in for `T` as a map key.  `borrow` is `Deref`,
the hash stream of the handle is the hash stream of the value, and `==` on handles in distinct
allocations is `==` on the values; if the payload's `==` is reflexive the allocation does not
matter at all.  Consequently a lookup with `&T` in a `HashMap`/`BTreeMap` keyed by `Arc<T>` (the
model `hmGet`/`btGet`) finds exactly the entry a map keyed by `T` would find. -/
theorem C14_borrow_key {α : Type} (P : PayloadOps α) :
    (∀ (a : Handle α), (arcOps P).hash a = P.hash (arcBorrow a)) ∧
    (∀ (a b : Handle α), a.alloc ≠ b.alloc →
        (arcOps P).eq a b = P.eq (arcBorrow a) (arcBorrow b)) ∧
    (∀ (a b : Handle α), (arcOps P).cmp a b = P.cmp (arcBorrow a) (arcBorrow b)) ∧
    ((∀ v, P.eq v v = true) → ∀ (a b : Handle α), a.WF b →
        (arcOps P).eq a b = P.eq (arcBorrow a) (arcBorrow b)) ∧
    (∀ (m : List (Handle α × Nat)) (probe : α),
        hmGet P m probe =
          ((m.map fun e => (e.1.val, e.2)).find? fun e => P.hash probe == P.hash e.1 && P.eq probe e.1).map (·.2)) := by
  refine ⟨fun _ => rfl, ?_, fun _ _ => rfl, ?_, ?_⟩
  · intro a b h
    simp [arcOps, Cmp.ptrEq, arcBorrow, h]
  · intro hr a b hwf
    by_cases hab : a.alloc = b.alloc
    · have hv := hwf hab
      simp [arcOps, Cmp.ptrEq, arcBorrow, hab, ← hv, hr]
    · simp [arcOps, Cmp.ptrEq, arcBorrow, hab]
  · intro m probe
    unfold hmGet arcBorrow
    induction m with
    | nil => rfl
    | cons e m ih =>
      simp only [List.find?_cons, List.map_cons]
      cases hc : (P.hash probe == P.hash e.1.val && P.eq probe e.1.val) with
      | true => rfl
      | false => exact ih

/-! ## Historical witnesses: the two defects of the upstream tree (pre-fix commit d5bf9ae)

`prefixBorrowOps` / `prefixHswlOps` model the code *before* the `fix:` commits 80d4dbc / 3524b4e.
The full-strength statements above are **false** for them; the check prints these witnesses when the
implementation shows the corresponding behaviour again. -/

/-- F1 (historical): with `#[derive(PartialEq)]` on `ArcBorrow(NonNull<T>, ..)`, two borrows of equal
values in distinct allocations are unequal: see-through fails for `eq` and `ne`
(`Arc::new(1).borrow_arc() == Arc::new(1).borrow_arc()` was `false`); hence `ArcUnion` too. -/
theorem C14_prefix_borrow_by_address :
    observe (prefixBorrowOps natOps) .eq ⟨0, 1⟩ ⟨1, 1⟩ ≠ observe natOps .eq 1 1 ∧
    observe (prefixBorrowOps natOps) .ne ⟨0, 1⟩ ⟨1, 1⟩ ≠ observe natOps .ne 1 1 ∧
    (prefixBorrowOps natOps).eq ⟨0, 1⟩ ⟨0, 1⟩ = true := by
  decide

/-- F1 (historical): the derived `Debug` printed the address, not the value: it distinguishes two
borrows of the same value. -/
theorem C14_prefix_borrow_debug_address :
    (prefixBorrowOps natOps).debug ⟨10, 1⟩ = "ArcBorrow(0xa, PhantomData<&T>)" ∧
    (borrowOps natOps).debug ⟨10, 1⟩ = "1" := by
  constructor <;> rfl

/-- F2 (historical): with the ordering that ignored the recorded length,
`x = (HeaderWithLength::new(7, 1), [1, 2])` and `y = (HeaderWithLength::new(7, 2), [1, 2])` are unequal
yet compare `Equal`, `x <= y && x >= y`: `Lawful` fails for the pre-fix operators although the
payload (`Nat`) is lawful. -/
theorem C14_prefix_hswl_eq_vs_cmp :
    let Q := prefixHswlOps natOps (sliceOps {} natOps)
    let x : HSWL Nat (List Nat) := ⟨⟨7, 1⟩, [1, 2]⟩
    let y : HSWL Nat (List Nat) := ⟨⟨7, 2⟩, [1, 2]⟩
    Q.eq x y = false ∧ Q.ne x y = true ∧ Q.cmp x y = .eq ∧ Q.partialCmp x y = some .eq ∧
    Q.le x y = true ∧ Q.ge x y = true := by
  decide

theorem C14_prefix_hswl_not_lawful : ¬ Lawful (prefixHswlOps natOps (sliceOps {} natOps)) := by
  intro h
  have := (h ⟨⟨7, 1⟩, [1, 2]⟩ ⟨⟨7, 2⟩, [1, 2]⟩).eq_pc
  revert this
  decide

/-- the same two values under the current (fixed) operators: consistent -/
theorem C14_fixed_hswl_on_witness :
    let Q := hswlOps natOps (sliceOps {} natOps)
    let x : HSWL Nat (List Nat) := ⟨⟨7, 1⟩, [1, 2]⟩
    let y : HSWL Nat (List Nat) := ⟨⟨7, 2⟩, [1, 2]⟩
    Q.eq x y = false ∧ Q.cmp x y = .lt ∧ Q.partialCmp x y = some .lt ∧ Q.lt x y = true ∧
    Q.ge x y = false := by
  decide

/-! ## Non-vacuity -/

/-- `Nat` with the standard operators meets `LawfulOrd`; a float-like type with a NaN meets `Lawful` -/
example : LawfulOrd natOps := lawfulOrd_nat
example : Lawful fltOps := lawful_flt

/-- the NaN licence is real: same allocation, `Arc` says equal, the value says unequal -/
example : (arcOps fltOps).eq ⟨3, .nan⟩ ⟨3, .nan⟩ = true ∧ fltOps.eq .nan .nan = false ∧
    (arcOps fltOps).partialCmp ⟨3, .nan⟩ ⟨3, .nan⟩ = none := by decide

/-- … and in distinct allocations `Arc` follows the value -/
example : (arcOps fltOps).eq ⟨3, .nan⟩ ⟨4, .nan⟩ = false ∧ (arcOps fltOps).ne ⟨3, .nan⟩ ⟨4, .nan⟩ = true := by
  decide

/-- a scripted, thoroughly unlawful payload over three ids: everything is answered from tables -/
def weird : Tables where
  n := 3
  eq := [false, true, true, false, false, true, true, false, false]
  ne := [false, true, false, true, false, true, false, true, false]
  lt := [true, true, true, true, true, true, true, true, true]
  le := [false, false, false, false, false, false, false, false, false]
  gt := [true, false, false, true, false, false, true, false, false]
  ge := [false, false, true, false, false, true, false, false, true]
  pc := [some .gt, none, some .eq, some .eq, some .lt, none, none, some .eq, some .gt]
  cm := [.lt, .eq, .gt, .gt, .lt, .eq, .eq, .gt, .lt]
  hs := [[1, 2], [], [255]]
  db := ["zero", "one", "two"]
  dp := ["0", "I", "II"]

/-- see-through instantiated at the unlawful payload: `Arc` reproduces every scripted answer -/
example : ∀ o : Observer, observe (arcOps (tabOps weird)) o ⟨0, 0⟩ ⟨1, 2⟩ = observe (tabOps weird) o 0 2 :=
  fun o => (C14_see_through {} (tabOps weird) (tabOps weird) (tabOps weird) (tabOps weird)).1 ⟨0, 0⟩ ⟨1, 2⟩ o (by decide)

/-- header-then-slice at the unlawful payload, concretely: the header's `partial_cmp` answers
`Some(Equal)` for (0, 2), then the slice decides with its first element pair (1, 1) ↦ `Some(Less)` -/
example : (thinOps {} (tabOps weird) (tabOps weird)).partialCmp ⟨0, ⟨⟨0, 1⟩, [1]⟩⟩ ⟨1, ⟨⟨2, 1⟩, [1]⟩⟩ = some .lt ∧
    (thinOps {} (tabOps weird) (tabOps weird)).lt ⟨0, ⟨⟨0, 1⟩, [1]⟩⟩ ⟨1, ⟨⟨2, 1⟩, [1]⟩⟩ = true := by
  decide

/-- the hypotheses of the consistency theorem are met by publicly constructible values with a
recorded length different from the slice length -/
example : ConsistentAt (hswlOps natOps (sliceOps {} natOps)) ⟨⟨7, 1⟩, [1, 2]⟩ ⟨⟨7, 2⟩, [1, 2]⟩ :=
  (C14_consistent_of_lawful (PB := natOps) {} lawfulOrd_nat.1 lawfulOrd_nat.1 lawfulOrd_nat.1).2.2.2.2.2.2.2.1 _ _

/-- the hash stream of a thin value: header, recorded length, slice length, elements -/
example : (thinOps {} natOps natOps).hash ⟨0, ⟨⟨7, 2⟩, [1, 2]⟩⟩ =
    usizeBytes 7 ++ usizeBytes 2 ++ (usizeBytes 2 ++ (usizeBytes 1 ++ (usizeBytes 2 ++ []))) := by
  rfl

/-- `Borrow`: a map keyed by `Arc<Nat>` probed with a plain `Nat` -/
example : hmGet natOps (hmInsert natOps (hmInsert natOps (hmInsert natOps [] ⟨0, 5⟩ 0) ⟨1, 7⟩ 1) ⟨2, 5⟩ 2) 5 = some 2 ∧
    btGet natOps (btInsert natOps (btInsert natOps [] ⟨0, 5⟩ 0) ⟨1, 7⟩ 1) 6 = none := by
  decide

end C14
