import TriompheModel.WM.FinExec
/-!
# Concrete executions of M4, checked by evaluation

Each execution is a `FinExec` value: program order and synchronisation edges, closed mechanically by
`closure`; its `Consistent` / `Protocol` / `CoRW` / `ViaBorn` / `Consume` / `MutExcl` are obtained from the
proved-sound checkers of `WM/FinExec.lean` by kernel evaluation (`decide +kernel`: the kernel reduces the checker, no compiled code is trusted).
The main theorems of `WM/Graph.lean`, `WM/Consume.lean`, `WM/Later.lean` are then applied to them, which
shows that their hypotheses are jointly satisfiable and their conclusions speak about real events.

* `ExDestroy`  — the execution of `WM/Example.lean`        (`destroy_after_all`, `destroy_unique`)
* `ExConsume`  — the execution of `WM/ExampleConsume.lean` (`consume_*`)
* `ExTwoSharers` — a ten-node execution (4 RMWs, 6 events, 33 pairs): `unique_verdict_exclusive`
* `ExLater`    — **new**: non-vacuity of `WM/Later.lean`   (`later_sharers_after_write`,
                 `no_access_concurrent_with_granted_write`), with a negative twin `ExLaterBad` in which
                 `MutExcl` fails and so does the conclusion.
-/
open Facts
namespace WM

/-! ## `WM/Later.lean`: former and later sharers around a granted write -/
namespace ExLater

/-- events: 0 = a0 (B reads through h1), 1 = l (A's `get_mut` gate: Acquire load through h0 reading RMW 1),
2 = w (the granted write through h0), 3 = a3 (C reads through h2) -/
abbrev EA := Fin 4
def r (i : Nat) : Ev EA := .rmw i
def e (a : EA) : Ev EA := .oth a

/-- program order, the hand-overs of h1 and h2, and the one synchronises-with edge -/
def skeleton : List (Ev EA × Ev EA) :=
  [ (r 0, e 0), (e 0, r 1),               -- h1 handed to B after the clone; B: read, then drop
    (r 1, e 1),                           -- sw: release decrement → acquire load reading it
    (e 1, e 2), (e 2, r 2), (r 2, e 3),   -- A: gate, write, clone h0 into h2; h2 handed to C
    (r 0, e 1), (r 0, r 1) ]              -- A's program order; birth of h1 before its death

def exF : FinExec where
  n := 4
  ops := [Op.inc 1 0, Op.dec 1, Op.inc 2 0]
  ords := [.relaxed, .release, .relaxed]
  kinds := [.access 1, .load 0 .acquire (some 1), .access 0, .access 2]
  pairs := closure skeleton

abbrev exX : CountExec := exF.toExec

/-- all standing hypotheses by one kernel evaluation of the checker -/
theorem ex_admitted : FinExec.Admitted exX .release (some .acquire) := FinExec.checkAll_sound (by decide +kernel)
theorem ex_consistent : Consistent exX := ex_admitted.consistent
theorem ex_protocol : Protocol exX .release (some .acquire) := ex_admitted.protocol
theorem ex_corw : CoRW exX := ex_admitted.corw
theorem ex_viaborn : ViaBorn exX := ex_admitted.viaborn
theorem ex_mutexcl : MutExcl exX (1 : EA) (2 : EA) 0 := FinExec.checkMutExcl_sound (F := exF) (by decide +kernel)

/-- the closure really has 21 pairs and the gate precedes the write -/
example : exF.pairs.length = 21 := by decide +kernel
theorem ex_l_w : exX.hb (.oth (1 : EA)) (.oth (2 : EA)) := FinExec.hb_of_hbB (F := exF) (by decide +kernel)

/-- `later_sharers_after_write` applies: C's read through h2 happens-after the granted write -/
theorem ex_w_before_a3 : exX.hb (.oth (2 : EA)) (.oth (3 : EA)) :=
  later_sharers_after_write ex_consistent ex_protocol ex_corw ex_viaborn
    (l := (1 : EA)) (w := (2 : EA)) (h := 0) (o := .acquire) (rf := some 1) rfl (by decide) ex_mutexcl
    (3 : EA) 2 rfl (by decide) (FinExec.checkLate_sound (F := exF) (by decide +kernel))

/-- `no_access_concurrent_with_granted_write` for the former sharer a0 … -/
theorem ex_a0_ordered : exX.hb (.oth (0 : EA)) (.oth (2 : EA)) ∨ exX.hb (.oth (2 : EA)) (.oth (0 : EA)) :=
  no_access_concurrent_with_granted_write ex_consistent ex_protocol ex_corw ex_viaborn rfl
    (l := (1 : EA)) (w := (2 : EA)) (h := 0) (o := .acquire) (rf := some 1) rfl rfl (by decide) ex_l_w ex_mutexcl
    (0 : EA) 1 rfl (by decide)

/-- … and for the later sharer a3 -/
theorem ex_a3_ordered : exX.hb (.oth (3 : EA)) (.oth (2 : EA)) ∨ exX.hb (.oth (2 : EA)) (.oth (3 : EA)) :=
  no_access_concurrent_with_granted_write ex_consistent ex_protocol ex_corw ex_viaborn rfl
    (l := (1 : EA)) (w := (2 : EA)) (h := 0) (o := .acquire) (rf := some 1) rfl rfl (by decide) ex_l_w ex_mutexcl
    (3 : EA) 2 rfl (by decide)

/-- and the disjunctions are decided the expected way round in this execution -/
example : exX.hb (.oth (0 : EA)) (.oth (2 : EA)) ∧ ¬ exX.hb (.oth (2 : EA)) (.oth (0 : EA)) :=
  ⟨FinExec.hb_of_hbB (F := exF) (by decide +kernel), FinExec.not_hb_of_hbB (F := exF) (by decide +kernel)⟩

end ExLater

/-! ### the negative twin: the clone into h2 is *not* ordered after the write -/
namespace ExLaterBad
open ExLater (EA r e)

/-- as `ExLater.skeleton` without the edge `w → RMW 2`: the clone of h0 into h2 overlaps the `&mut` region -/
def skeleton : List (Ev EA × Ev EA) :=
  [ (r 0, e 0), (e 0, r 1), (r 1, e 1), (e 1, e 2), (r 2, e 3), (r 0, e 1), (r 0, r 1) ]

def exF : FinExec where
  n := 4
  ops := [Op.inc 1 0, Op.dec 1, Op.inc 2 0]
  ords := [.relaxed, .release, .relaxed]
  kinds := [.access 1, .load 0 .acquire (some 1), .access 0, .access 2]
  pairs := closure skeleton

abbrev exX : CountExec := exF.toExec

/-- everything else still holds (one kernel evaluation of the checker) … -/
theorem ex_admitted : FinExec.Admitted exX .release (some .acquire) := FinExec.checkAll_sound (by decide +kernel)
theorem ex_consistent : Consistent exX := ex_admitted.consistent
theorem ex_protocol : Protocol exX .release (some .acquire) := ex_admitted.protocol
theorem ex_corw : CoRW exX := ex_admitted.corw
theorem ex_viaborn : ViaBorn exX := ex_admitted.viaborn

/-- … but the `&mut`-exclusivity check fails … -/
theorem ex_check_fails : exF.checkMutExcl (1 : EA) (2 : EA) 0 = false := by decide +kernel

/-- … so `MutExcl` is false of this execution (the checker is complete for it): the hypothesis of
`later_sharers_after_write` is a real restriction … -/
theorem ex_not_mutexcl : ¬ MutExcl exX (1 : EA) (2 : EA) 0 := by
  intro h
  have := FinExec.checkMutExcl_complete (F := exF) h
  rw [ex_check_fails] at this
  cases this

/-- … and without it the conclusion fails: C's read through h2 races with the granted write -/
theorem ex_race : ¬ exX.hb (.oth (2 : EA)) (.oth (3 : EA)) ∧ ¬ exX.hb (.oth (3 : EA)) (.oth (2 : EA)) :=
  ⟨FinExec.not_hb_of_hbB (F := exF) (by decide +kernel), FinExec.not_hb_of_hbB (F := exF) (by decide +kernel)⟩

end ExLaterBad

/-! ## the execution of `WM/Example.lean` -/
namespace ExDestroy

/-- events: 0 = a0 (A reads through h0), 1 = a1 (B reads through h1), 2 = l (the acquire load after A's
decrement, reading RMW 2), 3 = f (destroy) -/
abbrev EA := Fin 4
def r (i : Nat) : Ev EA := .rmw i
def e (a : EA) : Ev EA := .oth a

def skeleton : List (Ev EA × Ev EA) :=
  [ (r 0, e 0), (e 0, r 2), (r 2, e 2), (e 2, e 3),   -- thread A program order
    (r 0, e 1), (e 1, r 1),                           -- h1 handed to B after the clone; thread B
    (r 1, e 2) ]                                      -- release(RMW 1) → acquire load l

def exF : FinExec where
  n := 4
  ops := [Op.inc 1 0, Op.dec 1, Op.dec 0]
  ords := [.relaxed, .release, .release]
  kinds := [.access 0, .access 1, .fenceLoad 2 .acquire (some 2), .destroy 2]
  pairs := closure skeleton

abbrev exX : CountExec := exF.toExec

/-- the mechanical closure has the 17 pairs that `WM/Example.lean` lists by hand -/
example : exF.pairs.length = 17 := by decide +kernel

theorem ex_consistent : Consistent exX := FinExec.checkConsistent_sound (by decide +kernel)
theorem ex_protocol : Protocol exX .release (some .acquire) := FinExec.checkProtocol_sound (by decide +kernel)

/-- `destroy_after_all`: B's read happens-before the destruction -/
theorem ex_a1_before_destroy : exX.hb (.oth (1 : EA)) (.oth (3 : EA)) :=
  (destroy_after_all ex_consistent ex_protocol rfl (Or.inr ⟨_, rfl, rfl⟩) (f := (3 : EA)) (k := 2) rfl).2.1
    (1 : EA) 1 rfl

/-- the destroying decrement is the last RMW -/
example : 2 + 1 = exX.ops.length :=
  (destroy_after_all ex_consistent ex_protocol rfl (Or.inr ⟨_, rfl, rfl⟩) (f := (3 : EA)) (k := 2) rfl).1

end ExDestroy

/-! ## the execution of `WM/ExampleConsume.lean` -/
namespace ExConsume

/-- events: 0 = B's payload access through h1, 1 = A's gate load through h0 -/
abbrev EA := Fin 2
def r (i : Nat) : Ev EA := .rmw i
def e (a : EA) : Ev EA := .oth a

def skeleton : List (Ev EA × Ev EA) :=
  [ (r 0, e 0), (e 0, r 1), (r 0, e 1), (r 1, e 1) ]

def exF : FinExec where
  n := 2
  ops := [Op.inc 1 0, Op.dec 1]
  ords := [.relaxed, .release]
  kinds := [.access 1, .load 0 .acquire (some 1)]
  pairs := closure skeleton

abbrev exX : CountExec := exF.toExec

example : exF.pairs.length = 6 := by decide +kernel

/-- all standing hypotheses by one kernel evaluation of the checker -/
theorem ex_admitted : FinExec.Admitted exX .release (some .acquire) := FinExec.checkAll_sound (by decide +kernel)
theorem ex_consistent : Consistent exX := ex_admitted.consistent
theorem ex_protocol : Protocol exX .release (some .acquire) := ex_admitted.protocol
theorem ex_corw : CoRW exX := ex_admitted.corw
theorem ex_viaborn : ViaBorn exX := ex_admitted.viaborn
theorem ex_consume : Consume exX (1 : EA) 0 .acquire (some 1) := FinExec.checkConsume_sound (F := exF) (by decide +kernel)

/-- B's read happens-before A's gate -/
theorem ex_a0_before_gate : exX.hb (.oth (0 : EA)) (.oth (1 : EA)) :=
  consume_after_all_former_sharers ex_consistent ex_protocol ex_corw ex_viaborn rfl ex_consume
    (0 : EA) 1 rfl (by decide) (Or.inr ⟨1, rfl, by decide⟩)

/-- the modification order ends where the gate read from, and h0 is the only live handle -/
example : exX.ops.length ≤ prefixLen (some 1) ∧ (run exX.ops).live = [0] :=
  consume_is_end ex_consistent ex_protocol ex_corw ex_viaborn ex_consume

end ExConsume

/-! ## a larger execution: two former sharers, a failed poll, a successful poll, the write

Four RMWs and six events — ten nodes, 33 happens-before pairs: the size the checkers are meant to
handle by kernel evaluation.  Thread A owns h0, clones it into h1 (RMW 0) and h2 (RMW 1), handed to B and C.
B reads (e0) and drops h1 (RMW 2, release); C reads (e1) and drops h2 (RMW 3, release).  A reads (e2),
polls `is_unique` (e3: Acquire load reading RMW 2, value 2 — not unique), polls again (e4: reading RMW 3,
value 1) and writes (e5). -/
namespace ExTwoSharers

abbrev EA := Fin 6
def r (i : Nat) : Ev EA := .rmw i
def e (a : EA) : Ev EA := .oth a

def skeleton : List (Ev EA × Ev EA) :=
  [ (r 0, r 1), (r 1, e 2), (e 2, e 3), (e 3, e 4), (e 4, e 5),   -- thread A
    (r 0, e 0), (e 0, r 2),                                       -- h1 handed to B; thread B
    (r 1, e 1), (e 1, r 3),                                       -- h2 handed to C; thread C
    (r 2, e 3), (r 2, e 4), (r 3, e 4) ]                          -- sw: release decrements → acquire loads reading them or later

def exF : FinExec where
  n := 6
  ops := [Op.inc 1 0, Op.inc 2 0, Op.dec 1, Op.dec 2]
  ords := [.relaxed, .relaxed, .release, .release]
  kinds := [.access 1, .access 2, .access 0, .load 0 .acquire (some 2), .load 0 .acquire (some 3), .access 0]
  pairs := closure skeleton

abbrev exX : CountExec := exF.toExec

example : exF.pairs.length = 33 := by decide +kernel

/-- all standing hypotheses by one kernel evaluation of the checker -/
theorem ex_admitted : FinExec.Admitted exX .release (some .acquire) := FinExec.checkAll_sound (by decide +kernel)
theorem ex_consistent : Consistent exX := ex_admitted.consistent
theorem ex_protocol : Protocol exX .release (some .acquire) := ex_admitted.protocol
theorem ex_corw : CoRW exX := ex_admitted.corw
theorem ex_viaborn : ViaBorn exX := ex_admitted.viaborn
theorem ex_consistent_prim : ConsistentPrim exX := ex_admitted.consistentPrim
theorem ex_mutexcl : MutExcl exX (4 : EA) (5 : EA) 0 := FinExec.checkMutExcl_sound (F := exF) (by decide +kernel)

/-- `unique_verdict_exclusive` at the successful poll: both former sharers' reads happen-before it -/
theorem ex_sharers_before_gate :
    exX.hb (.oth (0 : EA)) (.oth (4 : EA)) ∧ exX.hb (.oth (1 : EA)) (.oth (4 : EA)) :=
  ⟨unique_verdict_exclusive ex_consistent ex_protocol ex_corw ex_viaborn rfl
      (l := (4 : EA)) (h := 0) (o := .acquire) (rf := some 3) rfl rfl (by decide)
      (0 : EA) 1 rfl (by decide) (Or.inr ⟨3, rfl, by decide⟩),
   unique_verdict_exclusive ex_consistent ex_protocol ex_corw ex_viaborn rfl
      (l := (4 : EA)) (h := 0) (o := .acquire) (rf := some 3) rfl rfl (by decide)
      (1 : EA) 2 rfl (by decide) (Or.inr ⟨3, rfl, by decide⟩)⟩

/-- the failed poll (value 2) licenses nothing: its hypothesis `valRead = 1` is false -/
example : valRead exX.ops (some 2) = 2 := by decide

end ExTwoSharers

end WM

#print axioms WM.FinExec.checkConsistent_sound
#print axioms WM.FinExec.checkProtocol_sound
#print axioms WM.FinExec.checkConsistentPrim_sound
#print axioms WM.FinExec.checkAll_sound
#print axioms WM.FinExec.checkCoRW_sound
#print axioms WM.FinExec.checkViaBorn_sound
#print axioms WM.FinExec.checkConsume_sound
#print axioms WM.FinExec.checkMutExcl_sound
#print axioms WM.FinExec.checkMutExcl_complete
#print axioms WM.FinExec.checkLate_sound
#print axioms WM.ExLater.ex_w_before_a3
#print axioms WM.ExLater.ex_a0_ordered
#print axioms WM.ExLater.ex_a3_ordered
#print axioms WM.ExLaterBad.ex_not_mutexcl
#print axioms WM.ExLaterBad.ex_race
#print axioms WM.ExDestroy.ex_a1_before_destroy
#print axioms WM.ExConsume.ex_a0_before_gate
#print axioms WM.ExTwoSharers.ex_sharers_before_gate
