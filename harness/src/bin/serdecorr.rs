//! C17 correspondence: the real `Serialize` / `Deserialize` impls of `Arc<T>` and `UniqueArc<T>`
//! against `T`'s own, on a recording serializer / replaying deserializer with failure injected at
//! the k-th callback.
//!
//! stdin: one query per line (`k` = 1-based index of the callback that fails, 0 = none)
//!   ser <k> <payload>
//!   de  <k> <payload>
//! payloads: `u8 N` | `u64 N` | `i32 I` | `bool B` | `str =TEXT` | `pair N =TEXT` | `seq LEN x…` |
//!   `opt none` | `opt some N` | `outer ID =NAME A B LEN t… none|some N`
//! stdout: one line per query
//!   ser: `T=<R>{..} Arc=<R>{..} Unique=<R>{..}`
//!   de : `T=<R>{..} Arc=<R>[heap facts]{..} Unique=<R>[heap facts]{..}`
//! with `R = ok(n=<callbacks>;log=<c1,c2,…>)` | `err(at=<k>;log=<…,!>)`; `[..]` are the facts the
//! Lean model also predicts (count, allocs of an Arc block, fresh, eq), `{..}` are further
//! observations only the implementation has (error identity, other allocations, leaks).
use harness::{set_recording, take_events, unrecorded, Ev};
use serde::de::{self, DeserializeOwned, DeserializeSeed, Deserializer, SeqAccess, Visitor};
use serde::ser::{self, Serialize, Serializer};
use serde::Deserialize;
use std::alloc::Layout;
use std::cell::{Cell, RefCell};
use std::fmt;
use std::io::{BufRead, Write};
use triomphe::{Arc, UniqueArc};

#[global_allocator]
static G: harness::Track = harness::Track;

// ------------------------------------------------------------------------------------------------
// control block shared by the recording serializer and the replaying deserializer

thread_local! { static NEXT_ERR: Cell<u64> = const { Cell::new(1) }; }

/// The error type of both machines.  `id` identifies the error *object*: an injected error gets a
/// fresh id which the control block remembers, so "passed through unchanged" is checkable.
#[derive(Debug)]
struct E {
    id: u64,
    msg: String,
}
impl fmt::Display for E {
    fn fmt(&self, f: &mut fmt::Formatter) -> fmt::Result {
        f.write_str(&self.msg)
    }
}
impl std::error::Error for E {}
impl ser::Error for E {
    fn custom<T: fmt::Display>(m: T) -> Self {
        E { id: 0, msg: format!("custom:{}", m) }
    }
}
impl de::Error for E {
    fn custom<T: fmt::Display>(m: T) -> Self {
        E { id: 0, msg: format!("custom:{}", m) }
    }
}

thread_local! {
    /// armed by `ser_case`: run ONCE by the recording serializer at its first callback (user code running inside
    /// `Arc::serialize`: it takes — and keeps — another handle to the value being serialised)
    static SER_HOOK: RefCell<Option<Box<dyn FnMut()>>> = RefCell::new(None);
}
fn run_ser_hook() { let h = SER_HOOK.with(|c| c.borrow_mut().take()); if let Some(mut f) = h { f(); } }

struct Ctl {
    log: RefCell<Vec<String>>,
    n: Cell<usize>,
    fail_at: usize,
    last_err: Cell<u64>,
    /// what `is_human_readable()` answers
    hr: bool,
}
impl Ctl {
    fn new(fail_at: usize) -> Ctl {
        Ctl::new_hr(fail_at, true)
    }
    fn new_hr(fail_at: usize, hr: bool) -> Ctl {
        unrecorded(|| Ctl { log: RefCell::new(Vec::with_capacity(64)), n: Cell::new(0), fail_at, last_err: Cell::new(0), hr })
    }
    /// one callback: logged, counted, failing if it is the `fail_at`-th
    fn call(&self, c: impl FnOnce() -> String) -> Result<(), E> {
        run_ser_hook();
        unrecorded(|| {
            let n = self.n.get() + 1;
            self.n.set(n);
            self.log.borrow_mut().push(c());
            if n == self.fail_at {
                self.log.borrow_mut().push("!".to_string());
                let id = NEXT_ERR.with(|x| {
                    let v = x.get();
                    x.set(v + 1);
                    v
                });
                self.last_err.set(id);
                Err(E { id, msg: format!("injected@{}", n) })
            } else {
                Ok(())
            }
        })
    }
    fn show<T>(&self, r: &Result<T, E>) -> String {
        let log = self.log.borrow().join(",");
        match r {
            Ok(_) => format!("ok(n={};log={})", self.n.get(), log),
            Err(e) => {
                if let Some(k) = e.msg.strip_prefix("injected@") {
                    format!("err(at={};log={})", k, log)
                } else {
                    format!("err(other={};log={})", e.msg.replace(' ', "_"), log)
                }
            }
        }
    }
    /// the error that came out is the very object the machine created
    fn passthrough<T>(&self, r: &Result<T, E>) -> bool {
        match r {
            Ok(_) => false,
            Err(e) => e.id != 0 && e.id == self.last_err.get(),
        }
    }
}

// ------------------------------------------------------------------------------------------------
// the recording serializer: every method of serde::Serializer, every compound type

#[derive(Clone, Copy)]
struct S<'a>(&'a Ctl);
struct Comp<'a>(&'a Ctl);

macro_rules! prim {
    ($($m:ident($t:ty) => $tag:literal;)*) => {
        $(fn $m(self, v: $t) -> Result<(), E> { self.0.call(|| format!("{}:{}", $tag, v)) })*
    };
}

fn len_str(l: Option<usize>) -> String {
    match l {
        Some(n) => n.to_string(),
        None => "?".to_string(),
    }
}

impl<'a> Serializer for S<'a> {
    type Ok = ();
    type Error = E;
    type SerializeSeq = Comp<'a>;
    type SerializeTuple = Comp<'a>;
    type SerializeTupleStruct = Comp<'a>;
    type SerializeTupleVariant = Comp<'a>;
    type SerializeMap = Comp<'a>;
    type SerializeStruct = Comp<'a>;
    type SerializeStructVariant = Comp<'a>;

    fn is_human_readable(&self) -> bool {
        self.0.hr
    }

    prim! {
        serialize_bool(bool) => "bool"; serialize_i8(i8) => "i8"; serialize_i16(i16) => "i16";
        serialize_i32(i32) => "i32"; serialize_i64(i64) => "i64"; serialize_i128(i128) => "i128";
        serialize_u8(u8) => "u8"; serialize_u16(u16) => "u16"; serialize_u32(u32) => "u32";
        serialize_u64(u64) => "u64"; serialize_u128(u128) => "u128";
        serialize_f32(f32) => "f32"; serialize_f64(f64) => "f64"; serialize_char(char) => "char";
    }
    fn serialize_str(self, v: &str) -> Result<(), E> {
        self.0.call(|| format!("str:={}", v))
    }
    fn serialize_bytes(self, v: &[u8]) -> Result<(), E> {
        self.0.call(|| format!("bytes:{}", v.len()))
    }
    fn serialize_none(self) -> Result<(), E> {
        self.0.call(|| "none".to_string())
    }
    fn serialize_some<T: ?Sized + Serialize>(self, v: &T) -> Result<(), E> {
        self.0.call(|| "some".to_string())?;
        v.serialize(self)
    }
    fn serialize_unit(self) -> Result<(), E> {
        self.0.call(|| "unit".to_string())
    }
    fn serialize_unit_struct(self, name: &'static str) -> Result<(), E> {
        self.0.call(|| format!("unit_struct:{}", name))
    }
    fn serialize_unit_variant(self, name: &'static str, idx: u32, var: &'static str) -> Result<(), E> {
        self.0.call(|| format!("unit_variant:{}:{}:{}", name, idx, var))
    }
    fn serialize_newtype_struct<T: ?Sized + Serialize>(self, name: &'static str, v: &T) -> Result<(), E> {
        self.0.call(|| format!("newtype_struct:{}", name))?;
        v.serialize(self)
    }
    fn serialize_newtype_variant<T: ?Sized + Serialize>(self, name: &'static str, idx: u32, var: &'static str, v: &T) -> Result<(), E> {
        self.0.call(|| format!("newtype_variant:{}:{}:{}", name, idx, var))?;
        v.serialize(self)
    }
    fn serialize_seq(self, len: Option<usize>) -> Result<Comp<'a>, E> {
        self.0.call(|| format!("seq:{}", len_str(len)))?;
        Ok(Comp(self.0))
    }
    fn serialize_tuple(self, len: usize) -> Result<Comp<'a>, E> {
        self.0.call(|| format!("tuple:{}", len))?;
        Ok(Comp(self.0))
    }
    fn serialize_tuple_struct(self, name: &'static str, len: usize) -> Result<Comp<'a>, E> {
        self.0.call(|| format!("tuple_struct:{}:{}", name, len))?;
        Ok(Comp(self.0))
    }
    fn serialize_tuple_variant(self, name: &'static str, idx: u32, var: &'static str, len: usize) -> Result<Comp<'a>, E> {
        self.0.call(|| format!("tuple_variant:{}:{}:{}:{}", name, idx, var, len))?;
        Ok(Comp(self.0))
    }
    fn serialize_map(self, len: Option<usize>) -> Result<Comp<'a>, E> {
        self.0.call(|| format!("map:{}", len_str(len)))?;
        Ok(Comp(self.0))
    }
    fn serialize_struct(self, name: &'static str, len: usize) -> Result<Comp<'a>, E> {
        self.0.call(|| format!("struct:{}:{}", name, len))?;
        Ok(Comp(self.0))
    }
    fn serialize_struct_variant(self, name: &'static str, idx: u32, var: &'static str, len: usize) -> Result<Comp<'a>, E> {
        self.0.call(|| format!("struct_variant:{}:{}:{}:{}", name, idx, var, len))?;
        Ok(Comp(self.0))
    }
}

impl<'a> ser::SerializeSeq for Comp<'a> {
    type Ok = ();
    type Error = E;
    fn serialize_element<T: ?Sized + Serialize>(&mut self, v: &T) -> Result<(), E> {
        self.0.call(|| "elem".to_string())?;
        v.serialize(S(self.0))
    }
    fn end(self) -> Result<(), E> {
        self.0.call(|| "end".to_string())
    }
}
impl<'a> ser::SerializeTuple for Comp<'a> {
    type Ok = ();
    type Error = E;
    fn serialize_element<T: ?Sized + Serialize>(&mut self, v: &T) -> Result<(), E> {
        self.0.call(|| "elem".to_string())?;
        v.serialize(S(self.0))
    }
    fn end(self) -> Result<(), E> {
        self.0.call(|| "end".to_string())
    }
}
impl<'a> ser::SerializeTupleStruct for Comp<'a> {
    type Ok = ();
    type Error = E;
    fn serialize_field<T: ?Sized + Serialize>(&mut self, v: &T) -> Result<(), E> {
        self.0.call(|| "elem".to_string())?;
        v.serialize(S(self.0))
    }
    fn end(self) -> Result<(), E> {
        self.0.call(|| "end".to_string())
    }
}
impl<'a> ser::SerializeTupleVariant for Comp<'a> {
    type Ok = ();
    type Error = E;
    fn serialize_field<T: ?Sized + Serialize>(&mut self, v: &T) -> Result<(), E> {
        self.0.call(|| "elem".to_string())?;
        v.serialize(S(self.0))
    }
    fn end(self) -> Result<(), E> {
        self.0.call(|| "end".to_string())
    }
}
impl<'a> ser::SerializeMap for Comp<'a> {
    type Ok = ();
    type Error = E;
    fn serialize_key<T: ?Sized + Serialize>(&mut self, v: &T) -> Result<(), E> {
        self.0.call(|| "key".to_string())?;
        v.serialize(S(self.0))
    }
    fn serialize_value<T: ?Sized + Serialize>(&mut self, v: &T) -> Result<(), E> {
        self.0.call(|| "value".to_string())?;
        v.serialize(S(self.0))
    }
    fn end(self) -> Result<(), E> {
        self.0.call(|| "end".to_string())
    }
}
impl<'a> ser::SerializeStruct for Comp<'a> {
    type Ok = ();
    type Error = E;
    fn serialize_field<T: ?Sized + Serialize>(&mut self, key: &'static str, v: &T) -> Result<(), E> {
        self.0.call(|| format!("field:{}", key))?;
        v.serialize(S(self.0))
    }
    fn end(self) -> Result<(), E> {
        self.0.call(|| "end".to_string())
    }
}
impl<'a> ser::SerializeStructVariant for Comp<'a> {
    type Ok = ();
    type Error = E;
    fn serialize_field<T: ?Sized + Serialize>(&mut self, key: &'static str, v: &T) -> Result<(), E> {
        self.0.call(|| format!("field:{}", key))?;
        v.serialize(S(self.0))
    }
    fn end(self) -> Result<(), E> {
        self.0.call(|| "end".to_string())
    }
}

// ------------------------------------------------------------------------------------------------
// the replaying deserializer over an in-memory value tree

#[derive(Clone, Debug, PartialEq)]
enum V {
    Bool(bool),
    U8(u8),
    U16(u16),
    U32(u32),
    U64(u64),
    I32(i32),
    Str(String),
    Unit,
    None,
    Some(Box<V>),
    /// sequences, tuples and the fields of a struct (in declaration order)
    Seq(Vec<V>),
}

#[derive(Clone, Copy)]
struct D<'a> {
    v: &'a V,
    ctl: &'a Ctl,
}
struct SA<'a> {
    it: std::slice::Iter<'a, V>,
    ctl: &'a Ctl,
}

impl<'a> D<'a> {
    fn dispatch<'de, Vis: Visitor<'de>>(self, vis: Vis) -> Result<Vis::Value, E> {
        match self.v {
            V::Bool(b) => vis.visit_bool(*b),
            V::U8(x) => vis.visit_u8(*x),
            V::U16(x) => vis.visit_u16(*x),
            V::U32(x) => vis.visit_u32(*x),
            V::U64(x) => vis.visit_u64(*x),
            V::I32(x) => vis.visit_i32(*x),
            V::Str(s) => vis.visit_str(s),
            V::Unit => vis.visit_unit(),
            V::None => vis.visit_none(),
            V::Some(b) => vis.visit_some(D { v: b, ctl: self.ctl }),
            V::Seq(xs) => vis.visit_seq(SA { it: xs.iter(), ctl: self.ctl }),
        }
    }
}

macro_rules! de_prim {
    ($($m:ident => $tag:literal;)*) => {
        $(fn $m<Vis: Visitor<'de>>(self, vis: Vis) -> Result<Vis::Value, E> {
            self.ctl.call(|| $tag.to_string())?;
            self.dispatch(vis)
        })*
    };
}

impl<'de, 'a> Deserializer<'de> for D<'a> {
    type Error = E;
    fn is_human_readable(&self) -> bool {
        self.ctl.hr
    }
    de_prim! {
        deserialize_any => "de_any"; deserialize_bool => "de_bool";
        deserialize_i8 => "de_i8"; deserialize_i16 => "de_i16"; deserialize_i32 => "de_i32"; deserialize_i64 => "de_i64";
        deserialize_u8 => "de_u8"; deserialize_u16 => "de_u16"; deserialize_u32 => "de_u32"; deserialize_u64 => "de_u64";
        deserialize_f32 => "de_f32"; deserialize_f64 => "de_f64"; deserialize_char => "de_char";
        deserialize_str => "de_str"; deserialize_string => "de_string";
        deserialize_bytes => "de_bytes"; deserialize_byte_buf => "de_byte_buf";
        deserialize_unit => "de_unit"; deserialize_seq => "de_seq"; deserialize_map => "de_map";
        deserialize_identifier => "de_identifier"; deserialize_ignored_any => "de_ignored_any";
    }
    fn deserialize_option<Vis: Visitor<'de>>(self, vis: Vis) -> Result<Vis::Value, E> {
        self.ctl.call(|| "de_option".to_string())?;
        match self.v {
            V::None => vis.visit_none(),
            V::Some(b) => vis.visit_some(D { v: b, ctl: self.ctl }),
            _ => vis.visit_some(self),
        }
    }
    fn deserialize_unit_struct<Vis: Visitor<'de>>(self, name: &'static str, vis: Vis) -> Result<Vis::Value, E> {
        self.ctl.call(|| format!("de_unit_struct:{}", name))?;
        self.dispatch(vis)
    }
    fn deserialize_newtype_struct<Vis: Visitor<'de>>(self, name: &'static str, vis: Vis) -> Result<Vis::Value, E> {
        self.ctl.call(|| format!("de_newtype_struct:{}", name))?;
        vis.visit_newtype_struct(self)
    }
    fn deserialize_tuple<Vis: Visitor<'de>>(self, len: usize, vis: Vis) -> Result<Vis::Value, E> {
        self.ctl.call(|| format!("de_tuple:{}", len))?;
        self.dispatch(vis)
    }
    fn deserialize_tuple_struct<Vis: Visitor<'de>>(self, name: &'static str, len: usize, vis: Vis) -> Result<Vis::Value, E> {
        self.ctl.call(|| format!("de_tuple_struct:{}:{}", name, len))?;
        self.dispatch(vis)
    }
    fn deserialize_struct<Vis: Visitor<'de>>(self, name: &'static str, fields: &'static [&'static str], vis: Vis) -> Result<Vis::Value, E> {
        self.ctl.call(|| format!("de_struct:{}:{}", name, fields.len()))?;
        self.dispatch(vis)
    }
    fn deserialize_enum<Vis: Visitor<'de>>(self, name: &'static str, _variants: &'static [&'static str], _vis: Vis) -> Result<Vis::Value, E> {
        self.ctl.call(|| format!("de_enum:{}", name))?;
        Err(<E as de::Error>::custom("enums are not part of the payload family"))
    }
}

impl<'de, 'a> SeqAccess<'de> for SA<'a> {
    type Error = E;
    fn next_element_seed<T: DeserializeSeed<'de>>(&mut self, seed: T) -> Result<Option<T::Value>, E> {
        self.ctl.call(|| "next_elem".to_string())?;
        match self.it.next() {
            Some(v) => seed.deserialize(D { v, ctl: self.ctl }).map(Some),
            None => Ok(None),
        }
    }
    fn size_hint(&self) -> Option<usize> {
        Some(self.it.len())
    }
}

// ------------------------------------------------------------------------------------------------
// payload family: std types plus a nested struct with HAND-WRITTEN impls (no derive)

#[derive(Clone, Debug, PartialEq, Default)]
struct Inner {
    a: i32,
    b: bool,
}
#[derive(Clone, Debug, PartialEq, Default)]
struct Outer {
    id: u32,
    name: String,
    inner: Inner,
    tags: Vec<u16>,
    opt: Option<u8>,
    /// not serialised: makes the payload LARGE (> 16 machine words) — a "reserve the slot first" deserialisation path that
    /// treats the slot as initialised before the fallible step would run this type's drop glue (String, Vec) on garbage
    pad: [u64; 20],
}

impl Serialize for Inner {
    fn serialize<Se: Serializer>(&self, s: Se) -> Result<Se::Ok, Se::Error> {
        use ser::SerializeStruct;
        let mut st = s.serialize_struct("Inner", 2)?;
        st.serialize_field("a", &self.a)?;
        st.serialize_field("b", &self.b)?;
        st.end()
    }
}
impl Serialize for Outer {
    fn serialize<Se: Serializer>(&self, s: Se) -> Result<Se::Ok, Se::Error> {
        use ser::SerializeStruct;
        let mut st = s.serialize_struct("Outer", 5)?;
        st.serialize_field("id", &self.id)?;
        st.serialize_field("name", &self.name)?;
        st.serialize_field("inner", &self.inner)?;
        st.serialize_field("tags", &self.tags)?;
        st.serialize_field("opt", &self.opt)?;
        st.end()
    }
}

/// a zero-sized payload that does NOT serialise as plain unit (hand-written impls)
#[derive(Clone, Debug, PartialEq, Default)]
struct Marker;
impl Serialize for Marker {
    fn serialize<Se: Serializer>(&self, s: Se) -> Result<Se::Ok, Se::Error> { s.serialize_unit_struct("Marker") }
}
struct MarkerVisitor;
impl<'de> Visitor<'de> for MarkerVisitor {
    type Value = Marker;
    fn expecting(&self, f: &mut fmt::Formatter) -> fmt::Result { f.write_str("unit struct Marker") }
    fn visit_unit<Er: de::Error>(self) -> Result<Marker, Er> { Ok(Marker) }
}
impl<'de> Deserialize<'de> for Marker {
    fn deserialize<De: Deserializer<'de>>(d: De) -> Result<Marker, De::Error> { d.deserialize_unit_struct("Marker", MarkerVisitor) }
}

/// a value that CONTAINS handles: a cons list of `n` nested `Arc`s around a unit struct; every link serialises
/// transparently (by delegating to the Arc it holds), so the whole chain drives the serializer exactly as `End` does
#[derive(Clone)]
struct Chain(Option<Arc<Chain>>);
impl Chain {
    fn of_depth(n: usize) -> Chain { let mut c = Chain(None); for _ in 0..n { c = Chain(Some(Arc::new(c))); } c }
}
impl Serialize for Chain {
    fn serialize<Se: Serializer>(&self, s: Se) -> Result<Se::Ok, Se::Error> {
        match &self.0 { None => s.serialize_unit_struct("End"), Some(a) => a.serialize(s) }
    }
}
impl Drop for Chain {
    // iterative teardown (a long chain would otherwise recurse in drop)
    fn drop(&mut self) {
        let mut cur = self.0.take();
        while let Some(a) = cur {
            cur = match Arc::try_unwrap(a) { Ok(mut c) => c.0.take(), Err(_) => None };
        }
    }
}

struct InnerVisitor;
impl<'de> Visitor<'de> for InnerVisitor {
    type Value = Inner;
    fn expecting(&self, f: &mut fmt::Formatter) -> fmt::Result {
        f.write_str("struct Inner")
    }
    fn visit_seq<A: SeqAccess<'de>>(self, mut seq: A) -> Result<Inner, A::Error> {
        let a = seq.next_element()?.ok_or_else(|| de::Error::invalid_length(0, &self))?;
        let b = seq.next_element()?.ok_or_else(|| de::Error::invalid_length(1, &self))?;
        Ok(Inner { a, b })
    }
}
impl<'de> Deserialize<'de> for Inner {
    fn deserialize<De: Deserializer<'de>>(d: De) -> Result<Inner, De::Error> {
        d.deserialize_struct("Inner", &["a", "b"], InnerVisitor)
    }
}
struct OuterVisitor;
impl<'de> Visitor<'de> for OuterVisitor {
    type Value = Outer;
    fn expecting(&self, f: &mut fmt::Formatter) -> fmt::Result {
        f.write_str("struct Outer")
    }
    fn visit_seq<A: SeqAccess<'de>>(self, mut seq: A) -> Result<Outer, A::Error> {
        let id = seq.next_element()?.ok_or_else(|| de::Error::invalid_length(0, &self))?;
        let name = seq.next_element()?.ok_or_else(|| de::Error::invalid_length(1, &self))?;
        let inner = seq.next_element()?.ok_or_else(|| de::Error::invalid_length(2, &self))?;
        let tags = seq.next_element()?.ok_or_else(|| de::Error::invalid_length(3, &self))?;
        let opt = seq.next_element()?.ok_or_else(|| de::Error::invalid_length(4, &self))?;
        Ok(Outer { id, name, inner, tags, opt, pad: [0; 20] })
    }
}
impl<'de> Deserialize<'de> for Outer {
    fn deserialize<De: Deserializer<'de>>(d: De) -> Result<Outer, De::Error> {
        d.deserialize_struct("Outer", &["id", "name", "inner", "tags", "opt"], OuterVisitor)
    }
}

// ------------------------------------------------------------------------------------------------
// the two experiments

/// (result+log, the error is the machine's own object)
fn ser_one<T: Serialize + ?Sized>(v: &T, k: usize, hr: bool) -> (String, Option<bool>) {
    let c = Ctl::new_hr(k, hr);
    let r = v.serialize(S(&c));
    (c.show(&r), if r.is_err() { Some(c.passthrough(&r)) } else { None })
}

/// `nhr_same`: with a serializer that says it is NOT human readable the handle still behaves as T
fn ser_show<T: Serialize + ?Sized>(v: &T, k: usize, t_nhr: Option<&str>) -> String {
    let (shown, pt) = ser_one(v, k, true);
    let mut extra: Vec<String> = Vec::new();
    if let Some(p) = pt {
        extra.push(format!("passthrough={}", p));
    }
    if let Some(t) = t_nhr {
        extra.push(format!("nhr_same={}", ser_one(v, k, false).0 == t));
    }
    format!("{}{{{}}}", shown, extra.join(","))
}

fn ser_case<T: Serialize + Clone + 'static>(v: &T, k: usize) -> String {
    let t = ser_show(v, k, None);
    let t_nhr = ser_one(v, k, false).0;
    // the handle must come out of a serialisation (successful or failed at the k-th callback) as it went in: still the
    // sole owner, and its block freed when it is dropped (no reference taken and lost on the error path)
    set_recording(true);
    let a = Arc::new(v.clone());
    set_recording(false);
    let _ = take_events();
    let blk = harness::rec_of(a.heap_ptr() as usize).map(|x| x.0);
    let mut ar = ser_show(&a, k, Some(&t_nhr));
    let cnt_after = Arc::count(&a);
    let uniq_after = a.is_unique();
    // the same serialisation while the SERIALIZER takes and keeps a clone of the very handle at its first callback (a serializer
    // that retains its input; or another thread cloning meanwhile): the calls, the result and the error are the same — the count
    // is allowed to move during a serialisation
    let reentrant_same = {
        let ap: *const Arc<T> = &a;
        let kept: std::rc::Rc<RefCell<Vec<Arc<T>>>> = std::rc::Rc::new(RefCell::new(Vec::new()));
        let kept2 = kept.clone();
        SER_HOOK.with(|c| *c.borrow_mut() = Some(Box::new(move || unsafe { kept2.borrow_mut().push((*ap).clone()) })));
        let r = std::panic::catch_unwind(std::panic::AssertUnwindSafe(|| ser_one(&a, k, true).0));
        SER_HOOK.with(|c| *c.borrow_mut() = None);
        let same = match r { Ok(shown) => shown == ser_one(&a, k, true).0, Err(_) => false };
        kept.borrow_mut().clear();
        same
    };
    set_recording(true);
    drop(a);
    set_recording(false);
    let _ = take_events();
    let freed = blk.map(|i| !harness::rec(i).live).unwrap_or(false);
    ar = format!("{},cnt_after={},unique_after={},freed={},reentrant_same={}}}", &ar[..ar.len() - 1], cnt_after, uniq_after, freed, reentrant_same);
    let u = UniqueArc::new(v.clone());
    let ur = ser_show(&u, k, Some(&t_nhr));
    format!("T={} Arc={} Unique={}", t, ar, ur)
}

fn arc_layout<T>() -> (usize, usize) {
    // ArcInner<T> is repr(C) { count: AtomicUsize, data: T }
    let l = Layout::new::<usize>().extend(Layout::new::<T>()).unwrap().0.pad_to_align();
    (l.size(), l.align())
}

fn allocs_of(evs: &[Ev]) -> Vec<(usize, usize, usize)> {
    evs.iter().filter_map(|e| if let Ev::Alloc(i, s, a) = e { Some((*i, *s, *a)) } else { None }).collect()
}

fn bad_events(evs: &[Ev]) -> usize {
    evs.iter().filter(|e| matches!(e, Ev::DoubleFree(..) | Ev::DoubleDrop(..) | Ev::BadRead(..))).count()
}

/// Observations about one handle-producing deserialisation (`H` = `Arc<T>` or `UniqueArc<T>`).
fn de_handle<T, H>(input: &V, k: usize, t_res: &Result<T, E>, t_allocs: &[(usize, usize, usize)], t_nhr: &str, into_arc: impl Fn(H) -> Arc<T>) -> String
where
    T: DeserializeOwned + PartialEq + fmt::Debug,
    H: DeserializeOwned,
{
    let lay = arc_layout::<T>();
    // with a deserializer that says it is NOT human readable the handle still behaves as T
    let nhr_same = {
        let c = Ctl::new_hr(k, false);
        let r: Result<H, E> = H::deserialize(D { v: input, ctl: &c });
        let shown = c.show(&r);
        let val_ok = match (r, t_res) {
            (Ok(h), Ok(tv)) => *into_arc(h) == *tv,
            (Err(_), Err(_)) => true,
            _ => false,
        };
        shown == t_nhr && val_ok
    };
    let c = Ctl::new(k);
    set_recording(true);
    let r: Result<H, E> = H::deserialize(D { v: input, ctl: &c });
    set_recording(false);
    let mut evs = take_events();
    let shown = c.show(&r);
    let allocs = allocs_of(&evs);
    let is_arc = |x: &(usize, usize, usize)| (x.1, x.2) == lay;
    let arc_here = allocs.iter().filter(|x| is_arc(x)).count() as i64;
    let arc_in_t = t_allocs.iter().filter(|x| is_arc(x)).count() as i64;
    let mut others_here: Vec<(usize, usize)> = allocs.iter().filter(|x| !is_arc(x)).map(|x| (x.1, x.2)).collect();
    let mut others_t: Vec<(usize, usize)> = t_allocs.iter().filter(|x| !is_arc(x)).map(|x| (x.1, x.2)).collect();
    others_here.sort();
    others_t.sort();
    let others_same = others_here == others_t;
    let passthrough = c.passthrough(&r);
    match r {
        Ok(h) => {
            let a: Arc<T> = into_arc(h);
            let count = Arc::count(&a);
            let strong = Arc::strong_count(&a);
            let unique = a.is_unique();
            let blk = harness::rec_of(a.heap_ptr() as usize);
            let fresh = match blk {
                Some((i, 0)) => allocs.iter().any(|x| x.0 == i && is_arc(x)) && harness::rec(i).live,
                _ => false,
            };
            let eq = match t_res {
                Ok(tv) => *a == *tv,
                Err(_) => false,
            };
            set_recording(true);
            drop(a);
            set_recording(false);
            let dev = take_events();
            let freed = match blk {
                Some((i, _)) => dev.iter().any(|e| matches!(e, Ev::Dealloc(j, s, al) if *j == i && (*s, *al) == lay)),
                None => false,
            };
            let leaked = allocs.iter().filter(|x| harness::rec(x.0).live).count();
            evs.extend(dev);
            format!("{}[count={},allocs={},fresh={},eq={}]{{strong={},unique={},others_same={},freed_on_drop={},leaked={},bad_events={},nhr_same={}}}",
                shown, count, arc_here - arc_in_t, fresh, eq, strong, unique, others_same, freed, leaked, bad_events(&evs), nhr_same)
        }
        Err(e) => {
            let same_msg = match t_res {
                Err(te) => te.msg == e.msg,
                Ok(_) => false,
            };
            set_recording(true);
            drop(e);
            set_recording(false);
            evs.extend(take_events());
            let leaked = allocs.iter().filter(|x| harness::rec(x.0).live).count();
            let arc_live = allocs.iter().filter(|x| is_arc(x) && harness::rec(x.0).live).count();
            format!("{}[allocs={}]{{passthrough={},same_msg={},others_same={},arc_blocks_live={},leaked={},bad_events={},nhr_same={}}}",
                shown, arc_here - arc_in_t, passthrough, same_msg, others_same, arc_live, leaked, bad_events(&evs), nhr_same)
        }
    }
}

fn de_case<T: DeserializeOwned + PartialEq + fmt::Debug>(input: &V, k: usize) -> String {
    let c = Ctl::new(k);
    set_recording(true);
    let rt: Result<T, E> = T::deserialize(D { v: input, ctl: &c });
    set_recording(false);
    let evs = take_events();
    let t_allocs = allocs_of(&evs);
    let t_shown = format!("{}{{passthrough={}}}", c.show(&rt), c.passthrough(&rt));
    let t_nhr = {
        let c = Ctl::new_hr(k, false);
        let r: Result<T, E> = T::deserialize(D { v: input, ctl: &c });
        c.show(&r)
    };
    let a = de_handle::<T, Arc<T>>(input, k, &rt, &t_allocs, &t_nhr, |h| h);
    let u = de_handle::<T, UniqueArc<T>>(input, k, &rt, &t_allocs, &t_nhr, |h| h.shareable());
    // T's own value / error is released here (recording is off)
    drop(rt);
    format!("T={} Arc={} Unique={}", t_shown, a, u)
}

/// `deserialize_in_place` (the entry point serde_derive's `deserialize_in_place` feature and
/// `Vec<T>`'s in-place path use) into an existing handle.  `shared`: the place is an `Arc` with two
/// more owners; otherwise a `UniqueArc`.  Observed: the result/log, the place afterwards (count, fresh
/// block, value == T's), the old allocation afterwards (count, value untouched), Arc-block allocations.
fn dip_handle<T>(input: &V, k: usize, t_res: &Result<T, E>, t_allocs: &[(usize, usize, usize)], shared: bool) -> String
where
    T: DeserializeOwned + PartialEq + fmt::Debug + Default,
{
    let lay = arc_layout::<T>();
    let is_arc = |x: &(usize, usize, usize)| (x.1, x.2) == lay;
    let c = Ctl::new(k);
    let old_val = T::default();
    // the place and the other owners of its allocation
    let mut place_a: Option<Arc<T>> = None;
    let mut place_u: Option<UniqueArc<T>> = None;
    let mut others: Vec<Arc<T>> = Vec::new();
    let old_blk;
    set_recording(true);
    if shared {
        let a = Arc::new(T::default());
        others.push(a.clone());
        others.push(a.clone());
        old_blk = harness::rec_of(a.heap_ptr() as usize).map(|x| x.0);
        place_a = Some(a);
    } else {
        let u = UniqueArc::new(T::default());
        old_blk = harness::rec_of(&*u as *const T as usize).map(|x| x.0);
        place_u = Some(u);
    }
    set_recording(false);
    let _ = take_events();
    set_recording(true);
    let r: Result<(), E> = if shared {
        <Arc<T> as Deserialize>::deserialize_in_place(D { v: input, ctl: &c }, place_a.as_mut().unwrap())
    } else {
        <UniqueArc<T> as Deserialize>::deserialize_in_place(D { v: input, ctl: &c }, place_u.as_mut().unwrap())
    };
    set_recording(false);
    let mut evs = take_events();
    let shown = c.show(&r);
    let passthrough = c.passthrough(&r);
    let allocs = allocs_of(&evs);
    let arc_here = allocs.iter().filter(|x| is_arc(x)).count() as i64;
    let arc_in_t = t_allocs.iter().filter(|x| is_arc(x)).count() as i64;
    let place: Arc<T> = match (place_a, place_u) {
        (Some(a), _) => a,
        (_, Some(u)) => u.shareable(),
        _ => unreachable!(),
    };
    let count = Arc::count(&place);
    let blk = harness::rec_of(place.heap_ptr() as usize);
    let fresh = match blk {
        Some((i, 0)) => allocs.iter().any(|x| x.0 == i && is_arc(x)) && harness::rec(i).live,
        _ => false,
    };
    let place_same = blk.map(|x| x.0) == old_blk;
    let old_live = old_blk.map(|i| harness::rec(i).live).unwrap_or(false);
    let old_count = if shared { Arc::count(&others[0]) } else if old_live { 1 } else { 0 };
    let old_same = if shared { *others[0] == old_val } else { !old_live || *place == old_val };
    let res = match &r {
        Ok(()) => {
            let eq = match t_res {
                Ok(tv) => *place == *tv,
                Err(_) => false,
            };
            format!("{}[count={},allocs={},fresh={},eq={},old_count={},old_same={}]", shown, count, arc_here - arc_in_t, fresh, eq, old_count, old_same)
        }
        Err(e) => {
            let same_msg = match t_res {
                Err(te) => te.msg == e.msg,
                Ok(_) => false,
            };
            format!("{}[allocs={},old_count={},old_same={},place_same={}]{{passthrough={},same_msg={}", shown, arc_here - arc_in_t, old_count, old_same, place_same, passthrough, same_msg)
        }
    };
    set_recording(true);
    drop(place);
    drop(others);
    drop(r);
    set_recording(false);
    evs.extend(take_events());
    let leaked = allocs.iter().filter(|x| harness::rec(x.0).live).count() + old_blk.map(|i| harness::rec(i).live as usize).unwrap_or(0);
    if res.ends_with(']') {
        format!("{}{{leaked={},bad_events={},nhr_same=true}}", res, leaked, bad_events(&evs))
    } else {
        format!("{},leaked={},bad_events={},nhr_same=true}}", res, leaked, bad_events(&evs))
    }
}

fn dip_case<T: DeserializeOwned + PartialEq + fmt::Debug + Default>(input: &V, k: usize) -> String {
    let c = Ctl::new(k);
    set_recording(true);
    let rt: Result<T, E> = T::deserialize(D { v: input, ctl: &c });
    set_recording(false);
    let evs = take_events();
    let t_allocs = allocs_of(&evs);
    let t_shown = format!("{}{{passthrough={}}}", c.show(&rt), c.passthrough(&rt));
    let a = dip_handle::<T>(input, k, &rt, &t_allocs, true);
    let u = dip_handle::<T>(input, k, &rt, &t_allocs, false);
    drop(rt);
    format!("T={} Arc={} Unique={}", t_shown, a, u)
}

// ------------------------------------------------------------------------------------------------
// payload descriptions

enum P {
    U8(u8),
    U64(u64),
    I32(i32),
    Bool(bool),
    Str(String),
    Unit,
    Marker,
    Arr0,
    Chain(usize),
    Pair(u32, String),
    Seq(Vec<u16>),
    Opt(Option<u8>),
    Outer(Outer),
}

fn s_tok(t: &str) -> Option<String> {
    t.strip_prefix('=').map(|s| s.to_string())
}
fn parse_opt(t: &[&str]) -> Option<Option<u8>> {
    match t {
        ["none"] => Some(None),
        ["some", n] => n.parse().ok().map(Some),
        _ => None,
    }
}
fn parse_payload(t: &[&str]) -> Option<P> {
    match t {
        ["u8", n] => n.parse().ok().map(P::U8),
        ["u64", n] => n.parse().ok().map(P::U64),
        ["i32", n] => n.parse().ok().map(P::I32),
        ["bool", b] => b.parse().ok().map(P::Bool),
        ["str", s] => s_tok(s).map(P::Str),
        ["unit"] => Some(P::Unit),
        ["marker"] => Some(P::Marker),
        ["arr0"] => Some(P::Arr0),
        ["chain", n] => n.parse().ok().map(P::Chain),
        ["pair", n, s] => Some(P::Pair(n.parse().ok()?, s_tok(s)?)),
        ["seq", len, xs @ ..] => {
            let len: usize = len.parse().ok()?;
            if xs.len() != len {
                return None;
            }
            Some(P::Seq(xs.iter().map(|x| x.parse().ok()).collect::<Option<Vec<u16>>>()?))
        }
        ["opt", rest @ ..] => parse_opt(rest).map(P::Opt),
        ["outer", id, name, a, b, len, rest @ ..] => {
            let len: usize = len.parse().ok()?;
            if rest.len() < len {
                return None;
            }
            let tags = rest[..len].iter().map(|x| x.parse().ok()).collect::<Option<Vec<u16>>>()?;
            Some(P::Outer(Outer {
                id: id.parse().ok()?,
                name: s_tok(name)?,
                inner: Inner { a: a.parse().ok()?, b: b.parse().ok()? },
                tags,
                opt: parse_opt(&rest[len..])?,
                pad: [0; 20],
            }))
        }
        _ => None,
    }
}

fn opt_v(o: &Option<u8>) -> V {
    match o {
        None => V::None,
        Some(x) => V::Some(Box::new(V::U8(*x))),
    }
}
fn to_v(p: &P) -> V {
    match p {
        P::U8(x) => V::U8(*x),
        P::U64(x) => V::U64(*x),
        P::I32(x) => V::I32(*x),
        P::Bool(b) => V::Bool(*b),
        P::Str(s) => V::Str(s.clone()),
        P::Unit => V::Unit,
        P::Marker => V::Unit,
        P::Arr0 => V::Seq(vec![]),
        P::Chain(_) => V::Unit,
        P::Pair(n, s) => V::Seq(vec![V::U32(*n), V::Str(s.clone())]),
        P::Seq(xs) => V::Seq(xs.iter().map(|x| V::U16(*x)).collect()),
        P::Opt(o) => opt_v(o),
        P::Outer(o) => V::Seq(vec![
            V::U32(o.id),
            V::Str(o.name.clone()),
            V::Seq(vec![V::I32(o.inner.a), V::Bool(o.inner.b)]),
            V::Seq(o.tags.iter().map(|x| V::U16(*x)).collect()),
            opt_v(&o.opt),
        ]),
    }
}

fn answer(line: &str) -> String {
    let t: Vec<&str> = line.trim().split(' ').collect();
    if t.len() < 3 {
        return "bad-query".to_string();
    }
    let k: usize = match t[1].parse() {
        Ok(k) => k,
        Err(_) => return "bad-query".to_string(),
    };
    let p = match parse_payload(&t[2..]) {
        Some(p) => p,
        None => return "bad-query".to_string(),
    };
    match t[0] {
        "ser" => match &p {
            P::U8(x) => ser_case(x, k),
            P::U64(x) => ser_case(x, k),
            P::I32(x) => ser_case(x, k),
            P::Bool(x) => ser_case(x, k),
            P::Str(x) => ser_case(x, k),
            P::Unit => ser_case(&(), k),
            P::Marker => ser_case(&Marker, k),
            P::Arr0 => ser_case(&([] as [u8; 0]), k),
            P::Chain(n) => ser_case(&Chain::of_depth(*n), k),
            P::Pair(n, s) => ser_case(&(*n, s.clone()), k),
            P::Seq(x) => ser_case(x, k),
            P::Opt(x) => ser_case(x, k),
            P::Outer(x) => ser_case(x, k),
        },
        "de" => {
            let v = to_v(&p);
            match &p {
                P::U8(_) => de_case::<u8>(&v, k),
                P::U64(_) => de_case::<u64>(&v, k),
                P::I32(_) => de_case::<i32>(&v, k),
                P::Bool(_) => de_case::<bool>(&v, k),
                P::Str(_) => de_case::<String>(&v, k),
                P::Unit => de_case::<()>(&v, k),
                P::Marker => de_case::<Marker>(&v, k),
                P::Arr0 => de_case::<[u8; 0]>(&v, k),
                P::Chain(_) => "bad-query".to_string(),
                P::Pair(..) => de_case::<(u32, String)>(&v, k),
                P::Seq(_) => de_case::<Vec<u16>>(&v, k),
                P::Opt(_) => de_case::<Option<u8>>(&v, k),
                P::Outer(_) => de_case::<Outer>(&v, k),
            }
        }
        "dip" => {
            let v = to_v(&p);
            match &p {
                P::U8(_) => dip_case::<u8>(&v, k),
                P::U64(_) => dip_case::<u64>(&v, k),
                P::I32(_) => dip_case::<i32>(&v, k),
                P::Bool(_) => dip_case::<bool>(&v, k),
                P::Str(_) => dip_case::<String>(&v, k),
                P::Unit => dip_case::<()>(&v, k),
                P::Marker => dip_case::<Marker>(&v, k),
                P::Arr0 => dip_case::<[u8; 0]>(&v, k),
                P::Chain(_) => "bad-query".to_string(),
                P::Pair(..) => dip_case::<(u32, String)>(&v, k),
                P::Seq(_) => dip_case::<Vec<u16>>(&v, k),
                P::Opt(_) => dip_case::<Option<u8>>(&v, k),
                P::Outer(_) => dip_case::<Outer>(&v, k),
            }
        }
        _ => "bad-query".to_string(),
    }
}

fn main() {
    let stdin = std::io::stdin();
    let out = std::io::stdout();
    let mut out = out.lock();
    for line in stdin.lock().lines() {
        let line = match line {
            Ok(l) => l,
            Err(_) => break,
        };
        if harness::nrec() + 4096 > harness::MAXB {
            // the allocation record table is nearly full: refuse rather than mis-measure
            let _ = writeln!(out, "machinery:record-table-full");
            let _ = out.flush();
            std::process::exit(5);
        }
        let _ = writeln!(out, "{}", answer(&line));
    }
    let _ = out.flush();
}
