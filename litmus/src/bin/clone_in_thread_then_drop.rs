//! C02: clones made *inside* a thread race the drop of another handle.
//! Phase 1: T1 owns `b` and keeps cloning/reading/dropping clones of it, T2 owns `c`, reads, drops;
//! main drops `a` at once, without joining.  Phase 2: workers clone from a shared `&Arc` (the
//! source handle is alive during every clone), main destroys after the join.
use litmus::*;
use triomphe::Arc;

fn main() {
    let mut t = Tally::new();
    for r in 0..rounds(4) {
        let tag = 60 + r as u64;
        let a = Arc::new(Payload::new(tag));
        t.shared(3);
        let b = a.clone();
        let c = a.clone();
        std::thread::scope(|s| {
            s.spawn(move || {
                for _ in 0..3 {
                    let x = b.clone();
                    x.read_expect(tag);
                    drop(x);
                }
                b.read_expect(tag);
                drop(b);
            });
            s.spawn(move || {
                c.read_expect(tag);
                let y = c.clone();
                drop(c);
                y.read_expect(tag);
                drop(y);
            });
            drop(a);
        });

        let a = Arc::new(Payload::new(tag + 100));
        t.shared(3);
        std::thread::scope(|s| {
            for _ in 0..2 {
                s.spawn(|| {
                    let x = Arc::clone(&a);
                    x.read_expect(tag + 100);
                    let y = x.clone();
                    drop(x);
                    y.read_expect(tag + 100);
                    drop(y);
                });
            }
            a.read_expect(tag + 100);
        });
        check(Arc::count(&a) == 1, "count after all clones were dropped");
        drop(a);
    }
    t.finish();
}
