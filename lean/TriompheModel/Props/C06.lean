import TriompheModel.Proofs.Ctor
/-!
# C06 — constructors deliver exactly the given contents and move each element once

Theorems about the constructor model of `Model/Ops.lean` (`runCtor`, `runIterCtor`), for EVERY
memory `m`, every header, every item list of ANY length, every script — no bounds.

* `C06_runCtor_contents`, `C06_runCtor_uninit`, `C06_runCtor_old_blocks`, `C06_runCtor_no_drop`:
  the plain constructors (`Arc::new`, `From<Box>`, `UniqueArc::new`, `From<Vec>`,
  `from_header_and_vec` with plain and `HeaderWithLength` headers, `new_uninit*`).
* `C06_iter_honest`, `C06_iter_inexact`, `C06_iter_built_contents`: the iterator-driven
  constructors (`from_header_and_iter`, `ThinArc::from_header_and_iter`, `FromIterator` for
  `Arc<[T]>` / `UniqueArc<[T]>`, exact-size fast path and collect-to-`Vec` fallback).
* `C06_each_element_destroyed_once_by_the_allocation`, `C06_drop_fresh_ctor`, `C06_drop_fresh_iter`:
  "each input element is destroyed exactly once, by the resulting allocation".

The only way a constructor does not deliver is the layout computation overflowing
(`allocLayoutHeaderSlice … = none`, the `unwrap()` of `Layout::array/extend` in the Rust), which
`C06_layout_never_overflows_below_2_59` excludes for every length up to 2^59 elements; the theorems
carry the success of that computation as an explicit hypothesis (or conclude with it).

`C06_zst`: NOT modelled here.  The element types of the history model (`Tracked`, `TrackedB`) are
non-zero-sized; the `assert_ne!(size_of::<T>(), 0)` refusals and the zero-sized shapes are the
subject of the layout component (`LY.ctorHeaderSlice`, `HsCtor.assertsNonZst`, Props/C05).
-/
namespace M1
open LY

/-! ## the plain constructors -/

/-- **contents**: a value-taking constructor that returns, returns a handle to a NEW block (index
`m.blocks.length`) with count 1, live, not leaked, holding the given header (`none` where the type
has none), exactly the given values in the same order and number, the given length word for the
`HeaderWithLength` form; the slice forms carry the number of values; the log gains exactly one
`.alloc` event (so no input value is dropped or cloned); nothing else changes. -/
theorem C06_runCtor_contents (m : Mem) (c : Ctor) (m' : Mem) (hv : HV) (hc : c.takesValues = true)
    (hr : runCtor m c = some (m', hv)) :
    hv.blk = m.blocks.length ∧
    ∃ k : Block, m'.blocks = m.blocks ++ [k] ∧ k.count = 1 ∧ k.live = true ∧ k.leaked = false ∧
      k.hdr = c.hdr ∧ k.elems = c.vals.map some ∧ k.recLen = c.recLen ∧ some k.lay = c.lay? ∧
      (c.isSlice = true → hv.len = c.vals.length) ∧
      m'.log = m.log ++ [.alloc hv.blk k.lay.size k.lay.align] ∧ m'.nextClone = m.nextClone := by
  rw [runCtor_eq] at hr
  cases hl : c.lay? with
  | none => simp [hl] at hr
  | some lay =>
    simp only [hl, Option.map_some, Option.some.injEq, Prod.mk.injEq] at hr
    obtain ⟨rfl, rfl⟩ := hr
    have hb : (c.handle m.blocks.length).blk = m.blocks.length := by cases c <;> rfl
    refine ⟨hb, _, rfl, rfl, rfl, rfl, rfl, ?_, rfl, rfl, ?_, ?_, rfl⟩
    · simp [Ctor.elems, hc]
    · intro hs; cases c <;> first | rfl | exact Bool.noConfusion hc | exact Bool.noConfusion hs
    · rw [hb]

/-- the `new_uninit*` family: the given header, `n` unwritten slots, nothing else -/
theorem C06_runCtor_uninit (m : Mem) (c : Ctor) (m' : Mem) (hv : HV) (hc : c.takesValues = false)
    (hr : runCtor m c = some (m', hv)) :
    hv.blk = m.blocks.length ∧ hv.ty.elemsInit = false ∧
    ∃ k : Block, m'.blocks = m.blocks ++ [k] ∧ k.count = 1 ∧ k.live = true ∧ k.leaked = false ∧
      k.hdr = c.hdr ∧ k.elems = List.replicate c.slots none ∧ k.recLen = none ∧ some k.lay = c.lay? ∧
      (c.isSlice = true → hv.len = c.slots) ∧
      m'.log = m.log ++ [.alloc hv.blk k.lay.size k.lay.align] ∧ m'.nextClone = m.nextClone := by
  rw [runCtor_eq] at hr
  cases hl : c.lay? with
  | none => simp [hl] at hr
  | some lay =>
    simp only [hl, Option.map_some, Option.some.injEq, Prod.mk.injEq] at hr
    obtain ⟨rfl, rfl⟩ := hr
    have hb : (c.handle m.blocks.length).blk = m.blocks.length := by cases c <;> rfl
    refine ⟨hb, ?_, _, rfl, rfl, rfl, rfl, rfl, ?_, ?_, rfl, ?_, ?_, rfl⟩
    · cases c <;> first | rfl | exact Bool.noConfusion hc
    · simp [Ctor.elems, hc]
    · cases c <;> first | rfl | exact Bool.noConfusion hc
    · intro hs; cases c <;> first | rfl | exact Bool.noConfusion hc | exact Bool.noConfusion hs
    · rw [hb]

/-- every constructor leaves the old blocks untouched and appends exactly one -/
theorem C06_runCtor_old_blocks (m : Mem) (c : Ctor) (m' : Mem) (hv : HV)
    (hr : runCtor m c = some (m', hv)) :
    m'.blocks.length = m.blocks.length + 1 ∧ ∀ j, j < m.blocks.length → m'.blocks[j]? = m.blocks[j]? := by
  rw [runCtor_eq] at hr
  cases hl : c.lay? with
  | none => simp [hl] at hr
  | some lay =>
    simp only [hl, Option.map_some, Option.some.injEq, Prod.mk.injEq] at hr
    obtain ⟨rfl, rfl⟩ := hr
    exact ⟨by simp, fun j hj => by simp [List.getElem?_append_left hj]⟩

/-- **moved, not dropped**: no constructor emits a `.drop` (or `.dropUninit`, `.clone`, `.dealloc`)
event: the only event is the allocation -/
theorem C06_runCtor_no_drop (m : Mem) (c : Ctor) (m' : Mem) (hv : HV)
    (hr : runCtor m c = some (m', hv)) :
    ∃ size align, added m m' = [.alloc m.blocks.length size align] ∧
      ∀ e ∈ added m m', e.isDrop = false ∧ e.isDropUninit = false := by
  rw [runCtor_eq] at hr
  cases hl : c.lay? with
  | none => simp [hl] at hr
  | some lay =>
    simp only [hl, Option.map_some, Option.some.injEq, Prod.mk.injEq] at hr
    obtain ⟨rfl, rfl⟩ := hr
    refine ⟨lay.size, lay.align, added_append _ _ _ _, ?_⟩
    rw [added_append]
    intro e he
    simp only [List.mem_singleton] at he
    subst he
    exact ⟨rfl, rfl⟩

/-- a constructor fails exactly when its layout computation overflows -/
theorem C06_runCtor_succeeds_iff (m : Mem) (c : Ctor) : (runCtor m c).isSome = c.lay?.isSome := by
  rw [runCtor_eq, Option.isSome_map]

/-- … which does not happen for any length up to 2^59 (all header shapes of the model) -/
theorem C06_layout_never_overflows_below_2_59 :
    (∀ (c : Ctor) (m : Mem), c.vals.length ≤ 2 ^ 59 → c.slots ≤ 2 ^ 59 → (runCtor m c).isSome = true) ∧
    (∀ (which : IterCtor) (n : Nat), n ≤ 2 ^ 59 →
      (allocLayoutHeaderSlice bits which.hdrLay trackedLay n).isSome = true) :=
  ⟨fun c m h1 h2 => by rw [C06_runCtor_succeeds_iff]; exact ctor_layout_ok c h1 h2, layout_ok⟩

/-! ### the statement spelled out for the individual constructors -/

theorem C06_fromVec (m m' : Mem) (vs : List Item) (hv : HV) (hr : runCtor m (.fromVec vs) = some (m', hv)) :
    ∃ k : Block, m'.blocks = m.blocks ++ [k] ∧ hv.blk = m.blocks.length ∧ hv.len = vs.length ∧
      k.hdr = none ∧ k.elems = vs.map some ∧ k.count = 1 := by
  obtain ⟨hb, k, h1, h2, _, _, h5, h6, _, _, h9, _⟩ := C06_runCtor_contents m _ m' hv rfl hr
  exact ⟨k, h1, hb, h9 rfl, h5, h6, h2⟩

theorem C06_hsFromVec (m m' : Mem) (h : Item) (vs : List Item) (hv : HV)
    (hr : runCtor m (.hsFromVec h vs) = some (m', hv)) :
    ∃ k : Block, m'.blocks = m.blocks ++ [k] ∧ hv.blk = m.blocks.length ∧ hv.len = vs.length ∧
      k.hdr = some h ∧ k.elems = vs.map some ∧ k.count = 1 := by
  obtain ⟨hb, k, h1, h2, _, _, h5, h6, _, _, h9, _⟩ := C06_runCtor_contents m _ m' hv rfl hr
  exact ⟨k, h1, hb, h9 rfl, h5, h6, h2⟩

theorem C06_hwlFromVec (m m' : Mem) (h : Item) (r : Nat) (vs : List Item) (hv : HV)
    (hr : runCtor m (.hwlFromVec h r vs) = some (m', hv)) :
    ∃ k : Block, m'.blocks = m.blocks ++ [k] ∧ hv.blk = m.blocks.length ∧ hv.len = vs.length ∧
      k.hdr = some h ∧ k.recLen = some r ∧ k.elems = vs.map some ∧ k.count = 1 := by
  obtain ⟨hb, k, h1, h2, _, _, h5, h6, h7, _, h9, _⟩ := C06_runCtor_contents m _ m' hv rfl hr
  exact ⟨k, h1, hb, h9 rfl, h5, h7, h6, h2⟩

theorem C06_sized (m m' : Mem) (c : Ctor) (v : Item) (hv : HV)
    (hc : c = .new v ∨ c = .newB v ∨ c = .fromBox v ∨ c = .uniqueNew v)
    (hr : runCtor m c = some (m', hv)) :
    ∃ k : Block, m'.blocks = m.blocks ++ [k] ∧ hv.blk = m.blocks.length ∧
      k.hdr = none ∧ k.elems = [some v] ∧ k.count = 1 := by
  rcases hc with rfl | rfl | rfl | rfl <;>
  · obtain ⟨hb, k, h1, h2, _, _, h5, h6, _⟩ := C06_runCtor_contents m _ m' hv rfl hr
    exact ⟨k, h1, hb, h5, h6, h2⟩

/-! ## the iterator-driven constructors -/

/-- the shape of a successful iterator-driven construction: one new block with the header (for the
header forms), ALL the items in order, every slot written, the length word for the thin form, count
1; exactly one `.alloc` event, hence no `.drop` -/
def IterBuilt (m : Mem) (which : IterCtor) (h : Option Item) (items : List Item) (lay : Layout)
    (m' : Mem) (hv : HV) : Prop :=
  ∃ k : Block, m'.blocks = m.blocks ++ [k] ∧ hv.blk = m.blocks.length ∧
    k.count = 1 ∧ k.live = true ∧ k.leaked = false ∧ k.lay = lay ∧
    k.hdr = which.hdrOf h ∧ k.elems = items.map some ∧ k.recLen = which.recOf items.length ∧
    hv.kind = which.kind ∧ hv.ty = which.ty ∧ hv.len = which.lenOf items.length ∧
    viewLen m' hv = items.length ∧
    m'.log = m.log ++ [.alloc hv.blk lay.size lay.align] ∧ m'.nextClone = m.nextClone

theorem iterBuilt_of_builtRes (m : Mem) (which : IterCtor) (h : Option Item) (items : List Item)
    (lay : Layout) (m' : Mem) (hv : HV) (hr : which.builtRes m h items lay = .built m' hv) :
    IterBuilt m which h items lay m' hv := by
  simp only [IterCtor.builtRes, CtorRes.built.injEq] at hr
  obtain ⟨rfl, rfl⟩ := hr
  refine ⟨_, rfl, rfl, rfl, rfl, rfl, rfl, rfl, rfl, rfl, rfl, rfl, rfl, ?_, rfl, rfl⟩
  cases which <;> simp [viewLen, IterCtor.kind, IterCtor.ty, IterCtor.lenOf, IterCtor.recOf, Ty.isSlicey]

/-- **honest iterators** (every `len()` answer is the item count, every `size_hint()` answer the
exact pair — `[]` = the default answer —, no panic): every iterator-driven constructor, in both
profiles, returns a handle with exactly the given header and items. -/
theorem C06_iter_honest (m : Mem) (dbg : Bool) (which : IterCtor) (h : Option Item) (sc : IterScript)
    (hh : sc.Honest) (lay : Layout)
    (hal : allocLayoutHeaderSlice bits which.hdrLay trackedLay sc.items.length = some lay) :
    ∃ m' hv, runIterCtor m dbg which h sc = .built m' hv ∧ IterBuilt m which h sc.items lay m' hv := by
  have hr := runIterCtor_honest m dbg which h sc hh lay hal
  exact ⟨_, _, hr, iterBuilt_of_builtRes m which h sc.items lay _ _ rfl⟩

/-- the same without the layout hypothesis, for up to 2^59 items -/
theorem C06_iter_honest_below_2_59 (m : Mem) (dbg : Bool) (which : IterCtor) (h : Option Item)
    (sc : IterScript) (hh : sc.Honest) (hn : sc.items.length ≤ 2 ^ 59) :
    ∃ m' hv lay, runIterCtor m dbg which h sc = .built m' hv ∧ IterBuilt m which h sc.items lay m' hv := by
  have := layout_ok which sc.items.length hn
  obtain ⟨lay, hal⟩ := Option.isSome_iff_exists.1 this
  obtain ⟨m', hv, h1, h2⟩ := C06_iter_honest m dbg which h sc hh lay hal
  exact ⟨m', hv, lay, h1, h2⟩

/-- **honest inexact hint** (`lower ≠ upper`, or no upper bound, on the first `size_hint()` call; no
panic; whatever `len()` says): `FromIterator` for `Arc<[T]>` and `UniqueArc<[T]>` takes the
collect-to-`Vec` fallback and delivers the same contents. -/
theorem C06_iter_inexact (m : Mem) (dbg : Bool) (which : IterCtor)
    (hw : which = .fromIter ∨ which = .uniqueFromIter) (h : Option Item) (sc : IterScript)
    (lo : Nat) (hi : Option Nat) (rest : List (Nat × Option Nat))
    (hhint : sc.hints = (lo, hi) :: rest) (hne : some lo ≠ hi) (hp : sc.panicAt = none) (lay : Layout)
    (hal : allocLayoutHeaderSlice bits which.hdrLay trackedLay sc.items.length = some lay) :
    ∃ m' hv, runIterCtor m dbg which h sc = .built m' hv ∧ IterBuilt m which h sc.items lay m' hv := by
  have hr := runIterCtor_inexact m dbg which hw h sc lo hi rest hhint hne hp lay hal
  exact ⟨_, _, hr, iterBuilt_of_builtRes m which h sc.items lay _ _ rfl⟩

/-- for EVERY script, honest or not: whenever an iterator-driven constructor returns a handle at
all, the block holds exactly the header and all the items of the iterator — wrong contents are
never returned -/
theorem C06_iter_built_contents (m : Mem) (dbg : Bool) (which : IterCtor) (h : Option Item)
    (sc : IterScript) (m' : Mem) (hv : HV) (hr : runIterCtor m dbg which h sc = .built m' hv) :
    ∃ lay, allocLayoutHeaderSlice bits which.hdrLay trackedLay sc.items.length = some lay ∧
      IterBuilt m which h sc.items lay m' hv := by
  have hs := runIterCtor_spec m dbg which h sc
  rw [hr] at hs
  cases hs with
  | built lay hal => exact ⟨lay, hal, iterBuilt_of_builtRes m which h sc.items lay _ _ rfl⟩

/-! ## each element is destroyed exactly once, by the resulting allocation -/

/-- dropping the payload of a block whose slots are all written, through a view that considers the
elements initialised and sees them all: one `.drop` for the header (if any), then exactly one
`.drop` per element, in order; no `.dropUninit` -/
theorem C06_each_element_destroyed_once_by_the_allocation (b : Nat) (k : Block) (t : Ty) (len : Nat)
    (hall : ∀ e ∈ k.elems, e.isSome = true) (ht : t.elemsInit = true) (hlen : len = k.elems.length) :
    ∃ vs : List Item, k.elems = vs.map some ∧
      payloadDrops b k t len = hdrDrops k.hdr ++ dropsOf vs ∧
      dropIds (payloadDrops b k t len) = (k.hdr.toList ++ vs).map (·.id) ∧
      ∀ e ∈ payloadDrops b k t len, e.isDropUninit = false := by
  obtain ⟨vs, hvs⟩ := all_some_eq_map hall
  have hp := payloadDrops_written b k t len vs hvs ht (by simp [hlen, hvs])
  refine ⟨vs, hvs, hp, ?_, ?_⟩
  · rw [hp, dropIds_append, dropIds_hdrDrops, dropIds_dropsOf, List.map_append]
  · rw [hp]
    intro e he
    rcases List.mem_append.1 he with he | he
    · exact no_uninit_hdrDrops _ e he
    · exact no_uninit_dropsOf _ e he

/-- dropping the sole handle of a freshly constructed `Arc`/`UniqueArc`: the header and each given
value are destroyed exactly once, in order, then the block is deallocated once; the block ends
dead with count 0 -/
theorem C06_drop_fresh_ctor (m : Mem) (c : Ctor) (m' : Mem) (hv : HV) (hc : c.takesValues = true)
    (hr : runCtor m c = some (m', hv)) :
    ∃ m'' k size align, dropHandle m' hv = some m'' ∧
      m''.log = m'.log ++ (hdrDrops c.hdr ++ dropsOf c.vals ++ [.dealloc hv.blk size align]) ∧
      m''.blocks = m.blocks ++ [k] ∧ k.live = false ∧ k.count = 0 := by
  rw [runCtor_eq] at hr
  cases hl : c.lay? with
  | none => simp [hl] at hr
  | some lay =>
    simp only [hl, Option.map_some, Option.some.injEq, Prod.mk.injEq] at hr
    obtain ⟨rfl, rfl⟩ := hr
    have hb : (c.handle m.blocks.length).blk = m.blocks.length := by cases c <;> rfl
    have hd := dropHandle_sole m.blocks (m.log ++ [.alloc m.blocks.length lay.size lay.align])
      m.nextClone ⟨1, true, lay, c.hdr, c.recLen, c.elems, false⟩ (c.handle m.blocks.length) c.vals
      rfl (by simp [Ctor.elems, hc]) hb
      (by cases c <;> first | exact Or.inl rfl | exact Or.inr rfl)
      (by cases c <;> first | rfl | exact Bool.noConfusion hc)
      (by cases c <;> first | rfl | exact Bool.noConfusion hc)
    exact ⟨_, _, _, _, hd, by rw [hb], rfl, rfl, rfl⟩

/-- for EVERY script: dropping the handle an iterator-driven constructor returned destroys the
header and each item of the iterator exactly once, in order, then deallocates the block once -/
theorem C06_drop_fresh_iter (m : Mem) (dbg : Bool) (which : IterCtor) (h : Option Item)
    (sc : IterScript) (m' : Mem) (hv : HV) (hr : runIterCtor m dbg which h sc = .built m' hv) :
    ∃ m'' k size align, dropHandle m' hv = some m'' ∧
      m''.log = m'.log ++ (hdrDrops (which.hdrOf h) ++ dropsOf sc.items ++ [.dealloc hv.blk size align]) ∧
      m''.blocks = m.blocks ++ [k] ∧ k.live = false ∧ k.count = 0 := by
  have hs := runIterCtor_spec m dbg which h sc
  rw [hr] at hs
  cases hs with
  | built lay hal =>
    cases which with
    | thinFromIter =>
      exact ⟨_, _, _, _, dropHandle_sole_thin _ _ _ _ _ sc.items rfl rfl rfl rfl rfl, rfl, rfl, rfl, rfl⟩
    | hsFromIter =>
      exact ⟨_, _, _, _, dropHandle_sole _ _ _ _ _ sc.items rfl rfl rfl (Or.inl rfl) rfl rfl,
        rfl, rfl, rfl, rfl⟩
    | fromIter =>
      exact ⟨_, _, _, _, dropHandle_sole _ _ _ _ _ sc.items rfl rfl rfl (Or.inl rfl) rfl rfl,
        rfl, rfl, rfl, rfl⟩
    | uniqueFromIter =>
      exact ⟨_, _, _, _, dropHandle_sole _ _ _ _ _ sc.items rfl rfl rfl (Or.inr rfl) rfl rfl,
        rfl, rfl, rfl, rfl⟩

/-! ## non-vacuity: concrete, non-trivial instances -/

section Examples

def exItems : List Item := [⟨1, 10⟩, ⟨2, 20⟩, ⟨3, 30⟩]
def exHdr : Item := ⟨9, 90⟩
/-- a memory that already holds a block and a log entry -/
def exMem : Mem := (Arc.new State.init.mem .sized (some ⟨7, 70⟩)).1

/-- honest scripts exist: default answers, and explicit (repeated) exact answers -/
example : IterScript.Honest ⟨[], [], exItems, none⟩ := by decide
example : IterScript.Honest ⟨[3, 3], [(3, some 3), (3, some 3)], exItems, none⟩ := by decide
/-- … and lying ones are not honest -/
example : ¬ IterScript.Honest ⟨[3, 2], [], exItems, none⟩ := by decide

/-- the layout hypothesis holds on these instances -/
example : allocLayoutHeaderSlice bits IterCtor.thinFromIter.hdrLay trackedLay exItems.length = some ⟨48, 8⟩ := by
  decide
example : (Ctor.hwlFromVec exHdr 3 exItems).lay? = some ⟨48, 8⟩ := by decide

/-- `C06_runCtor_contents` applies to `from_header_and_vec(HeaderWithLength::new(h, 3), vec)` in a
non-empty memory: the run succeeds and its premises hold -/
example : ∃ m' hv, runCtor exMem (.hwlFromVec exHdr 3 exItems) = some (m', hv) ∧ hv.blk = 1 ∧
    (m'.blocks.map (·.elems)) = [[some ⟨7, 70⟩], exItems.map some] := by
  refine ⟨_, _, by rw [runCtor_eq]; rfl, rfl, rfl⟩

/-- `C06_iter_honest` on a concrete honest script, thin form: the run is `.built`, the new block is
block 1 and records length 3 -/
example : ∃ m' hv, runIterCtor exMem true .thinFromIter (some exHdr) ⟨[3, 3], [], exItems, none⟩ = .built m' hv ∧
    IterBuilt exMem .thinFromIter (some exHdr) exItems ⟨48, 8⟩ m' hv :=
  C06_iter_honest exMem true .thinFromIter (some exHdr) ⟨[3, 3], [], exItems, none⟩ (by decide) ⟨48, 8⟩
    (by decide)

/-- `C06_iter_inexact` on a concrete script whose hint is `(1, None)` -/
example : ∃ m' hv, runIterCtor exMem true .fromIter none ⟨[], [(1, none)], exItems, none⟩ = .built m' hv ∧
    IterBuilt exMem .fromIter none exItems ⟨32, 8⟩ m' hv :=
  C06_iter_inexact exMem true .fromIter (Or.inl rfl) none ⟨[], [(1, none)], exItems, none⟩ 1 none []
    rfl (by decide) rfl ⟨32, 8⟩ (by decide)

/-- `C06_each_element_destroyed_once_by_the_allocation`: a concrete fully written block with a header -/
example : payloadDrops 5 ⟨1, true, ⟨48, 8⟩, some exHdr, some 3, exItems.map some, false⟩ .hwl 3
    = [.drop 9, .drop 1, .drop 2, .drop 3] := by decide

/-- … and the hypothesis "all slots written" matters: an unwritten slot seen through an initialised
view would be a `.dropUninit` (this is what C07/C15 exclude) -/
example : payloadDrops 5 ⟨1, true, ⟨48, 8⟩, none, none, [some ⟨1, 10⟩, none], false⟩ .slice 2
    = [.drop 1, .dropUninit 5 1] := by decide

end Examples

end M1
