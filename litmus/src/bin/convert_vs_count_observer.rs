//! C04 / C10 / C11: count-neutral operations (thin <-> fat conversions, into_raw / from_raw, into_raw_offset /
//! from_raw_offset, borrows, with_arc callbacks, union construction and borrow) run in one thread while another thread,
//! holding the only other owning handle, polls the count through its own handle: it must read 2 at every moment —
//! "moving a handle, converting it between kinds, borrowing it ... never change the count, not even while the borrow is
//! in use"; "thin->fat->thin conversions return the same allocation without touching the count".
use litmus::*;
use std::sync::atomic::{AtomicBool, AtomicUsize, Ordering::Relaxed};
use triomphe::{Arc, ArcUnion, HeaderSlice, HeaderWithLength, ThinArc};

static DONE: AtomicBool = AtomicBool::new(false);
static BAD: AtomicUsize = AtomicUsize::new(0);
static OBS_DONE: AtomicBool = AtomicBool::new(false);

fn main() {
    let mut t = Tally::new();
    let n = rounds(3);
    // ---- sized payload ------------------------------------------------------------------------
    {
        let tag = 900;
        let a = Arc::new(Payload::new(tag));
        t.shared(2);
        let b = a.clone();
        DONE.store(false, Relaxed);
        OBS_DONE.store(false, Relaxed);
        std::thread::scope(|s| {
            s.spawn(move || {
                let mut b = b;
                for _ in 0..n {
                    let p = Arc::into_raw(b);
                    b = unsafe { Arc::from_raw(p) };
                    let o = Arc::into_raw_offset(b);
                    o.with_arc(|x| x.read_expect(tag));
                    let bo = o.borrow_arc();
                    bo.with_arc(|x| x.read_expect(tag));
                    b = Arc::from_raw_offset(o);
                    b.with_raw_offset_arc(|x| x.read_expect(tag));
                    let u: ArcUnion<Payload, Other> = ArcUnion::from_first(b);
                    u.as_first().unwrap().read_expect(tag);
                    let ub = u.borrow();
                    if let triomphe::ArcUnionBorrow::First(x) = ub { x.read_expect(tag) }
                    // back to a plain Arc: the union is the only way in, `clone_arc` + drop would not be neutral
                    let raw = std::mem::ManuallyDrop::new(u);
                    b = unsafe { Arc::from_raw(raw.as_first().unwrap().get() as *const Payload) };
                    let bb = b.borrow_arc();
                    bb.read_expect(tag);
                    let _ = Arc::as_ptr(&b);
                    let moved = b;
                    b = moved;
                }
                DONE.store(true, Relaxed);
                // keep the handle until the observer has stopped looking
                while !OBS_DONE.load(Relaxed) {
                    spin();
                }
                drop(b);
            });
            let mut polls = 0u64;
            while !DONE.load(Relaxed) {
                let c1 = Arc::count(&a);
                let c2 = Arc::strong_count(&a);
                if c1 != 2 || c2 != 2 {
                    BAD.store(c1 * 1000 + c2, Relaxed);
                }
                polls += 1;
                if polls % 64 == 0 {
                    spin();
                }
            }
            OBS_DONE.store(true, Relaxed);
        });
        let bad = BAD.load(Relaxed);
        check(bad == 0, &format!("a concurrent observer saw the count at {} / {} while exactly 2 owning handles existed (sized payload: raw / offset / union conversions and borrows)", bad / 1000, bad % 1000));
        drop(a);
    }
    // ---- header + slice payload: thin <-> fat -------------------------------------------------
    {
        let tag = 950;
        let th = Thin::make(tag);
        t.shared(2);
        let th2 = th.clone();
        DONE.store(false, Relaxed);
        OBS_DONE.store(false, Relaxed);
        BAD.store(0, Relaxed);
        std::thread::scope(|s| {
            s.spawn(move || {
                let mut cur: Thin = th2;
                for _ in 0..n {
                    let fat: Arc<HeaderSlice<HeaderWithLength<Payload>, [Box<u64>]>> = Arc::from_thin(cur);
                    fat.header.header.read_expect(tag);
                    cur = Arc::into_thin(fat);
                    cur.with_arc(|x| x.header.header.read_expect(tag));
                    cur.with_arc_mut(|x| x.header().read_expect(tag));
                    let raw = cur.into_raw();
                    cur = unsafe { ThinArc::from_raw(raw) };
                    let prot = Arc::protected_from_thin(cur);
                    cur = Arc::protected_into_thin(prot);
                    let _ = cur.as_ptr();
                    cur.read();
                }
                DONE.store(true, Relaxed);
                while !OBS_DONE.load(Relaxed) {
                    spin();
                }
                drop(cur);
            });
            let mut polls = 0u64;
            while !DONE.load(Relaxed) {
                let c = ThinArc::strong_count(&th);
                let c2 = th.with_arc(|x| Arc::count(x));
                if c != 2 || c2 != 2 {
                    BAD.store(c * 1000 + c2, Relaxed);
                }
                polls += 1;
                if polls % 64 == 0 {
                    spin();
                }
            }
            OBS_DONE.store(true, Relaxed);
        });
        let bad = BAD.load(Relaxed);
        check(bad == 0, &format!("a concurrent observer saw the count at {} / {} while exactly 2 owning handles existed (thin <-> fat conversions, with_arc, with_arc_mut, raw thin pointer)", bad / 1000, bad % 1000));
        drop(th);
    }
    t.finish();
}
