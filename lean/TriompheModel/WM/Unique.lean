import TriompheModel.WM.Graph
open Facts
namespace WM

/-- value returned by a load of the count -/
def valRead (ops : List Op) : Option Nat → Int
  | none => 1
  | some j => (run (ops.take (j+1))).val

/-- read-write coherence: a load that happens-before a write reads from an earlier write -/
def CoRW (X : CountExec) : Prop :=
  ∀ {m : Nat} {a : X.A} {o : MemOrd} {rf : Option Nat},
    (X.kind a).loadInfo = some (o, rf) → X.hb (.oth a) (.rmw m) → ∀ j, rf = some j → j < m

/-- accesses through a handle come after its birth -/
def ViaBorn (X : CountExec) : Prop :=
  ∀ {a : X.A} {h : H}, (X.kind a).via = some h → h ≠ 0 →
    ∃ i s, X.ops[i]? = some (Op.inc h s) ∧ X.hb (.rmw i) (.oth a)

variable {X : CountExec} {decOrd : MemOrd} {fenceOrd : Option MemOrd}

theorem length_one_mem {l : List H} {h h' : H} (hl : l.length = 1) (hh : h ∈ l) (hh' : h' ∈ l) : h' = h := by
  match l, hl with
  | [x], _ => simp at hh hh'; rw [hh, hh']

/-- **C03/C08/C09, schedule part, former sharers.** If an Acquire load of the count through handle
`h` returns 1, every access ever made through any other handle that existed at the point the load
read from happens-before the load (hence before the mutable access it licenses). -/
theorem unique_verdict_exclusive (hc : Consistent X) (hp : Protocol X decOrd fenceOrd)
    (hrw : CoRW X) (hvb : ViaBorn X) (hrel : decOrd.isRel = true)
    {l : X.A} {h : H} {o : MemOrd} {rf : Option Nat}
    (hl : X.kind l = .load h o rf) (hacq : o.isAcq = true) (hone : valRead X.ops rf = 1) :
    ∀ (a : X.A) (h' : H), (X.kind a).via = some h' → h' ≠ h →
      (h' = 0 ∨ ∃ j, rf = some j ∧ h' ∈ kids (X.ops.take (j+1))) →
      X.hb (.oth a) (.oth l) := by
  intro a h' hva hne hborn
  have hli : (X.kind l).loadInfo = some (o, rf) := by rw [hl]; rfl
  have hvl : (X.kind l).via = some h := by rw [hl]; rfl
  -- the prefix the load reads from
  let P : List Op := match rf with | none => [] | some j => X.ops.take (j+1)
  have hwP : WF P := by
    cases rf with
    | none => exact WF.nil
    | some j => exact wf_take hc hp (j+1)
  have hvalP : (run P).val = 1 := by
    cases rf with
    | none => rfl
    | some j => exact hone
  have hiP := inv_run hwP
  obtain ⟨hl1, _⟩ := live_iff hwP
  have hlen : (run P).live.length = 1 := by
    have := hiP.val; rw [hvalP] at this; omega
  -- facts about membership in the prefix
  have hkidsP : ∀ x, (x = 0 ∨ ∃ j, rf = some j ∧ x ∈ kids (X.ops.take (j+1))) → x ∈ (run P).born := by
    intro x hx
    rw [born_run]
    rcases hx with h0 | ⟨j, hj, hk⟩
    · exact Or.inl h0
    · subst hj; exact Or.inr hk
  have hdeadP : ∀ x, x ∈ deads P → ∃ m j, rf = some j ∧ m ≤ j ∧ X.ops[m]? = some (Op.dec x) := by
    intro x hx
    cases rf with
    | none => simp [P, deads] at hx
    | some j =>
      obtain ⟨m, hm, hmd⟩ := exists_lt_of_mem_take (mem_deads.1 hx)
      exact ⟨m, j, rfl, by omega, hmd⟩
  -- `h` itself is live in the prefix
  have hhlive : h ∈ (run P).live := by
    rw [hl1]
    refine ⟨?_, ?_⟩
    · apply hkidsP
      by_cases h0 : h = 0
      · exact Or.inl h0
      · obtain ⟨i, s, hi, hhb⟩ := hvb hvl h0
        obtain ⟨j, hj, hij⟩ := hc.coWR hli hhb
        exact Or.inr ⟨j, hj, mem_kids.2 ⟨s, mem_take_of_lt hi (by omega)⟩⟩
    · intro hd
      obtain ⟨m, j, hj, hmj, hmd⟩ := hdeadP h hd
      have := hrw hli (hp.via_alive hvl hmd) j hj
      omega
  -- so `h'` is not live, hence released inside the prefix
  have hh'dead : h' ∈ deads P := by
    apply Classical.byContradiction
    intro hnd
    have : h' ∈ (run P).live := by rw [hl1]; exact ⟨hkidsP h' hborn, hnd⟩
    exact hne (length_one_mem hlen hhlive this)
  obtain ⟨m, j, hj, hmj, hmd⟩ := hdeadP h' hh'dead
  subst hj
  have h1 : X.hb (.oth a) (.rmw m) := hp.via_alive hva hmd
  have h2 : X.hb (.rmw m) (.oth l) := by
    have : (X.ordR m).isRel = true := by rw [hp.dec_ord hmd]; exact hrel
    exact hc.sw_load this hli hacq hmj
  exact hc.hb_trans h1 h2

end WM
