/-!
# M5 — comparison, ordering, hashing, formatting (property C14)

Executable, import-free model of every `PartialEq / Eq / PartialOrd / Ord / Hash / Debug / Display`
impl and derive in `/repo/src/{arc,thin_arc,offset_arc,arc_borrow,arc_union,header}.rs`.

* The *payload* is arbitrary: `PayloadOps α` carries eleven **independent** functions (nothing says
  that `ne` is the negation of `eq`, that `lt` agrees with `partialCmp`, …).  The see-through half of
  C14 is proved for every such payload; only the consistency half assumes `Lawful`.
* Every handle kind gets its trait methods written **in the order of the Rust body**, delegating
  exactly as the source delegates.  A method the source does *not* define is the trait's default
  method (`PartialEq::ne`, `PartialOrd::{lt,le,gt,ge}`), modelled by `defNe`, `defLt`, ….
* `#[derive(..)]` is expanded by the rules rustc uses (checked with `rustc -Zunpretty=expanded` on
  the installed 1.95 toolchain): derived `PartialEq` defines only `eq` (`f1 == f1' && f2 == f2'`),
  derived `PartialOrd` defines only `partial_cmp` (lexicographic `match` chain), derived `Ord` only
  `cmp`, derived `Hash` hashes the fields in order, derived `Debug` is `debug_struct`/`debug_tuple`.
* Parts of `core` the crate's impls bottom out in (slices, `usize`, 3-tuples of references) are
  modelled here as well; they are *modelled, not verified* (DESIGN §8).

A trait a type does not implement has a dummy entry (`PayloadOps.absent`) that nothing observes:
`Kind.traits` lists what exists, and the driver prints `-` for the rest.
-/
namespace Cmp

/-- The payload's own operators; all independent of one another. -/
structure PayloadOps (α : Type) where
  eq : α → α → Bool
  ne : α → α → Bool
  lt : α → α → Bool
  le : α → α → Bool
  gt : α → α → Bool
  ge : α → α → Bool
  partialCmp : α → α → Option Ordering
  cmp : α → α → Ordering
  /-- the byte stream `Hash::hash` feeds to the hasher -/
  hash : α → List Nat
  debug : α → String
  display : α → String

/-- entries for traits that a type does not implement (never observed) -/
def PayloadOps.absent {α : Type} : PayloadOps α where
  eq _ _ := false
  ne _ _ := false
  lt _ _ := false
  le _ _ := false
  gt _ _ := false
  ge _ _ := false
  partialCmp _ _ := none
  cmp _ _ := .eq
  hash _ := []
  debug _ := ""
  display _ := ""

/-- The one thing in `core` whose shape differs between toolchains and is visible to an unlawful
payload: the generic loop of `<[T] as PartialEq>::eq` tests `a != b` (1.8x and later:
`if lhs[idx] != rhs[idx] { return false }`) or `a == b` (older: `zip().all(|(a, b)| a == b)`).
The check calibrates this against the installed `core` (no crate code involved). -/
structure StdCfg where
  sliceEqViaNe : Bool := true

/-! ## `core::cmp` default methods -/

/-- `PartialEq::ne` default: `!self.eq(other)` -/
def defNe {β : Type} (eq : β → β → Bool) (a b : β) : Bool := !eq a b

def isLt : Option Ordering → Bool
  | some .lt => true
  | _ => false
def isLe : Option Ordering → Bool
  | some .lt => true
  | some .eq => true
  | _ => false
def isGt : Option Ordering → Bool
  | some .gt => true
  | _ => false
def isGe : Option Ordering → Bool
  | some .gt => true
  | some .eq => true
  | _ => false

/-- `PartialOrd::lt` default: `self.partial_cmp(other).is_some_and(Ordering::is_lt)` -/
def defLt {β : Type} (pc : β → β → Option Ordering) (a b : β) : Bool := isLt (pc a b)
def defLe {β : Type} (pc : β → β → Option Ordering) (a b : β) : Bool := isLe (pc a b)
def defGt {β : Type} (pc : β → β → Option Ordering) (a b : β) : Bool := isGt (pc a b)
def defGe {β : Type} (pc : β → β → Option Ordering) (a b : β) : Bool := isGe (pc a b)

/-! ## `usize` -/

/-- `Hasher::write_usize(n)`: the 8 native-endian (little-endian) bytes of `n` -/
def usizeBytes (n : Nat) : List Nat :=
  (List.range 8).map fun i => (n / 256 ^ i) % 256

def usizeOps : PayloadOps Nat where
  eq a b := a == b
  ne a b := a != b
  lt a b := decide (a < b)
  le a b := decide (a ≤ b)
  gt a b := decide (b < a)
  ge a b := decide (b ≤ a)
  partialCmp a b := some (compare a b)
  cmp a b := compare a b
  hash := usizeBytes
  debug n := toString n
  display n := toString n

/-! ## slices `[T]` (`core::slice::cmp`, `impl Hash for [T]`, `impl Debug for [T]`) -/

/-- one step of the generic equality loop -/
def elemDiffers {α : Type} (c : StdCfg) (P : PayloadOps α) (x y : α) : Bool :=
  if c.sliceEqViaNe then P.ne x y else !P.eq x y

/-- `SlicePartialEq::equal_same_length`: `while idx < len { if a[idx] != b[idx] { return false } }` -/
def sliceEqLoop {α : Type} (c : StdCfg) (P : PayloadOps α) : List α → List α → Bool
  | x :: xs, y :: ys => if elemDiffers c P x y then false else sliceEqLoop c P xs ys
  | _, _ => true

/-- `<[T] as PartialEq>::eq`: `if self.len() == other.len() { equal_same_length } else { false }` -/
def sliceEq {α : Type} (c : StdCfg) (P : PayloadOps α) (xs ys : List α) : Bool :=
  if xs.length == ys.length then sliceEqLoop c P xs ys else false

/-- `SlicePartialOrd::partial_compare`: over the common prefix the first `partial_cmp` that is not
`Some(Equal)` decides; otherwise `left.len().partial_cmp(&right.len())`. -/
def slicePartialCmp {α : Type} (P : PayloadOps α) : List α → List α → Option Ordering
  | x :: xs, y :: ys =>
    match P.partialCmp x y with
    | some .eq => slicePartialCmp P xs ys
    | o => o
  | [], [] => some .eq
  | [], _ :: _ => some .lt
  | _ :: _, [] => some .gt

/-- `SliceOrd::compare`: the same with `cmp` -/
def sliceCmp {α : Type} (P : PayloadOps α) : List α → List α → Ordering
  | x :: xs, y :: ys =>
    match P.cmp x y with
    | .eq => sliceCmp P xs ys
    | o => o
  | [], [] => .eq
  | [], _ :: _ => .lt
  | _ :: _, [] => .gt

/-- `Hash::hash_slice` default: `for piece in data { piece.hash(state) }` -/
def hashEach {α : Type} (P : PayloadOps α) : List α → List Nat
  | [] => []
  | x :: xs => P.hash x ++ hashEach P xs

/-- `<[T] as Hash>::hash`: `state.write_length_prefix(self.len()); Hash::hash_slice(self, state)`;
`write_length_prefix` is `write_usize`.  So the stream is the length, then every element. -/
def sliceHash {α : Type} (P : PayloadOps α) (xs : List α) : List Nat :=
  usizeBytes xs.length ++ hashEach P xs

/-- `<[T] as Debug>::fmt`: `f.debug_list().entries(self).finish()` (non-alternate form) -/
def sliceDebug {α : Type} (P : PayloadOps α) (xs : List α) : String :=
  "[" ++ ", ".intercalate (xs.map P.debug) ++ "]"

/-- `[T]`: `eq` as above, `ne` is the default `!eq`; `lt/le/gt/ge` of `[T]` are (in every toolchain)
functions of the elements' `partial_cmp` only and return what the default methods return on
`partial_compare` (the `__chaining_*` forms stop at the first non-`Equal` element exactly like
`partial_compare` and then compare the lengths); there is no `Display` for slices. -/
def sliceOps {α : Type} (c : StdCfg) (P : PayloadOps α) : PayloadOps (List α) where
  eq := sliceEq c P
  ne := defNe (sliceEq c P)
  lt := defLt (slicePartialCmp P)
  le := defLe (slicePartialCmp P)
  gt := defGt (slicePartialCmp P)
  ge := defGe (slicePartialCmp P)
  partialCmp := slicePartialCmp P
  cmp := sliceCmp P
  hash := sliceHash P
  debug := sliceDebug P
  display _ := ""

/-! ## tuples of references, as used by the hand-written impls in `header.rs`

`(&a, &b, &c).partial_cmp(&(&a', &b', &c'))` is `lexical_partial_cmp!`:
`match a.partial_cmp(a') { Some(Equal) => <rest>, ordering => ordering }`, the last component being
returned as is; `&A: PartialOrd` forwards to `A`. -/

def thenPartial (o : Option Ordering) (rest : Option Ordering) : Option Ordering :=
  match o with
  | some .eq => rest
  | ordering => ordering

def thenOrd (o : Ordering) (rest : Ordering) : Ordering :=
  match o with
  | .eq => rest
  | ordering => ordering

/-! ## the header types of `header.rs` -/

/-- `pub struct HeaderSlice<H, T: ?Sized> { pub header: H, pub slice: T }` -/
structure HeaderSlice (η σ : Type) where
  header : η
  slice : σ

/-- `pub struct HeaderWithLength<H> { pub header: H, pub length: usize }` -/
structure HeaderWithLength (η : Type) where
  header : η
  length : Nat

/-- `#[derive(Debug, Eq, PartialEq, Hash, PartialOrd, Ord)] struct HeaderSlice<H, T: ?Sized>`:
field by field, `header` first, then `slice`.  Derived `PartialEq` defines `eq` only, derived
`PartialOrd` defines `partial_cmp` only: `ne`, `lt`, `le`, `gt`, `ge` are the trait defaults. -/
def hsOps {η σ : Type} (PH : PayloadOps η) (PS : PayloadOps σ) : PayloadOps (HeaderSlice η σ) where
  eq x y := PH.eq x.header y.header && PS.eq x.slice y.slice
  ne := defNe fun x y => PH.eq x.header y.header && PS.eq x.slice y.slice
  partialCmp x y := thenPartial (PH.partialCmp x.header y.header) (PS.partialCmp x.slice y.slice)
  lt := defLt fun x y => thenPartial (PH.partialCmp x.header y.header) (PS.partialCmp x.slice y.slice)
  le := defLe fun x y => thenPartial (PH.partialCmp x.header y.header) (PS.partialCmp x.slice y.slice)
  gt := defGt fun x y => thenPartial (PH.partialCmp x.header y.header) (PS.partialCmp x.slice y.slice)
  ge := defGe fun x y => thenPartial (PH.partialCmp x.header y.header) (PS.partialCmp x.slice y.slice)
  cmp x y := thenOrd (PH.cmp x.header y.header) (PS.cmp x.slice y.slice)
  hash x := PH.hash x.header ++ PS.hash x.slice
  debug x := "HeaderSlice { header: " ++ PH.debug x.header ++ ", slice: " ++ PS.debug x.slice ++ " }"
  display _ := ""

/-- `#[derive(Debug, Copy, Clone, Eq, PartialEq, Hash)] struct HeaderWithLength<H>`; no ordering. -/
def hwlOps {η : Type} (PH : PayloadOps η) : PayloadOps (HeaderWithLength η) :=
  { (PayloadOps.absent : PayloadOps (HeaderWithLength η)) with
    eq := fun x y => PH.eq x.header y.header && usizeOps.eq x.length y.length
    ne := defNe fun x y => PH.eq x.header y.header && usizeOps.eq x.length y.length
    hash := fun x => PH.hash x.header ++ usizeOps.hash x.length
    debug := fun x =>
      "HeaderWithLength { header: " ++ PH.debug x.header ++ ", length: " ++ usizeOps.debug x.length ++ " }" }

/-- `HeaderSlice<HeaderWithLength<H>, T>`, the type behind a `ThinArc`
(`HeaderSliceWithLengthUnchecked`) -/
abbrev HSWL (η σ : Type) := HeaderSlice (HeaderWithLength η) σ

/-- the hand-written `partial_cmp` of `impl PartialOrd for HeaderSlice<HeaderWithLength<H>, T>`
(current source): `(&header.header, &slice, &header.length).partial_cmp(..)` -/
def hswlPartialCmp {η σ : Type} (PH : PayloadOps η) (PS : PayloadOps σ) (x y : HSWL η σ) : Option Ordering :=
  thenPartial (PH.partialCmp x.header.header y.header.header)
    (thenPartial (PS.partialCmp x.slice y.slice) (usizeOps.partialCmp x.header.length y.header.length))

/-- the hand-written `cmp` of `impl Ord for HeaderSlice<HeaderWithLength<H>, T>` (current source) -/
def hswlCmp {η σ : Type} (PH : PayloadOps η) (PS : PayloadOps σ) (x y : HSWL η σ) : Ordering :=
  thenOrd (PH.cmp x.header.header y.header.header)
    (thenOrd (PS.cmp x.slice y.slice) (usizeOps.cmp x.header.length y.header.length))

/-- `HeaderSlice<HeaderWithLength<H>, T>`: `PartialEq/Eq/Hash/Debug` are the derives of `HeaderSlice`
at `H := HeaderWithLength<H>` (so `==` and the hash include the recorded length, in field order
`header.header, header.length, slice`); `PartialOrd/Ord` are the hand-written impls, which define
`partial_cmp` / `cmp` only — `lt le gt ge` are the defaults over that `partial_cmp`. -/
def hswlOps {η σ : Type} (PH : PayloadOps η) (PS : PayloadOps σ) : PayloadOps (HSWL η σ) :=
  { hsOps (hwlOps PH) PS with
    partialCmp := hswlPartialCmp PH PS
    lt := defLt (hswlPartialCmp PH PS)
    le := defLe (hswlPartialCmp PH PS)
    gt := defGt (hswlPartialCmp PH PS)
    ge := defGe (hswlPartialCmp PH PS)
    cmp := hswlCmp PH PS }

/-- `#[derive(Debug, Hash, Eq, PartialEq, Ord, PartialOrd)] #[repr(transparent)]
struct HeaderSliceWithLengthProtected<H, T> { inner: HeaderSlice<HeaderWithLength<H>, [T]> }`:
one field, so every derived method forwards to `inner`; `ne lt le gt ge` are again the defaults. -/
structure Protected (η τ : Type) where
  inner : HSWL η (List τ)

def protOps {η τ : Type} (c : StdCfg) (PH : PayloadOps η) (PT : PayloadOps τ) : PayloadOps (Protected η τ) where
  eq x y := (hswlOps PH (sliceOps c PT)).eq x.inner y.inner
  ne := defNe fun x y => (hswlOps PH (sliceOps c PT)).eq x.inner y.inner
  partialCmp x y := (hswlOps PH (sliceOps c PT)).partialCmp x.inner y.inner
  lt := defLt fun x y => (hswlOps PH (sliceOps c PT)).partialCmp x.inner y.inner
  le := defLe fun x y => (hswlOps PH (sliceOps c PT)).partialCmp x.inner y.inner
  gt := defGt fun x y => (hswlOps PH (sliceOps c PT)).partialCmp x.inner y.inner
  ge := defGe fun x y => (hswlOps PH (sliceOps c PT)).partialCmp x.inner y.inner
  cmp x y := (hswlOps PH (sliceOps c PT)).cmp x.inner y.inner
  hash x := (hswlOps PH (sliceOps c PT)).hash x.inner
  debug x := "HeaderSliceWithLengthProtected { inner: " ++ (hswlOps PH (sliceOps c PT)).debug x.inner ++ " }"
  display _ := ""

/-! ## handles -/

/-- A handle: the allocation it points into and (what `Deref` yields) the value stored there. -/
structure Handle (α : Type) where
  alloc : Nat
  val : α

/-- `Arc::ptr_eq` : `ptr::addr_eq(this.ptr(), other.ptr())` -/
def ptrEq {α : Type} (a b : Handle α) : Bool := a.alloc == b.alloc

/-- two live handles to one allocation see one value -/
def Handle.WF {α : Type} (a b : Handle α) : Prop := a.alloc = b.alloc → a.val = b.val

/-- `arc.rs`: `impl PartialEq / PartialOrd / Ord / Hash / Display / Debug for Arc<T>` -/
def arcOps {α : Type} (P : PayloadOps α) : PayloadOps (Handle α) where
  eq a b := ptrEq a b || P.eq a.val b.val          -- `Self::ptr_eq(self, other) || *(*self) == *(*other)`
  ne a b := !ptrEq a b && P.ne a.val b.val         -- `!Self::ptr_eq(self, other) && *(*self) != *(*other)`
  lt a b := P.lt a.val b.val                       -- `*(*self) < *(*other)`
  le a b := P.le a.val b.val
  gt a b := P.gt a.val b.val
  ge a b := P.ge a.val b.val
  partialCmp a b := P.partialCmp a.val b.val       -- `(**self).partial_cmp(&**other)`
  cmp a b := P.cmp a.val b.val                     -- `(**self).cmp(&**other)`
  hash a := P.hash a.val                           -- `(**self).hash(state)`
  debug a := P.debug a.val                         -- `fmt::Debug::fmt(&**self, f)`
  display a := P.display a.val                     -- `fmt::Display::fmt(&**self, f)`

/-- `offset_arc.rs`: `PartialEq` (`eq` and `ne` both through `Deref`), `Debug` through `Deref`,
`#[derive(Eq)]`; nothing else. -/
def offsetOps {α : Type} (P : PayloadOps α) : PayloadOps (Handle α) :=
  { (PayloadOps.absent : PayloadOps (Handle α)) with
    eq := fun a b => P.eq a.val b.val                -- `*(*self) == *(*other)`
    ne := fun a b => P.ne a.val b.val                -- `*(*self) != *(*other)`
    debug := fun a => P.debug a.val }

/-- `arc_borrow.rs` (current source): by-value `eq`, `ne`, `Debug`. -/
def borrowOps {α : Type} (P : PayloadOps α) : PayloadOps (Handle α) :=
  { (PayloadOps.absent : PayloadOps (Handle α)) with
    eq := fun a b => P.eq a.val b.val                -- `*self.0.as_ptr() == *other.0.as_ptr()`
    ne := fun a b => P.ne a.val b.val                -- `*self.0.as_ptr() != *other.0.as_ptr()`
    debug := fun a => P.debug a.val }

/-- `ArcUnion<A, B>` / `ArcUnionBorrow`: which variant, and the borrow of it. -/
inductive UnionH (α β : Type) where
  | first (h : Handle α)
  | second (h : Handle β)

/-- `arc_union.rs`: `eq` matches on `(self.borrow(), other.borrow())`; `ne` is not defined (default);
`Debug` is the derived `Debug` of `ArcUnionBorrow`, i.e. `debug_tuple("First").field(&borrow)`. -/
def unionEq {α β : Type} (PA : PayloadOps α) (PB : PayloadOps β) : UnionH α β → UnionH α β → Bool
  | .first x, .first y => (borrowOps PA).eq x y
  | .second x, .second y => (borrowOps PB).eq x y
  | _, _ => false

def unionDebug {α β : Type} (PA : PayloadOps α) (PB : PayloadOps β) : UnionH α β → String
  | .first x => "First(" ++ (borrowOps PA).debug x ++ ")"
  | .second x => "Second(" ++ (borrowOps PB).debug x ++ ")"

def unionOps {α β : Type} (PA : PayloadOps α) (PB : PayloadOps β) : PayloadOps (UnionH α β) :=
  { (PayloadOps.absent : PayloadOps (UnionH α β)) with
    eq := unionEq PA PB
    ne := defNe (unionEq PA PB)
    debug := unionDebug PA PB }

/-- What a `ThinArc<H, T>` points to. -/
abbrev ThinH (η τ : Type) := Handle (HSWL η (List τ))

/-- `thin_arc.rs`: `eq`, `partial_cmp`, `cmp`, `hash` go through `with_arc`, i.e. through the impls of
`Arc<HeaderSlice<HeaderWithLength<H>, [T]>>` (including `Arc`'s `ptr_eq` shortcut in `*a == *b`);
`Debug` goes through `Deref`; `ne`, `lt`, `le`, `gt`, `ge` are not defined: trait defaults. -/
def thinOps {η τ : Type} (c : StdCfg) (PH : PayloadOps η) (PT : PayloadOps τ) : PayloadOps (ThinH η τ) where
  eq a b := (arcOps (hswlOps PH (sliceOps c PT))).eq a b
  ne := defNe fun a b => (arcOps (hswlOps PH (sliceOps c PT))).eq a b
  partialCmp a b := (arcOps (hswlOps PH (sliceOps c PT))).partialCmp a b
  lt := defLt fun a b => (arcOps (hswlOps PH (sliceOps c PT))).partialCmp a b
  le := defLe fun a b => (arcOps (hswlOps PH (sliceOps c PT))).partialCmp a b
  gt := defGt fun a b => (arcOps (hswlOps PH (sliceOps c PT))).partialCmp a b
  ge := defGe fun a b => (arcOps (hswlOps PH (sliceOps c PT))).partialCmp a b
  cmp a b := (arcOps (hswlOps PH (sliceOps c PT))).cmp a b
  hash a := (arcOps (hswlOps PH (sliceOps c PT))).hash a
  debug a := (hswlOps PH (sliceOps c PT)).debug a.val
  display _ := ""

/-- the safety invariant of `ThinArc` / `HeaderSliceWithLengthProtected`: the recorded length is
the slice length -/
def lenOk {η τ : Type} (x : HSWL η (List τ)) : Prop := x.header.length = x.slice.length

instance {η τ : Type} (x : HSWL η (List τ)) : Decidable (lenOk x) := by
  unfold lenOk; exact inferInstance

/-! ## historical: the two C14 defects of the upstream tree (pre-fix commit d5bf9ae)

Kept so that the check can print a model-level witness if either defect returns; the current source
is modelled by `borrowOps` / `hswlOps` above. -/

/-- F1: `#[derive(Debug, Eq, PartialEq)] struct ArcBorrow(NonNull<T>, PhantomData<&T>)`: `eq` compares
the two `NonNull`s (addresses), `ne` is the default, `Debug` prints the address. -/
def prefixBorrowOps {α : Type} (_P : PayloadOps α) : PayloadOps (Handle α) :=
  { (PayloadOps.absent : PayloadOps (Handle α)) with
    eq := fun a b => a.alloc == b.alloc
    ne := defNe fun a b => a.alloc == b.alloc
    debug := fun a => "ArcBorrow(0x" ++ String.ofList (Nat.toDigits 16 a.alloc) ++ ", PhantomData<&T>)" }

/-- F2: the hand-written ordering compared `(&header.header, &slice)` only. -/
def prefixHswlPartialCmp {η σ : Type} (PH : PayloadOps η) (PS : PayloadOps σ) (x y : HSWL η σ) : Option Ordering :=
  thenPartial (PH.partialCmp x.header.header y.header.header) (PS.partialCmp x.slice y.slice)

def prefixHswlCmp {η σ : Type} (PH : PayloadOps η) (PS : PayloadOps σ) (x y : HSWL η σ) : Ordering :=
  thenOrd (PH.cmp x.header.header y.header.header) (PS.cmp x.slice y.slice)

def prefixHswlOps {η σ : Type} (PH : PayloadOps η) (PS : PayloadOps σ) : PayloadOps (HSWL η σ) :=
  { hsOps (hwlOps PH) PS with
    partialCmp := prefixHswlPartialCmp PH PS
    lt := defLt (prefixHswlPartialCmp PH PS)
    le := defLe (prefixHswlPartialCmp PH PS)
    gt := defGt (prefixHswlPartialCmp PH PS)
    ge := defGe (prefixHswlPartialCmp PH PS)
    cmp := prefixHswlCmp PH PS }

/-! ## observers -/

/-- the eleven observations of C14 -/
inductive Observer where
  | eq | ne | lt | le | gt | ge | partialCmp | cmp | hash | debug | display
  deriving DecidableEq, Repr

def Observer.all : List Observer :=
  [.eq, .ne, .lt, .le, .gt, .ge, .partialCmp, .cmp, .hash, .debug, .display]

/-- result of one observer on a pair (the unary ones are applied to both members) -/
inductive Res where
  | bool (v : Bool)
  | pord (v : Option Ordering)
  | ord (v : Ordering)
  | stream (a b : List Nat)
  | text (a b : String)
  deriving DecidableEq

def observe {β : Type} (Q : PayloadOps β) : Observer → β → β → Res
  | .eq, x, y => .bool (Q.eq x y)
  | .ne, x, y => .bool (Q.ne x y)
  | .lt, x, y => .bool (Q.lt x y)
  | .le, x, y => .bool (Q.le x y)
  | .gt, x, y => .bool (Q.gt x y)
  | .ge, x, y => .bool (Q.ge x y)
  | .partialCmp, x, y => .pord (Q.partialCmp x y)
  | .cmp, x, y => .ord (Q.cmp x y)
  | .hash, x, y => .stream (Q.hash x) (Q.hash y)
  | .debug, x, y => .text (Q.debug x) (Q.debug y)
  | .display, x, y => .text (Q.display x) (Q.display y)

/-- the handle kinds (and header-slice payload types) of the crate -/
inductive Kind where
  | arc | offset | borrow | union | thin | hs | hswl | prot | slice
  deriving DecidableEq, Repr

/-- which of the eleven traits/methods exist for a kind (given that the payload has them) -/
def Kind.traits : Kind → List Observer
  | .arc => Observer.all
  | .offset => [.eq, .ne, .debug]
  | .borrow => [.eq, .ne, .debug]
  | .union => [.eq, .ne, .debug]
  | .thin => [.eq, .ne, .lt, .le, .gt, .ge, .partialCmp, .cmp, .hash, .debug]
  | .hs => [.eq, .ne, .lt, .le, .gt, .ge, .partialCmp, .cmp, .hash, .debug]
  | .hswl => [.eq, .ne, .lt, .le, .gt, .ge, .partialCmp, .cmp, .hash, .debug]
  | .prot => [.eq, .ne, .lt, .le, .gt, .ge, .partialCmp, .cmp, .hash, .debug]
  | .slice => [.eq, .ne, .lt, .le, .gt, .ge, .partialCmp, .cmp, .hash, .debug]

/-! ## `Borrow<T> for Arc<T>` and map lookups

`borrow(&self) -> &T { self }` and `as_ref` are `Deref`.  A `HashMap<Arc<T>, V>` probed with `&T`
hashes the probe with `T::hash` and tests `probe == key.borrow()`; inserting compares `Arc`s. -/

def arcBorrow {α : Type} (a : Handle α) : α := a.val

/-- `HashMap::insert` on keys that are `Arc<T>` (an equal key keeps the old key, replaces the value) -/
def hmInsert {α : Type} (P : PayloadOps α) (m : List (Handle α × Nat)) (k : Handle α) (v : Nat) : List (Handle α × Nat) :=
  if m.any (fun e => (arcOps P).hash e.1 == (arcOps P).hash k && (arcOps P).eq k e.1) then
    m.map fun e => if (arcOps P).hash e.1 == (arcOps P).hash k && (arcOps P).eq k e.1 then (e.1, v) else e
  else m ++ [(k, v)]

/-- `HashMap::<Arc<T>, _>::get::<T>(&probe)` -/
def hmGet {α : Type} (P : PayloadOps α) (m : List (Handle α × Nat)) (probe : α) : Option Nat :=
  (m.find? fun e => P.hash probe == P.hash (arcBorrow e.1) && P.eq probe (arcBorrow e.1)).map (·.2)

/-- `BTreeMap::insert` / `get`: located by `Ord::cmp` (of `Arc<T>` on insert, of `T` on lookup) -/
def btInsert {α : Type} (P : PayloadOps α) (m : List (Handle α × Nat)) (k : Handle α) (v : Nat) : List (Handle α × Nat) :=
  if m.any (fun e => (arcOps P).cmp k e.1 == .eq) then
    m.map fun e => if (arcOps P).cmp k e.1 == .eq then (e.1, v) else e
  else m ++ [(k, v)]

def btGet {α : Type} (P : PayloadOps α) (m : List (Handle α × Nat)) (probe : α) : Option Nat :=
  (m.find? fun e => P.cmp probe (arcBorrow e.1) == .eq).map (·.2)

/-! ## concrete payloads (for the driver and the non-vacuity examples) -/

/-- `i32`-like: a total order; `Hash` is `write_i32` = 4 little-endian bytes (two's complement). -/
def i32Bytes (v : Int) : List Nat :=
  let n := (v % 4294967296).toNat
  (List.range 4).map fun i => (n / 256 ^ i) % 256

def intOps : PayloadOps Int where
  eq a b := a == b
  ne a b := a != b
  lt a b := decide (a < b)
  le a b := decide (a ≤ b)
  gt a b := decide (b < a)
  ge a b := decide (b ≤ a)
  partialCmp a b := some (compare a b)
  cmp a b := compare a b
  hash := i32Bytes
  debug v := toString v
  display v := toString v

/-- natural numbers with the standard operators -/
def natOps : PayloadOps Nat := usizeOps

/-- float-like: `nan` is unordered and unequal to everything including itself; `nzero` is `-0.0`
(equal to `num 0`, prints differently); `num k` is the float `k/2`.  No `Ord`, no `Hash`. -/
inductive Flt where
  | nan
  | nzero
  | num (k : Int)
  deriving DecidableEq, Repr

def Flt.key : Flt → Option Int
  | .nan => none
  | .nzero => some 0
  | .num k => some k

def Flt.pc (a b : Flt) : Option Ordering :=
  match a.key, b.key with
  | some x, some y => some (compare x y)
  | _, _ => none

/-- `{:?}` of an `f32` that is a multiple of 0.5 -/
def Flt.debug : Flt → String
  | .nan => "NaN"
  | .nzero => "-0.0"
  | .num k =>
    let m := k.natAbs
    (if k < 0 then "-" else "") ++ toString (m / 2) ++ (if m % 2 == 0 then ".0" else ".5")

/-- `{}` of an `f32` that is a multiple of 0.5 -/
def Flt.display : Flt → String
  | .nan => "NaN"
  | .nzero => "-0"
  | .num k =>
    let m := k.natAbs
    (if k < 0 then "-" else "") ++ toString (m / 2) ++ (if m % 2 == 0 then "" else ".5")

def fltOps : PayloadOps Flt :=
  { (PayloadOps.absent : PayloadOps Flt) with
    eq := fun a b => a.pc b == some .eq
    ne := fun a b => !(a.pc b == some .eq)
    lt := fun a b => isLt (a.pc b)
    le := fun a b => isLe (a.pc b)
    gt := fun a b => isGt (a.pc b)
    ge := fun a b => isGe (a.pc b)
    partialCmp := Flt.pc
    debug := Flt.debug
    display := Flt.display }

/-- A scripted payload over the ids `0 .. n-1`: every operator answers from its own table
(row-major, index `n*a + b`); out-of-range lookups give a fixed default. -/
structure Tables where
  n : Nat
  eq : List Bool
  ne : List Bool
  lt : List Bool
  le : List Bool
  gt : List Bool
  ge : List Bool
  pc : List (Option Ordering)
  cm : List Ordering
  hs : List (List Nat)
  db : List String
  dp : List String

def tabOps (t : Tables) : PayloadOps Nat where
  eq a b := t.eq.getD (t.n * a + b) false
  ne a b := t.ne.getD (t.n * a + b) false
  lt a b := t.lt.getD (t.n * a + b) false
  le a b := t.le.getD (t.n * a + b) false
  gt a b := t.gt.getD (t.n * a + b) false
  ge a b := t.ge.getD (t.n * a + b) false
  partialCmp a b := t.pc.getD (t.n * a + b) none
  cmp a b := t.cm.getD (t.n * a + b) .eq
  hash a := t.hs.getD a []
  debug a := t.db.getD a ""
  display a := t.dp.getD a ""

end Cmp
