import TriompheModel.Proofs.HistLemmasLog
import TriompheModel.Proofs.HistLemmasStep
/-!
# Helper lemmas, part 6: every op of the machine keeps the allocation log disciplined

`LogInv s.mem` is preserved by `step s op` whenever the count invariant `Inv' s` holds (the latter
is needed for `fetch_add` and `UniqueArc::into_inner`, which do not test the count word).
-/
namespace M1

theorem Inv'.live_of_slot {s : State} (hi : Inv' s) {i : Nat} {h : HV} (hl : lookup s i = some h) :
    ∃ k : Block, s.mem.blocks[h.blk]? = some k ∧ k.live = true := by
  obtain ⟨k, hk, hc⟩ := cv_eq_some (hi.view hl)
  simp only [Block.core, Prod.mk.injEq] at hc
  exact ⟨k, hk, hc.2.1⟩

namespace LogInv

theorem arc_drop {m : Mem} (hi : LogInv m) (a : HV) : LogInv (Arc.drop m a) := hi.decr ..

theorem make_mut {m : Mem} (hi : LogInv m) (a : HV) (cp : Bool) : LogInv (Arc.make_mut m a cp).1 := by
  rw [make_mut_eq]
  split
  · exact hi
  · split
    · exact hi
    · exact ((hi.cloneValue _).arc_new _ _).arc_drop _

theorem into_thin {m : Mem} (hi : LogInv m) (a : HV) : LogInv (Arc.into_thin m a).1 := by
  rcases into_thin_spec m a with ⟨t, ht, _, _⟩ | hn
  · rw [ht]; exact hi
  · rw [hn]; exact hi.decr ..

theorem try_unwrap {m : Mem} (hi : LogInv m) {a : HV} {k : Block} (hk : m.blocks[a.blk]? = some k)
    (hl : k.live = true) : LogInv (Arc.try_unwrap m a).1 := by
  unfold Arc.try_unwrap
  split
  · rename_i u hu
    unfold Arc.try_unique at hu
    split at hu
    · cases hu
      exact hi.into_inner (u := { a with kind := .uniq }) hk hl
    · cases hu
  · exact hi

theorem allocHeaderSlice {m m' : Mem} (hi : LogInv m) {hl el : LY.Layout} {hdr : Option Item} {rl : Option Nat}
    {elems : List (Option Item)} {b : Nat} (h : allocHeaderSlice m hl el hdr rl elems = some (m', b)) :
    LogInv m' := by
  unfold M1.allocHeaderSlice at h
  split at h
  · cases h
  · simp only [Option.some.injEq] at h
    have h1 : (allocBlock _ _ _ _ _).1 = m' := congrArg Prod.fst h
    rw [← h1]; exact hi.alloc ..

theorem runCtor {m m' : Mem} (hi : LogInv m) {c : Ctor} {h : HV} (hc : runCtor m c = some (m', h)) :
    LogInv m' := by
  cases c <;> simp only [M1.runCtor] at hc
  case new v => cases hc; exact hi.arc_new ..
  case newB v => cases hc; exact hi.arc_new ..
  case uniqueNew v => cases hc; exact hi.arc_new ..
  case newUninit => cases hc; exact hi.arc_new ..
  case uniqueNewUninit => cases hc; exact hi.alloc ..
  case fromBox v =>
    split at hc
    · cases hc
    · cases hc; exact hi.alloc ..
  all_goals
    simp only [Option.map_eq_some_iff] at hc
    obtain ⟨⟨m1, b⟩, h1, h2⟩ := hc
    have := hi.allocHeaderSlice h1
    cases h2
    exact this

end LogInv

/-- the memory a constructor that ran user code left behind -/
private def CtorRes.mem : CtorRes → Mem
  | .built m _ => m
  | .panicked m _ => m

namespace LogInv

theorem core {m : Mem} (hi : LogInv m) (hdrLay : LY.Layout) (hdr : Option Item) (recLen : Option Nat)
    (ty : Ty) (n : Nat) (it : IterSt) : LogInv (fromHeaderAndIterCore m hdrLay hdr recLen ty n it).mem := by
  unfold fromHeaderAndIterCore
  split
  · exact hi.emit (Quiet.append (quiet_dropRest _) (Quiet.map_drop _ _))
  · split
    rename_i m1 b hab
    have h1 : LogInv m1 := by
      have : (allocBlock _ _ _ _ _).1 = m1 := congrArg Prod.fst hab
      rw [← this]; exact hi.alloc ..
    split
    · exact (h1.leak b).emit (quiet_dropRest _)
    · rename_i elems it' hfill
      have h3 : LogInv (m1.upd b fun k => { k with elems := elems }) :=
        h1.upd b _ (fun _ _ => ⟨rfl, rfl, fun _ h => h⟩)
      simp only
      split
      · exact h3
      · exact (h3.leak b).emit (Quiet.append (Quiet.cons rfl Quiet.nil) (quiet_dropRest _))
      · exact (h3.leak b).emit (quiet_dropRest _)

theorem core_built {m : Mem} (hi : LogInv m) {hl : LY.Layout} {hdr : Option Item} {rl : Option Nat} {ty : Ty}
    {n : Nat} {it : IterSt} {m1 : Mem} {a : HV}
    (h : fromHeaderAndIterCore m hl hdr rl ty n it = .built m1 a) : LogInv m1 := by
  have := hi.core hl hdr rl ty n it
  rw [h] at this; exact this

theorem core_panicked {m : Mem} (hi : LogInv m) {hl : LY.Layout} {hdr : Option Item} {rl : Option Nat} {ty : Ty}
    {n : Nat} {it : IterSt} {m1 : Mem} {cls : String}
    (h : fromHeaderAndIterCore m hl hdr rl ty n it = .panicked m1 cls) : LogInv m1 := by
  have := hi.core hl hdr rl ty n it
  rw [h] at this; exact this

theorem runIterCtor {m : Mem} (hi : LogInv m) (dbg : Bool) (which : IterCtor) (h : Option Item)
    (sc : IterScript) : LogInv (runIterCtor m dbg which h sc).mem := by
  cases which
  case hsFromIter => exact hi.core ..
  case thinFromIter =>
    simp only [M1.runIterCtor]
    split
    · rename_i hc; exact hi.core_panicked hc
    · rename_i m1 a hc
      have h1 := hi.core_built hc
      rcases into_thin_spec m1 a with ⟨t, ht, _, _⟩ | hn
      · rw [ht]; exact h1
      · rw [hn]; exact h1.decr ..
  all_goals
    simp only [M1.runIterCtor]
    split
    · split
      · exact hi.emit (quiet_dropRest _)
      · split
        · exact hi.emit (quiet_dropRest _)
        · split
          · rename_i hc; exact hi.core_panicked hc
          · rename_i hc; exact hi.core_built hc
    · split
      · exact hi.emit (Quiet.append (Quiet.map_drop _ _) (quiet_dropRest _))
      · split
        · exact hi
        · rename_i m1 a hc
          exact hi.runCtor hc

end LogInv

/-! ## the ops, one by one -/

section
set_option linter.unusedSectionVars false
variable {s : State} (hi : Inv' s) (hl : LogInv s.mem)
include hi hl

theorem log_create (dst : Nat) (c : Ctor) : LogInv (step s (.create dst c)).1.mem := by
  simp only [step]
  split
  · exact hl
  · split
    · exact hl
    · rename_i m h hc
      exact hl.runCtor hc

theorem log_iterCtor (dst : Nat) (w : IterCtor) (h : Option Item) (sc : IterScript) :
    LogInv (step s (.iterCtor dst w h sc)).1.mem := by
  simp only [step]
  split
  · exact hl
  · have hs := hl.runIterCtor true w h sc
    split
    · rename_i m hv hc; rw [hc] at hs; exact hs
    · rename_i m cls hc; rw [hc] at hs; exact hs

theorem log_clone (dst src : Nat) : LogInv (step s (.clone dst src)).1.mem := by
  simp only [step]
  split
  · rename_i h hd hs
    split
    · rename_i m c hc
      obtain ⟨rfl, _, _, _⟩ := cloneHandle_spec hc
      obtain ⟨k, hk, hlv⟩ := hi.live_of_slot hs
      exact hl.incr hk hlv
    · exact hl
  · exact hl

theorem log_drop (src : Nat) : LogInv (step s (.drop src)).1.mem := by
  simp only [step]
  split
  · split
    · rename_i m hd
      obtain ⟨t, l, rfl⟩ := dropHandle_spec hd
      exact hl.decr ..
    · exact hl
  · exact hl

theorem log_conv (src : Nat) (c : Conv) : LogInv (step s (.conv src c)).1.mem := by
  simp only [step]
  split
  · split <;> exact hl
  · exact hl

theorem log_intoThin (src : Nat) : LogInv (step s (.intoThin src)).1.mem := by
  simp only [step]
  split
  · rename_i h hs
    split
    · have := hl.into_thin h
      split
      · rename_i hc; rw [hc] at this; exact this
      · rename_i hc; rw [hc] at this; exact this
    · exact hl
  · exact hl

theorem log_cloneArc (dst src : Nat) : LogInv (step s (.cloneArc dst src)).1.mem := by
  simp only [step]
  split
  · rename_i h hd hs
    obtain ⟨k, hk, hlv⟩ := hi.live_of_slot hs
    split
    · rename_i m a hr
      split at hr
      · cases hr; exact hl.incr hk hlv
      · split at hr
        · cases hr; exact hl.incr hk hlv
        · split at hr
          · cases hr; exact hl.incr hk hlv
          · cases hr
    · exact hl
  · exact hl

theorem log_isUnique (src : Nat) : LogInv (step s (.isUnique src)).1.mem := by
  simp only [step]
  split
  · split <;> exact hl
  · exact hl

theorem log_getMut (src v : Nat) : LogInv (step s (.getMut src v)).1.mem := by
  simp only [step]
  split
  · split
    · split
      · exact hl.writeVal ..
      · exact hl
    · exact hl
  · exact hl

theorem log_getUnique (src v : Nat) : LogInv (step s (.getUnique src v)).1.mem := by
  simp only [step]
  split
  · split
    · split
      · exact hl.writeVal ..
      · exact hl
    · exact hl
  · exact hl

theorem log_uniqWrite (src v : Nat) : LogInv (step s (.uniqWrite src v)).1.mem := by
  simp only [step]
  split
  · split
    · exact hl.writeVal ..
    · exact hl
  · exact hl

theorem log_writeSlot (src i : Nat) (v : Item) : LogInv (step s (.writeSlot src i v)).1.mem := by
  simp only [step]
  split
  · split
    · split
      · simp only
        split
        · exact hl.emit (Quiet.cons rfl Quiet.nil)
        · exact hl
      · exact hl.upd _ _ (fun _ _ => ⟨rfl, rfl, fun _ h => h⟩)
    · exact hl
  · exact hl

theorem log_tryUnique (src : Nat) : LogInv (step s (.tryUnique src)).1.mem := by
  simp only [step]
  split
  · split
    · split <;> exact hl
    · exact hl
  · exact hl

theorem log_intoInner (src : Nat) : LogInv (step s (.intoInner src)).1.mem := by
  simp only [step]
  split
  · rename_i h hs
    split
    · obtain ⟨k, hk, hlv⟩ := hi.live_of_slot hs
      exact hl.into_inner hk hlv
    · exact hl
  · exact hl

theorem log_tryUnwrap (src : Nat) : LogInv (step s (.tryUnwrap src)).1.mem := by
  simp only [step]
  split
  · rename_i h hs
    split
    · obtain ⟨k, hk, hlv⟩ := hi.live_of_slot hs
      have := hl.try_unwrap hk hlv
      split
      · rename_i hc; rw [hc] at this; exact this
      · exact hl
    · exact hl
  · exact hl

theorem log_unwrapOrClone (src : Nat) (cp : Bool) : LogInv (step s (.unwrapOrClone src cp)).1.mem := by
  simp only [step]
  split
  · rename_i h hs
    split
    · obtain ⟨k, hk, hlv⟩ := hi.live_of_slot hs
      have := hl.try_unwrap hk hlv
      split
      · rename_i hc; rw [hc] at this; exact this
      · rename_i m a hc
        rw [hc] at this
        split
        · exact this.arc_drop _
        · exact (this.cloneValue _).arc_drop _
    · exact hl
  · exact hl

theorem log_makeMut (src v : Nat) (cp : Bool) : LogInv (step s (.makeMut src v cp)).1.mem := by
  simp only [step]
  split
  · rename_i h hs
    split
    · have := hl.make_mut h cp
      split
      · rename_i hc; rw [hc] at this; exact this.writeVal ..
      · exact hl
    · split
      · have := hl.make_mut (Arc.from_raw_offset s.mem h) cp
        split
        · rename_i hc; rw [hc] at this; exact this.writeVal ..
        · exact hl
      · exact hl
  · exact hl

theorem log_makeUnique (src v : Nat) (cp : Bool) : LogInv (step s (.makeUnique src v cp)).1.mem := by
  simp only [step]
  split
  · rename_i h hs
    split
    · have := hl.make_mut h cp
      split
      · rename_i hc; rw [hc] at this; exact this.writeVal ..
      · exact hl
    · exact hl
  · exact hl

end

theorem log_releaseSlot {s : State} (hl : LogInv s.mem) (i : Nat) : LogInv (releaseSlot s i).mem := by
  unfold releaseSlot
  split
  · exact hl.arc_drop _
  · exact hl

theorem log_dropAllFrom (keys : List Nat) : ∀ {s : State}, LogInv s.mem → LogInv (dropAllFrom keys s).mem := by
  induction keys with
  | nil => intro s hl; exact hl
  | cons k r ih =>
    intro s hl
    simp only [dropAllFrom, List.foldl_cons]
    exact ih (log_releaseSlot hl k)

theorem log_dropAll {s : State} (hl : LogInv s.mem) : LogInv (step s .dropAll).1.mem := by
  simp only [step]
  exact log_dropAllFrom _ hl

theorem log_withCb {s : State} (hi : Inv' s) (hl : LogInv s.mem) (src : Nat) (api : CbApi)
    (script : List CbAct) : LogInv (step s (.withCb src api script)).1.mem := by
  simp only [step]
  split
  · rename_i h hs
    split
    · rename_i t ht
      obtain ⟨h1, h2⟩ := transientOf_spec ht
      obtain ⟨t', _, h⟩ := runCb_ind api src (fun s t => CbP src s t ∧ LogInv s.mem)
        (fun s t k m c hp hk hc => ⟨hp.1.cloneTo hk hc api, by
          obtain ⟨rfl, _, _, _⟩ := cloneHandle_spec hc
          obtain ⟨hs', hls, hbs, _⟩ := hp.1.2
          obtain ⟨k', hk', hlv⟩ := hp.1.1.live_of_slot hls
          rw [hbs] at hk'
          exact hp.2.incr hk' hlv⟩)
        (fun s t k hp hk _ => ⟨hp.1.cloneArc hk, by
          obtain ⟨hs', hls, hbs, _⟩ := hp.1.2
          obtain ⟨k', hk', hlv⟩ := hp.1.1.live_of_slot hls
          rw [hbs] at hk'
          exact hp.2.incr hk' hlv⟩)
        (fun s t v hp => ⟨hp.1.write v, hp.2.writeVal ..⟩)
        (fun s t k h2 hp hne hlk _ => ⟨hp.1.repl hne hlk, hp.2.arc_drop _⟩)
        (fun s t k h2 hp hne hlk _ _ => ⟨hp.1.swap hne hlk, hp.2⟩)
        script s t "" ⟨⟨hi, h, hs, h1.symm, h2⟩, hl⟩
      exact h
    · exact hl
  · exact hl

/-- every op keeps the allocation log disciplined -/
theorem log_step {s : State} (hi : Inv' s) (hl : LogInv s.mem) (op : Op) : LogInv (step s op).1.mem := by
  cases op with
  | create dst c => exact log_create hi hl dst c
  | iterCtor dst w h sc => exact log_iterCtor hi hl dst w h sc
  | clone dst src => exact log_clone hi hl dst src
  | drop src => exact log_drop hi hl src
  | conv src c => exact log_conv hi hl src c
  | intoThin src => exact log_intoThin hi hl src
  | cloneArc dst src => exact log_cloneArc hi hl dst src
  | isUnique src => exact log_isUnique hi hl src
  | getMut src v => exact log_getMut hi hl src v
  | getUnique src v => exact log_getUnique hi hl src v
  | makeMut src v cp => exact log_makeMut hi hl src v cp
  | makeUnique src v cp => exact log_makeUnique hi hl src v cp
  | tryUnwrap src => exact log_tryUnwrap hi hl src
  | unwrapOrClone src cp => exact log_unwrapOrClone hi hl src cp
  | intoInner src => exact log_intoInner hi hl src
  | tryUnique src => exact log_tryUnique hi hl src
  | uniqWrite src v => exact log_uniqWrite hi hl src v
  | writeSlot src i v => exact log_writeSlot hi hl src i v
  | withCb src api script => exact log_withCb hi hl src api script
  | dropAll => exact log_dropAll hl

/-! ## what a release records -/

/-- `Drop` of any owning handle is `drop_inner` through the `Arc` view the handle stands for -/
theorem dropHandle_eq {m m' : Mem} {h : HV} (hd : dropHandle m h = some m') :
    m' = Arc.drop m (asArc m h) := by
  unfold dropHandle at hd
  split at hd
  all_goals
    rename_i hk
    cases hd
  · simp [asArc, hk, Arc.drop, viewLen]
  · simp [asArc, hk, Arc.drop, viewLen]
  · simp [asArc, hk, ThinArc.drop]
  · simp [asArc, hk, OffsetArc.drop, OffsetArc.transient, Arc.from_raw_offset]
  · simp [asArc, hk, ArcUnion.drop]
  · simp [asArc, hk, ArcUnion.drop]

/-- the events `drop_inner` appends: nothing unless the count word was 1; then the payload's
destructor events followed by ONE `dealloc` whose layout is `Layout::for_value` through the
releasing view (`t.releaseLayout len`) -/
theorem decr_log (m : Mem) (b : Nat) (t : Ty) (len : Nat) :
    (decr m b t len).log = m.log ++
      match m.blocks[b]? with
      | some k =>
        if k.count = 1 then
          payloadDrops b k t len ++ [Event.dealloc b (t.releaseLayout len).size (t.releaseLayout len).align]
        else []
      | none => [] := by
  cases hk : m.blocks[b]? with
  | none => simp [decr, hk]
  | some k =>
    by_cases h1 : k.count = 1 <;> simp [decr, hk, h1, Mem.emit, Mem.upd]

/-- `UniqueArc::into_inner` records one `dealloc` with the layout of `ArcInner<T>` through the
handle's view and runs no destructor -/
theorem into_inner_log (m : Mem) (u : HV) :
    (UniqueArc.into_inner m u).1.log = m.log ++
      match m.blocks[u.blk]? with
      | some _ => [Event.dealloc u.blk (u.ty.releaseLayout (viewLen m u)).size
                    (u.ty.releaseLayout (viewLen m u)).align]
      | none => [] := by
  cases hk : m.blocks[u.blk]? with
  | none => simp [UniqueArc.into_inner, hk]
  | some k => simp [UniqueArc.into_inner, hk, Mem.emit, Mem.upd]

end M1
