import TriompheModel.Proofs.HistLenBase
import TriompheModel.Proofs.Ctor
/-!
# Constructors return well-typed handles (helper file 2 for `Proofs/HistLen.lean`)

For every plain constructor (`Ctor.handle` / `Ctor.lay?` / `Ctor.elems` of `Proofs/Ctor.lean`) and
every iterator-driven constructor that returns (`IterOut.built`), the handle views the new block
at its real length and releases it with the requested layout (C05 request = release).
-/
namespace M1
open LY

variable {wl : Prop}

theorem ok_sized_new {t : Ty} (ht : t.isSlicey = false) {kd : Kind} (hkd : kd.isThin = false)
    (hoff : kd ≠ .offset) (b o l : Nat) (rl : Option Nat) :
    Ok wl ⟨kd, t, b, o, l⟩ ⟨1, rl, allocLayoutBoxNew bits t.elemLay⟩ := by
  refine ⟨⟨?_, ?_, ?_, ?_, ?_⟩, ?_⟩
  · intro h; rw [hkd] at h; cases h
  · intro _ h; rw [ht] at h; cases h
  · intro _; rfl
  · intro h; simp only at h; rw [h] at ht; cases ht
  · intro h; exact absurd h hoff
  · intro _; exact release_nonslicey ht 1

theorem ok_slice_new {t : Ty} (ht : t.isSlicey = true) {kd : Kind} (hkd : kd.isThin = false)
    (hoff : kd ≠ .offset) (b o n : Nat) (rl : Option Nat) (lay : Layout) (hrl : t = .hwl → rl ≠ none)
    (hlay : t.releaseLayout n = lay) :
    Ok wl ⟨kd, t, b, o, n⟩ ⟨n, rl, lay⟩ := by
  refine ⟨⟨?_, ?_, ?_, hrl, ?_⟩, ?_⟩
  · intro h; rw [hkd] at h; cases h
  · intro _ _; rfl
  · intro h; rw [ht] at h; cases h
  · intro h; exact absurd h hoff
  · intro _; exact hlay

theorem ok_thin_new (b o l n : Nat) (lay : Layout) (hlay : Ty.hwl.releaseLayout n = lay) :
    Ok wl ⟨.thin, .hwl, b, o, l⟩ ⟨n, some n, lay⟩ := by
  refine ⟨⟨?_, ?_, ?_, ?_, ?_⟩, ?_⟩
  · intro _; exact ⟨rfl, rfl⟩
  · intro h; cases h
  · intro h; cases h
  · intro _; simp
  · intro h; cases h
  · intro _; exact hlay

/-! ### request = release for the three header shapes of the history model -/

theorem rel_unit {n : Nat} {lay : Layout} (h : allocLayoutHeaderSlice bits unitLayout trackedLay n = some lay) :
    Ty.slice.releaseLayout n = lay ∧ Ty.muSlice.releaseLayout n = lay ∧ Ty.uslice.releaseLayout n = lay := by
  have := C05.C05_request_eq_release h
  have hu : Ty.uslice.releaseLayout n = lay := this.symm
  exact ⟨by rw [← release_uslice_slice]; exact hu, by rw [release_muSlice_slice, ← release_uslice_slice]; exact hu, hu⟩

theorem rel_tracked {n : Nat} {lay : Layout} (h : allocLayoutHeaderSlice bits trackedLay trackedLay n = some lay) :
    Ty.hs.releaseLayout n = lay ∧ Ty.hsMu.releaseLayout n = lay := by
  have := C05.C05_request_eq_release h
  exact ⟨this.symm, this.symm⟩

theorem rel_hwl {n : Nat} {lay : Layout} (h : allocLayoutHeaderSlice bits Ty.hwl.hdrLay trackedLay n = some lay) :
    Ty.hwl.releaseLayout n = lay := (C05.C05_request_eq_release h).symm

theorem rel_box {lay : Layout} (h : allocLayoutFor bits trackedLay = some lay) :
    lay = allocLayoutBoxNew bits Ty.sized.elemLay := C05.C05_request_eq_release_sized h

/-- every plain constructor returns a handle that views its new block correctly -/
theorem ctor_ok (c : Ctor) {lay : Layout} (hl : c.lay? = some lay) (b : Nat) :
    Ok wl (c.handle b) ⟨c.elems.length, c.recLen, lay⟩ := by
  cases c with
  | new v => cases hl; exact ok_sized_new rfl rfl (by decide) ..
  | newB v => cases hl; exact ok_sized_new rfl rfl (by decide) ..
  | uniqueNew v => cases hl; exact ok_sized_new rfl rfl (by decide) ..
  | newUninit => cases hl; exact ok_sized_new rfl rfl (by decide) ..
  | uniqueNewUninit => cases hl; exact ok_sized_new rfl rfl (by decide) ..
  | fromBox v =>
    have := rel_box hl
    subst this
    exact ok_sized_new rfl rfl (by decide) ..
  | fromVec vs =>
    have : (Ctor.fromVec vs).elems.length = vs.length := by simp [Ctor.elems, Ctor.takesValues, Ctor.vals]
    rw [this]
    exact ok_slice_new rfl rfl (by decide) _ _ _ _ _ (by intro h; cases h) (rel_unit hl).1
  | hsFromVec h vs =>
    have : (Ctor.hsFromVec h vs).elems.length = vs.length := by simp [Ctor.elems, Ctor.takesValues, Ctor.vals]
    rw [this]
    exact ok_slice_new rfl rfl (by decide) _ _ _ _ _ (by intro h; cases h) (rel_tracked hl).1
  | hwlFromVec h r vs =>
    have : (Ctor.hwlFromVec h r vs).elems.length = vs.length := by simp [Ctor.elems, Ctor.takesValues, Ctor.vals]
    rw [this]
    exact ok_slice_new rfl rfl (by decide) _ _ _ _ _ (by intro _; simp [Ctor.recLen]) (rel_hwl hl)
  | newUninitSlice n =>
    have : (Ctor.newUninitSlice n).elems.length = n := by simp [Ctor.elems, Ctor.takesValues, Ctor.slots]
    rw [this]
    exact ok_slice_new rfl rfl (by decide) _ _ _ _ _ (by intro h; cases h) (rel_unit hl).2.1
  | uniqueNewUninitSlice n =>
    have : (Ctor.uniqueNewUninitSlice n).elems.length = n := by simp [Ctor.elems, Ctor.takesValues, Ctor.slots]
    rw [this]
    exact ok_slice_new rfl rfl (by decide) _ _ _ _ _ (by intro h; cases h) (rel_unit hl).2.1
  | hsUninit h n =>
    have : (Ctor.hsUninit h n).elems.length = n := by simp [Ctor.elems, Ctor.takesValues, Ctor.slots]
    rw [this]
    exact ok_slice_new rfl rfl (by decide) _ _ _ _ _ (by intro h; cases h) (rel_tracked hl).2

/-- every iterator-driven constructor that returns, returns a handle that views its block correctly -/
theorem iter_ok (which : IterCtor) {n : Nat} {lay : Layout}
    (hl : allocLayoutHeaderSlice bits which.hdrLay trackedLay n = some lay) (b : Nat) :
    Ok wl ⟨which.kind, which.ty, b, 0, which.lenOf n⟩ ⟨n, which.recOf n, lay⟩ := by
  cases which with
  | hsFromIter => exact ok_slice_new rfl rfl (by decide) _ _ _ _ _ (by intro h; cases h) (rel_tracked hl).1
  | thinFromIter => exact ok_thin_new _ _ _ _ _ (rel_hwl hl)
  | fromIter => exact ok_slice_new rfl rfl (by decide) _ _ _ _ _ (by intro h; cases h) (rel_unit hl).1
  | uniqueFromIter => exact ok_slice_new rfl rfl (by decide) _ _ _ _ _ (by intro h; cases h) (rel_unit hl).1

end M1
