import TriompheModel.Driver.Parse
/-!
Driver of the history model (lean_exe `drv_hist`): one op per input line, one observation line per
op: `<status> out=<..> ev=[<sorted events of this op>] aux=0 | <probe of every slot>`.
The Rust harness (`harness/src/bin/hist.rs`) prints the same line for the real library.
-/
open M1

/-- the count as reported through the accessors the kind offers (`-` if it offers none) -/
def showCnt (m : Mem) (h : HV) : String :=
  match h.kind with
  | .uniq | .raw | .rawThin => "-"
  | _ => toString (loadCount m h.blk)

def insertSorted [Ord α] (x : α) : List α → List α
  | [] => [x]
  | y :: r => if compare x y == .gt then y :: insertSorted x r else x :: y :: r
def sortList [Ord α] (l : List α) : List α := l.foldl (fun acc x => insertSorted x acc) []

def probe (s : State) : String :=
  let es := sortList (s.slots.map fun (i, _) => i)
  " ".intercalate (es.filterMap fun i =>
    (lookup s i).map fun h =>
      s!"s{i}={showKind h.kind}.{showTy h.ty}@b{h.blk}+{h.off}/len{viewLen s.mem h}/cnt{showCnt s.mem h}/{digest s.mem h}")

def obsLine (s0 s1 : State) (o : Out) : String :=
  let evs := sortList ((s1.mem.log.drop s0.mem.log.length).map showEvent)
  s!"{o.status} out={o.out} ev=[{" ".intercalate evs}] aux=0 | {probe s1}"

/-- `T::clone`, called by the library in the middle of `make_mut` / `make_unique` / `unwrap_or_clone` on a SHARED handle,
is user code: it may use another handle (slot `k`) to the value — drop it, read the count through it, ask it for
`get_mut`.  In the model this is a composition of steps: the count read / `get_mut` verdict is that of the state BEFORE the
op (the library has not released or redirected anything yet when it calls `clone`), and a drop of `k` inside `clone` has
the same effect as a drop right after the op (the old allocation loses its owners in the other order; if the writer has
become the last owner by then, ITS release destroys the old value).  On a sole owner `clone` is not called: plain op. -/
def hookOp (s : State) (opn src : String) (v : Option String) (k act : String) : Option (State × Out) := do
  let src ← src.toNat?
  let k ← k.toNat?
  let v ← match v with | some x => x.toNat? | none => some 0
  let h ← lookup s src
  -- `droppanic`: inside `T::clone` the other handle is dropped AND THEN `clone` panics: the library's own reference is
  -- released by unwinding (unwrap_or_clone) or kept (make_mut / make_unique) — possibly as the LAST owner
  let dp := act == "droppanic"
  let base : Op ← match opn with
    | "makeMutH" => some (.makeMut src v dp)
    | "makeUniqueH" => some (.makeUnique src v dp)
    | "unwrapOrCloneH" => some (.unwrapOrClone src dp)
    | _ => none
  let hk ← match lookup s k with | some x => some x | none => none
  let okSrc := (h.kind = .arc && h.ty = .sized) || (opn == "makeMutH" && h.kind = .offset && h.ty = .sized)
  let okK := k != src && (hk.kind = .arc || hk.kind = .offset || hk.kind = .unionA || hk.kind = .unionB) &&
    (act == "drop" || dp || act == "cnt" || (act == "getmut" && hk.kind = .arc))
  if !(okSrc && okK) then some (s, badOp) else
  let shared := !(Arc.is_unique s.mem h)
  let (s1, o1) := step s base
  let pre := if o1.out == "" then "" else o1.out ++ ";"
  if !shared then (if o1.status != "ok" then some (s, badOp) else some (s1, ok (pre ++ "hook=-"))) else
  if dp then
    if o1.status != "panic:scripted" then some (s, badOp) else
    let (s2, o2) := step s1 (.drop k)
    if o2.status != "ok" then some (s, badOp) else some (s2, panicked "scripted")
  else
  if o1.status != "ok" then some (s, badOp) else
  match act with
  | "drop" =>
    let (s2, o2) := step s1 (.drop k)
    if o2.status != "ok" then some (s, badOp) else some (s2, ok (pre ++ "hook=dropped"))
  | "cnt" => some (s1, ok (pre ++ s!"hook=cnt:{loadCount s.mem hk.blk}"))
  | _ => some (s1, ok (pre ++ (if loadCount s.mem hk.blk == 1 then "hook=mut:some" else "hook=mut:none")))

partial def loop (h : IO.FS.Stream) (out : IO.FS.Stream) (s : State) : IO Unit := do
  let line ← h.getLine
  if line.isEmpty then return ()
  let l := line.trimAscii.toString
  if l == "reset" then
    out.putStrLn "reset"
    out.flush
    loop h out State.init
  else if l.isEmpty || l.startsWith "#" then
    loop h out s
  else
    match parseOp l with
    | none =>
      match l.splitOn " " with
      | [opn, a1, a2, a3, a4] =>
        -- re-entrant user code inside `T::clone` (`makeMutH s v k act` / `makeUniqueH s v k act`): see `hookOp`
        match hookOp s opn a1 (some a2) a3 a4 with
        | some (s', o) => out.putStrLn (obsLine s s' o); out.flush; loop h out s'
        | none => out.putStrLn "unparsed"; out.flush; loop h out s
      | ["unwrapOrCloneH", a1, a3, a4] =>
        match hookOp s "unwrapOrCloneH" a1 none a3 a4 with
        | some (s', o) => out.putStrLn (obsLine s s' o); out.flush; loop h out s'
        | none => out.putStrLn "unparsed"; out.flush; loop h out s
      | "asw" :: rest =>
        -- arc-swap integration (`RefCnt for Arc<T>`): an `ArcSwapAny<Arc<T>>` cell is one more owning handle of the
        -- allocation.  Its operations are compositions of steps of the model (so every theorem about histories applies
        -- to the expanded history): new = move in (clone + drop of the source), load = read-only, load_full = clone,
        -- store = release the old value + move the new one in, into_inner = move out (nothing changes).
        let expansion : Option (List Op) := match rest with
          | ["new", d, src] => do some [.clone (← d.toNat?) (← src.toNat?), .drop (← src.toNat?)]
          | ["load", _c] => some []
          | ["loadFull", d, c] => do some [.clone (← d.toNat?) (← c.toNat?)]
          | ["store", c, k] => do some [.drop (← c.toNat?), .clone (← c.toNat?) (← k.toNat?), .drop (← k.toNat?)]
          | ["into", _c] => some []
          | _ => none
        match expansion with
        | none => out.putStrLn "unparsed"; out.flush; loop h out s
        | some ops =>
          let r := ops.foldl (fun (acc : State × Bool) o =>
            if acc.2 then (let (s', o') := step acc.1 o; (s', o'.status == "ok")) else acc) (s, true)
          if r.2 then
            out.putStrLn (obsLine s r.1 (ok "")); out.flush; loop h out r.1
          else
            out.putStrLn (obsLine s s badOp); out.flush; loop h out s
      | ["cloneFrom", d, src] =>
        -- `Clone::clone_from(&mut d, &src)` — not overridden by any handle type (obligation `TraitCensus.obl_provided_method_overrides`),
        -- so it is the provided `*d = src.clone()`: a composition of model steps through a scratch slot (the new
        -- reference is taken first, then the old value of `d` is released)
        let tmp := 999
        let valid : Bool := match d.toNat?, src.toNat? with
          | some d, some k =>
            match lookup s d, lookup s k with
            | some hd, some hs =>
              let union (x : Kind) := x = .unionA || x = .unionB
              d != k && (cloneHandle s.mem hs).isSome && (lookup s tmp).isNone &&
                ((hd.kind = hs.kind && hd.ty = hs.ty) || (union hd.kind && union hs.kind))
            | _, _ => false
          | _, _ => false
        match valid, d.toNat?, src.toNat? with
        | true, some d, some k =>
          let ops : List Op := [.clone tmp k, .drop d, .clone d tmp, .drop tmp]
          let r := ops.foldl (fun (acc : State × Bool) o =>
            if acc.2 then (let (s', o') := step acc.1 o; (s', o'.status == "ok")) else acc) (s, true)
          if r.2 then
            out.putStrLn (obsLine s r.1 (ok "")); out.flush; loop h out r.1
          else
            out.putStrLn (obsLine s s badOp); out.flush; loop h out s
        | _, _, _ => out.putStrLn (obsLine s s badOp); out.flush; loop h out s
      | ["cmp", a, b] =>
        -- read-only: not a `step` (Model/Ops.lean, "comparison, hashing and formatting through handles")
        match a.toNat?, b.toNat? with
        | some a, some b => out.putStrLn (obsLine s s (cmpAnswer s a b)); out.flush; loop h out s
        | _, _ => out.putStrLn "unparsed"; out.flush; loop h out s
      | _ => out.putStrLn "unparsed"; out.flush; loop h out s
    | some op =>
      let (s', o) := step s op
      out.putStrLn (obsLine s s' o)
      out.flush
      loop h out s'

def main : IO Unit := do
  let out ← IO.getStdout
  loop (← IO.getStdin) out State.init
  out.flush
