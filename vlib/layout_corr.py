"""Correspondence between the executable Lean model M2 (`drv_layout`) and the real crate
(harness binary `layout`) for the layout slice: C05, C11 and the arithmetic half of C12.

* `Run(ctx, variant)` builds one configuration of the harness binary against ctx.repo.
* `gen_cases(...)` enumerates / samples cases (one PRNG seeded with ctx.seed).
* `execute(...)` feeds the case lines to the harness (in chunks, in parallel) and the derived
  query lines to the Lean driver, parses both, compares every field both sides print
  (`compare`), and evaluates the property itself on the implementation's observations
  (`monitor` — does not use the model).
* `c12_pairs(ctx)` is the entry point used by the lead's c12.py.
"""
import json
import os
import random
import subprocess
import time
from concurrent.futures import ThreadPoolExecutor

from vlib import common

WORD = 8          # the harness runs on this machine: 64-bit usize
BITS = 64
ALL_FEATURES = ("std", "serde", "stable_deref_trait", "unsize", "arc-swap")

# environment of the cargo builds of this slice: the shape matrix instantiates the crate's generic
# code for ~1000 type pairs; at opt-level 0 without debuginfo that compiles in ~30 s instead of ~9 min.
# debug-assertions / overflow-checks keep their profile values (dev: on, release: off).
FAST_ENV = {"CARGO_INCREMENTAL": "0", "CARGO_PROFILE_DEV_DEBUG": "0", "CARGO_PROFILE_DEV_OPT_LEVEL": "0",
            "CARGO_PROFILE_RELEASE_DEBUG": "0"}

VARIANTS = {
    # name: (features, release, rustflags, extra env, tag)
    "dbg": (ALL_FEATURES, False, "", {}, "-layout"),
    "dbg-full": (ALL_FEATURES, False, "--cfg layout_full", {}, "-layout-full"),
    "dbg-nofeat": (("std",), False, "", {}, "-layout"),
    "dbg-unsize": (("std", "unsize"), False, "--cfg layout_small", {}, "-layout-small"),
    "dbg-arcswap": (("std", "arc-swap"), False, "--cfg layout_small", {}, "-layout-small"),
    # release semantics (debug assertions off) on the default pair set, unoptimised: fast to build
    "rel-o0": (ALL_FEATURES, True, "", {"CARGO_PROFILE_RELEASE_OPT_LEVEL": "0"}, "-layout-o0"),
    # the real release profile (opt-level 2) on the core x core pairs
    "rel": (ALL_FEATURES, True, "--cfg layout_small", {}, "-layout-small"),
}


class _Repo:
    def __init__(self, repo):
        self.repo = repo


def _build_child(args):
    """one configuration, with its own environment for the cargo process (no fork of this process: the
    environment is passed to the subprocess)"""
    repo, variant = args
    feats, release, rustflags, env, tag = VARIANTS[variant]
    e = dict(FAST_ENV)
    e.update(env)
    if rustflags:
        e["RUSTFLAGS"] = rustflags
    drop = lambda k: k.startswith("CARGO_PROFILE_") or k in ("RUSTFLAGS", "CARGO_ENCODED_RUSTFLAGS")
    t0 = time.time()
    path, out = common.cargo_build_bin(_Repo(repo), "layout", features=feats, release=release, extra_tag=tag, env=e, env_drop=drop)
    return variant, path, out[-6000:], round(time.time() - t0, 1)


def build_variants(ctx, variants):
    """Build several configurations concurrently.  Returns {variant: path}; raises on a build failure
    (machinery, or the mutant does not compile against the harness — never a verdict)."""
    from concurrent.futures import ThreadPoolExecutor
    variants = list(variants)
    res = {}
    with ThreadPoolExecutor(max_workers=min(len(variants), 4)) as ex:
        results = list(ex.map(_build_child, [(ctx.repo, v) for v in variants]))
    for variant, path, out, secs in results:
        if not path:
            pr = common.pristine_copy(ctx.repo)
            if pr is not None:
                v2, p2, o2, _ = _build_child((pr, variant))
                if p2:
                    ctx.oblige("corr:harness-layout-builds-against-working-tree", False, "build error")
                    ctx.defer_nfi("the layout harness (variant %s) no longer builds against the working tree of %s although it builds "
                                  "against its HEAD: a public item the property talks about was removed or changed.\n%s" % (variant, ctx.repo, out[-2500:]))
                    raise common.HarnessBuildChanged()
            raise RuntimeError("harness build failed (bin layout, variant %s):\n%s" % (variant, out))
        res[variant] = path
        ctx.notes.append("built layout[%s] in %.1fs" % (variant, secs))
    return res


# ------------------------------------------------------------------------------------------------
# running the two sides

def parse_line(line):
    d = {}
    for tok in line.split():
        if "=" in tok:
            k, v = tok.split("=", 1)
            d[k] = v
    return d


def _run_chunk(binpath, lines):
    """Run one harness process on `lines`; returns list of output lines, one per input line.  A
    process that dies leaves `st=crash:<rc>` for the case it died in and is restarted after it."""
    out_all = []
    rest = list(lines)
    while rest:
        p = subprocess.run([binpath], input="\n".join(rest) + "\n", stdout=subprocess.PIPE,
                           stderr=subprocess.PIPE, text=True, errors="replace", timeout=1200)
        got = p.stdout.split("\n")
        if got and got[-1] == "":
            got.pop()
        if len(got) >= len(rest):
            out_all.extend(got[:len(rest)])
            break
        # died in case number len(got)
        out_all.extend(got)
        err = p.stderr.strip().replace("\n", " | ")[-300:].replace(" ", "_")
        out_all.append("st=crash:%s stderr=%s" % (p.returncode, err))
        rest = rest[len(got) + 1:]
    return out_all


def run_harness(binpath, lines, chunk=2500, workers=12):
    if not lines:
        return []
    chunks = [lines[i:i + chunk] for i in range(0, len(lines), chunk)]
    with ThreadPoolExecutor(max_workers=workers) as ex:
        outs = list(ex.map(lambda c: _run_chunk(binpath, c), chunks))
    res = [l for o in outs for l in o]
    if any(l.startswith("st=capacity") for l in res):
        raise RuntimeError("harness allocator record table full (chunk too large)")
    return res


def run_driver(drv, queries, chunk=40000, workers=8):
    if not queries:
        return []
    chunks = [queries[i:i + chunk] for i in range(0, len(queries), chunk)]

    def one(c):
        p = subprocess.run([drv], input="\n".join(c) + "\n", stdout=subprocess.PIPE, stderr=subprocess.PIPE,
                           text=True, timeout=1200)
        got = p.stdout.split("\n")
        if got and got[-1] == "":
            got.pop()
        if p.returncode != 0 or len(got) != len(c):
            raise RuntimeError("drv_layout failed: rc=%s, %d answers for %d queries\n%s" % (
                p.returncode, len(got), len(c), p.stderr[-1000:]))
        return got
    with ThreadPoolExecutor(max_workers=workers) as ex:
        outs = list(ex.map(one, chunks))
    return [l for o in outs for l in o]


def run_child(binpath, line, timeout=60):
    """One case in its own process (near-overflow lengths): (rc, stdout line, stderr)."""
    env = dict(os.environ)
    env["RUST_BACKTRACE"] = "0"
    p = subprocess.run([binpath], input=line + "\n", stdout=subprocess.PIPE, stderr=subprocess.PIPE,
                       text=True, errors="replace", timeout=timeout, env=env)
    out = p.stdout.strip().split("\n")[0] if p.stdout.strip() else ""
    return p.returncode, out, p.stderr


class Shapes:
    def __init__(self, binpath):
        out = _run_chunk(binpath, ["shapes"])[0]
        self.info = parse_line(out)
        self.list = []
        for tok in out.split():
            if "=" not in tok and tok.count(":") == 3:
                i, name, sz, al = tok.split(":")
                assert int(i) == len(self.list)
                self.list.append((name, int(sz), int(al)))
        if not self.list or int(self.info.get("nshapes", -1)) != len(self.list):
            raise RuntimeError("cannot read the shape matrix from the harness: %r" % out[:300])
        self.ncore = int(self.info["ncore"])
        self.full = self.info.get("full") == "1"
        self.small = self.info.get("small") == "1"
        self.debug_assertions = self.info.get("debug_assertions") == "1"
        self.unsize = self.info.get("unsize") == "1"
        self.arc_swap = self.info.get("arc_swap") == "1"

    def n(self):
        return len(self.list)

    def size(self, i):
        return self.list[i][1]

    def align(self, i):
        return self.list[i][2]

    def name(self, i):
        return self.list[i][0]

    def pair_ok(self, h, t):
        if self.full:
            return True
        if self.small:
            return h < self.ncore and t < self.ncore
        return h < self.ncore or t < self.ncore

    def pairs(self):
        return [(h, t) for h in range(self.n()) for t in range(self.n()) if self.pair_ok(h, t)]


# ------------------------------------------------------------------------------------------------
# case space

SIZED_CTORS = ["new", "from_t", "frombox", "uniq_new", "uniq_uninit", "arc_uninit"]
SIZED_RELS = ["drop", "clone", "raw", "dyn", "unsize", "offset", "offset_back", "try_unwrap", "into_inner",
              "refcnt", "erase", "erase_drop", "borrow"]
HS_CTORS = ["iter", "slice", "vec", "uninit"]
HS_RELS = ["drop", "clone", "raw", "unique"]
THIN_CTORS = ["slice", "iter", "fat_slice"]
THIN_BAD_CTORS = ["fat_bad", "fat_bad_short"]      # recorded length != slice length: into_thin must refuse
THIN_RELS = ["drop", "clone", "from_thin", "protected", "raw", "refcnt"]
SLICE_CTORS = ["from_ref", "from_vec", "iter_exact", "iter_unknown", "uninit", "uniq_uninit"]
SLICE_RELS = ["drop", "clone", "raw", "erase", "erase_drop"]
STR_CTORS = ["from_str", "from_string", "hdr_str"]
STR_RELS = ["drop", "raw", "erase", "erase_drop"]
LENS = [0, 1, 2, 3, 7, 8, 9, 31]
OVF_KINDS = ["uninit", "slice_uninit", "iter", "thin_iter"]

# model-side constructor names
SIZED_MODEL_CTOR = {"new": "new", "from_t": "new", "uniq_new": "new", "arc_uninit": "new",
                    "frombox": "frombox", "uniq_uninit": "uniq_uninit"}
SLICE_MODEL_CTOR = {"from_ref": "from_ref", "from_vec": "from_vec", "iter_exact": "iter_exact",
                    "iter_unknown": "iter_unknown", "uninit": "uninit", "uniq_uninit": "uninit"}
THIN_MODEL_CTOR = {"slice": "slice", "iter": "iter", "fat_slice": "slice", "fat_bad": "badlen", "fat_bad_short": "badlen"}


class Case:
    __slots__ = ("kind", "line", "query", "meta")

    def __init__(self, kind, line, query, meta):
        self.kind = kind
        self.line = line
        self.query = query
        self.meta = meta

    def triple(self):
        m = self.meta
        return (self.kind, m.get("shape"), m.get("ctor"), m.get("rel"))


def mk_sized(sh, p, ctor, rel, seed):
    return Case("sized", "sized %d %s %s %d" % (p, ctor, rel, seed),
                "sized %d %d %d %s" % (BITS, sh.size(p), sh.align(p), SIZED_MODEL_CTOR[ctor]),
                {"shape": sh.name(p), "P": p, "ctor": ctor, "rel": rel})


def mk_hs(sh, h, t, n, ctor, rel, seed):
    return Case("hs", "hs %d %d %d %s %s %d" % (h, t, n, ctor, rel, seed),
                "hs %d %d %d %d %d %d %s" % (BITS, sh.size(h), sh.align(h), sh.size(t), sh.align(t), n, ctor),
                {"shape": sh.name(h) + "/" + sh.name(t), "H": h, "T": t, "len": n, "ctor": ctor, "rel": rel})


def mk_thin(sh, h, t, n, ctor, rel, seed):
    return Case("thin", "thin %d %d %d %s %s %d" % (h, t, n, ctor, rel, seed),
                "thin %d %d %d %d %d %d %s" % (BITS, sh.size(h), sh.align(h), sh.size(t), sh.align(t), n,
                                               THIN_MODEL_CTOR[ctor]),
                {"shape": sh.name(h) + "/" + sh.name(t), "H": h, "T": t, "len": n, "ctor": ctor, "rel": rel})


def mk_slice(sh, t, n, ctor, rel, seed):
    if ctor == "array3":
        q = "array %d %d %d %d" % (BITS, sh.size(t), sh.align(t), n)
    else:
        mc = SLICE_MODEL_CTOR[ctor]
        if ctor == "iter_unknown" and n == 0:
            # the harness's "unknown size" iterator is `filter` over a slice iterator; over an empty
            # slice its size_hint is (0, Some(0)), i.e. lower == upper: FromIterator takes the exact path
            mc = "iter_exact"
        q = "slice %d %d %d %d %s" % (BITS, sh.size(t), sh.align(t), n, mc)
    return Case("slice", "slice %d %d %s %s %d" % (t, n, ctor, rel, seed), q,
                {"shape": "[" + sh.name(t) + "]", "T": t, "len": n, "ctor": ctor, "rel": rel})


def mk_str(sh, h, n, ctor, rel, seed):
    if ctor == "hdr_str":
        q = "hs %d %d %d 1 1 %d slice" % (BITS, sh.size(h), sh.align(h), n)
        name = sh.name(h) + "/str"
    else:
        q = "slice %d 1 1 %d from_ref" % (BITS, n)
        name = "str"
    return Case("str", "str %d %d %s %s %d" % (h, n, ctor, rel, seed), q,
                {"shape": name, "H": h, "len": n, "ctor": ctor, "rel": rel})


def mk_union(sh, a, b, which, seed):
    p = a if which == 1 else b
    return Case("union", "union %d %d %d %d" % (a, b, which, seed),
                "union %d %d %d %d" % (BITS, sh.size(p), sh.align(p), which),
                {"shape": sh.name(a) + "|" + sh.name(b), "A": a, "B": b, "which": which, "P": p,
                 "ctor": "new", "rel": "union%d" % which})


def mk_widths(sh, p):
    return Case("widths", "widths %d" % p, "widths %d" % BITS, {"shape": sh.name(p), "P": p})


def mk_tag(addr):
    return Case("tag", "tag %d" % addr, "tag %d" % addr, {"addr": addr})


def mk_ext(n, a, m, b):
    return Case("ext", "ext %d %d %d %d" % (n, a, m, b), "ext %d %d %d %d %d" % (BITS, n, a, m, b), {})


def mk_arr(sh, t, n):
    return Case("arr", "arr %d %d" % (t, n), "arr %d %d %d %d" % (BITS, sh.size(t), sh.align(t), n), {"T": t, "len": n})


def mk_ovf(sh, h, t, n, kind):
    hh = 0 if kind == "slice_uninit" else h     # new_uninit_slice: unit header
    if kind == "thin_iter":
        q = "thin %d %d %d %d %d %d iter" % (BITS, sh.size(h), sh.align(h), sh.size(t), sh.align(t), n)
    elif kind == "slice_uninit":
        q = "slice %d %d %d %d uninit" % (BITS, sh.size(t), sh.align(t), n)
    else:
        q = "hs %d %d %d %d %d %d %s" % (BITS, sh.size(h), sh.align(h), sh.size(t), sh.align(t), n,
                                        "iter" if kind == "iter" else "uninit")
    return Case("ovf", "ovf %d %d %d %s" % (h, t, n, kind), q,
                {"shape": sh.name(hh) + "/" + sh.name(t), "H": h, "T": t, "len": n, "ctor": kind, "rel": "-"})


def sized_rels(sh):
    return [r for r in SIZED_RELS if (r != "unsize" or sh.unsize) and (r != "refcnt" or sh.arc_swap)]


def thin_rels(sh):
    return [r for r in THIN_RELS if (r != "refcnt" or sh.arc_swap)]


def slice_ctors(sh):
    return SLICE_CTORS + (["array3"] if sh.unsize else [])


def gen_cases(sh, rng, tier, want=("sized", "hs", "thin", "slice", "str", "union", "widths", "raw")):
    """All cases of the run, deterministic in (build, seed, tier)."""
    cases = []
    n = sh.n()
    pairs = sh.pairs()
    full = tier == "thorough"
    seed = lambda: rng.randrange(1, 250)
    if "sized" in want:
        rels = sized_rels(sh)
        for p in range(n):
            for c in SIZED_CTORS:
                for r in rels:
                    if full or c == "new" or r == "drop" or rng.random() < 0.22:
                        cases.append(mk_sized(sh, p, c, r, seed()))
    if "hs" in want:
        diag = set(rng.sample(pairs, min(10, len(pairs)))) if not full else set(pairs)
        for (h, t) in pairs:
            if (h, t) in diag:
                for ln in LENS:
                    for c in HS_CTORS:
                        for r in HS_RELS:
                            if not full or r in ("drop", "raw") or ln in (0, 3, 9):
                                cases.append(mk_hs(sh, h, t, ln, c, r, seed()))
            else:
                for _ in range(2):
                    cases.append(mk_hs(sh, h, t, rng.choice(LENS), rng.choice(HS_CTORS), rng.choice(HS_RELS), seed()))
    if "thin" in want:
        rels = thin_rels(sh)
        diag = set(rng.sample(pairs, min(6, len(pairs)))) if not full else set(pairs)
        for (h, t) in pairs:
            if (h, t) in diag:
                for ln in (LENS if not full else [0, 1, 3, 8, 31]):
                    for c in THIN_CTORS:
                        for r in rels:
                            if not full or r in ("drop", "raw", "from_thin") or ln == 3:
                                cases.append(mk_thin(sh, h, t, ln, c, r, seed()))
            else:
                cases.append(mk_thin(sh, h, t, rng.choice(LENS), rng.choice(THIN_CTORS), rng.choice(rels), seed()))
            # into_thin of a fat Arc whose recorded length disagrees: every pair, a small and a larger length
            for c in THIN_BAD_CTORS:
                cases.append(mk_thin(sh, h, t, rng.choice([0, 1, 1, 2, 3, 8]), c, "drop", seed()))
    if "slice" in want:
        diag = set(rng.sample(range(n), 6)) if not full else set(range(n))
        for t in range(n):
            for c in slice_ctors(sh):
                if c == "array3":
                    for r in SLICE_RELS:
                        if full or r in ("drop", "raw") or t in diag:
                            cases.append(mk_slice(sh, t, 3, c, r, seed()))
                    continue
                if t in diag:
                    for ln in LENS:
                        for r in SLICE_RELS:
                            cases.append(mk_slice(sh, t, ln, c, r, seed()))
                else:
                    for r in SLICE_RELS:
                        cases.append(mk_slice(sh, t, rng.choice(LENS), c, r, seed()))
    if "str" in want:
        for ln in [0, 1, 5, 8, 23] + ([64, 255] if full else []):
            for c in ("from_str", "from_string"):
                for r in STR_RELS:
                    cases.append(mk_str(sh, 0, ln, c, r, seed()))
        for h in range(n):
            for ln in ([0, 1, 5, 8, 23] if full else [rng.choice([0, 1, 5, 8, 23])]):
                for r in ("drop", "raw"):
                    cases.append(mk_str(sh, h, ln, "hdr_str", r, seed()))
    if "union" in want:
        cases += union_cases(sh, rng, tier)
    if "widths" in want:
        for p in range(n):
            cases.append(mk_widths(sh, p))
    if "raw" in want:
        k = 300 if not full else 3000
        for _ in range(k):
            a = rng.choice([rng.randrange(0, 1 << 16), rng.randrange(0, 1 << 47), rng.randrange(0, 1 << 64)])
            cases.append(mk_tag(a))
        aligns = [1 << e for e in range(0, 13)] + [1 << 30, 1 << 62, 1 << 63]
        top = 1 << 63
        for _ in range(2 * k):
            a, b = rng.choice(aligns), rng.choice(aligns)
            nn = rng.choice([rng.randrange(0, 200), rng.randrange(0, 1 << 20), top - rng.randrange(0, 3 * a + 70),
                             rng.randrange(0, 1 << 64)])
            mm = rng.choice([rng.randrange(0, 200), top - nn - rng.randrange(0, 200) if nn < top else 5,
                             rng.randrange(0, 1 << 63)])
            cases.append(mk_ext(max(nn, 0), a, max(mm, 0), b))
        for _ in range(k):
            t = rng.randrange(n)
            sz = max(sh.size(t), 1)
            cases.append(mk_arr(sh, t, max(0, rng.choice([rng.randrange(0, 100), top // sz + rng.randrange(-3, 3),
                                                          (top - sh.align(t)) // sz + rng.randrange(-2, 3),
                                                          rng.randrange(0, 1 << 64)]))))
    return cases


def union_cases(sh, rng, tier):
    pairs = sh.pairs()
    n = sh.n()
    cases = []
    if tier == "thorough":
        chosen = pairs
    else:
        # every shape as the first and as the second type at least once, plus equal types
        chosen = set()
        for p in range(n):
            partners = [q for q in range(n) if sh.pair_ok(p, q)]
            if partners:
                chosen.add((p, rng.choice(partners)))
            partners = [q for q in range(n) if sh.pair_ok(q, p)]
            if partners:
                chosen.add((rng.choice(partners), p))
        for p in range(sh.ncore):
            chosen.add((p, p))
        chosen = sorted(chosen)
    for (a, b) in chosen:
        for which in (1, 2):
            cases.append(mk_union(sh, a, b, which, rng.randrange(1, 250)))
    return cases


def ovf_cases(sh, rng, tier):
    """Lengths around the three overflow thresholds of allocate_for_header_and_slice, for a few
    (header, element) pairs; every candidate goes to the model, which says on which side it lies."""
    top = 1 << 63
    res = []
    n = sh.n()
    cand_pairs = [(h, t) for (h, t) in sh.pairs() if sh.size(t) > 0]
    picks = rng.sample(cand_pairs, 6 if tier != "thorough" else 40)
    # always include the byte slice and an over-aligned header
    byname = {sh.name(i): i for i in range(n)}
    picks += [(byname["S0A1"], byname["S1A1"]), (byname["S64A64"], byname["S3A1"]), (byname["S4A4"], byname["S2A2"])]
    for (h, t) in picks:
        ts = sh.size(t)
        al = max(sh.align(h), sh.align(t), WORD)
        # need = dataOff + sliceOff + len*ts (+padding) vs top - al ; dataOff <= al, sliceOff <= size(h)+align(t)
        slack = 2 * al + sh.size(h) + sh.align(t) + 2 * WORD + 16   # hwl adds a word
        lens = set()
        for d in (0, 1):
            lens.add(top // ts + d)                       # len*ts crosses isize::MAX
        for back in (0, ts, slack // 2, slack, 2 * slack):
            q = (top - back) // ts
            for d in (-1, 0, 1):
                if q + d > 0:
                    lens.add(q + d)
        lens.add((1 << 64) // ts)                         # wraps to (almost) 0 in usize arithmetic
        lens.add((1 << 64) // ts + 1)
        lens = [x for x in lens if x < (1 << 64)]
        kinds = OVF_KINDS if tier == "thorough" else [rng.choice(["uninit", "iter"]), rng.choice(["slice_uninit", "thin_iter"])]
        for k in kinds:
            for ln in sorted(rng.sample(sorted(lens), min(len(lens), 4 if tier != "thorough" else 8))):
                res.append(mk_ovf(sh, h, t, ln, k))
    return res


# ------------------------------------------------------------------------------------------------
# comparison model <-> implementation

# fields of the implementation line whose model counterpart has another name, by (kind, rel)
def model_field(case, k):
    rel = case.meta.get("rel")
    if k == "dealloc":
        if case.kind in ("sized",) and rel in ("dyn", "unsize"):
            return "dyn_dealloc"
        if rel == "erase_drop":
            return "er_dealloc"
    if case.kind == "sized" and rel == "borrow" and k == "rt_base":
        return "rt_base"
    return k


# fields only the implementation prints (monitored, not compared)
IMPL_ONLY = {"bmod", "dmod", "hmod", "smod", "cnt", "scnt", "cont", "rt_cnt", "rt_ok", "rt_slen", "cl_cnt", "cl_as_ptr",
             "cl_deref", "cl_bits", "cl_ptr_eq", "allocs", "ndealloc", "dfree", "aux", "aux_bad", "er_heap", "dyn_deref",
             "off_borrow", "off_with", "bo_deref", "bo_from_ptr", "bo_with", "ft_heap", "ft_as_ptr", "second",
             "as_first", "as_second", "usz", "uosz", "unwrap", "word", "al_arc", "al_thin", "al_union", "msg", "leaked",
             "deallocs", "stderr", "mk2", "x_eq", "x_ne", "x_ptr_eq", "x_variants", "x_cnt"}

C05_FIELDS = {"st", "alloc", "dealloc", "sov", "aov", "hdr", "slice", "e0", "elast", "slen", "hwl_size", "hwl_align",
              "hwl_lenoff", "er_sov", "dyn_sov", "dyn_aov", "ext", "extpad", "pad", "pnf", "mk", "arr", "lenv"}
C12_KINDS = {"union", "tag"}


def field_prop(case, k):
    if case.kind in C12_KINDS:
        return "C12" if k not in ("alloc", "dealloc", "st") else "C05"
    return "C05" if k in C05_FIELDS else "C11"


def compare(case, impl, model):
    """[(prop, field, impl value, model value)] for every disagreeing field."""
    bad = []
    ist, mst = impl.get("st", "?"), model.get("st", "ok" if case.kind in ("widths", "tag", "ext", "arr") else "?")
    if ist.startswith("skip"):
        return bad
    if ist != mst:
        bad.append(("C05", "st", ist, mst))
        if case.kind == "thin":
            bad.append(("C10", "st", ist, mst))
        return bad
    if ist != "ok":
        # both refuse with the same class: nothing must have been allocated before the refusal
        return bad
    for k, v in impl.items():
        if k == "st" or k in IMPL_ONLY:
            continue
        mk = model_field(case, k)
        if case.kind == "thin" and k in THIN_RAW_ACCESSORS and v == impl.get("deref") and model.get(mk) != v:
            # the model mirrors the known deviation (raw ThinArc pointer = block address).  If the crate
            # starts returning the value's address — what the property demands — that is not a
            # disagreement to alarm about: the monitor still checks the address and the round trip.
            continue
        if mk not in model:
            bad.append((field_prop(case, k), k, v, "<model prints no %s>" % mk))
        elif model[mk] != v:
            bad.append((field_prop(case, k), k, v, model[mk]))
    return bad


# ------------------------------------------------------------------------------------------------
# the property itself, evaluated on the implementation's observations (independent of the model)

THIN_RAW_ACCESSORS = {"t_as_ptr": "thin.as_ptr", "t_into_raw": "thin.into_raw",
                      "rc_as_ptr": "refcnt.thin.as_ptr", "rc_into": "refcnt.thin.into_ptr"}


def _i(d, k):
    v = d.get(k)
    if v is None:
        return None
    try:
        return int(v)
    except ValueError:
        return None


def _lay(d, k):
    v = d.get(k)
    if not v or "," not in v:
        return None
    a, b = v.split(",")[:2]
    return int(a), int(b)


def monitor(case, impl, sh):
    """Returns a list of failures {prop, what, accessor?, observed?}.  Uses only the observation
    line, the case's inputs and the sizes/alignments of the shapes involved."""
    f = []
    st = impl.get("st", "?")
    kind, m = case.kind, case.meta

    def fail(prop, what, **kw):
        d = {"prop": prop, "what": what}
        d.update(kw)
        f.append(d)

    if st.startswith("skip") or kind in ("tag", "ext", "arr"):
        if kind == "tag" and st == "ok":
            a = m["addr"]
            if _i(impl, "or1") != (a | 1) or _i(impl, "clear") != (a & ~1):
                fail("C12", "usize tag arithmetic is not | 1 / & !1")
        return f
    if st.startswith("crash"):
        fail("C05", "the process died in this case (%s)" % st)
        return f
    if kind == "widths":
        w = _i(impl, "word")
        for k, v in impl.items():
            if k in ("st", "word") or k.startswith("al_"):
                continue
            fat = k.replace("o_", "", 1) in ("arc_slice", "arc_str", "arc_dyn", "arc_hs", "uniq_slice", "borrow_slice", "borrow_dyn")
            want = (2 if fat else 1) * w
            if int(v) != want:
                fail("C11" if "union" not in k else "C12",
                     "size_of %s is %s bytes, the property demands %d (%s pointer, null niche for Option)" % (
                         k, v, want, "two-word fat" if fat else "one-word"))
        return f

    # expected refusals -------------------------------------------------------------------------
    zst_elem = kind in ("hs", "thin", "slice") and sh.size(m["T"]) == 0
    if st.startswith("panic"):
        cls = st.split(":", 1)[1]
        allocs = _i(impl, "allocs") or 0
        if cls == "zst" and zst_elem:
            if impl.get("leaked"):
                fail("C05", "a zero-sized-element constructor panicked after allocating (block leaked %s)" % impl.get("leaked"))
            return f
        if kind == "thin" and m.get("ctor") in THIN_BAD_CTORS:
            # a fat Arc whose recorded length disagrees: `into_thin` MUST refuse with the length panic, and release the Arc
            if cls != "length-mismatch":
                fail("C10", "into_thin of a fat Arc with a disagreeing recorded length ended as %s instead of the length panic" % st)
            if impl.get("leaked"):
                fail("C10", "into_thin refused the Arc but did not release it: block %s is left allocated" % impl.get("leaked"))
                fail("C05", "into_thin refused the Arc but did not release it: block %s is never returned to the allocator" % impl.get("leaked"))
            return f
        if kind == "ovf":
            need = WORD + (0 if m["ctor"] == "slice_uninit" else sh.size(m["H"])) + m["len"] * sh.size(m["T"])
            if cls == "layout-overflow" and allocs == 0:
                return f
            fail("C05", "near-overflow length refused with panic class %s after %d allocation(s); need=%d" % (cls, allocs, need))
            return f
        fail("C05", "constructor / release path panicked on an in-domain input: %s %s" % (st, impl.get("msg", "")))
        return f
    if st != "ok" and not st.startswith("wrote"):
        fail("C05", "unexpected status %s" % st)
        return f

    # C05: the block -----------------------------------------------------------------------------
    alloc = _lay(impl, "alloc")
    if kind == "ovf":
        # the library went on to allocate: the block must hold what was asked for
        hs_ = 0 if m["ctor"] == "slice_uninit" else sh.size(m["H"])
        if m["ctor"] == "thin_iter":
            hs_ += WORD
        need = WORD + hs_ + m["len"] * sh.size(m["T"])
        if alloc is None:
            fail("C05", "no allocation recorded although the constructor returned")
        elif alloc[0] < need:
            fail("C05", "short block: %d bytes requested for count + header + %d elements of %d bytes = %d bytes "
                 "(size computation overflowed and was not refused)" % (alloc[0], m["len"], sh.size(m["T"]), need))
        return f
    if alloc is None:
        fail("C05", "no allocation recorded for the Arc block")
        return f
    dealloc = _lay(impl, "dealloc")
    nd = _i(impl, "ndealloc")
    if nd != 1 or (_i(impl, "dfree") or 0) != 0:
        fail("C05", "block released %s times (double frees seen: %s), must be exactly once" % (nd, impl.get("dfree")))
    elif dealloc != alloc:
        fail("C05", "block requested with (size, align) = %s but released with %s" % (alloc, dealloc))
    if (_i(impl, "aux_bad") or 0) != 0:
        fail("C05", "an auxiliary allocation (Box / Vec handed to the constructor) was not freed once with its own layout")
    if (_i(impl, "bmod") or 0) != 0:
        fail("C05", "allocator returned a block not aligned to the requested alignment (harness problem?)")
    sov, aov, deref = _i(impl, "sov"), _i(impl, "aov"), _i(impl, "deref")
    if sov is not None and deref is not None and kind != "union":
        if deref < WORD:
            fail("C05", "payload at offset %d overlaps the count word" % deref)
        if deref + sov > alloc[0]:
            fail("C05", "payload [%d, %d) does not fit the %d-byte block" % (deref, deref + sov, alloc[0]))
        if aov is not None and alloc[1] < max(aov, WORD):
            fail("C05", "block alignment %d is below max(count, payload) alignment %d" % (alloc[1], max(aov, WORD)))
    for k in ("dmod", "hmod", "smod"):
        if (_i(impl, k) or 0) != 0:
            fail("C05", "address of %s is not aligned for its type (addr %% align = %s)" % (
                {"dmod": "the payload", "hmod": "the header", "smod": "the slice"}[k], impl[k]))
    if kind in ("hs", "thin", "slice", "str") and "slice" in impl:
        ts = 1 if kind == "str" else sh.size(m["T"])
        hsz = sh.size(m["H"]) if kind in ("hs", "thin") or (kind == "str" and m["ctor"] == "hdr_str") else 0
        n = m["len"]
        sl, hd = _i(impl, "slice"), _i(impl, "hdr")
        if _i(impl, "slen") != n:
            fail("C05", "slice length %s, constructed with %d elements" % (impl.get("slen"), n))
        need = WORD + hsz + (WORD if kind == "thin" else 0) + n * ts
        if alloc[0] < need:
            fail("C05", "block of %d bytes cannot hold count + header + %d elements = %d bytes" % (alloc[0], n, need))
        if sl + n * ts > alloc[0]:
            fail("C05", "slice [%d, %d) runs past the %d-byte block" % (sl, sl + n * ts, alloc[0]))
        if hd is not None and (hd < WORD or hd + hsz > sl):
            fail("C05", "header [%d, %d) overlaps the count or the slice at %d" % (hd, hd + hsz, sl))
        if n > 0 and "e0" in impl:
            if _i(impl, "e0") != sl or _i(impl, "elast") != sl + (n - 1) * ts:
                fail("C05", "element addresses are not slice + i*size")
        if kind == "thin":
            lf = _i(impl, "lenf")
            if _i(impl, "lenv") != n:
                fail("C05", "stored ThinArc length %s != %d" % (impl.get("lenv"), n))
            if lf is not None and (lf < hd + hsz or lf + WORD > sl or lf % WORD != 0):
                fail("C05", "ThinArc length field at %d overlaps header/slice or is misaligned" % lf)
    if "cont" in impl and impl["cont"] != "1":
        fail("C05", "contents read back through the handle differ from what the constructor was given")
        fail("C06", "contents read back through the handle differ from what the constructor was given (header/elements written at the wrong place or in the wrong number)")

    # C11: addresses, round trips ------------------------------------------------------------------
    if kind in ("sized", "hs", "slice", "str"):
        if _i(impl, "heap") != 0:
            fail("C11", "heap_ptr is at offset %s of the block, must be the block address" % impl.get("heap"), accessor="arc.heap_ptr", observed=_i(impl, "heap"))
        for k, acc in (("as_ptr", "arc.as_ptr"), ("into_raw", "arc.into_raw"), ("borrow", "arcborrow.bits"),
                       ("off_bits", "offsetarc.bits"), ("off_deref", "offsetarc.deref"), ("off_borrow", "offsetarc.borrow_arc.bits"),
                       ("off_with", "arc.with_raw_offset_arc.bits"), ("rc_as_ptr", "refcnt.arc.as_ptr"), ("rc_into", "refcnt.arc.into_ptr"),
                       ("cl_as_ptr", "clone.as_ptr"), ("cl_deref", "clone.deref"), ("dyn_as_ptr", "arc<dyn>.as_ptr"),
                       ("dyn_deref", "arc<dyn>.deref"), ("er_as_ptr", "arc<HeaderSlice<(),T>>.as_ptr"),
                       ("er_slice", "arc<HeaderSlice<(),T>>.slice"), ("bo_deref", "arcborrow.deref"),
                       ("bo_from_ptr", "arcborrow.from_ptr.bits")):
            if k in impl and _i(impl, k) != deref:
                fail("C11", "%s yields block offset %s but the value lives at offset %s (Deref)" % (acc, impl[k], deref),
                     accessor=acc, observed=_i(impl, k))
        for k, acc in (("rt_base", "from_raw(into_raw)"), ("dyn_rt_base", "from_raw(into_raw as *const dyn)"),
                       ("off_rt_base", "from_raw_offset(into_raw_offset)"), ("rc_rt_base", "RefCnt::from_ptr(into_ptr)"),
                       ("er_heap", "erased.heap_ptr"), ("bo_with", "ArcBorrow::with_arc.heap_ptr")):
            if k in impl and _i(impl, k) != 0:
                fail("C11", "%s recovers a handle whose block is at offset %s of the original block" % (acc, impl[k]),
                     accessor=acc, observed=_i(impl, k))
        if kind == "sized" and m["rel"] in ("dyn", "unsize"):
            if _i(impl, "dyn_sov") != sh.size(m["P"]) or _i(impl, "dyn_aov") != sh.align(m["P"]):
                fail("C11", "trait object reports size/align %s/%s, concrete type has %d/%d" % (
                    impl.get("dyn_sov"), impl.get("dyn_aov"), sh.size(m["P"]), sh.align(m["P"])))
    if kind == "thin":
        for k, acc in (("t_ptr", "thin.ptr"), ("t_heap", "thin.heap_ptr"), ("fat_heap", "thin.with_arc.heap_ptr"),
                       ("ft_heap", "from_thin.heap_ptr"), ("rt_base", "thin.from_raw(into_raw).ptr"),
                       ("rc_rt_base", "refcnt.thin.from_ptr(into_ptr).ptr")):
            if k in impl and _i(impl, k) != 0:
                fail("C11", "%s is at offset %s of the block, must be the block address" % (acc, impl[k]), accessor=acc, observed=_i(impl, k))
        for k, acc in (("fat_as_ptr", "thin.with_arc.as_ptr"), ("ft_as_ptr", "from_thin.as_ptr")):
            if k in impl and _i(impl, k) != deref:
                fail("C11", "%s yields offset %s, value lives at %s" % (acc, impl[k], deref), accessor=acc, observed=_i(impl, k))
        for k, acc in THIN_RAW_ACCESSORS.items():
            if k in impl and _i(impl, k) != deref:
                fail("C11", "%s yields block offset %s but the value lives at offset %s (Deref)" % (acc, impl[k], deref),
                     accessor=acc, observed=_i(impl, k))
    for k in ("rt_ok",):
        if k in impl and impl[k] != "1":
            fail("C11", "contents after the round trip / conversion differ")
    if "rc_inc" in impl and _i(impl, "rc_inc") != _i(impl, "rc_as_ptr"):
        fail("C11", "RefCnt::inc hands out offset %s, as_ptr/into_ptr of the same handle give %s: the pointer does not round-trip through from_ptr" % (impl["rc_inc"], impl.get("rc_as_ptr")),
             accessor="refcnt.inc", observed=_i(impl, "rc_inc"))
        if kind == "thin":
            fail("C10", "RefCnt::inc of a ThinArc hands out a pointer (offset %s) that is not the ThinArc's raw pointer (offset %s)" % (impl["rc_inc"], impl.get("rc_as_ptr")))
    if "rc_inc_cnt" in impl and _i(impl, "rc_inc_cnt") != 2:
        fail("C11", "count after RefCnt::inc is %s, must be 2" % impl["rc_inc_cnt"])
    if "rt_cnt" in impl and _i(impl, "rt_cnt") != 1:
        fail("C11", "count after the round trip is %s, must be 1" % impl["rt_cnt"])
    if "cl_cnt" in impl and _i(impl, "cl_cnt") != 2:
        fail("C11", "count with one clone alive is %s, must be 2" % impl["cl_cnt"])
    if "rt_slen" in impl and _i(impl, "rt_slen") != m.get("len"):
        fail("C11", "slice length after the round trip is %s, was %s" % (impl["rt_slen"], m.get("len")))
    if impl.get("unwrap") == "err":
        fail("C11", "sole owner could not be unwrapped")

    # C10: a ThinArc is an exact stand-in for the fat Arc --------------------------------------------
    if kind == "thin":
        if m.get("ctor") in THIN_BAD_CTORS:
            zst = sh.size(m["T"]) == 0
            if st == "ok":
                fail("C10", "into_thin ACCEPTED a fat Arc whose recorded length (%s) disagrees with its slice length %d: stored length %s, slice seen through the ThinArc has %s elements"
                     % ("len+1" if m["ctor"] == "fat_bad" else "len-1 (7 for an empty slice)", m["len"], impl.get("lenv"), impl.get("slen")))
            elif not zst and st != "panic:length-mismatch":
                fail("C10", "into_thin of a fat Arc with a disagreeing recorded length ended as %s instead of the length panic" % st)
            if "leaked" in impl:
                fail("C10", "into_thin refused the Arc but did not release it: block %s is left allocated" % impl.get("leaked"))
        # what the layout monitors say about a thin case is C10's "same header and elements at the same addresses,
        # stored length = real length, thin->fat->thin keeps the allocation and the count" (the known deviation of the
        # raw ThinArc pointer is C11's alone)
        for x in list(f):
            if x["prop"] in ("C05", "C06", "C11") and x.get("accessor") not in THIN_RAW_ACCESSORS.values():
                f.append(dict(x, prop="C10"))

    # C12 (arithmetic): tag ---------------------------------------------------------------------------
    if kind == "union":
        which = m["which"]
        w, low = _i(impl, "bits"), _i(impl, "low")
        if deref is None or deref % 2 != 0:
            fail("C12", "data address of the payload is odd (offset %s): bit 0 is not free" % deref)
        if low != (0 if which == 1 else 1) or (w & ~1) != deref:
            fail("C12", "union word is offset %s (low bit %s) for variant %d of a payload at offset %s" % (w, low, which, deref))
        if _i(impl, "first") != (1 if which == 1 else 0) or _i(impl, "second") != (0 if which == 1 else 1) or \
                _i(impl, "as_first") != (1 if which == 1 else 0) or _i(impl, "as_second") != (0 if which == 1 else 1) or \
                _i(impl, "var") != which:
            fail("C12", "variant accessors disagree with the constructor (built as variant %d)" % which)
        if _i(impl, "borrow") != deref or _i(impl, "bo_deref") != deref:
            fail("C12", "borrow() yields offset %s / %s, the payload lives at %s" % (impl.get("borrow"), impl.get("bo_deref"), deref))
        if _i(impl, "cl_bits") != w or impl.get("cl_ptr_eq") != "1" or _i(impl, "cl_cnt") != 2 or _i(impl, "cnt") != 1:
            fail("C12", "clone of the union is not the same tagged word / count did not move by one")
        if _i(impl, "usz") != WORD or _i(impl, "uosz") != WORD:
            fail("C12", "ArcUnion is %s bytes (Option: %s), must be one word" % (impl.get("usz"), impl.get("uosz")))
        if "x_eq" in impl:
            if impl.get("x_eq") != "0" or impl.get("x_ne") != "1":
                fail("C12", "ArcUnion<T,T>: a First and a Second union over the same allocation compare equal (==: %s, !=: %s): "
                            "two unions holding different variants must never compare equal" % (impl.get("x_eq"), impl.get("x_ne")))
            if impl.get("x_ptr_eq") != "0":
                fail("C12", "ArcUnion::ptr_eq says a First and a Second union are the same handle")
            if impl.get("x_variants") != "1" or _i(impl, "x_cnt") != 2:
                fail("C12", "variants/count of a First/Second pair over one allocation are wrong (variants ok: %s, count %s)" % (impl.get("x_variants"), impl.get("x_cnt")))
    return f


def known_thin_raw(failure):
    """Does this monitor failure match known_findings.json `ThinArc-raw-is-block-address` exactly?"""
    kf = common.known_match("C11", "ThinArc-raw-is-block-address")
    if not kf:
        return False
    mt = kf.get("match", {})
    return failure.get("prop") == "C11" and failure.get("accessor") in mt.get("accessor", []) and \
        failure.get("observed") == mt.get("observed_offset")


# ------------------------------------------------------------------------------------------------
class Result:
    def __init__(self):
        self.cases = []          # Case
        self.impl = []           # dict
        self.model = []          # dict
        self.impl_raw = []
        self.model_raw = []
        self.mismatch = []       # (index, [(prop, field, impl, model)])
        self.failures = []       # (index, failure dict)
        self.known = []          # (index, failure dict)
        self.config = ""

    def stats(self):
        kinds = {}
        for c in self.cases:
            kinds[c.kind] = kinds.get(c.kind, 0) + 1
        triples = {c.triple() for c in self.cases if c.meta.get("ctor")}
        st = {}
        for d in self.impl:
            s = d.get("st", "?")
            s = s if not s.startswith("crash") else "crash"
            st[s] = st.get(s, 0) + 1
        return {"cases": len(self.cases), "by_kind": kinds, "distinct_shape_ctor_release": len(triples),
                "shapes": len({c.meta.get("shape") for c in self.cases if c.meta.get("shape")}),
                "ctors": sorted({c.kind + "." + c.meta["ctor"] for c in self.cases if c.meta.get("ctor")}),
                "release_paths": sorted({c.kind + "." + c.meta["rel"] for c in self.cases if c.meta.get("rel")}),
                "status": st, "mismatches": len(self.mismatch), "monitor_failures": len(self.failures),
                "known_finding_observations": len(self.known)}


def execute(binpath, drv, sh, cases, config=""):
    r = Result()
    r.config = config
    r.cases = cases
    r.impl_raw = run_harness(binpath, [c.line for c in cases])
    r.model_raw = run_driver(drv, [c.query for c in cases])
    if len(r.impl_raw) != len(cases):
        raise RuntimeError("harness answered %d lines for %d cases" % (len(r.impl_raw), len(cases)))
    for i, c in enumerate(cases):
        impl, model = parse_line(r.impl_raw[i]), parse_line(r.model_raw[i])
        if r.model_raw[i].startswith("bad-query") or impl.get("st", "").startswith("bad-case"):
            raise RuntimeError("malformed case/query: %r -> %r / %r -> %r" % (c.line, r.impl_raw[i], c.query, r.model_raw[i]))
        r.impl.append(impl)
        r.model.append(model)
        mm = compare(c, impl, model)
        if mm:
            r.mismatch.append((i, mm))
        for fl in monitor(c, impl, sh):
            if known_thin_raw(fl):
                r.known.append((i, fl))
            else:
                r.failures.append((i, fl))
    return r


def execute_children(binpath, drv, sh, cases, config=""):
    """Near-overflow cases: each in its own process.  The model says `st=ok alloc=S,A` (the library
    will try to allocate S bytes — which fails and aborts with that size in the message, or, for
    small S after a wrapped computation, succeeds) or `st=panic:layout-overflow`."""
    r = Result()
    r.config = config
    r.cases = cases
    r.model_raw = run_driver(drv, [c.query for c in cases])
    with ThreadPoolExecutor(max_workers=12) as ex:
        outs = list(ex.map(lambda c: run_child(binpath, c.line), cases))
    for i, c in enumerate(cases):
        rc, out, err = outs[i]
        model = parse_line(r.model_raw[i])
        if rc == 0 and out:
            impl = parse_line(out)
        else:
            impl = {"st": "abort" if rc in (-6, 134) else "crash:%s" % rc}
            mfail = None
            for ln in err.split("\n"):
                if "memory allocation of" in ln and "bytes failed" in ln:
                    mfail = int(ln.split("memory allocation of")[1].split("bytes")[0].strip())
            if mfail is not None:
                impl["alloc_failed_size"] = str(mfail)
        r.impl_raw.append((out or "").strip() + (" [rc=%s stderr: %s]" % (rc, err.strip().replace("\n", " | ")[:200]) if rc != 0 else ""))
        r.impl.append(impl)
        r.model.append(model)
        mst = model.get("st")
        ist = impl["st"]
        mm = []
        if mst == "panic:layout-overflow" or mst == "panic:zst":
            if ist != mst:
                mm.append(("C05", "st", ist, mst))
        elif mst == "ok":
            msize = _lay(model, "alloc")[0]
            if ist == "abort":
                if impl.get("alloc_failed_size") != str(msize):
                    mm.append(("C05", "alloc", "allocation of %s bytes failed" % impl.get("alloc_failed_size"), "alloc=%s" % model["alloc"]))
            elif ist in ("ok", "wrote"):
                if (impl.get("alloc") or "").split(",")[0] != str(msize):
                    mm.append(("C05", "alloc", impl.get("alloc"), model["alloc"]))
            else:
                mm.append(("C05", "st", ist, mst))
        else:
            raise RuntimeError("model answered %r to %r" % (r.model_raw[i], c.query))
        if mm:
            r.mismatch.append((i, mm))
        if ist == "abort":
            # allocation of an honest, huge size failed: not a property failure
            continue
        for fl in monitor(c, impl, sh):
            r.failures.append((i, fl))
    return r


def describe(r, i, sh):
    c = r.cases[i]
    lines = ["case: " + c.line + "      # " + json.dumps(c.meta, sort_keys=True),
             "config: " + r.config,
             "impl : " + (r.impl_raw[i] if isinstance(r.impl_raw[i], str) else str(r.impl_raw[i])),
             "query: " + c.query,
             "model: " + r.model_raw[i]]
    return "\n".join(lines)


def case_weight(c):
    m = c.meta
    return (m.get("len", 0), 0 if m.get("rel") == "drop" else 1, len(c.line), c.line)


# ------------------------------------------------------------------------------------------------
def c12_pairs(ctx, binpath=None, sh=None):
    """For c12.py: ArcUnion over ordered shape pairs (quick: every shape in both positions +
    equal-type pairs, ~100 pairs; thorough: every ordered pair of the build) x both constructors,
    plus raw tag arithmetic on random addresses.  Returns (agreed, stats, failures) where failures
    is a list of replay-ready text blocks (model disagreement or monitor failure)."""
    drv = common.lean_exe("drv_layout")
    if binpath is None:
        variant = "dbg-full" if ctx.thorough() else "dbg"
        binpath = build_variants(ctx, [variant])[variant]
    sh = sh or Shapes(binpath)
    rng = random.Random(ctx.seed * 7919 + 12)
    cases = union_cases(sh, rng, ctx.tier)
    for _ in range(400 if not ctx.thorough() else 4000):
        cases.append(mk_tag(rng.choice([rng.randrange(0, 1 << 16), rng.randrange(0, 1 << 47), rng.randrange(0, 1 << 64)])))
    r = execute(binpath, drv, sh, cases, config="layout[c12]")
    failures = []
    crashed = lambda i: r.impl[i].get("st", "").startswith("crash")
    for i, fl in sorted(r.failures, key=lambda x: (crashed(x[0]), case_weight(r.cases[x[0]]))):
        failures.append({"found_input": True, "text": describe(r, i, sh) + "\nproperty violated: " + fl["what"]})
    for i, mm in r.mismatch:
        failures.append({"found_input": False, "text": describe(r, i, sh) + "\nmodel/impl disagree on: " + str(mm)})
    st = r.stats()
    st["ordered_pairs"] = len({(c.meta["A"], c.meta["B"]) for c in cases if c.kind == "union"})
    st["samples"] = [{"case": r.cases[i].line, "impl": r.impl_raw[i]} for i in range(0, min(len(cases), 3))]
    return (not r.mismatch and not r.failures), st, failures


def contents_pass(ctx):
    """For c06.py: the constructors over the whole shape matrix (padding between header and slice,
    over-aligned and odd-sized elements, empty slices), contents read back.  Returns
    (ok, stats, failures-as-text) — a failure here is a concrete failing input."""
    results, bins = run_all(ctx, ["dbg"] if not ctx.thorough() else ["dbg-full", "rel-o0"],
                            THOROUGH_DENSITY if ctx.thorough() else {}, with_children=False)
    mism, fails, known = _pick(results, "C06")
    crashed = [(r, i) for r in results for i, im in enumerate(r.impl) if im.get("st", "").startswith("crash") and r.cases[i].meta.get("ctor")]
    texts = []
    fails.sort(key=lambda x: case_weight(x[0].cases[x[1]]))
    for (r, i, fl) in fails[:5]:
        texts.append(describe(r, i, r.sh) + "\nobserved: " + fl["what"])
    for (r, i) in crashed[:3]:
        texts.append(describe(r, i, r.sh) + "\nobserved: the process died inside this constructor / release case")
    st = {"cases": sum(len(r.cases) for r in results), "constructor_cases": sum(1 for r in results for c in r.cases if c.meta.get("ctor")),
          "content_failures": len(fails), "crashes": len(crashed)}
    return (not fails and not crashed), st, texts


def unwrap_pass(ctx):
    """For c09.py: `try_unwrap` / `into_inner` / `unique` over every payload shape (sizes that are not a multiple of the
    word, over-aligned, zero-sized): the value comes out, and the allocation is released — with the layout it was
    requested with.  Returns (ok, stats, failures)."""
    drv = common.lean_exe("drv_layout")
    variants = ["dbg"] if not ctx.thorough() else ["dbg-full", "rel-o0"]
    bins = build_variants(ctx, variants)
    failures, stats, okall = [], {"cases": 0, "configs": variants}, True
    for v in variants:
        sh = Shapes(bins[v])
        rng = random.Random(_seed_for(ctx, v) + 9)
        cases = [mk_sized(sh, p, c, r, rng.randrange(1, 250)) for p in range(sh.n()) for c in SIZED_CTORS for r in ("try_unwrap", "into_inner")]
        cases += [c for c in gen_cases(sh, rng, "quick", want=("hs",)) if c.meta.get("rel") == "unique"]
        r = execute(bins[v], drv, sh, cases, config=v + "[unwrap]")
        stats["cases"] += len(cases)
        crashed = lambda i: r.impl[i].get("st", "").startswith("crash")
        bad = [(i, fl) for i, fl in r.failures if fl["prop"] in ("C05", "C11") or crashed(i)]
        for i, fl in sorted(bad, key=lambda x: (crashed(x[0]), case_weight(r.cases[x[0]])))[:5]:
            failures.append({"found_input": True, "text": "configuration %s\n" % v + describe(r, i, sh) + "\nproperty violated (unwrapping: the allocation must be released as requested, the value handed out): " + fl["what"]})
        for i, mm in r.mismatch[:3]:
            failures.append({"found_input": False, "text": "configuration %s\n" % v + describe(r, i, sh) + "\nmodel/impl disagree on: " + str(mm)})
        okall = okall and not bad and not r.mismatch
        stats.setdefault("samples", []).append({"case": cases[3].line, "impl": r.impl_raw[3][:300]})
    return okall, stats, failures


def uninit_ovf_pass(ctx):
    """For c15.py: `new_uninit_slice` / `from_header_and_uninit_slice` with lengths whose byte size overflows or comes
    close to isize::MAX — the caller chooses the length, so "every slice length" includes the impossible ones: they must
    be refused with a panic (or fail in the allocator), never yield a handle over a short block.  One child process per
    case, dev profile and release semantics (overflow checks off).  Returns (ok, stats, failures)."""
    drv = common.lean_exe("drv_layout")
    variants = ["dbg", "rel-o0"]
    bins = build_variants(ctx, variants)
    failures, stats, okall = [], {"cases": 0, "configs": variants}, True
    for v in variants:
        sh = Shapes(bins[v])
        rng = random.Random(_seed_for(ctx, v) + 15)
        cases = [c for c in ovf_cases(sh, rng, "thorough") if c.meta.get("ctor") in ("uninit", "slice_uninit")]
        if not ctx.thorough():
            cases = rng.sample(cases, min(len(cases), 60))
        r = execute_children(bins[v], drv, sh, cases, config=v + "/child[uninit]")
        stats["cases"] += len(cases)
        for i, fl in r.failures[:4]:
            failures.append({"found_input": True, "text": "configuration %s\n" % v + describe(r, i, sh) + "\nproperty violated: " + fl["what"]})
        for i, mm in r.mismatch[:4]:
            accepted = r.impl[i].get("st") in ("ok", "wrote") and (r.model[i].get("st") or "").startswith("panic")
            failures.append({"found_input": accepted, "text": "configuration %s\n" % v + describe(r, i, sh) +
                             ("\nproperty violated: the constructor returned a handle for a length whose size computation overflows" if accepted else
                              "\nmodel/impl disagree on: " + str(mm))})
        okall = okall and not r.failures and not r.mismatch
        if cases:
            stats.setdefault("samples", []).append({"case": cases[0].line, "impl": str(r.impl_raw[0])[:200]})
    return okall, stats, failures


def thin_pass(ctx):
    """For c10.py: ThinArc over the shape matrix (over-aligned / byte-sized / zero-sized headers and elements,
    every constructor incl. `into_thin` of a fat Arc, with a correct and with a disagreeing recorded length),
    in the dev profile and with release semantics.  Returns (ok, stats, failures) like c12_pairs."""
    drv = common.lean_exe("drv_layout")
    variants = ["dbg", "rel-o0"] if not ctx.thorough() else ["dbg-full", "rel-o0", "rel"]
    bins = build_variants(ctx, variants)
    failures, stats = [], {"cases": 0, "bad_length_cases": 0, "configs": variants}
    okall = True
    for v in variants:
        sh = Shapes(bins[v])
        rng = random.Random(_seed_for(ctx, v) + 10)
        cases = gen_cases(sh, rng, "thorough" if ctx.thorough() and v != "rel" else "quick", want=("thin",))
        r = execute(bins[v], drv, sh, cases, config=v + "[thin]")
        stats["cases"] += len(cases)
        stats["bad_length_cases"] += sum(1 for c in cases if c.meta.get("ctor") in THIN_BAD_CTORS)
        crashed = lambda i: r.impl[i].get("st", "").startswith("crash")
        mine = [(i, fl) for i, fl in r.failures if fl["prop"] == "C10" or crashed(i)]
        for i, fl in sorted(mine, key=lambda x: (crashed(x[0]), case_weight(r.cases[x[0]])))[:6]:
            failures.append({"found_input": True, "text": "configuration %s\n" % v + describe(r, i, sh) + "\nproperty violated: " + fl["what"]})
        mm = [(i, [x for x in m2 if x[0] == "C10"]) for i, m2 in r.mismatch]
        mm = [(i, x) for i, x in mm if x]
        for i, x in mm[:3]:
            failures.append({"found_input": False, "text": "configuration %s\n" % v + describe(r, i, sh) + "\nmodel/impl disagree on: " + str(x)})
        okall = okall and not mine and not mm
        stats.setdefault("samples", []).append({"case": cases[len(cases) // 2].line, "impl": r.impl_raw[len(cases) // 2][:300]})
    return okall, stats, failures


# ------------------------------------------------------------------------------------------------
# the check shared by c05.py and c11.py

QUICK_VARIANTS = ["dbg"]
THOROUGH_VARIANTS = ["dbg-full", "dbg-nofeat", "dbg-unsize", "dbg-arcswap", "rel-o0", "rel"]
# tier of the generated case set per variant in a thorough run (the full cross product goes to the
# full-matrix build and to the release-semantics builds; the feature configurations get the sampled set)
THOROUGH_DENSITY = {"dbg-full": "thorough", "rel-o0": "thorough", "rel": "thorough"}


def _seed_for(ctx, variant):
    return ctx.seed * 1000003 + sum(ord(ch) * (i + 1) for i, ch in enumerate(variant))


def run_all(ctx, variants, density=None, with_children=True):
    """Build the variants, run the correspondence on each; returns [Result] (children last)."""
    drv = common.lean_exe("drv_layout")
    bins = build_variants(ctx, variants)
    results = []
    for v in variants:
        sh = Shapes(bins[v])
        rng = random.Random(_seed_for(ctx, v))
        tier = (density or {}).get(v, "quick")
        cases = gen_cases(sh, rng, tier)
        r = execute(bins[v], drv, sh, cases, config=v)
        r.sh = sh
        results.append(r)
        if with_children and v in ("dbg", "dbg-full", "rel-o0"):
            oc = ovf_cases(sh, rng, tier)
            rc = execute_children(bins[v], drv, sh, oc, config=v + "/child")
            rc.sh = sh
            results.append(rc)
    return results, bins


def _pick(results, prop):
    """(mismatches, failures, known) of this property over all results, each as (result, index, payload)."""
    mism, fails, known = [], [], []
    for r in results:
        for i, mm in r.mismatch:
            mine = [x for x in mm if x[0] == prop]
            if mine:
                mism.append((r, i, mine))
        for i, fl in r.failures:
            if fl["prop"] == prop:
                fails.append((r, i, fl))
        for i, fl in r.known:
            if fl["prop"] == prop:
                known.append((r, i, fl))
    return mism, fails, known


def _nontrivial(results):
    seen = set()
    for r in results:
        for c, impl in zip(r.cases, r.impl):
            st = impl.get("st", "")
            if c.kind in ("tag", "ext", "arr", "widths"):
                continue
            if st in ("ok", "abort", "wrote") or st.startswith("panic"):
                m = c.meta
                seen.add((c.kind, m.get("shape"), m.get("len"), m.get("ctor"), m.get("rel"), st.split(":")[0]))
    return len(seen)


def _samples(results, k=6):
    out = []
    for r in results:
        if not r.cases:
            continue
        step = max(1, len(r.cases) // 3)
        for i in list(range(0, len(r.cases), step))[:3]:
            out.append({"config": r.config, "case": r.cases[i].line, "meta": r.cases[i].meta,
                        "impl": r.impl_raw[i] if isinstance(r.impl_raw[i], str) else str(r.impl_raw[i]),
                        "model_query": r.cases[i].query, "model": r.model_raw[i][:400]})
    return out[:max(k, 3 * len(results))]


DEMANDS = {
    "C05": "the block requested from the allocator holds count + payload, the payload address is aligned for its type, "
           "the block is released exactly once with the (size, align) it was requested with, and an overflowing size "
           "computation is refused with a panic before anything is allocated",
    "C11": "as_ptr / into_raw / OffsetArc / ArcBorrow / RefCnt words are the address Deref yields, heap_ptr is the block "
           "address, from_raw-style constructors recover the same block with the same contents and count, handles are one "
           "word (two for slice / str / dyn) with the null niche",
}


def run_property(ctx, prop, module, assumptions, extra_modules=()):
    ctx.assumptions = assumptions
    ok, out = common.lean_obligations(ctx, module, extra_modules)
    t0 = time.time()
    variants = THOROUGH_VARIANTS if ctx.thorough() else QUICK_VARIANTS
    density = THOROUGH_DENSITY if ctx.thorough() else {}
    results, bins = run_all(ctx, variants, density)
    mism, fails, known = _pick(results, prop)
    for r in results:
        mine = [1 for (_, mm) in r.mismatch if any(x[0] == prop for x in mm)]
        ctx.oblige("corr:layout[%s]" % r.config, not mine, "%d disagreeing cases" % len(mine))

    searched = []
    if (mism or fails or not ok) and not ctx.thorough():
        # search: release semantics (debug assertions off: a layout mismatch is then visible at the
        # allocator instead of tripping the crate's own debug_assert) and the dense case set
        more, _ = run_all(ctx, ["rel-o0", "dbg"], {"rel-o0": "quick", "dbg": "thorough"}, with_children=True)
        searched = more
        m2, f2, k2 = _pick(more, prop)
        mism += m2
        fails += f2
        known += k2

    # evidence ---------------------------------------------------------------------------------
    allr = results + searched
    stats = [dict(r.stats(), config=r.config) for r in allr]
    ctx.coverage["evaluations"] = sum(len(r.cases) for r in allr)
    ctx.coverage["distinct_nontrivial"] = _nontrivial(allr)
    ctx.coverage["rule"] = (
        "case = (kind, shape(s) from the 49-shape size/align matrix, length, constructor, release path) run on the real crate "
        "and on the Lean model; every field both print is compared and the property itself is evaluated on the real "
        "observations. distinct_nontrivial counts distinct such tuples in which the library allocated and released an Arc "
        "block through the named path, refused the input with a panic, or (child processes) failed to allocate an honest "
        "near-isize::MAX size; raw Layout/usize arithmetic cross-checks (tag/ext/arr) and size_of probes count only as evaluations")
    ctx.coverage["configs"] = stats
    ctx.coverage["shapes"] = max(r.sh.n() for r in results)
    ctx.coverage["constructors"] = sorted({c for s in stats for c in s["ctors"]})
    ctx.coverage["release_paths"] = sorted({c for s in stats for c in s["release_paths"]})
    ctx.coverage["distinct_shape_ctor_release"] = len({(r.config.split("/")[0],) + c.triple() for r in allr for c in r.cases if c.meta.get("ctor")})
    ctx.coverage["model_vs_impl_disagreements"] = len(mism)
    ctx.coverage["property_monitor_failures"] = len(fails)
    ctx.coverage["known_finding_observations"] = len(known)
    ctx.coverage["samples"] = _samples(results)
    ctx.coverage["corr_wall_s"] = round(time.time() - t0, 1)

    # verdict ----------------------------------------------------------------------------------
    if known:
        kf = common.known_match("C11", "ThinArc-raw-is-block-address")
        accs = sorted({fl["accessor"] for (_, _, fl) in known})
        ctx.known_finding("ThinArc-raw-is-block-address",
                          "%s return the block address (offset 0) while the value lives at the data offset Deref yields "
                          "(offset %s in case `%s`; observed in %d cases of this run; round trip and stability hold)" % (
                              ", ".join(accs), known[0][0].impl[known[0][1]].get("deref"), known[0][0].cases[known[0][1]].line, len(known)))
    if fails:
        # prefer a failure observed at the allocator over a tripped assertion, then the smallest case
        def key(x):
            r, i, fl = x
            st = r.impl[i].get("st", "")
            sev = 2 if st.startswith("crash") else 1 if st.startswith("panic") else 0
            return (sev, 0 if ("accessor" in fl or "requested with" in fl["what"]) else 1, case_weight(r.cases[i]))
        fails.sort(key=key)
        r, i, fl = fails[0]
        body = ["failing input (one constructor / release-path case of the layout harness):", describe(r, i, r.sh), "",
                "property %s demands: %s" % (prop, DEMANDS[prop]), "observed: " + fl["what"], "",
                "replay: bin/check %s --replay <this file> [--repo R]" % prop, "",
                "%d failing cases in this run; next smallest:" % len(fails)]
        seen = {fl["what"]}
        for (r2, i2, fl2) in fails[1:]:
            if fl2["what"] not in seen and len(seen) < 8:
                seen.add(fl2["what"])
                body += ["  case: %s  [config %s]" % (r2.cases[i2].line, r2.config), "    " + fl2["what"]]
        if mism:
            body += ["", "model/implementation disagreements: %d, first:" % len(mism), describe(mism[0][0], mism[0][1], mism[0][0].sh),
                     "  fields (prop, field, impl, model): " + str(mism[0][2][:6])]
        ctx.violation("ops", "\n".join(body), True)
    elif mism or not ok:
        body = []
        if not ok:
            body += ["Lean obligations of %s that no longer check:" % module] + ["  " + n for n in ctx.failed_obligations()]
            body += ["lean output:", out[-2500:], ""]
        if mism:
            mism.sort(key=lambda x: case_weight(x[0].cases[x[1]]))
            body += ["the executable Lean model and the implementation disagree on %d cases, but the property monitor "
                     "(the property evaluated on the implementation's own observations) found no failing case." % len(mism),
                     "first diverging observations:"]
            for (r, i, mm) in mism[:5]:
                body += [describe(r, i, r.sh), "  fields (prop, field, impl, model): " + str(mm[:8]), ""]
        body += ["search covered: %d cases over configs %s" % (sum(len(r.cases) for r in allr), [r.config for r in allr])]
        ctx.violation("theorem", "\n".join(body), False)


def replay(ctx, prop, path):
    """Re-run the `case:` lines of a replay file on the current tree (config from the file)."""
    cases, configs = [], []
    for ln in open(path):
        ln = ln.strip()
        if ln.startswith("case: "):
            cases.append(ln[len("case: "):].split("#")[0].split("[config")[0].strip())
        elif ln.startswith("config: "):
            configs.append(ln[len("config: "):].strip())
    if not cases:
        print("replay: no `case:` line in %s (a theorem/correspondence replay: re-run bin/check %s)" % (path, prop))
        return
    cfg = (configs[0] if configs else "dbg")
    child = cfg.endswith("/child")
    variant = cfg.split("/")[0]
    if variant not in VARIANTS:
        variant = "dbg"
    drv = common.lean_exe("drv_layout")
    binpath = build_variants(ctx, [variant])[variant]
    sh = Shapes(binpath)
    line = cases[0]
    c = case_from_line(sh, line)
    r = (execute_children if child or c.kind == "ovf" else execute)(binpath, drv, sh, [c], config=cfg)
    print(describe(r, 0, sh))
    bad = [fl for (_, fl) in r.failures if fl["prop"] == prop]
    kn = [fl for (_, fl) in r.known]
    for fl in kn:
        print("known finding: " + fl["what"])
    ctx.oblige("replay:monitor", not bad)
    if bad:
        body = ["replayed failing input:", describe(r, 0, sh), "", "property %s demands: %s" % (prop, DEMANDS[prop])] + \
               ["observed: " + fl["what"] for fl in bad]
        ctx.violation("ops", "\n".join(body), True)
    else:
        print("replay: the property holds on this input now")
    ctx.coverage.update({"evaluations": 1, "distinct_nontrivial": 1, "samples": [{"case": line, "impl": str(r.impl_raw[0])}],
                         "rule": "replay of one recorded case"})


def case_from_line(sh, line):
    w = line.split()
    k = w[0]
    if k == "sized":
        return mk_sized(sh, int(w[1]), w[2], w[3], int(w[4]))
    if k == "hs":
        return mk_hs(sh, int(w[1]), int(w[2]), int(w[3]), w[4], w[5], int(w[6]))
    if k == "thin":
        return mk_thin(sh, int(w[1]), int(w[2]), int(w[3]), w[4], w[5], int(w[6]))
    if k == "slice":
        return mk_slice(sh, int(w[1]), int(w[2]), w[3], w[4], int(w[5]))
    if k == "str":
        return mk_str(sh, int(w[1]), int(w[2]), w[3], w[4], int(w[5]))
    if k == "union":
        return mk_union(sh, int(w[1]), int(w[2]), int(w[3]), int(w[4]))
    if k == "widths":
        return mk_widths(sh, int(w[1]))
    if k == "ovf":
        return mk_ovf(sh, int(w[1]), int(w[2]), int(w[3]), w[4])
    if k == "tag":
        return mk_tag(int(w[1]))
    raise RuntimeError("cannot replay case line %r" % line)
