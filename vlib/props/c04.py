"""C04 — the reported count equals the number of owning handles.

Deciding method: Lean theorems in Props/C04.lean over the sequential handle machine M1/M3 (invariant
`Inv` preserved by every op, by induction over histories of any length), tied to the code by the
history correspondence (Tie B): the same op lines run on the Lean driver and on the real library.
"""
from vlib import histcheck

MODULE = "TriompheModel.Props.C04"
EXTRA = ["TriompheModel.Proofs.HistInv", "TriompheModel.Props.CmpRead", "TriompheModel.Props.TraitCensus", "TriompheModel.Props.Monitor", "TriompheModel.Props.C04Sched", "TriompheModel.Props.ApiShape"]
TAGS = ['C04']
WEIGHTS = {'clone': 22, 'cloneArc': 12, 'conv': 20, 'cb': 16, 'drop': 12, 'cmp': 12}


def run(ctx):
    histcheck.run(ctx, MODULE, WEIGHTS, TAGS, lean_extra=EXTRA)
    # "... never change the count, not even while the borrow is in use": conversions and borrows under a concurrent observer
    from vlib import miri
    miri.observer_pass(ctx, "C04")


def replay(ctx, path):
    histcheck.replay(ctx, path, TAGS)
