import TriompheModel.Proofs.MonitorUnwrap
/-!
# Soundness of the trace monitor, part 6: the model fact behind K14 (C01)

"When an op frees a block on which, before the op, only initialised views stood, the op destroys every value the
block stores" — for every op except the three that hand the value to the caller (`try_unwrap`, `into_inner`,
`unwrap_or_clone`).  The fact is maintained along the micro-steps of an op (`FD`): the releases of `dropAll`, the
actions of a callback script.
-/
namespace M1
namespace Mon
open LY

theorem mem_dropIds {es : List Event} {i : Nat} : i ∈ dropIds es ↔ Event.drop i ∈ es := by
  simp only [dropIds, List.mem_filterMap]
  constructor
  · rintro ⟨e, he, h⟩
    cases e <;> simp [Event.dropId?] at h
    subst h; exact he
  · intro h; exact ⟨_, h, rfl⟩

/-- block `b` keeps the identities it stores -/
def IdsKept (b : Nat) (m m' : Mem) : Prop :=
  ∀ k : Block, m.blocks[b]? = some k → ∃ k' : Block, m'.blocks[b]? = some k' ∧ k'.ids = k.ids

theorem IdsKept.refl (b : Nat) (m : Mem) : IdsKept b m m := fun k hk => ⟨k, hk, rfl⟩

theorem IdsKept.same {b : Nat} {m m' : Mem} (h : m'.blocks = m.blocks) : IdsKept b m m' :=
  fun k hk => ⟨k, by rw [h]; exact hk, rfl⟩

theorem IdsKept.upd (b : Nat) (m : Mem) (b' : Nat) (f : Block → Block) (hf : ∀ k : Block, (f k).ids = k.ids) :
    IdsKept b m (m.upd b' f) := by
  intro k hk
  rw [upd_get, hk]
  by_cases hbj : b' = b
  · exact ⟨f k, by simp [hbj], hf k⟩
  · exact ⟨k, by simp [hbj], rfl⟩

theorem IdsKept.decr (b : Nat) (m : Mem) (b' : Nat) (t : Ty) (len : Nat) : IdsKept b m (decr m b' t len) := by
  unfold M1.decr
  split
  · exact IdsKept.refl b m
  · split
    · intro k hk
      obtain ⟨k', hk', hi⟩ := IdsKept.upd b m b' (fun k => { k with count := 0, live := false }) (fun _ => rfl) k hk
      exact ⟨k', hk', hi⟩
    · exact IdsKept.upd b m b' _ (fun _ => rfl)

theorem IdsKept.incr (b : Nat) (m : Mem) (b' : Nat) : IdsKept b m (incr m b') :=
  IdsKept.upd b m b' _ (fun _ => rfl)

theorem IdsKept.writeVal (b : Nat) (m : Mem) (b' v : Nat) : IdsKept b m (writeVal m b' v) :=
  IdsKept.upd b m b' _ (fun k => ValInvM.writeVal_ids k v)

/-- the events of a `drop_inner`: no `dealloc` of `b` unless it is the last release of `b`, and then through an
initialised view of the whole payload every stored identity is destroyed -/
theorem decr_events (m : Mem) (b' : Nat) (t : Ty) (len : Nat) :
    ∃ es, (decr m b' t len).log = m.log ++ es ∧
      ∀ b sz al, Event.dealloc b sz al ∈ es →
        b = b' ∧ ∃ k : Block, m.blocks[b']? = some k ∧ k.count = 1 ∧
          (t.elemsInit = true → k.elems.length ≤ len → ∀ id ∈ k.ids, Event.drop id ∈ es) := by
  have hlog := decr_log m b' t len
  cases hk : m.blocks[b']? with
  | none =>
    rw [hk] at hlog
    exact ⟨[], hlog, fun _ _ _ hm => by cases hm⟩
  | some k =>
    rw [hk] at hlog
    simp only at hlog
    by_cases hc : k.count = 1
    · rw [if_pos hc] at hlog
      refine ⟨_, hlog, ?_⟩
      intro b sz al hm
      rcases List.mem_append.1 hm with h | h
      · exact absurd h ((quiet_payloadDrops b' k t len).noDealloc _ _ _)
      · simp only [List.mem_cons, List.not_mem_nil, or_false, Event.dealloc.injEq] at h
        refine ⟨h.1, k, rfl, hc, ?_⟩
        intro ht hlen id hid
        apply List.mem_append_left
        rw [← mem_dropIds, dropIds_payloadDrops_exact b' k ht hlen]
        exact hid
    · rw [if_neg hc] at hlog
      exact ⟨[], hlog, fun _ _ _ hm => by cases hm⟩

/-! ## the fact, along the micro-steps of an op -/

/-- relative to the log `log0` at the start of the op: if block `b` has been freed since, every identity in `ids` has
been destroyed since; `b` still stores `ids`; every slot on `b` is an initialised view -/
structure FD (log0 : List Event) (b : Nat) (ids : List Nat) (s : State) : Prop where
  log : ∃ es, s.mem.log = log0 ++ es ∧ ((∃ sz al, Event.dealloc b sz al ∈ es) → ∀ id ∈ ids, Event.drop id ∈ es)
  blk : ∃ k : Block, s.mem.blocks[b]? = some k ∧ k.ids = ids
  views : ∀ e, e ∈ s.slots → e.2.blk = b → e.2.ty.elemsInit = true

namespace FD
variable {log0 : List Event} {b : Nat} {ids : List Nat} {s : State}

theorem init {k : Block} (hk : s.mem.blocks[b]? = some k)
    (hv : ∀ e, e ∈ s.slots → e.2.blk = b → e.2.ty.elemsInit = true) : FD s.mem.log b k.ids s :=
  ⟨⟨[], by simp, fun ⟨_, _, h⟩ => by cases h⟩, ⟨k, hk, rfl⟩, hv⟩

/-- the generic successor -/
theorem next (h : FD log0 b ids s) {m' : Mem} {sl' : Slots}
    (hlog : ∃ es', m'.log = s.mem.log ++ es' ∧
      ((∃ sz al, Event.dealloc b sz al ∈ es') → ∀ id ∈ ids, Event.drop id ∈ es'))
    (hkept : IdsKept b s.mem m')
    (hv : ∀ e, e ∈ sl' → e.2.blk = b → e.2.ty.elemsInit = true) : FD log0 b ids ⟨m', sl'⟩ := by
  obtain ⟨es, hes, hd⟩ := h.log
  obtain ⟨es', hes', hd'⟩ := hlog
  obtain ⟨k, hk, hids⟩ := h.blk
  obtain ⟨k', hk', hids'⟩ := hkept k hk
  refine ⟨⟨es ++ es', by simp [hes', hes], ?_⟩, ⟨k', hk', hids'.trans hids⟩, hv⟩
  rintro ⟨sz, al, hm⟩ id hid
  rcases List.mem_append.1 hm with hm | hm
  · exact List.mem_append_left _ (hd ⟨sz, al, hm⟩ id hid)
  · exact List.mem_append_right _ (hd' ⟨sz, al, hm⟩ id hid)

/-- memory changed without events -/
theorem quiet (h : FD log0 b ids s) {m' : Mem} {sl' : Slots} (hlog : m'.log = s.mem.log) (hkept : IdsKept b s.mem m')
    (hv : ∀ e, e ∈ sl' → e.2.blk = b → e.2.ty.elemsInit = true) : FD log0 b ids ⟨m', sl'⟩ :=
  h.next ⟨[], by simp [hlog], fun ⟨_, _, hm⟩ => by cases hm⟩ hkept hv

/-- a `drop_inner` on `b'` through the view `(t, len)`, which — if `b' = b` — is an initialised view of the whole
payload -/
theorem decr (h : FD log0 b ids s) (b' : Nat) (t : Ty) (len : Nat)
    (hgood : b' = b → t.elemsInit = true ∧ ∀ k : Block, s.mem.blocks[b]? = some k → k.elems.length ≤ len)
    {sl' : Slots} (hv : ∀ e, e ∈ sl' → e.2.blk = b → e.2.ty.elemsInit = true) :
    FD log0 b ids ⟨M1.decr s.mem b' t len, sl'⟩ := by
  obtain ⟨es', hes', hd'⟩ := decr_events s.mem b' t len
  refine h.next ⟨es', hes', ?_⟩ (IdsKept.decr b s.mem b' t len) hv
  rintro ⟨sz, al, hm⟩ id hid
  obtain ⟨hb, k, hk, _, hall⟩ := hd' b sz al hm
  obtain ⟨k0, hk0, hids0⟩ := h.blk
  subst hb
  rw [hk] at hk0; cases hk0
  obtain ⟨ht, hlen⟩ := hgood rfl
  exact hall ht (hlen k hk) id (by rw [hids0]; exact hid)

end FD

/-! ## releasing a slot -/

theorem asArc_arc {m : Mem} {h : HV} (hk : h.kind = .arc) : asArc m h = h := by
  cases h with
  | mk kind ty blk off len =>
    simp only at hk
    subst hk
    rfl

/-- the view through which a slot's handle is released -/
theorem release_view {s : State} (hl : LenInv s) {i : Nat} {h : HV} (hs : lookup s i = some h) :
    (asArc s.mem h).ty = h.ty ∧
      ∀ k : Block, s.mem.blocks[h.blk]? = some k → k.elems.length ≤ viewLen s.mem (asArc s.mem h) := by
  obtain ⟨k, hk, ho⟩ := hl.ok i h (lookup_mem hs)
  obtain ⟨k', hk', _, hvl⟩ := hl.viewLen_eq hs
  refine ⟨asArc_ty ho, ?_⟩
  intro k2 hk2
  rw [hk2] at hk'; cases hk'
  rw [hvl]; exact Nat.le_refl _

theorem FD.release_handle {log0 : List Event} {b : Nat} {ids : List Nat} {s : State} (h : FD log0 b ids s)
    (hl : LenInv s) {i : Nat} {hh : HV} (hs : lookup s i = some hh) :
    FD log0 b ids ⟨Arc.drop s.mem (asArc s.mem hh), delL s.slots i⟩ := by
  obtain ⟨hty, hlen⟩ := release_view hl hs
  rw [Arc.drop_eq, asArc_blk]
  apply h.decr
  · intro hb
    refine ⟨?_, ?_⟩
    · rw [hty]; exact h.views _ (lookup_mem hs) hb
    · intro k hk; exact hlen k (by rw [hb]; exact hk)
  · intro e he; exact h.views e (mem_delL.1 he).1

theorem FD.releaseSlot {log0 : List Event} {b : Nat} {ids : List Nat} {s : State} (h : FD log0 b ids s)
    (hl : LenInv s) (i : Nat) : FD log0 b ids (releaseSlot s i) := by
  unfold M1.releaseSlot
  split
  · rename_i hh hs
    exact h.release_handle hl hs
  · exact h

theorem FD.dropAllFrom {log0 : List Event} {b : Nat} {ids : List Nat} (keys : List Nat) :
    ∀ {s : State}, Inv' s → LenInv s → FD log0 b ids s → FD log0 b ids (dropAllFrom keys s) := by
  induction keys with
  | nil => intro s _ _ h; exact h
  | cons k r ih =>
    intro s hi hl h
    simp only [M1.dropAllFrom, List.foldl_cons]
    exact ih (releaseSlot_inv hi k) (ty_releaseSlot hl.toTy (fun hf => hf) k).toLen (h.releaseSlot hl k)

/-! ## callbacks -/

/-- what a callback script maintains -/
structure CbFD (log0 : List Event) (b : Nat) (ids : List Nat) (src : Nat) (api : CbApi) (s : State) (t : HV) : Prop where
  cbp : CbP src s t
  ty : TyInvG False False s
  tok : TOk False api s.mem t
  fd : FD log0 b ids s
  tinit : t.blk = b → t.ty.elemsInit = true

theorem transientOf_init {m : Mem} {api : CbApi} {h t : HV} (ht : transientOf m api h = some t)
    (hi : h.ty.elemsInit = true) : t.ty.elemsInit = true := by
  cases api <;> simp only [transientOf] at ht
  case borrowWithArc =>
    split at ht
    · cases ht; exact hi
    · split at ht
      · cases ht; exact hi
      · cases ht
  case thinWithArc =>
    split at ht
    · cases ht; rfl
    · cases ht
  case thinWithArcMut =>
    split at ht
    · cases ht; rfl
    · cases ht
  all_goals
    split at ht
    · cases ht; exact hi
    · cases ht

theorem CbFD.run {log0 : List Event} {b : Nat} {ids : List Nat} {src : Nat} {api : CbApi} (script : List CbAct)
    (s : State) (t : HV) (acc : String) (h0 : CbFD log0 b ids src api s t) :
    FD log0 b ids (runCb api src script s t acc).1 := by
  suffices h : ∃ t', CbFD log0 b ids src api (runCb api src script s t acc).1 t' by
    obtain ⟨t', h⟩ := h; exact h.fd
  refine runCb_ind' api src (CbFD log0 b ids src api) ?_ ?_ ?_ ?_ ?_ script s t acc h0
  · -- cloneTo
    intro s t k m c hp hk hc
    obtain ⟨hcbp, ht, htok, hfd, hti⟩ := hp
    have hcbp' := hcbp.cloneTo hk hc api
    obtain ⟨kb, hkb, ho, hnt, hth⟩ := htok
    obtain ⟨rfl, h2, _, _⟩ := cloneHandle_spec hc
    have hoc := cloneHandle_ok hc ho
    have hty := cloneHandle_ty hc hnt
    refine ⟨hcbp', ?_, TOk.later ⟨kb, hkb, ho, hnt, hth⟩ (Ext.incr (wd := False) ..).st, ?_, hti⟩
    · split
      · rename_i ha
        obtain ⟨h3, h4⟩ := hth ha
        exact ht.put_old (Ext.incr ..) k (h := ThinArc.of_arc c) (h2 ▸ hkb)
          (hoc.toThin (hty.trans h3) h4 rfl (hty.trans h3))
      · exact ht.put_old (Ext.incr ..) k (h2 ▸ hkb) hoc
    · show FD log0 b ids ⟨incr s.mem t.blk, (k, if api = .thinWithArcMut then ThinArc.of_arc c else c) :: s.slots⟩
      refine hfd.quiet rfl (IdsKept.incr _ _ _) ?_
      intro e he hb
      rcases List.mem_cons.1 he with rfl | he
      · have hcb : c.blk = b := by
          split at hb
          · exact hb
          · exact hb
        have : c.ty.elemsInit = true := by rw [hty]; exact hti (h2 ▸ hcb)
        split
        · exact this
        · exact this
      · exact hfd.views e he hb
  · -- cloneArcTo
    intro s t k hp hk _
    obtain ⟨hcbp, ht, htok, hfd, hti⟩ := hp
    have hcbp' := hcbp.cloneArc hk
    obtain ⟨kb, hkb, ho, hnt, hth⟩ := htok
    refine ⟨hcbp', ?_, TOk.later ⟨kb, hkb, ho, hnt, hth⟩ (Ext.incr (wd := False) ..).st, ?_, hti⟩
    · exact ht.put_old (Ext.incr ..) k (h := { OffsetArc.transient s.mem t with kind := .arc }) hkb
        (ho.rekind hnt rfl rfl rfl (by intro h; cases h))
    · show FD log0 b ids ⟨incr s.mem t.blk, (k, { OffsetArc.transient s.mem t with kind := .arc }) :: s.slots⟩
      refine hfd.quiet rfl (IdsKept.incr _ _ _) ?_
      intro e he hb
      rcases List.mem_cons.1 he with rfl | he
      · exact hti hb
      · exact hfd.views e he hb
  · -- getMutWrite
    intro s t v hp
    obtain ⟨hcbp, ht, htok, hfd, hti⟩ := hp
    exact ⟨hcbp.write v, ht.frame (Ext.writeVal ..), htok.later (Ext.writeVal (wd := False) ..).st,
      hfd.quiet rfl (IdsKept.writeVal _ _ _ _) hfd.views, hti⟩
  · -- replaceWith
    intro s t k h2 hp hne hlk hthin _
    obtain ⟨hcbp, ht, htok, hfd, hti⟩ := hp
    have hcbp' := hcbp.repl hne hlk
    obtain ⟨kb, hkb, ho, hnt, hth⟩ := htok
    obtain ⟨k2, hk2, ho2⟩ := ht.slot hlk
    have hth2 : h2.kind.isThin = true := by rw [hthin]; rfl
    have hext : Ext False s.mem (Arc.drop s.mem t) := Ext.arc_drop _ _ (ho.release_now hkb (fun hf => hf))
    have hthick := thick_ok (m := s.mem) ho2 hk2 hth2
    refine ⟨hcbp', ?_, TOk.later ⟨k2, hk2, hthick, rfl, fun _ => ⟨rfl, (ho2.1.thin hth2).2⟩⟩ hext.st, ?_,
      fun _ => rfl⟩
    · apply ht.next hext
      intro e he
      have he : e ∈ setL (delL s.slots k) src (ThinArc.of_arc (ThinArc.thick s.mem h2)) := he
      rcases mem_setL he with ⟨he', _⟩ | ⟨rfl, _⟩
      · exact Or.inl (mem_delL.1 he').1
      · exact Or.inr (Or.inl ⟨k2, hk2, hthick.toThin rfl (ho2.1.thin hth2).2 rfl rfl⟩)
    · show FD log0 b ids ⟨Arc.drop s.mem t, setL (delL s.slots k) src (ThinArc.of_arc (ThinArc.thick s.mem h2))⟩
      rw [Arc.drop_eq]
      apply hfd.decr
      · intro hb
        refine ⟨hti hb, ?_⟩
        intro k' hk'
        rw [← hb, hkb] at hk'
        cases hk'
        rw [viewLen_of_ok hkb ho.1]
        exact Nat.le_refl _
      · intro e he hb
        rcases mem_setL he with ⟨he', _⟩ | ⟨rfl, _⟩
        · exact hfd.views e (mem_delL.1 he').1 hb
        · rfl
  · -- swapWith
    intro s t k h2 hp hne hlk hthin ha
    obtain ⟨hcbp, ht, htok, hfd, hti⟩ := hp
    have hcbp' := hcbp.swap hne hlk
    obtain ⟨kb, hkb, ho, hnt, hth⟩ := htok
    obtain ⟨h3, h4⟩ := hth ha
    obtain ⟨k2, hk2, ho2⟩ := ht.slot hlk
    have hth2 : h2.kind.isThin = true := by rw [hthin]; rfl
    have hthick := thick_ok (m := s.mem) ho2 hk2 hth2
    refine ⟨hcbp', ?_, ⟨k2, hk2, hthick, rfl, fun _ => ⟨rfl, (ho2.1.thin hth2).2⟩⟩, ?_, fun _ => rfl⟩
    · apply ht.next (Ext.refl _)
      intro e he
      have he : e ∈ setL (setL s.slots k (ThinArc.of_arc t)) src
          (ThinArc.of_arc (ThinArc.thick s.mem h2)) := he
      rcases mem_setL he with ⟨he', _⟩ | ⟨rfl, _⟩
      · rcases mem_setL he' with ⟨he'', _⟩ | ⟨rfl, _⟩
        · exact Or.inl he''
        · exact Or.inr (Or.inl ⟨kb, hkb, ho.toThin h3 h4 rfl h3⟩)
      · exact Or.inr (Or.inl ⟨k2, hk2, hthick.toThin rfl (ho2.1.thin hth2).2 rfl rfl⟩)
    · show FD log0 b ids ⟨s.mem, setL (setL s.slots k (ThinArc.of_arc t)) src
          (ThinArc.of_arc (ThinArc.thick s.mem h2))⟩
      refine hfd.quiet rfl (IdsKept.refl _ _) ?_
      intro e he hb
      rcases mem_setL he with ⟨he', _⟩ | ⟨rfl, _⟩
      · rcases mem_setL he' with ⟨he'', _⟩ | ⟨rfl, _⟩
        · exact hfd.views e he'' hb
        · exact hti hb
      · rfl

/-! ## every op -/

/-- the events between `s` and `s'`: if they free `b`, they destroy every identity in `ids` -/
def FDs (s s' : State) (b : Nat) (ids : List Nat) : Prop :=
  ∃ es, s'.mem.log = s.mem.log ++ es ∧
    ((∃ sz al, Event.dealloc b sz al ∈ es) → ∀ id ∈ ids, Event.drop id ∈ es)

theorem FDs.quiet {s s' : State} {b : Nat} {ids : List Nat} (h : s'.mem.log = s.mem.log) : FDs s s' b ids :=
  ⟨[], by simp [h], fun ⟨_, _, hm⟩ => by cases hm⟩

theorem FDs.noDealloc {s s' : State} {b : Nat} {ids : List Nat} {es : List Event} (h : s'.mem.log = s.mem.log ++ es)
    (hn : ∀ sz al, Event.dealloc b sz al ∉ es) : FDs s s' b ids :=
  ⟨es, h, fun ⟨sz, al, hm⟩ => absurd hm (hn sz al)⟩

/-- ops that hand the value out to the caller -/
def handsOut : Op → Bool
  | .tryUnwrap _ | .intoInner _ | .unwrapOrClone _ _ => true
  | _ => false

theorem cloneValue_events (m : Mem) (b : Nat) : ∃ ce, (cloneValue m b).1.log = m.log ++ ce ∧ NoDealloc ce := by
  unfold cloneValue
  split
  · exact ⟨[_], rfl, fun _ _ _ hm => by simp at hm⟩
  · exact ⟨[], by simp, fun _ _ _ hm => by cases hm⟩

theorem make_mut_events (m : Mem) (a : HV) (cp : Bool) (hlt : a.blk < m.blocks.length) :
    ∃ es, (Arc.make_mut m a cp).1.log = m.log ++ es ∧ NoDealloc es := by
  rw [make_mut_eq]
  split
  · exact ⟨[], by simp, fun _ _ _ hm => by cases hm⟩
  · rename_i hu
    split
    · exact ⟨[], by simp, fun _ _ _ hm => by cases hm⟩
    · obtain ⟨ce, hce, hnd⟩ := cloneValue_events m a.blk
      obtain ⟨k, hk⟩ : ∃ k, m.blocks[a.blk]? = some k := ⟨_, List.getElem?_eq_getElem hlt⟩
      have hne1 : k.count ≠ 1 := by
        intro h1
        apply hu
        rw [is_unique_iff_loadCount]
        simp [loadCount, hk, h1]
      have hk2 : (Arc.new (cloneValue m a.blk).1 a.ty (cloneValue m a.blk).2).1.blocks[a.blk]? = some k := by
        rw [arc_new_get _ _ _ (by rw [length_cloneValue]; exact hlt), cloneValue_blocks]; exact hk
      refine ⟨ce ++ [Event.alloc (cloneValue m a.blk).1.blocks.length (allocLayoutBoxNew bits a.ty.elemLay).size
        (allocLayoutBoxNew bits a.ty.elemLay).align], ?_, hnd.append (noDealloc_alloc _ _ _)⟩
      show (Arc.drop _ a).log = _
      rw [Arc.drop_eq, decr_not_last_drops_nothing _ _ _ _ k hk2 hne1]
      show (cloneValue m a.blk).1.log ++ [_] = _
      rw [hce, List.append_assoc]

theorem mmStep_events (s : State) (src v : Nat) (a : HV) (g : Mem → HV → HV) (cp : Bool)
    (hlt : a.blk < s.mem.blocks.length) :
    ∃ es, (mmStep s src v a g cp).1.mem.log = s.mem.log ++ es ∧ NoDealloc es := by
  obtain ⟨es, hes, hnd⟩ := make_mut_events s.mem a cp hlt
  unfold mmStep
  cases hmm : Arc.make_mut s.mem a cp with
  | mk m o =>
    rw [hmm] at hes
    cases o with
    | none => exact ⟨[], by simp, fun _ _ _ hm => by cases hm⟩
    | some h' => exact ⟨es, hes, hnd⟩

section
variable {s : State} {b : Nat} {k : Block}

theorem fds_quiet_ops (op : Op)
    (hop : match op with
      | .conv .. | .isUnique .. | .getMut .. | .getUnique .. | .tryUnique .. | .uniqWrite .. => True
      | _ => False) : (step s op).1.mem.log = s.mem.log := by
  cases op <;> first | exact absurd hop id | skip
  all_goals
    simp only [step]
    repeat' split
    all_goals rfl

theorem log_clone_eq (dst src : Nat) : (step s (.clone dst src)).1.mem.log = s.mem.log := by
  simp only [step]
  split
  · split
    · rename_i m c hc
      obtain ⟨rfl, _⟩ := cloneHandle_spec hc
      rfl
    · rfl
  · rfl

theorem log_cloneArc_eq (dst src : Nat) : (step s (.cloneArc dst src)).1.mem.log = s.mem.log := by
  simp only [step]
  split
  · split
    · rename_i m a hr
      split at hr
      · cases hr; rfl
      · split at hr
        · cases hr; rfl
        · split at hr
          · cases hr; rfl
          · cases hr
    · rfl
  · rfl

theorem fds_create (_hb : b < s.mem.blocks.length) (ids : List Nat) (dst : Nat) (c : Ctor) :
    FDs s (step s (.create dst c)).1 b ids := by
  simp only [step]
  split
  · exact .quiet rfl
  · split
    · exact .quiet rfl
    · rename_i m h hc
      rw [runCtor_eq, Option.map_eq_some_iff] at hc
      obtain ⟨lay, _, he⟩ := hc
      cases he
      exact .noDealloc (es := [Event.alloc s.mem.blocks.length lay.size lay.align]) rfl
        (fun _ _ hm => by simp at hm)

theorem fds_iterCtor (hb : b < s.mem.blocks.length) (ids : List Nat) (dst : Nat) (w : IterCtor) (h : Option Item)
    (sc : IterScript) : FDs s (step s (.iterCtor dst w h sc)).1 b ids := by
  simp only [step]
  split
  · exact .quiet rfl
  · have hs := runIterCtor_spec s.mem true w h sc
    generalize runIterCtor s.mem true w h sc = r at hs
    cases hs with
    | built lay hal =>
      simp only
      exact .noDealloc (es := [Event.alloc s.mem.blocks.length lay.size lay.align]) rfl
        (fun _ _ hm => by simp at hm)
    | noBlock k cls =>
      simp only
      exact .noDealloc rfl (fun _ _ hm => noDealloc_dropsOf _ _ _ _ hm)
    | noAlloc n hal =>
      simp only
      exact .noDealloc rfl (fun _ _ hm => ((noDealloc_dropsOf _).append (noDealloc_hdrDrops _)) _ _ _ hm)
    | leaked lay rl es k cls hes =>
      simp only
      exact .noDealloc (List.append_assoc _ _ _)
        (fun _ _ hm => ((noDealloc_alloc _ _ _).append (noDealloc_dropsOf _)) _ _ _ hm)
    | thinMismatch lay n1 hw hn hal =>
      simp only
      refine .noDealloc (List.append_assoc _ _ _) ?_
      intro sz al hm
      simp only [List.mem_append, List.mem_cons, List.not_mem_nil, or_false, reduceCtorEq, false_or,
        Event.dealloc.injEq] at hm
      rcases hm with (hm | hm) | hm
      · exact noDealloc_hdrDrops _ _ _ _ hm
      · exact noDealloc_dropsOf _ _ _ _ hm
      · omega

theorem fds_writeSlot (ids : List Nat) (src i : Nat) (v : Item) :
    FDs s (step s (.writeSlot src i v)).1 b ids := by
  simp only [step]
  split
  · split
    · split
      · simp only
        split
        · exact .noDealloc (es := [Event.drop v.id]) rfl (fun _ _ hm => by simp at hm)
        · exact .quiet rfl
      · exact .quiet rfl
    · exact .quiet rfl
  · exact .quiet rfl

theorem fds_makeMut (hi : Inv s) (ids : List Nat) (src v : Nat) (cp : Bool) :
    FDs s (step s (.makeMut src v cp)).1 b ids := by
  cases hs : lookup s src with
  | none => exact .quiet (by simp [step, hs])
  | some h =>
    have hlt : h.blk < s.mem.blocks.length := hi.inb _ (lookup_mem hs)
    by_cases hc : h.kind = .arc ∧ h.ty = .sized
    · rw [step_makeMut_arc' v cp hs hc]
      obtain ⟨es, hes, hnd⟩ := mmStep_events s src v h (fun _ x => x) cp hlt
      exact .noDealloc hes (fun _ _ hm => hnd _ _ _ hm)
    · by_cases ho : h.kind = .offset
      · rw [step_makeMut_offset' v cp hs ho]
        obtain ⟨es, hes, hnd⟩ := mmStep_events s src v (Arc.from_raw_offset s.mem h)
          (fun m x => Arc.into_raw_offset m x) cp hlt
        exact .noDealloc hes (fun _ _ hm => hnd _ _ _ hm)
      · exact .quiet (by simp [step, hs, hc, ho])

theorem fds_makeUnique (hi : Inv s) (ids : List Nat) (src v : Nat) (cp : Bool) :
    FDs s (step s (.makeUnique src v cp)).1 b ids := by
  cases hs : lookup s src with
  | none => exact .quiet (by simp [step, hs])
  | some h =>
    have hlt : h.blk < s.mem.blocks.length := hi.inb _ (lookup_mem hs)
    by_cases hc : h.kind = .arc ∧ h.ty = .sized
    · rw [step_makeUnique_arc' v cp hs hc]
      obtain ⟨es, hes, hnd⟩ := mmStep_events s src v h (fun _ x => x) cp hlt
      exact .noDealloc hes (fun _ _ hm => hnd _ _ _ hm)
    · exact .quiet (by simp [step, hs, hc])

variable (hi : Inv s) (hl : LenInv s) (hk : s.mem.blocks[b]? = some k)
  (hv : ∀ e, e ∈ s.slots → e.2.blk = b → e.2.ty.elemsInit = true)
include hi hl hk hv
set_option linter.unusedSectionVars false

theorem fds_drop (src : Nat) : FDs s (step s (.drop src)).1 b k.ids := by
  simp only [step]
  split
  · rename_i h hs
    split
    · rename_i m hd
      have := dropHandle_eq hd
      subst this
      exact (FD.release_handle (FD.init hk hv) hl hs).log
    · exact .quiet rfl
  · exact .quiet rfl

theorem fds_intoThin (src : Nat) : FDs s (step s (.intoThin src)).1 b k.ids := by
  simp only [step]
  split
  · rename_i h hs
    split
    · rename_i hc
      by_cases hrec : ((s.mem.blocks[h.blk]?.bind (·.recLen))).getD 0 = h.len
      · rw [into_thin_eq, if_pos hrec]
        exact .quiet rfl
      · rw [into_thin_eq, if_neg hrec]
        simp only
        have := FD.release_handle (FD.init hk hv) hl hs
        rw [asArc_arc hc.1] at this
        exact this.log
    · exact .quiet rfl
  · exact .quiet rfl

theorem fds_dropAll : FDs s (step s .dropAll).1 b k.ids := by
  simp only [step]
  exact (FD.dropAllFrom _ hi.toInv' hl (FD.init hk hv)).log

theorem fds_withCb (src : Nat) (api : CbApi) (script : List CbAct) :
    FDs s (step s (.withCb src api script)).1 b k.ids := by
  simp only [step]
  split
  · rename_i h hs
    split
    · rename_i t htr
      obtain ⟨h1, h2⟩ := transientOf_spec htr
      refine (CbFD.run script s t "" ⟨⟨hi.toInv', h, hs, h1.symm, h2⟩, hl.toTy, transientOf_tok hl.toTy hs htr,
        FD.init hk hv, ?_⟩).log
      intro hb
      exact transientOf_init htr (hv _ (lookup_mem hs) (by rw [← h1]; exact hb))
    · exact .quiet rfl
  · exact .quiet rfl

/-- **the model fact behind K14**: an op that does not hand the value out and frees a block on which only initialised
views stood destroys every value the block stored -/
theorem step_free_drops (op : Op) (hop : handsOut op = false) : FDs s (step s op).1 b k.ids := by
  have hb : b < s.mem.blocks.length := (List.getElem?_eq_some_iff.1 hk).1
  cases op with
  | create dst c => exact fds_create hb _ dst c
  | iterCtor dst w h sc => exact fds_iterCtor hb _ dst w h sc
  | clone dst src => exact .quiet (log_clone_eq dst src)
  | drop src => exact fds_drop hi hl hk hv src
  | conv src c => exact .quiet (fds_quiet_ops _ trivial)
  | intoThin src => exact fds_intoThin hi hl hk hv src
  | cloneArc dst src => exact .quiet (log_cloneArc_eq dst src)
  | isUnique src => exact .quiet (fds_quiet_ops _ trivial)
  | getMut src v => exact .quiet (fds_quiet_ops _ trivial)
  | getUnique src v => exact .quiet (fds_quiet_ops _ trivial)
  | makeMut src v cp => exact fds_makeMut hi _ src v cp
  | makeUnique src v cp => exact fds_makeUnique hi _ src v cp
  | tryUnwrap src => cases hop
  | unwrapOrClone src cp => cases hop
  | intoInner src => cases hop
  | tryUnique src => exact .quiet (fds_quiet_ops _ trivial)
  | uniqWrite src v => exact .quiet (fds_quiet_ops _ trivial)
  | writeSlot src i v => exact fds_writeSlot _ src i v
  | withCb src api script => exact fds_withCb hi hl hk hv src api script
  | dropAll => exact fds_dropAll hi hl hk hv

end

/-! ## K14 on the model's observations -/

theorem k14_of_movesOut {st : MSt} {op : Op} {o : Obs} (h : movesOut op o = true) : checkK14 st op o = [] := by
  simp [checkK14, h]

theorem k14_of_noDealloc {st : MSt} {op : Op} {o : Obs} (h : ∀ b, o.evs.countP (isDeallocEv b) = 0) :
    checkK14 st op o = [] := by
  unfold checkK14
  split
  · rfl
  · rw [List.flatMap_eq_nil_iff]
    intro e _
    simp [k14One, h]

theorem countP_pos_dealloc {evs : List Event} {b : Nat} (h : evs.countP (isDeallocEv b) ≠ 0) :
    ∃ sz al, Event.dealloc b sz al ∈ evs := by
  have hp : 0 < evs.countP (isDeallocEv b) := Nat.pos_of_ne_zero h
  obtain ⟨e, he, hpe⟩ := List.countP_pos_iff.1 hp
  cases e <;> simp [isDeallocEv] at hpe
  subst hpe
  exact ⟨_, _, he⟩

theorem countP_dropId_of_mem {evs : List Event} {id : Nat} (h : Event.drop id ∈ evs) :
    evs.countP (isDropId id) ≠ 0 := by
  have : 0 < evs.countP (isDropId id) := List.countP_pos_iff.2 ⟨_, h, by simp [isDropId]⟩
  omega

/-- the identities an initialised view shows are identities the block stores -/
theorem dig_ids_sub {m : Mem} {h : HV} {k : Block} (hk : m.blocks[h.blk]? = some k) :
    ∀ id, id ∈ ((digObs m h).map Dig.ids).getD [] → id ∈ k.ids := by
  intro id hid
  simp only [digObs, hk, Option.map_some, Option.getD_some, Dig.ids] at hid
  rcases List.mem_append.1 hid with h1 | h1
  · apply List.mem_append_left
    cases hh : k.hdr with
    | none => rw [hh] at h1; simp at h1
    | some it => rw [hh] at h1; simpa [optId] using h1
  · apply List.mem_append_right
    split at h1
    · exact (elemIds_take_sublist k.elems _).subset h1
    · simp at h1

/-- **K14 (C01)** for the ops that do not hand the value out -/
theorem K14_generic {s : State} (hi : Inv s) (hl : LenInv s) (st : MSt) (hpre : st.pre = observeSlots s) (op : Op)
    (hop : handsOut op = false) : checkK14 st op (observe s op) = [] := by
  unfold checkK14
  split
  · rfl
  · rw [hpre, List.flatMap_eq_nil_iff]
    intro e he
    obtain ⟨h, hm, he2⟩ := mem_observe he
    unfold k14One
    split
    · rename_i hcond
      simp only [Bool.and_eq_true, bne_iff_ne, ne_eq, List.all_eq_true, Bool.or_eq_true] at hcond
      obtain ⟨⟨hde, _⟩, hall⟩ := hcond
      obtain ⟨k, hk, _⟩ := slot_block hi (mem_lookupL hi.keys hm)
      have hblk : e.2.blk = h.blk := by rw [he2]; rfl
      rw [hblk] at hde
      have hv : ∀ e', e' ∈ s.slots → e'.2.blk = h.blk → e'.2.ty.elemsInit = true := by
        intro e' he' hb'
        have hmem : (e'.1, slotObs s.mem e'.2) ∈ observeSlots s := by
          simp only [observeSlots, List.mem_map]
          exact ⟨e', he', rfl⟩
        rcases hall _ hmem with h1 | h1
        · exact absurd (by rw [hblk]; exact hb') h1
        · exact h1
      obtain ⟨es, hes, hd⟩ := step_free_drops hi hl hk hv op hop
      have hevs := observe_evs hes
      rw [hevs] at hde ⊢
      have hdrops := hd (countP_pos_dealloc hde)
      rw [List.filterMap_eq_nil_iff]
      intro id hid
      have hidk : id ∈ k.ids := by
        rw [he2] at hid
        exact dig_ids_sub hk id hid
      simp [countP_dropId_of_mem (hdrops id hidk)]
    · rfl

/-- **K14 (C01)** on every state that satisfies the count invariant and the length typing -/
theorem K14_sound {s : State} (hi : Inv s) (hl : LenInv s) (st : MSt) (hpre : st.pre = observeSlots s) (op : Op) :
    checkK14 st op (observe s op) = [] := by
  cases hop : handsOut op with
  | false => exact K14_generic hi hl st hpre op hop
  | true =>
    cases op with
    | intoInner src => exact k14_of_movesOut rfl
    | tryUnwrap src =>
      cases hs : lookup s src with
      | none =>
        have e : step s (.tryUnwrap src) = (s, badOp) := by simp [step, hs]
        exact k14_of_noDealloc (by rw [obs_evs_nil e rfl]; intro b; rfl)
      | some h =>
        by_cases hk : h.kind = .arc ∧ h.ty = .sized
        · cases hu : Arc.is_unique s.mem h with
          | true =>
            have e : step s (.tryUnwrap src) = (s.del (UniqueArc.into_inner s.mem { h with kind := .uniq }).1 src,
                ok s!"ok={showItem (UniqueArc.into_inner s.mem { h with kind := .uniq }).2}") := by
              simp only [step, hs, hk, and_self, if_true, Arc.try_unwrap, Arc.try_unique, hu]
            apply k14_of_movesOut
            show ((observe s (.tryUnwrap src)).verdict == some true) = true
            have hv : (observe s (.tryUnwrap src)).verdict = some true := by
              show verdictOf (.tryUnwrap src) (step s (.tryUnwrap src)).2 = _
              rw [e]; exact verdict_tryUnwrap_ok src _
            rw [hv]; rfl
          | false =>
            have e : step s (.tryUnwrap src) = (s, ok "err") := by
              simp [step, hs, hk, Arc.try_unwrap, Arc.try_unique, hu]
            exact k14_of_noDealloc (by rw [obs_evs_nil e rfl]; intro b; rfl)
        · have e : step s (.tryUnwrap src) = (s, badOp) := by simp [step, hs, hk]
          exact k14_of_noDealloc (by rw [obs_evs_nil e rfl]; intro b; rfl)
    | unwrapOrClone src cp =>
      cases hs : lookup s src with
      | none =>
        have e : step s (.unwrapOrClone src cp) = (s, badOp) := by simp [step, hs]
        exact k14_of_noDealloc (by rw [obs_evs_nil e rfl]; intro b; rfl)
      | some h =>
        by_cases hk : h.kind = .arc ∧ h.ty = .sized
        · obtain ⟨k, hkb, _, _, hcnt⟩ := slot_block hi hs
          cases hu : Arc.is_unique s.mem h with
          | true =>
            have e : step s (.unwrapOrClone src cp) = (s.del (UniqueArc.into_inner s.mem { h with kind := .uniq }).1 src,
                ok s!"val={showItem (UniqueArc.into_inner s.mem { h with kind := .uniq }).2}") := by
              simp only [step, hs, hk, and_self, if_true, Arc.try_unwrap, Arc.try_unique, hu]
            obtain ⟨sz, al, hlog⟩ := into_inner_evs (u := { h with kind := .uniq }) hkb
            apply k14_of_movesOut
            show ((observe s (.unwrapOrClone src cp)).evs.countP isCloneEv == 0) = true
            rw [obs_evs e hlog]; rfl
          | false =>
            have hne1 : k.count ≠ 1 := by
              intro h1
              have : Arc.is_unique s.mem h = true := by
                rw [is_unique_iff_loadCount]; simp [loadCount, hkb, h1]
              rw [hu] at this; cases this
            cases cp with
            | true =>
              have e : step s (.unwrapOrClone src true) = (s.del (Arc.drop s.mem h) src, panicked "scripted") := by
                simp [step, hs, hk, Arc.try_unwrap, Arc.try_unique, hu]
              have hlog : (s.del (Arc.drop s.mem h) src).mem.log = s.mem.log := by
                show (Arc.drop s.mem h).log = _
                rw [Arc.drop_eq, decr_not_last_drops_nothing _ _ _ _ k hkb hne1]
              exact k14_of_noDealloc (by rw [obs_evs_nil e hlog]; intro b; rfl)
            | false =>
              have e : step s (.unwrapOrClone src false) =
                  (s.del (Arc.drop (cloneValue s.mem h.blk).1 h) src,
                   ok s!"val={showItem (cloneValue s.mem h.blk).2}") := by
                simp only [step, hs, hk, and_self, if_true, Arc.try_unwrap, Arc.try_unique, hu]
                rfl
              obtain ⟨ce, hce, hnd⟩ := cloneValue_events s.mem h.blk
              have hk1 : (cloneValue s.mem h.blk).1.blocks[h.blk]? = some k := by rw [cloneValue_blocks]; exact hkb
              have hlog : (s.del (Arc.drop (cloneValue s.mem h.blk).1 h) src).mem.log = s.mem.log ++ ce := by
                show (Arc.drop (cloneValue s.mem h.blk).1 h).log = _
                rw [Arc.drop_eq, decr_not_last_drops_nothing _ _ _ _ k hk1 hne1, hce]
              apply k14_of_noDealloc
              rw [obs_evs e hlog]
              intro b
              rw [List.countP_eq_zero]
              intro ev hev
              cases ev <;> simp [isDeallocEv]
              exact absurd hev (hnd _ _ _)
        · have e : step s (.unwrapOrClone src cp) = (s, badOp) := by simp [step, hs, hk]
          exact k14_of_noDealloc (by rw [obs_evs_nil e rfl]; intro b; rfl)
    | _ => cases hop

theorem checkK14_withEvs (st : MSt) (op : Op) (o : Obs) (evs' : List Event)
    (h : evs'.Perm o.evs) : checkK14 st op (o.withEvs evs') = checkK14 st op o := by
  unfold checkK14 movesOut k14One Obs.withEvs
  simp only [h.countP_eq]

end Mon
end M1
