import TriompheModel.Proofs.Ctor
/-!
# C07 (iterator part) — panicking or lying iterators cause no double drop and no uninitialised read

Every theorem below is for EVERY memory `m`, both profiles `dbg`, every iterator-driven constructor
`which` (`from_header_and_iter`, `ThinArc::from_header_and_iter`, `FromIterator` for `Arc<[T]>` and
`UniqueArc<[T]>`), every header `h` and EVERY script `sc`: any `lens` (over-, under-reporting,
changing between calls), any `hints`, any item list of any length, a panic at any `next()` call or
none.  They are read off `runIterCtor_spec` (Proofs/Ctor.lean), which lists the five shapes the
result can have.

`CtorRes` has exactly two constructors, so "the outcome is a returned handle (`.built`) or a
propagated panic (`.panicked`)" holds by typing; `r.mem` is the memory afterwards in either case and
`added m r.mem` the events the call appended to the log.
-/
namespace M1
open LY

/-- **outcome**: in both cases the old blocks are unchanged, at most one block is new, the log is
only extended, and the clone counter is untouched -/
theorem C07_iter_outcome_of_eq (m : Mem) (dbg : Bool) (which : IterCtor) (h : Option Item) (sc : IterScript)
    (r : CtorRes) (hr : r = runIterCtor m dbg which h sc) :
    (∀ j, j < m.blocks.length → r.mem.blocks[j]? = m.blocks[j]?) ∧
    m.blocks.length ≤ r.mem.blocks.length ∧ r.mem.blocks.length ≤ m.blocks.length + 1 ∧
    r.mem.log = m.log ++ added m r.mem ∧ r.mem.nextClone = m.nextClone := by
  have hs : IterOut m which h sc r := hr ▸ runIterCtor_spec m dbg which h sc
  clear hr
  cases hs with
  | built lay hal =>
    exact ⟨fun j hj => by simp [CtorRes.mem, List.getElem?_append_left hj], by simp [CtorRes.mem],
      by simp [CtorRes.mem], by simp [CtorRes.mem, added], rfl⟩
  | noBlock k cls =>
    exact ⟨fun j hj => rfl, Nat.le_refl _, Nat.le_succ _, by simp [CtorRes.mem, added], rfl⟩
  | noAlloc n hal =>
    exact ⟨fun j hj => rfl, Nat.le_refl _, Nat.le_succ _, by simp [CtorRes.mem, added], rfl⟩
  | leaked lay rl es k cls hes =>
    exact ⟨fun j hj => by simp [CtorRes.mem, List.getElem?_append_left hj], by simp [CtorRes.mem],
      by simp [CtorRes.mem], by simp [CtorRes.mem, added], rfl⟩
  | thinMismatch lay n1 hw hne hal =>
    exact ⟨fun j hj => by simp [CtorRes.mem, List.getElem?_append_left hj], by simp [CtorRes.mem],
      by simp [CtorRes.mem], by simp [CtorRes.mem, added], rfl⟩

theorem C07_iter_outcome (m : Mem) (dbg : Bool) (which : IterCtor) (h : Option Item) (sc : IterScript) :
    (∀ j, j < m.blocks.length → (runIterCtor m dbg which h sc).mem.blocks[j]? = m.blocks[j]?) ∧
    m.blocks.length ≤ (runIterCtor m dbg which h sc).mem.blocks.length ∧
    (runIterCtor m dbg which h sc).mem.blocks.length ≤ m.blocks.length + 1 ∧
    (runIterCtor m dbg which h sc).mem.log = m.log ++ added m (runIterCtor m dbg which h sc).mem ∧
    (runIterCtor m dbg which h sc).mem.nextClone = m.nextClone :=
  C07_iter_outcome_of_eq m dbg which h sc _ rfl

/-- **nothing uninitialised is ever exposed**: when a handle is returned, it points to the one new
block, every slot of which is written (in fact the slots are exactly ALL the iterator's items in
order — no lying `len()`/`size_hint()` can make a constructor return a short or padded slice), the
block is live with count 1 and not leaked, and the length the handle's view sees — the fat-pointer
length, or for a `ThinArc` the length word in the block — is the number of slots. -/
theorem C07_iter_built_initialised (m : Mem) (dbg : Bool) (which : IterCtor) (h : Option Item)
    (sc : IterScript) (m' : Mem) (hv : HV) (hr : runIterCtor m dbg which h sc = .built m' hv) :
    ∃ k : Block, m'.blocks = m.blocks ++ [k] ∧ hv.blk = m.blocks.length ∧
      (∀ e ∈ k.elems, e.isSome = true) ∧ k.elems = sc.items.map some ∧
      k.count = 1 ∧ k.live = true ∧ k.leaked = false ∧
      viewLen m' hv = k.elems.length ∧
      (which ≠ .thinFromIter → hv.len = k.elems.length) ∧
      (which = .thinFromIter → k.recLen = some k.elems.length) ∧
      (∀ e ∈ added m m', e.isDrop = false ∧ e.isDropUninit = false) := by
  have hs := runIterCtor_spec m dbg which h sc
  rw [hr] at hs
  cases hs with
  | built lay hal =>
    refine ⟨_, rfl, rfl, ?_, rfl, rfl, rfl, rfl, ?_, ?_, ?_, ?_⟩
    · intro e he
      obtain ⟨v, _, rfl⟩ := List.mem_map.1 he
      rfl
    · cases which <;>
        simp [viewLen, IterCtor.kind, IterCtor.ty, IterCtor.lenOf, IterCtor.recOf, Ty.isSlicey]
    · intro hw; cases which <;> first | exact absurd rfl hw | simp [IterCtor.lenOf]
    · intro hw; subst hw; simp [IterCtor.recOf]
    · rw [added_append]
      intro e he
      simp only [List.mem_singleton] at he
      subst he
      exact ⟨rfl, rfl⟩

/-- **a panic leaks or frees, nothing else**: when the constructor panics, no handle is returned
(`r.handle? = none` by construction) and either no block was allocated — then the call only dropped
a tail `items.drop j` of the iterator's items, or, when the layout computation of
`from_header_and_iter` overflows for the reported length `n` (class `"layout-overflow"`, before any
`next()` call), ALL the items (the iterator) and then the header, which the constructor still
owns —, or the one new block is
* `leaked = true` and still `live` — the half-built allocation is abandoned and never destroyed:
  no `.dealloc` and no destructor of anything stored in it (the dropped items are `items.drop j`,
  the block holds only items from `items.take j`): the documented leak; or
* `live = false` with count 0 — only `ThinArc::from_header_and_iter` whose two `len()` answers
  disagree: the block was completely built (all items), then properly destroyed by the unwinding
  `Arc`; its `.dealloc` is the last event of the log. -/
theorem C07_iter_panic_leaks_or_frees (m : Mem) (dbg : Bool) (which : IterCtor) (h : Option Item)
    (sc : IterScript) (m' : Mem) (cls : String)
    (hr : runIterCtor m dbg which h sc = .panicked m' cls) :
    (runIterCtor m dbg which h sc).handle? = none ∧
    ((m'.blocks = m.blocks ∧
        ((∃ j, added m m' = dropsOf (sc.items.drop j)) ∨
         (∃ n, allocLayoutHeaderSlice bits which.hdrLay trackedLay n = none ∧ cls = "layout-overflow" ∧
            added m m' = dropsOf sc.items ++ hdrDrops (which.hdrOf h)))) ∨
     (∃ k : Block, m'.blocks = m.blocks ++ [k] ∧
        ((k.leaked = true ∧ k.live = true ∧ k.count = 1 ∧
          ∃ j size align, added m m' = [.alloc m.blocks.length size align] ++ dropsOf (sc.items.drop j) ∧
            ∀ v, some v ∈ k.elems → v ∈ sc.items.take j) ∨
         (k.leaked = false ∧ k.live = false ∧ k.count = 0 ∧ k.elems = sc.items.map some ∧
          which = .thinFromIter ∧ cls = "length-mismatch" ∧
          ∃ size align size' align', added m m' =
            [.alloc m.blocks.length size align] ++
              (hdrDrops h ++ dropsOf sc.items ++ [.dealloc m.blocks.length size' align']))))) := by
  have hs := runIterCtor_spec m dbg which h sc
  rw [hr] at hs ⊢
  refine ⟨rfl, ?_⟩
  cases hs with
  | noBlock k cls => exact Or.inl ⟨rfl, Or.inl ⟨k, added_append _ _ _ _⟩⟩
  | noAlloc n hal => exact Or.inl ⟨rfl, Or.inr ⟨n, hal, rfl, added_append _ _ _ _⟩⟩
  | leaked lay rl es k cls hes =>
    refine Or.inr ⟨_, rfl, Or.inl ⟨rfl, rfl, rfl, k, lay.size, lay.align, ?_, hes⟩⟩
    simp [added]
  | thinMismatch lay n1 hw hne hal =>
    refine Or.inr ⟨_, rfl, Or.inr ⟨rfl, rfl, rfl, rfl, hw, rfl, lay.size, lay.align,
      (Ty.hwl.releaseLayout sc.items.length).size, (Ty.hwl.releaseLayout sc.items.length).align, ?_⟩⟩
    simp [added]

/-- **no uninitialised slot is ever destroyed**: the events of the call contain no `.dropUninit` -/
theorem C07_iter_no_uninit_drop (m : Mem) (dbg : Bool) (which : IterCtor) (h : Option Item)
    (sc : IterScript) :
    ∀ e ∈ added m (runIterCtor m dbg which h sc).mem, e.isDropUninit = false := by
  have hs := runIterCtor_spec m dbg which h sc
  generalize runIterCtor m dbg which h sc = r at hs
  cases hs with
  | built lay hal =>
    simp only [CtorRes.mem, added_append]
    intro e he
    simp only [List.mem_singleton] at he
    subst he; rfl
  | noBlock k cls =>
    simp only [CtorRes.mem, added_append]
    exact no_uninit_dropsOf _
  | noAlloc n hal =>
    simp only [CtorRes.mem, added_append]
    intro e he
    rcases List.mem_append.1 he with he | he
    · exact no_uninit_dropsOf _ e he
    · exact no_uninit_hdrDrops _ e he
  | leaked lay rl es k cls hes =>
    simp only [CtorRes.mem, List.append_assoc, added_append]
    intro e he
    rcases List.mem_append.1 he with he | he
    · simp only [List.mem_singleton] at he
      subst he; rfl
    · exact no_uninit_dropsOf _ e he
  | thinMismatch lay n1 hw hne hal =>
    simp only [CtorRes.mem, List.append_assoc, added_append]
    intro e he
    simp only [List.mem_append, List.mem_singleton] at he
    rcases he with he | he | he | he
    · subst he; rfl
    · exact no_uninit_hdrDrops _ e he
    · exact no_uninit_dropsOf _ e he
    · subst he; rfl

/-- the identities destroyed by the call: nothing, a tail of the items, — thin mismatch — the
header and all items, or — layout overflow in `from_header_and_iter` — all items and then the
header the constructor owns -/
theorem iter_dropIds (m : Mem) (dbg : Bool) (which : IterCtor) (h : Option Item) (sc : IterScript) :
    (∃ j, dropIds (added m (runIterCtor m dbg which h sc).mem) = (sc.items.drop j).map (·.id)) ∨
    dropIds (added m (runIterCtor m dbg which h sc).mem) = (h.toList ++ sc.items).map (·.id) ∨
    dropIds (added m (runIterCtor m dbg which h sc).mem) =
      (sc.items ++ (which.hdrOf h).toList).map (·.id) := by
  have hs := runIterCtor_spec m dbg which h sc
  generalize runIterCtor m dbg which h sc = r at hs
  cases hs with
  | built lay hal =>
    refine Or.inl ⟨sc.items.length, ?_⟩
    simp only [CtorRes.mem, added_append, dropIds_alloc, List.drop_length, List.map_nil]
  | noBlock k cls =>
    refine Or.inl ⟨k, ?_⟩
    simp only [CtorRes.mem, added_append, dropIds_dropsOf]
  | noAlloc n hal =>
    refine Or.inr (Or.inr ?_)
    simp only [CtorRes.mem, added_append, dropIds_append, dropIds_dropsOf, dropIds_hdrDrops,
      List.map_append]
  | leaked lay rl es k cls hes =>
    refine Or.inl ⟨k, ?_⟩
    simp only [CtorRes.mem, List.append_assoc, added_append, dropIds_append, dropIds_dropsOf,
      dropIds_alloc, List.nil_append]
  | thinMismatch lay n1 hw hne hal =>
    refine Or.inr (Or.inl ?_)
    simp only [CtorRes.mem, List.append_assoc, added_append, dropIds_append, dropIds_dropsOf,
      dropIds_hdrDrops, List.map_append, dropIds_alloc, dropIds_dealloc, List.nil_append,
      List.append_nil]

/-- **no double drop**: if the header and the items handed to the constructor have pairwise distinct
identities, then the identities destroyed during the call are pairwise distinct (every value is
destroyed at most once) and each is the identity of the header or of one of the items (only values
that were handed to the constructor are destroyed) -/
theorem C07_iter_no_double_drop (m : Mem) (dbg : Bool) (which : IterCtor) (h : Option Item)
    (sc : IterScript) (hnd : ((h.toList ++ sc.items).map (·.id)).Nodup) :
    (dropIds (added m (runIterCtor m dbg which h sc).mem)).Nodup ∧
    ∀ i ∈ dropIds (added m (runIterCtor m dbg which h sc).mem), i ∈ (h.toList ++ sc.items).map (·.id) := by
  have hsub : ∀ j, ((sc.items.drop j).map (·.id)).Sublist ((h.toList ++ sc.items).map (·.id)) :=
    fun j => ((List.drop_sublist j sc.items).trans (List.sublist_append_right _ _)).map _
  rcases iter_dropIds m dbg which h sc with ⟨j, hj⟩ | hj | hj
  · rw [hj]
    exact ⟨hnd.sublist (hsub j), fun i hi => (hsub j).subset hi⟩
  · rw [hj]
    exact ⟨hnd, fun i hi => hi⟩
  · -- all the items, then the header: a sublist of a permutation of `h.toList ++ sc.items`
    rw [hj]
    have hsl : ((sc.items ++ (which.hdrOf h).toList).map (·.id)).Sublist
        ((sc.items ++ h.toList).map (·.id)) := by
      refine (List.Sublist.append (List.Sublist.refl _) ?_).map _
      cases which <;> first | exact List.Sublist.refl _ | exact List.nil_sublist _
    have hperm : ((sc.items ++ h.toList).map (·.id)).Perm ((h.toList ++ sc.items).map (·.id)) :=
      List.perm_append_comm.map _
    exact ⟨(hperm.symm.nodup hnd).sublist hsl, fun i hi => hperm.subset (hsl.subset hi)⟩

/-- the items written into a leaked block and the items destroyed by the panicking call are
disjoint (given distinct identities): a value is either still owned by the abandoned block — and
then never destroyed — or was destroyed once with the iterator -/
theorem C07_iter_leaked_contents_not_dropped (m : Mem) (dbg : Bool) (which : IterCtor) (h : Option Item)
    (sc : IterScript) (m' : Mem) (cls : String) (k : Block)
    (hr : runIterCtor m dbg which h sc = .panicked m' cls)
    (hk : m'.blocks = m.blocks ++ [k]) (hleak : k.leaked = true)
    (hnd : (sc.items.map (·.id)).Nodup) :
    ∀ v, some v ∈ k.elems → v.id ∉ dropIds (added m m') := by
  obtain ⟨_, hcase⟩ := C07_iter_panic_leaks_or_frees m dbg which h sc m' cls hr
  rcases hcase with ⟨hb, _⟩ | ⟨k', hk', hcase⟩
  · rw [hb] at hk
    have := congrArg List.length hk
    simp at this
  · have hkk : k' = k := by
      rw [hk'] at hk
      have := List.append_inj_right' hk rfl
      simpa using this
    subst hkk
    rcases hcase with ⟨_, _, _, j, size, align, hadd, hes⟩ | ⟨hl, _⟩
    · intro v hv hmem
      rw [hadd, dropIds_append, dropIds_dropsOf] at hmem
      rw [dropIds_alloc, List.nil_append] at hmem
      have hmem' : v.id ∈ (sc.items.drop j).map (·.id) := hmem
      have htake : v.id ∈ (sc.items.take j).map (·.id) := List.mem_map.2 ⟨v, hes v hv, rfl⟩
      have hsplit : sc.items.map (·.id) = (sc.items.take j).map (·.id) ++ (sc.items.drop j).map (·.id) := by
        rw [← List.map_append, List.take_append_drop]
      rw [hsplit] at hnd
      exact (List.nodup_append.1 hnd).2.2 _ htake _ hmem' rfl
    · rw [hl] at hleak; cases hleak

/-- `next()` never yields an item twice: the item yielded is the one at index `nextCalls`; the index
strictly increases on `yield`/`done` and is unchanged by a panicking call (the item that call would
have produced stays in the iterator and is dropped with it) -/
theorem C07_next_never_yields_twice (it : IterSt) :
    (it.next).2.sc = it.sc ∧
    match (it.next).1 with
    | .yield v => it.sc.items[it.nextCalls]? = some v ∧ (it.next).2.nextCalls = it.nextCalls + 1
    | .done => it.sc.items.length ≤ it.nextCalls ∧ (it.next).2.nextCalls = it.nextCalls + 1
    | .panic => it.sc.panicAt = some it.nextCalls ∧ (it.next).2.nextCalls = it.nextCalls :=
  ⟨(next_index it).1, (next_index it).2.2.2⟩

/-- the write loop on ANY script: on success every slot is written and there are `acc.length + n`
of them, the items taken being the next `n` in order; on failure the iterator state tells how many
were taken -/
theorem C07_fillLoop_any_script (n : Nat) (it : IterSt) (acc : List (Option Item))
    (hacc : ∀ e ∈ acc, e.isSome = true) :
    match fillLoop n it acc with
    | (.ok elems, it') =>
        (∀ e ∈ elems, e.isSome = true) ∧ elems.length = acc.length + n ∧
        elems = acc ++ ((it.sc.items.drop it.nextCalls).take n).map some ∧
        it'.nextCalls = it.nextCalls + n ∧ it'.sc = it.sc
    | (.error _, it') =>
        it'.sc = it.sc ∧ it.nextCalls ≤ it'.nextCalls ∧ it'.nextCalls ≤ it.nextCalls + n := by
  cases hf : fillLoop n it acc with
  | mk res it' =>
    cases res with
    | ok elems =>
      obtain ⟨h1, h2⟩ := fillLoop_ok_all_some hf hacc
      obtain ⟨rfl, _, h3⟩ := fillLoop_ok_inv _ _ _ _ _ hf
      exact ⟨h1, h2, h3, rfl, rfl⟩
    | error cls =>
      obtain ⟨h1, h2, h3, _⟩ := fillLoop_error_inv _ _ _ _ _ hf
      exact ⟨h1, h2, h3⟩

/-! ## non-vacuity: concrete lying and panicking scripts reach every case -/

section Examples

def exItems7 : List Item := [⟨1, 10⟩, ⟨2, 20⟩, ⟨3, 30⟩]
def exHdr7 : Item := ⟨9, 90⟩
def exMem7 : Mem := (Arc.new State.init.mem .sized (some ⟨7, 70⟩)).1

structure BlkDigest where
  count : Nat
  live : Bool
  leaked : Bool
  elems : List (Option Item)
deriving DecidableEq

structure ResDigest where
  built : Bool
  cls : String
  newBlocks : List BlkDigest
  events : List Event
deriving DecidableEq

/-- what a result looks like from outside: built?, panic class, the new blocks, the added events -/
def digestRes (m : Mem) (r : CtorRes) : ResDigest :=
  ⟨r.handle?.isSome, (match r with | .panicked _ c => c | _ => ""),
   (r.mem.blocks.drop m.blocks.length).map (fun k => ⟨k.count, k.live, k.leaked, k.elems⟩),
   added m r.mem⟩

/-- the distinctness hypothesis of `C07_iter_no_double_drop` holds for the examples -/
example : (((some exHdr7).toList ++ exItems7).map (·.id)).Nodup := by decide

/-- over-report (`len()` = 5, 3 items): the `expect` in the loop panics, block leaked with unwritten
slots, nothing dropped -/
example : digestRes exMem7 (runIterCtor exMem7 true .hsFromIter (some exHdr7) ⟨[5], [], exItems7, none⟩)
    = ⟨false, "over-reported", [⟨1, true, true, [none, none, none, none, none]⟩], [.alloc 1 56 8]⟩ := by
  decide

/-- under-report (`len()` = 2, 3 items): the post-loop `assert!` panics after taking the extra item:
block leaked holding items 1 and 2, item 3 dropped once -/
example : digestRes exMem7 (runIterCtor exMem7 true .hsFromIter (some exHdr7) ⟨[2], [], exItems7, none⟩)
    = ⟨false, "under-reported", [⟨1, true, true, [some ⟨1, 10⟩, some ⟨2, 20⟩]⟩], [.alloc 1 32 8, .drop 3]⟩ := by
  decide

/-- `next()` panics at call 1: block leaked, items 2 and 3 (still inside the iterator) dropped once -/
example : digestRes exMem7 (runIterCtor exMem7 true .hsFromIter (some exHdr7) ⟨[], [], exItems7, some 1⟩)
    = ⟨false, "scripted", [⟨1, true, true, [none, none, none]⟩], [.alloc 1 40 8, .drop 2, .drop 3]⟩ := by
  decide

/-- `len()` changing between calls (2 then 3) in `ThinArc::from_header_and_iter`: fully built, then
`into_thin` panics and the Arc is destroyed properly: header, each item once, dealloc -/
example : digestRes exMem7 (runIterCtor exMem7 true .thinFromIter (some exHdr7) ⟨[2, 3], [], exItems7, none⟩)
    = ⟨false, "length-mismatch", [⟨0, false, false, exItems7.map some⟩], [.alloc 1 48 8, .drop 9, .drop 1, .drop 2, .drop 3, .dealloc 1 48 8]⟩ := by
  decide

/-- `len()` = 2^62: the layout computation overflows, the `unwrap()` panics before any allocation and
before any `next()` call: the iterator (all three items) is dropped, then the header — each once -/
example : digestRes exMem7 (runIterCtor exMem7 true .hsFromIter (some exHdr7) ⟨[2 ^ 62], [], exItems7, none⟩)
    = ⟨false, "layout-overflow", [], [.drop 1, .drop 2, .drop 3, .drop 9]⟩ := by
  decide

/-- the same for `ThinArc::from_header_and_iter` (the second `len()` answer is the one allocated for) -/
example : digestRes exMem7 (runIterCtor exMem7 true .thinFromIter (some exHdr7) ⟨[3, 2 ^ 62], [], exItems7, none⟩)
    = ⟨false, "layout-overflow", [], [.drop 1, .drop 2, .drop 3, .drop 9]⟩ := by
  decide

/-- `FromIterator` with an exact but absurd `size_hint()`: same panic, there is no header to drop -/
example : digestRes exMem7 (runIterCtor exMem7 true .fromIter (some exHdr7)
      ⟨[], [(2 ^ 62, some (2 ^ 62))], exItems7, none⟩)
    = ⟨false, "layout-overflow", [], [.drop 1, .drop 2, .drop 3]⟩ := by
  decide

/-- `size_hint()` changing between calls: exact first, inexact second, debug profile: the
`debug_assert` panics before any allocation; all items dropped once with the iterator -/
example : digestRes exMem7 (runIterCtor exMem7 true .fromIter none ⟨[], [(3, some 3), (0, none)], exItems7, none⟩)
    = ⟨false, "size-hint", [], [.drop 1, .drop 2, .drop 3]⟩ := by
  decide

/-- same script, release profile: the lower bound 0 is used as the length — under-report: leaked
empty block, the extra item dropped by the `assert!`, the rest with the iterator -/
example : digestRes exMem7 (runIterCtor exMem7 false .fromIter none ⟨[], [(3, some 3), (0, none)], exItems7, none⟩)
    = ⟨false, "under-reported", [⟨1, true, true, []⟩], [.alloc 1 8 8, .drop 1, .drop 2, .drop 3]⟩ := by
  decide

/-- collect fallback with a panic at call 2: the partial `Vec` (items 1, 2) and the iterator (item
3) are dropped: each item once, no allocation in the log model -/
example : digestRes exMem7 (runIterCtor exMem7 true .uniqueFromIter none ⟨[], [(0, none)], exItems7, some 2⟩)
    = ⟨false, "scripted", [], [.drop 1, .drop 2, .drop 3]⟩ := by
  decide

/-- a lying `len()` list that happens to end right still builds — with exactly the items -/
example : digestRes exMem7 (runIterCtor exMem7 true .hsFromIter (some exHdr7) ⟨[3], [(7, none)], exItems7, some 4⟩)
    = ⟨true, "", [⟨1, true, false, exItems7.map some⟩], [.alloc 1 40 8]⟩ := by
  decide

end Examples

end M1
