//! Pass 2: walk every function body once: atomic census, crate-local call edges (with a light
//! local type inference so that `a.clone()` on an `&Arc<_>` closure parameter is `Arc::clone`).

use std::collections::BTreeSet;

use proc_macro2::{Delimiter, TokenStream, TokenTree};
use quote::ToTokens;
use syn::punctuated::Punctuated;
use syn::spanned::Spanned;
use syn::visit::Visit;
use syn::Expr;

use crate::collect::{ty_of, Crate, Ty};
use crate::model::{Kind, MemOrd, Site};

pub const UNMISTAKABLE: &[&str] = &[
    "fetch_add",
    "fetch_sub",
    "fetch_and",
    "fetch_or",
    "fetch_xor",
    "fetch_nand",
    "fetch_max",
    "fetch_min",
    "fetch_update",
    "compare_exchange",
    "compare_exchange_weak",
    "compare_and_swap",
];

/// functions in which a raw (non-atomic) write to `.count` is the initialisation of a fresh block
pub const CTOR_FNS: &[&str] = &["try_allocate_for_layout", "new_uninit", "new"];

/// crate functions that method-call-by-name resolution may resolve to (receiver type unknown)
pub const ALLOW: &[&str] = &[
    "is_unique",
    "count",
    "strong_count",
    "try_unique",
    "try_as_unique",
    "get_mut",
    "get_unique",
    "must_be_unique",
    "try_unwrap",
    "make_mut",
    "make_unique",
    "into_inner",
    "from_arc",
    "from_arc_ref",
    "inner",
    "with_arc",
    "with_arc_mut",
    // funnel helpers
    "clone_arc",
    "with_protected_arc",
    "protected_into_thin",
    "from_first",
    "from_second",
    "unwrap_or_clone",
];

/// names that are also std trait / inherent methods on foreign types: never resolved by name alone
pub const DENY: &[&str] = &[
    "clone", "new", "from", "into", "drop", "deref", "deref_mut", "map", "ok", "unwrap", "unwrap_or",
    "unwrap_or_else", "unwrap_err", "unwrap_or_default", "unwrap_unchecked", "expect", "as_ptr", "as_ref",
    "as_mut", "as_mut_ptr", "borrow", "borrow_mut", "eq", "ne", "cmp", "partial_cmp", "lt", "le", "gt", "ge",
    "hash", "fmt", "default", "from_iter", "try_from", "try_into", "len", "get", "write", "read", "cast",
    "next", "size_hint", "iter", "is_empty", "serialize", "deserialize", "load", "store", "swap", "ptr_eq",
];

#[derive(Clone, Debug)]
#[allow(dead_code)]
pub struct Edge {
    pub targets: Vec<usize>,
    pub debug: bool,
    pub name: String,
    pub line: usize,
    /// column of the method / last path segment identifier: (line, col) identifies the call expression
    pub col: usize,
}

#[derive(Default)]
pub struct BodyFacts {
    pub sites: Vec<Site>,
    pub edges: Vec<Edge>,
    /// method calls whose receiver type could not be established and whose name is not on the by-name
    /// allow-list: every crate method of that name is a *possible* target.  Only used to over-approximate
    /// the callers of a helper (`roles.rs`); never followed by the gate / funnel reachability.
    pub loose_edges: Vec<Edge>,
    /// contains a (non-debug) call `Box::from_raw(..)`
    pub has_box_from_raw: bool,
    /// contains `mem::forget(..)` or `ManuallyDrop::new(..)`
    pub has_forget: bool,
}

pub fn path_idents(p: &syn::Path) -> Vec<String> {
    p.segments.iter().map(|s| s.ident.to_string()).collect()
}

pub fn ordering_of(e: &Expr) -> MemOrd {
    match e {
        Expr::Path(p) => match p.path.segments.last().map(|s| s.ident.to_string()).as_deref() {
            Some("Relaxed") => MemOrd::Relaxed,
            Some("Acquire") => MemOrd::Acquire,
            Some("Release") => MemOrd::Release,
            Some("AcqRel") => MemOrd::AcqRel,
            Some("SeqCst") => MemOrd::SeqCst,
            _ => MemOrd::Unknown,
        },
        Expr::Paren(p) => ordering_of(&p.expr),
        Expr::Group(g) => ordering_of(&g.expr),
        _ => MemOrd::Unknown,
    }
}

fn ordering_of_name(s: &str) -> MemOrd {
    match s {
        "Relaxed" => MemOrd::Relaxed,
        "Acquire" => MemOrd::Acquire,
        "Release" => MemOrd::Release,
        "AcqRel" => MemOrd::AcqRel,
        "SeqCst" => MemOrd::SeqCst,
        _ => MemOrd::Unknown,
    }
}

pub fn tokens_mention_ident(ts: TokenStream, name: &str) -> bool {
    for t in ts {
        match t {
            TokenTree::Ident(i) => {
                if i == name {
                    return true;
                }
            }
            TokenTree::Group(g) => {
                if tokens_mention_ident(g.stream(), name) {
                    return true;
                }
            }
            _ => {}
        }
    }
    false
}

static COUNT_ACCESSORS: std::sync::OnceLock<BTreeSet<String>> = std::sync::OnceLock::new();

/// names of crate functions that return (a reference to) the count; set once after pass 1
pub fn set_count_accessors(names: BTreeSet<String>) {
    let _ = COUNT_ACCESSORS.set(names);
}

/// the expression mentions the identifier `count`, or calls a count accessor (`self.refcount()`)
pub fn mentions_count<T: ToTokens>(e: &T) -> bool {
    let ts = e.to_token_stream();
    if tokens_mention_ident(ts.clone(), "count") {
        return true;
    }
    if let Some(acc) = COUNT_ACCESSORS.get() {
        return acc.iter().any(|a| tokens_mention_ident(ts.clone(), a));
    }
    false
}

/// `.count` as a field access somewhere in the tokens
pub fn mentions_count_field<T: ToTokens>(e: &T) -> bool {
    fn go(ts: TokenStream) -> bool {
        let v: Vec<TokenTree> = ts.into_iter().collect();
        for i in 0..v.len() {
            match &v[i] {
                TokenTree::Ident(id) if id == "count" => {
                    if i > 0 {
                        if let TokenTree::Punct(p) = &v[i - 1] {
                            if p.as_char() == '.' {
                                return true;
                            }
                        }
                    }
                }
                TokenTree::Group(g) => {
                    if go(g.stream()) {
                        return true;
                    }
                }
                _ => {}
            }
        }
        false
    }
    go(e.to_token_stream())
}

/// kind and the index of the ordering argument of an atomic method
pub fn atomic_method(name: &str) -> Option<(Kind, Option<usize>)> {
    Some(match name {
        "load" => (Kind::Load, Some(0)),
        "store" => (Kind::Store, Some(1)),
        "swap" => (Kind::OtherRmw, Some(1)),
        "fetch_add" => (Kind::FetchAdd, Some(1)),
        "fetch_sub" => (Kind::FetchSub, Some(1)),
        "fetch_and" | "fetch_or" | "fetch_xor" | "fetch_nand" | "fetch_max" | "fetch_min" => (Kind::OtherRmw, Some(1)),
        "fetch_update" => (Kind::OtherRmw, Some(0)),
        "compare_exchange" | "compare_exchange_weak" | "compare_and_swap" => (Kind::OtherRmw, Some(2)),
        "get_mut" => (Kind::Store, None),
        "into_inner" => (Kind::Load, None),
        _ => return None,
    })
}

/// Is this method call an atomic access?  Returns (kind, ordering).
pub fn classify_atomic_call(m: &syn::ExprMethodCall) -> Option<(Kind, MemOrd)> {
    let name = m.method.to_string();
    let (kind, oi) = atomic_method(&name)?;
    let ord = oi.and_then(|i| m.args.iter().nth(i)).map(ordering_of).unwrap_or(MemOrd::Unknown);
    if UNMISTAKABLE.contains(&name.as_str()) {
        return Some((kind, ord));
    }
    if mentions_count(&*m.receiver) {
        return Some((kind, ord));
    }
    // `c.load(Acquire)` through a local alias of the count: the ordering argument gives it away
    let nargs = m.args.len();
    let shape_ok = match name.as_str() {
        "load" => nargs == 1,
        "store" | "swap" => nargs == 2,
        _ => false,
    };
    if shape_ok && ord != MemOrd::Unknown {
        return Some((kind, ord));
    }
    None
}

pub fn is_fence_path(p: &syn::Path) -> Option<&'static str> {
    match p.segments.last().map(|s| s.ident.to_string()).as_deref() {
        Some("fence") => Some("fence"),
        Some("compiler_fence") => Some("compiler_fence"),
        _ => None,
    }
}

pub fn is_box_from_raw(p: &syn::Path) -> bool {
    let s = path_idents(p);
    s.len() >= 2 && s[s.len() - 1] == "from_raw" && s[s.len() - 2] == "Box"
}

fn is_atomic_new(p: &syn::Path) -> bool {
    let s = path_idents(p);
    s.len() >= 2 && s[s.len() - 1] == "new" && s[s.len() - 2].starts_with("Atomic")
}

fn is_md_new(p: &syn::Path) -> bool {
    let s = path_idents(p);
    s.len() >= 2 && s[s.len() - 1] == "new" && s[s.len() - 2] == "ManuallyDrop"
}

fn is_forget(p: &syn::Path) -> bool {
    path_idents(p).last().map(|s| s == "forget").unwrap_or(false)
}

const RAW_WRITERS: &[&str] = &[
    "write",
    "write_volatile",
    "write_unaligned",
    "write_bytes",
    "replace",
    "copy",
    "copy_nonoverlapping",
    "swap",
];

fn is_raw_writer_path(p: &syn::Path) -> bool {
    let s = path_idents(p);
    s.len() >= 2 && RAW_WRITERS.contains(&s[s.len() - 1].as_str()) && (s[s.len() - 2] == "ptr" || s[s.len() - 2] == "mem")
}

// ------------------------------------------------------------------------------------------------

pub struct Body<'a> {
    pub krate: &'a Crate,
    pub by_name: &'a BTreeSet<String>,
    pub f: usize,
    env: Vec<(String, Ty)>,
    debug: u32,
    in_raw_write: u32,
    pub out: BodyFacts,
}

impl<'a> Body<'a> {
    pub fn new(krate: &'a Crate, by_name: &'a BTreeSet<String>, f: usize) -> Self {
        let mut env = Vec::new();
        for (n, t) in &krate.fns[f].params {
            if let Some(n) = n {
                env.push((n.clone(), t.clone()));
            }
        }
        Body { krate, by_name, f, env, debug: 0, in_raw_write: 0, out: BodyFacts::default() }
    }

    pub fn run(mut self) -> BodyFacts {
        let krate = self.krate;
        let block = &krate.fns[self.f].block;
        self.visit_block(block);
        self.out
    }

    fn self_ty(&self) -> Option<&str> {
        self.krate.fns[self.f].self_ty.as_deref()
    }

    fn lookup(&self, name: &str) -> Option<&Ty> {
        self.env.iter().rev().find(|(n, _)| n == name).map(|(_, t)| t)
    }

    fn push_site(&mut self, line: usize, kind: Kind, ord: MemOrd, raw_write: bool) {
        let fi = &self.krate.fns[self.f];
        self.out.sites.push(Site {
            file: fi.file.clone(),
            line,
            fn_: fi.qname.clone(),
            fn_idx: self.f,
            kind,
            ord,
            debug_only: self.debug > 0,
            raw_write,
            snippet: self.krate.snippet(&fi.file, line),
        });
    }

    fn push_edge(&mut self, targets: Vec<usize>, name: String, line: usize, col: usize) {
        if targets.is_empty() {
            return;
        }
        self.out.edges.push(Edge { targets, debug: self.debug > 0, name, line, col });
    }

    /// an unresolved path call / path value `X::name`: every crate function called `name` may be meant
    fn push_loose_path(&mut self, name: &str, line: usize, col: usize) {
        let v: Vec<usize> = (0..self.krate.fns.len()).filter(|&i| self.krate.fns[i].name == name).collect();
        if !v.is_empty() {
            self.out.loose_edges.push(Edge { targets: v, debug: self.debug > 0, name: name.to_string(), line, col });
        }
    }

    fn raw_write_site(&mut self, line: usize) {
        let fname = self.krate.fns[self.f].name.clone();
        if CTOR_FNS.contains(&fname.as_str()) {
            self.push_site(line, Kind::NewInit, MemOrd::Relaxed, false);
        } else {
            self.push_site(line, Kind::Store, MemOrd::Unknown, true);
        }
    }

    // --- resolution -----------------------------------------------------------------------------

    pub fn resolve_path(&self, qself: Option<&syn::QSelf>, p: &syn::Path) -> Vec<usize> {
        let segs = path_idents(p);
        let n = segs.len();
        if n == 0 {
            return vec![];
        }
        let name = &segs[n - 1];
        if let Some(q) = qself {
            // `<Arc<T>>::f` / `<Self as Trait>::f`
            if let Some((t, _)) = ty_of(&q.ty, self.self_ty(), &self.krate.types) {
                return self.krate.by_qname.get(&format!("{}::{}", t, name)).cloned().unwrap_or_default();
            }
            return vec![];
        }
        if n == 1 {
            if self.lookup(name).is_some() {
                return vec![]; // a local variable
            }
            return self.krate.free_by_name.get(name).cloned().unwrap_or_default();
        }
        let ty = &segs[n - 2];
        if ty == "crate" || ty == "super" || ty == "self" {
            return self.krate.free_by_name.get(name).cloned().unwrap_or_default();
        }
        let ty = if ty == "Self" {
            match self.self_ty() {
                Some(s) => s.to_string(),
                None => return vec![],
            }
        } else {
            ty.clone()
        };
        if let Some(v) = self.krate.by_qname.get(&format!("{}::{}", ty, name)) {
            return v.clone();
        }
        // `module::free_fn(..)`
        if !self.krate.types.contains(&ty) && ty.chars().next().map(|c| c.is_lowercase()).unwrap_or(false) {
            return self.krate.free_by_name.get(name).cloned().unwrap_or_default();
        }
        vec![]
    }

    pub fn resolve_method(&self, m: &syn::ExprMethodCall) -> Vec<usize> {
        let name = m.method.to_string();
        if let Some((t, _)) = self.infer(&m.receiver) {
            if let Some(v) = self.krate.by_qname.get(&format!("{}::{}", t, name)) {
                let v: Vec<usize> = v.iter().copied().filter(|&i| self.krate.fns[i].has_receiver).collect();
                if !v.is_empty() {
                    return v;
                }
            }
        }
        if self.by_name.contains(&name) {
            return self.krate.methods_by_name.get(&name).cloned().unwrap_or_default();
        }
        vec![]
    }

    fn common_ret(&self, targets: &[usize]) -> Ty {
        let mut it = targets.iter().map(|&t| self.krate.fns[t].ret.clone());
        let first = it.next()??;
        for o in it {
            if o.as_ref() != Some(&first) {
                return None;
            }
        }
        Some(first)
    }

    fn closure_sig(&self, targets: &[usize], idx: usize) -> Option<Vec<Ty>> {
        let mut res: Option<Vec<Ty>> = None;
        for &t in targets {
            let s = self.krate.fns[t].closure_sigs.get(idx).cloned().flatten()?;
            match &res {
                None => res = Some(s),
                Some(r) if *r == s => {}
                Some(_) => return None,
            }
        }
        res
    }

    pub fn infer(&self, e: &Expr) -> Ty {
        match e {
            Expr::Path(p) => {
                if p.qself.is_none() && p.path.segments.len() == 1 {
                    let id = p.path.segments[0].ident.to_string();
                    return self.lookup(&id).cloned().flatten();
                }
                None
            }
            Expr::Paren(p) => self.infer(&p.expr),
            Expr::Group(g) => self.infer(&g.expr),
            Expr::Reference(r) => self.infer(&r.expr).map(|(n, d)| (n, d.saturating_add(1))),
            Expr::Unary(u) => {
                if let syn::UnOp::Deref(_) = u.op {
                    match self.infer(&u.expr) {
                        Some((n, d)) if d > 0 => Some((n, d - 1)),
                        _ => None,
                    }
                } else {
                    None
                }
            }
            Expr::Unsafe(u) => self.infer_block(&u.block),
            Expr::Block(b) => self.infer_block(&b.block),
            Expr::Call(c) => {
                if let Expr::Path(p) = &*c.func {
                    if is_md_new(&p.path) {
                        return c.args.first().and_then(|a| self.infer(a)).map(|(n, d)| (n, d.saturating_add(1)));
                    }
                    let t = self.resolve_path(p.qself.as_ref(), &p.path);
                    return self.common_ret(&t);
                }
                None
            }
            Expr::MethodCall(m) => {
                let t = self.resolve_method(m);
                self.common_ret(&t)
            }
            Expr::Field(f) => {
                let (n, _) = self.infer(&f.base)?;
                let key = match &f.member {
                    syn::Member::Named(i) => i.to_string(),
                    syn::Member::Unnamed(i) => i.index.to_string(),
                };
                self.krate.fields.get(&(n, key)).cloned().flatten()
            }
            _ => None,
        }
    }

    fn infer_block(&self, b: &syn::Block) -> Ty {
        match b.stmts.last() {
            Some(syn::Stmt::Expr(e, None)) => self.infer(e),
            _ => None,
        }
    }

    // --- binding --------------------------------------------------------------------------------

    fn bind_pat(&mut self, pat: &syn::Pat, ty: Ty) {
        match pat {
            syn::Pat::Ident(pi) => {
                self.env.push((pi.ident.to_string(), ty));
                if let Some((_, sub)) = &pi.subpat {
                    self.bind_pat(sub, None);
                }
            }
            syn::Pat::Type(pt) => {
                let t = ty_of(&pt.ty, self.self_ty(), &self.krate.types).or(ty);
                self.bind_pat(&pt.pat, t);
            }
            syn::Pat::Reference(r) => {
                let t = ty.and_then(|(n, d)| if d > 0 { Some((n, d - 1)) } else { None });
                self.bind_pat(&r.pat, t);
            }
            syn::Pat::Paren(p) => self.bind_pat(&p.pat, ty),
            syn::Pat::Tuple(t) => {
                for p in &t.elems {
                    self.bind_pat(p, None);
                }
            }
            syn::Pat::TupleStruct(t) => {
                for p in &t.elems {
                    self.bind_pat(p, None);
                }
            }
            syn::Pat::Struct(s) => {
                for f in &s.fields {
                    self.bind_pat(&f.pat, None);
                }
            }
            syn::Pat::Slice(s) => {
                for p in &s.elems {
                    self.bind_pat(p, None);
                }
            }
            syn::Pat::Or(o) => {
                for p in &o.cases {
                    self.bind_pat(p, None);
                }
            }
            _ => {}
        }
    }

    fn closure(&mut self, c: &syn::ExprClosure, sig: Option<Vec<Ty>>) {
        let save = self.env.len();
        for (j, p) in c.inputs.iter().enumerate() {
            let t = sig.as_ref().and_then(|s| s.get(j).cloned()).flatten();
            self.bind_pat(p, t);
        }
        self.visit_expr(&c.body);
        self.env.truncate(save);
    }

    fn visit_args<'x>(&mut self, args: impl Iterator<Item = &'x Expr>, targets: &[usize], offset: usize) {
        for (i, a) in args.enumerate() {
            if let Expr::Closure(c) = a {
                let sig = self.closure_sig(targets, i + offset);
                self.closure(c, sig);
            } else {
                self.visit_expr(a);
            }
        }
    }

    // --- macros ---------------------------------------------------------------------------------

    fn scan_tokens(&mut self, ts: TokenStream) {
        let v: Vec<TokenTree> = ts.into_iter().collect();
        for i in 0..v.len() {
            match &v[i] {
                TokenTree::Ident(id) => {
                    let name = id.to_string();
                    let group = match v.get(i + 1) {
                        Some(TokenTree::Group(g)) if g.delimiter() == Delimiter::Parenthesis => Some(g),
                        _ => None,
                    };
                    let Some(g) = group else { continue };
                    let args = split_commas(g.stream());
                    let line = id.span().start().line;
                    if name == "fence" || name == "compiler_fence" {
                        let ord = if name == "fence" { args.first().map(|a| last_ident_ord(a)).unwrap_or(MemOrd::Unknown) } else { MemOrd::Unknown };
                        self.push_site(line, Kind::Fence, ord, false);
                        continue;
                    }
                    let after_dot = i > 0 && matches!(&v[i - 1], TokenTree::Punct(p) if p.as_char() == '.');
                    if !after_dot {
                        continue;
                    }
                    if let Some((kind, oi)) = atomic_method(&name) {
                        let ord = oi.and_then(|k| args.get(k)).map(|a| last_ident_ord(a)).unwrap_or(MemOrd::Unknown);
                        let recv_count = i >= 2 && matches!(&v[i - 2], TokenTree::Ident(c) if c == "count");
                        if UNMISTAKABLE.contains(&name.as_str()) || recv_count || ord != MemOrd::Unknown {
                            self.push_site(line, kind, ord, false);
                        }
                    }
                }
                TokenTree::Group(g) => self.scan_tokens(g.stream()),
                _ => {}
            }
        }
    }
}

fn split_commas(ts: TokenStream) -> Vec<Vec<TokenTree>> {
    let mut out = vec![Vec::new()];
    for t in ts {
        match &t {
            TokenTree::Punct(p) if p.as_char() == ',' => out.push(Vec::new()),
            _ => out.last_mut().unwrap().push(t),
        }
    }
    if out.last().map(|l| l.is_empty()).unwrap_or(false) {
        out.pop();
    }
    out
}

fn last_ident_ord(arg: &[TokenTree]) -> MemOrd {
    match arg.last() {
        Some(TokenTree::Ident(i)) => ordering_of_name(&i.to_string()),
        _ => MemOrd::Unknown,
    }
}

impl<'ast, 'a> Visit<'ast> for Body<'a> {
    fn visit_item(&mut self, _i: &'ast syn::Item) {
        // nested items are functions of their own
    }

    fn visit_block(&mut self, b: &'ast syn::Block) {
        let save = self.env.len();
        for s in &b.stmts {
            self.visit_stmt(s);
        }
        self.env.truncate(save);
    }

    fn visit_local(&mut self, l: &'ast syn::Local) {
        let mut ty = None;
        if let Some(init) = &l.init {
            self.visit_expr(&init.expr);
            ty = self.infer(&init.expr);
            if let Some((_, d)) = &init.diverge {
                self.visit_expr(d);
            }
        }
        self.bind_pat(&l.pat, ty);
    }

    fn visit_arm(&mut self, a: &'ast syn::Arm) {
        let save = self.env.len();
        self.bind_pat(&a.pat, None);
        if let Some((_, g)) = &a.guard {
            self.visit_expr(g);
        }
        self.visit_expr(&a.body);
        self.env.truncate(save);
    }

    fn visit_expr_for_loop(&mut self, f: &'ast syn::ExprForLoop) {
        self.visit_expr(&f.expr);
        let save = self.env.len();
        self.bind_pat(&f.pat, None);
        self.visit_block(&f.body);
        self.env.truncate(save);
    }

    fn visit_expr_let(&mut self, l: &'ast syn::ExprLet) {
        // `if let PAT = e { .. }`: bindings live until the enclosing block ends (over-approximation)
        self.visit_expr(&l.expr);
        self.bind_pat(&l.pat, None);
    }

    fn visit_expr_closure(&mut self, c: &'ast syn::ExprClosure) {
        self.closure(c, None);
    }

    fn visit_expr_method_call(&mut self, m: &'ast syn::ExprMethodCall) {
        let line = m.method.span().start().line;
        let name = m.method.to_string();
        let mut raw = false;
        if let Some((kind, ord)) = classify_atomic_call(m) {
            if name == "get_mut" {
                self.push_site(line, kind, ord, true);
            } else {
                self.push_site(line, kind, ord, false);
            }
        } else if RAW_WRITERS.contains(&name.as_str()) && mentions_count_field(&*m.receiver) {
            // `addr_of_mut!((*p).count).write(..)`
            self.raw_write_site(line);
            raw = true;
        }
        let col = m.method.span().start().column;
        let targets = self.resolve_method(m);
        if targets.is_empty() {
            if let Some(v) = self.krate.methods_by_name.get(&name) {
                self.out.loose_edges.push(Edge { targets: v.clone(), debug: self.debug > 0, name: name.clone(), line, col });
            }
        }
        self.push_edge(targets.clone(), name, line, col);
        self.visit_expr(&m.receiver);
        if raw {
            self.in_raw_write += 1;
        }
        self.visit_args(m.args.iter(), &targets, 1);
        if raw {
            self.in_raw_write -= 1;
        }
    }

    fn visit_expr_call(&mut self, c: &'ast syn::ExprCall) {
        let mut targets = Vec::new();
        let mut raw = false;
        if let Expr::Path(p) = &*c.func {
            let line = p.path.segments.last().map(|s| s.ident.span().start().line).unwrap_or(0);
            if let Some(which) = is_fence_path(&p.path) {
                let ord = if which == "fence" { c.args.first().map(ordering_of).unwrap_or(MemOrd::Unknown) } else { MemOrd::Unknown };
                self.push_site(line, Kind::Fence, ord, false);
            } else if is_atomic_new(&p.path) {
                if self.in_raw_write == 0 {
                    self.push_site(line, Kind::NewInit, MemOrd::Relaxed, false);
                }
            } else if is_raw_writer_path(&p.path) && c.args.iter().any(|a| mentions_count_field(a)) {
                self.raw_write_site(line);
                raw = true;
            }
            if is_box_from_raw(&p.path) && self.debug == 0 {
                self.out.has_box_from_raw = true;
            }
            if is_forget(&p.path) || is_md_new(&p.path) {
                self.out.has_forget = true;
            }
            targets = self.resolve_path(p.qself.as_ref(), &p.path);
            let name = p.path.segments.last().map(|s| s.ident.to_string()).unwrap_or_default();
            let col = p.path.segments.last().map(|s| s.ident.span().start().column).unwrap_or(0);
            if targets.is_empty() && p.path.segments.len() >= 2 {
                self.push_loose_path(&name, line, col);
            }
            self.push_edge(targets.clone(), name, line, col);
        } else {
            self.visit_expr(&c.func);
        }
        if raw {
            self.in_raw_write += 1;
        }
        self.visit_args(c.args.iter(), &targets, 0);
        if raw {
            self.in_raw_write -= 1;
        }
    }

    fn visit_expr_path(&mut self, p: &'ast syn::ExprPath) {
        // a function used as a value: `.map(UniqueArc::into_inner)`, `with_arc(this, Arc::strong_count)`
        if p.path.segments.len() >= 2 || p.qself.is_some() {
            let targets = self.resolve_path(p.qself.as_ref(), &p.path);
            let line = p.path.segments.last().map(|s| s.ident.span().start().line).unwrap_or(0);
            let col = p.path.segments.last().map(|s| s.ident.span().start().column).unwrap_or(0);
            let name = p.path.segments.last().map(|s| s.ident.to_string()).unwrap_or_default();
            if targets.is_empty() {
                self.push_loose_path(&name, line, col);
            }
            self.push_edge(targets, name, line, col);
        } else if p.path.segments.len() == 1 {
            let id = p.path.segments[0].ident.to_string();
            if self.lookup(&id).is_none() {
                if let Some(t) = self.krate.free_by_name.get(&id) {
                    let line = p.path.segments[0].ident.span().start().line;
                    let col = p.path.segments[0].ident.span().start().column;
                    self.push_edge(t.clone(), id, line, col);
                }
            }
        }
    }

    fn visit_expr_assign(&mut self, a: &'ast syn::ExprAssign) {
        if is_count_place(&a.left) {
            let line = a.left.span().start().line;
            self.raw_write_site(line);
            self.in_raw_write += 1;
            self.visit_expr(&a.right);
            self.in_raw_write -= 1;
            self.visit_expr(&a.left);
            return;
        }
        syn::visit::visit_expr_assign(self, a);
    }

    fn visit_expr_binary(&mut self, b: &'ast syn::ExprBinary) {
        use syn::BinOp::*;
        let compound = matches!(
            b.op,
            AddAssign(_) | SubAssign(_) | MulAssign(_) | DivAssign(_) | RemAssign(_) | BitXorAssign(_) | BitAndAssign(_) | BitOrAssign(_) | ShlAssign(_) | ShrAssign(_)
        );
        if compound && is_count_place(&b.left) {
            let line = b.left.span().start().line;
            self.raw_write_site(line);
        }
        syn::visit::visit_expr_binary(self, b);
    }

    fn visit_macro(&mut self, mac: &'ast syn::Macro) {
        let name = mac.path.segments.last().map(|s| s.ident.to_string()).unwrap_or_default();
        let is_debug = name.starts_with("debug_assert");
        if is_debug {
            self.debug += 1;
        }
        if let Ok(exprs) = mac.parse_body_with(Punctuated::<Expr, syn::Token![,]>::parse_terminated) {
            for e in exprs.iter() {
                self.visit_expr(e);
            }
        } else if let Ok(stmts) = mac.parse_body_with(syn::Block::parse_within) {
            let save = self.env.len();
            for s in stmts.iter() {
                self.visit_stmt(s);
            }
            self.env.truncate(save);
        } else {
            // not an expression list: look at the raw tokens so that an atomic access cannot hide
            self.scan_tokens(mac.tokens.clone());
        }
        if is_debug {
            self.debug -= 1;
        }
    }
}

/// `x.count`, `(*p).count`, `*x.count.get_mut()` … as the place of an assignment
fn is_count_place(e: &Expr) -> bool {
    match e {
        Expr::Field(f) => match &f.member {
            syn::Member::Named(i) if i == "count" => true,
            _ => is_count_place(&f.base),
        },
        Expr::Paren(p) => is_count_place(&p.expr),
        Expr::Group(g) => is_count_place(&g.expr),
        Expr::Unary(u) => is_count_place(&u.expr),
        Expr::Index(i) => is_count_place(&i.expr),
        _ => false,
    }
}

/// Token-level scan of a top-level macro item (`macro_rules!` …) for hidden atomic accesses.
pub fn scan_macro_item(krate: &Crate, by_name: &BTreeSet<String>, file: &str, name: &str, ts: TokenStream) -> Vec<Site> {
    // a throw-away Body bound to fn 0 only to reuse the scanner; sites are re-attributed below
    if krate.fns.is_empty() {
        return vec![];
    }
    let mut b = Body::new(krate, by_name, 0);
    b.scan_tokens(ts);
    let mut v = b.out.sites;
    for s in &mut v {
        s.file = file.to_string();
        s.fn_ = format!("macro:{}", name);
        s.fn_idx = usize::MAX;
        s.snippet = krate.snippet(file, s.line);
    }
    v
}
