"""C09 — unwrapping conserves the value: handed out once or kept, never both or neither.

Deciding method: (histories) Lean theorems in Props/C09.lean over M1: every uniqueness gate succeeds
iff `owners = 1` and leaves the state unchanged when it declines — tied by the history
correspondence; (schedules) `unique_verdict_exclusive` of the weak-memory model M4 instantiated at
the gate facts the translator reads from the source on this run (every load a gate reaches is at
least Acquire, the verdict compares with 1).  Miri litmus programs are the failing-input search.
"""
import json

from vlib import common, histcheck, miri

MODULE = "TriompheModel.Props.C09"
EXTRA = ["TriompheModel.Props.Gates", "TriompheModel.WM.Consume", "TriompheModel.Props.Monitor", "TriompheModel.Props.ApiShape", "TriompheModel.Props.C09Programs", "TriompheModel.WM.OwnershipConsume", "TriompheModel.WM.OwnershipExUnwrap"]
TAGS = ["C09"]
WEIGHTS = dict(tryUnwrap=18, unwrapOrClone=16, intoInner=8, tryUnique=16, clone=18, conv=16, create=16, drop=8)
PROGRAMS_QUICK = ["try_unwrap_vs_drop", "sole_owner_gates"]


def schedule_part(ctx, prop, programs_quick):
    facts = common.regen_facts(ctx)
    a = facts.get("atomics", {})
    ctx.coverage["generated_facts"] = {"gates": a.get("gates"), "isUniqueGuard": a.get("isUniqueGuard"), "countLoadOrd": a.get("countLoadOrd"),
                                       "decOrd": a.get("decOrd")}
    progs = programs_quick if not ctx.thorough() else miri.programs_for(prop)
    res = miri.run_suite(ctx, progs, miri.seeds(ctx, 2 if not ctx.thorough() else 24))
    cov = miri.coverage(res)
    ctx.coverage["miri"] = {k: cov[k] for k in cov if k not in ("samples",)}
    ctx.coverage["miri_samples"] = cov.get("samples", [])[:3]
    bad = miri.failing(res)
    ctx.oblige("miri:litmus-race-free", not bad, "%d failing runs" % len(bad))
    return facts, res, bad


def schedule_search(ctx, prop, bad, lean_failed):
    """called when a Lean obligation on the gate facts failed: find a Miri witness"""
    if not bad:
        more = miri.run_suite(ctx, miri.programs_for(prop), miri.seeds(ctx, 16), stop_first=True)
        bad = miri.failing(more)
        ctx.coverage["search_runs"] = len(more)
    body = ["Lean obligations on the regenerated gate facts that no longer check: %s" % lean_failed,
            "generated facts: " + json.dumps(ctx.coverage.get("generated_facts")), ""]
    try:
        body += [common.wm_search(ctx, common.regen_facts(ctx))[1], ""]
    except Exception as e:
        body += ["model-side search failed to run: %s" % e, ""]
    if bad:
        r = bad[0]
        body += ["failing input: Miri litmus program `%s` with -Zmiri-seed=%d:" % (r["program"], r["seed"]), "  replay: " + r["cmd"], r["report"]]
        ctx.violation("miri", "\n".join(body), True)
    else:
        nat = miri.run_native(ctx, miri.programs_for(prop))
        nbad = miri.failing(nat)
        if nbad:
            r = nbad[0]
            body += ["failing input: litmus program `%s` run natively (%d rounds, real threads):" % (r["program"], r.get("rounds", 0)), "  replay: " + r["cmd"], r["report"]]
            ctx.violation("native", "\n".join(body), True)
        else:
            body.append("search: Miri runs and native stress runs found no race")
            ctx.defer_nfi("\n".join(body))


def run(ctx):
    facts, res, bad = schedule_part(ctx, "C09", PROGRAMS_QUICK)
    from vlib.props import c08
    c08.cow_class_sweep(ctx, "C09", ops=("unwrap_or_clone",))
    # the racing programs natively, real threads, with the crate's debug assertions ON (the build a client's `cargo test` uses):
    # "otherwise the very same handle comes back" also when the other owner lets go while the gate is declining
    nat = miri.run_native(ctx, ["try_unwrap_vs_drop", "try_unique_vs_drop", "racing_try_unwrap_2t", "unwrap_or_clone_vs_drop"], rounds=3000, timeout_s=120, debug_assertions=True)
    nbad = miri.failing(nat)
    ctx.coverage["native_debug_assertions"] = miri.status_counts(nat)
    ctx.oblige("litmus:native-with-debug-assertions", not nbad, "%d failing" % len(nbad))
    if nbad:
        r = nbad[0]
        ctx.violation("native", "\n".join(["failing input: litmus program `%s` run natively (%d rounds, real threads, debug assertions on):" % (r["program"], r.get("rounds", 0)), "  replay: " + r["cmd"], r["report"]]), True)
    histcheck.run(ctx, MODULE, WEIGHTS, TAGS, lean_extra=EXTRA)
    # "... and the allocation is released": over every payload shape (size not a multiple of the word, over-aligned, ZST)
    from vlib import layout_corr
    oku, stats, failures = layout_corr.unwrap_pass(ctx)
    ctx.oblige("corr:unwrap-over-shape-matrix", oku, "%d failing" % len(failures))
    ctx.coverage["unwrap_shape_matrix"] = stats
    ctx.coverage["evaluations"] = ctx.coverage.get("evaluations", 0) + stats["cases"]
    if not oku:
        body = "try_unwrap / into_inner / try_unique over the shape matrix: implementation vs layout model / property:\n\n" + "\n\n".join(f["text"] for f in failures[:4])
        if any(f.get("found_input") for f in failures):
            ctx.violation("shape", body, True)
        else:
            ctx.defer_nfi(body)
    if bad and not any(v["kind"] == "miri" for v in ctx.violations) and not getattr(ctx, "sched_handled", False):
        schedule_search(ctx, "C09", bad, [])


def replay(ctx, path):
    if "kind: miri" in open(path).read():
        miri.replay(ctx, path)
    else:
        histcheck.replay(ctx, path, TAGS)
