import TriompheModel.Proofs.HistLenStep
import TriompheModel.Proofs.HistInv
/-!
# Two more invariants of the sequential handle machine (M1): lengths and layouts

* `LenInv s` — every handle value in a slot views its block at the real slice length: fat pointers
  carry `elems.length`, thin pointers find it in the block's length word, sized views are only used
  on one-slot blocks.  (C10: "for every ThinArc obtainable through the safe API the stored length
  equals the real slice length".)
* `LayInv s` — whoever releases a block computes the layout it was requested with:
  `Layout::for_value` through the `Arc` view of any owning handle (`asArc`) is the block's `lay`.
* `DL m` — every `dealloc` event in the log records the layout its block was requested with; with
  `LogInv.lay` (the `alloc` event records it too) this gives `dealloc_layout_eq_alloc_layout`,
  the history clause of C05.

All three are proved for `State.init`, preserved by `step s op` for EVERY op, hence true of
`run ops` for every finite history.  The case analysis is in `Proofs/HistLenStep.lean` (one pass,
`TyInvG wl wd`, the switches turning the layout / log clauses on); the request = release layout
arithmetic comes from `Props/C05.lean`.
-/
namespace M1
open LY

/-- every slot's handle views an existing block at its real length (`LenOk`, `Proofs/HistLenBase`) -/
structure LenInv (s : State) : Prop where
  ok : ∀ (i : Nat) (h : HV), (i, h) ∈ s.slots →
        ∃ k : Block, s.mem.blocks[h.blk]? = some k ∧ LenOk h k.shape

/-- the `Arc` view through which an owning handle is released computes the requested layout -/
structure LayInv (s : State) : Prop where
  lay : ∀ (i : Nat) (h : HV), (i, h) ∈ s.slots → ∀ k : Block, s.mem.blocks[h.blk]? = some k →
        (asArc s.mem h).ty.releaseLayout (viewLen s.mem (asArc s.mem h)) = k.lay

/-! ## bridge to the switched invariant -/

theorem asArc_ty {m : Mem} {h : HV} {sh : Shape} (ho : LenOk h sh) : (asArc m h).ty = h.ty := by
  unfold asArc
  cases hk : h.kind <;> simp only
  case thin => exact (ho.thin (by rw [hk]; rfl)).1.symm
  case rawThin => exact (ho.thin (by rw [hk]; rfl)).1.symm
  all_goals rfl

/-- under `LenInv`, `LayInv`'s clause for a slot is `LayOk` -/
theorem lay_iff_layOk {m : Mem} {h : HV} {k : Block} (hk : m.blocks[h.blk]? = some k)
    (ho : LenOk h k.shape) :
    (asArc m h).ty.releaseLayout (viewLen m (asArc m h)) = k.lay ↔ LayOk h k.shape := by
  have hoa : Ok False (asArc m h) k.shape := (asArc_ok (wl := False) ⟨ho, False.elim⟩ hk).1
  have hk' : m.blocks[(asArc m h).blk]? = some k := by rw [asArc_blk]; exact hk
  rw [viewLen_of_ok hk' hoa.1, asArc_ty ho]
  exact Iff.rfl

theorem LenInv.toTy {s : State} (h : LenInv s) : TyInvG False False s where
  hok := fun e he => by
    obtain ⟨k, hk, ho⟩ := h.ok e.1 e.2 he
    exact ⟨k, hk, ho, False.elim⟩
  dl := False.elim

theorem TyInvG.toLen {wl wd : Prop} {s : State} (h : TyInvG wl wd s) : LenInv s where
  ok := fun i hv he => by
    obtain ⟨k, hk, ho⟩ := h.hok (i, hv) he
    exact ⟨k, hk, ho.1⟩

theorem TyInvG.toLay {wd : Prop} {s : State} (h : TyInvG True wd s) : LayInv s where
  lay := fun i hv he k hk => by
    obtain ⟨k', hk', ho⟩ := h.hok (i, hv) he
    rw [hk] at hk'; cases hk'
    exact (lay_iff_layOk hk ho.1).2 (ho.2 trivial)

theorem toTy_lay {s : State} (h1 : LenInv s) (h2 : LayInv s) : TyInvG True False s where
  hok := fun e he => by
    obtain ⟨k, hk, ho⟩ := h1.ok e.1 e.2 he
    exact ⟨k, hk, ho, fun _ => (lay_iff_layOk hk ho).1 (h2.lay e.1 e.2 he k hk)⟩
  dl := False.elim

theorem toTy_all {s : State} (h1 : LenInv s) (h2 : LayInv s) (h3 : DL s.mem) : TyInvG True True s :=
  ⟨(toTy_lay h1 h2).hok, fun _ => h3⟩

/-! ## results -/

theorem leninv_init : LenInv State.init := (TyInvG.init (wl := False) (wd := False)).toLen
theorem layinv_init : LayInv State.init := (TyInvG.init (wl := True) (wd := False)).toLay
theorem dl_init : DL State.init.mem := fun _ _ _ h => by cases h

/-- every op keeps every handle's view of the slice length right (`Inv s` is not even needed) -/
theorem leninv_step (s : State) (op : Op) (_hi : Inv s) (h : LenInv s) : LenInv (step s op).1 :=
  (ty_step h.toTy id op).toLen

/-- every op keeps the release layout of every handle equal to the requested layout -/
theorem layinv_step (s : State) (op : Op) (_hi : Inv s) (h1 : LenInv s) (h2 : LayInv s) :
    LayInv (step s op).1 :=
  (ty_step (toTy_lay h1 h2) False.elim op).toLay

/-- every op records, with each `dealloc`, the layout the block was requested with -/
theorem dl_step (s : State) (op : Op) (_hi : Inv s) (h1 : LenInv s) (h2 : LayInv s) (h3 : DL s.mem) :
    DL (step s op).1.mem :=
  (ty_step (toTy_all h1 h2 h3) (fun h => h) op).dl trivial

theorem ty_run_from (s : State) (h : TyInvG True True s) (ops : List Op) :
    TyInvG True True (ops.foldl (fun s o => (step s o).1) s) := by
  induction ops generalizing s with
  | nil => exact h
  | cons o r ih => exact ih _ (ty_step h (fun h => h) o)

theorem ty_run (ops : List Op) : TyInvG True True (run ops) := ty_run_from _ TyInvG.init ops

theorem leninv_run (ops : List Op) : LenInv (run ops) := (ty_run ops).toLen
theorem layinv_run (ops : List Op) : LayInv (run ops) := (ty_run ops).toLay
theorem dl_run (ops : List Op) : DL (run ops).mem := (ty_run ops).dl trivial

/-! ### what `LenInv` says, unpacked -/

/-- the slice length any handle's view sees is the real one -/
theorem LenInv.viewLen_eq {s : State} (hl : LenInv s) {i : Nat} {h : HV} (hs : lookup s i = some h) :
    ∃ k : Block, s.mem.blocks[h.blk]? = some k ∧ viewLen s.mem h = k.elems.length ∧
      viewLen s.mem (asArc s.mem h) = k.elems.length := by
  obtain ⟨k, hk, ho⟩ := hl.ok i h (lookup_mem hs)
  have hoa : Ok False (asArc s.mem h) k.shape := (asArc_ok (wl := False) ⟨ho, False.elim⟩ hk).1
  have hk' : s.mem.blocks[(asArc s.mem h).blk]? = some k := by rw [asArc_blk]; exact hk
  exact ⟨k, hk, viewLen_of_ok hk ho, viewLen_of_ok hk' hoa.1⟩

/-- [C10] for every ThinArc (or raw thin pointer) obtainable through the op language, after any
history, the length stored in the block equals the real slice length -/
theorem thin_len_correct (ops : List Op) (i : Nat) (h : HV) (hs : lookup (run ops) i = some h)
    (hk : h.kind = .thin ∨ h.kind = .rawThin) :
    ∃ k : Block, (run ops).mem.blocks[h.blk]? = some k ∧ k.recLen = some k.elems.length := by
  obtain ⟨k, hkb, ho⟩ := (leninv_run ops).ok i h (lookup_mem hs)
  have ht : h.kind.isThin = true := by rcases hk with hk | hk <;> rw [hk] <;> rfl
  exact ⟨k, hkb, (ho.thin ht).2⟩

/-- … and its view type is the `HeaderWithLength` one -/
theorem thin_ty_hwl (ops : List Op) (i : Nat) (h : HV) (hs : lookup (run ops) i = some h)
    (hk : h.kind = .thin ∨ h.kind = .rawThin) : h.ty = .hwl := by
  obtain ⟨k, _, ho⟩ := (leninv_run ops).ok i h (lookup_mem hs)
  have ht : h.kind.isThin = true := by rcases hk with hk | hk <;> rw [hk] <;> rfl
  exact (ho.thin ht).1

/-- every fat handle with a slice-like view carries the real slice length -/
theorem fat_len_correct (ops : List Op) (i : Nat) (h : HV) (hs : lookup (run ops) i = some h)
    (hk : h.kind ≠ .thin ∧ h.kind ≠ .rawThin) (hty : h.ty.isSlicey = true) :
    ∃ k : Block, (run ops).mem.blocks[h.blk]? = some k ∧ h.len = k.elems.length := by
  obtain ⟨k, hkb, ho⟩ := (leninv_run ops).ok i h (lookup_mem hs)
  have ht : h.kind.isThin = false := by
    cases hkd : h.kind <;> first | rfl | exact absurd hkd hk.1 | exact absurd hkd hk.2
  exact ⟨k, hkb, ho.fat ht hty⟩

/-- a sized view (`T`, `dyn Tr`, `MaybeUninit<T>`) is only ever held on a one-slot block -/
theorem sized_one_slot (ops : List Op) (i : Nat) (h : HV) (hs : lookup (run ops) i = some h)
    (hty : h.ty.isSlicey = false) :
    ∃ k : Block, (run ops).mem.blocks[h.blk]? = some k ∧ k.elems.length = 1 := by
  obtain ⟨k, hkb, ho⟩ := (leninv_run ops).ok i h (lookup_mem hs)
  exact ⟨k, hkb, ho.one hty⟩

/-! ### the history clause of C05 -/

/-- **every block is returned to the allocator with exactly the size and alignment it was requested
with**, whatever handle kind / conversion path releases it (`drop` of any kind, `dropAll`,
`try_unwrap` / `into_inner`, `into_thin`'s refusal, `with_arc_mut`'s implicit drop, the destroy
after a `ThinArc::from_header_and_iter` length mismatch, `unwrap_or_clone`, `make_mut`) -/
theorem dealloc_layout_eq_alloc_layout (ops : List Op) (b sz al sz' al' : Nat)
    (ha : Event.alloc b sz al ∈ (run ops).mem.log) (hd : Event.dealloc b sz' al' ∈ (run ops).mem.log) :
    sz' = sz ∧ al' = al := by
  obtain ⟨k, hk, hl⟩ := (loginv_run ops).lay b sz al ha
  obtain ⟨k', hk', hl'⟩ := dl_run ops b sz' al' hd
  rw [hk] at hk'; cases hk'
  rw [hl] at hl'
  simp only [Layout.mk.injEq] at hl'
  exact ⟨hl'.1.symm, hl'.2.symm⟩

/-! ## non-vacuity -/

/-- a ThinArc built from a vec, cloned inside `with_arc_mut`, round-tripped through a raw pointer,
a `[T]` built uninitialised, written, `assume_init`ed and given its unit header back; a second
`into_thin` refused (stored length 9 ≠ 1: the block is destroyed on the spot) -/
def exampleLenHistory : List Op :=
  [.create 0 (.hwlFromVec ⟨1, 1⟩ 3 [⟨2, 2⟩, ⟨3, 3⟩, ⟨4, 4⟩]), .intoThin 0,
   .withCb 0 .thinWithArcMut [.cloneTo 1], .conv 1 .thinIntoRaw,
   .create 2 (.newUninitSlice 2), .writeSlot 2 0 ⟨5, 5⟩, .writeSlot 2 1 ⟨6, 6⟩,
   .conv 2 .assumeInit, .conv 2 .addHeader,
   .create 3 (.hwlFromVec ⟨7, 7⟩ 9 [⟨8, 8⟩]), .intoThin 3]

example : (lookup (run exampleLenHistory) 1).map (·.kind) = some .rawThin ∧
    (lookup (run exampleLenHistory) 2).map (·.ty) = some .uslice ∧
    lookup (run exampleLenHistory) 3 = none ∧
    (run exampleLenHistory).mem.log.length = 6 := by decide

example : (run (exampleLenHistory ++ [.dropAll])).mem.log.filter (fun e => !e.quiet) =
    [.alloc 0 48 8, .alloc 1 24 8, .alloc 2 32 8, .dealloc 2 32 8, .dealloc 0 48 8, .dealloc 1 24 8] := by
  decide

end M1
