import TriompheModel.Model.Ops
/-!
# C12 — an ArcUnion remembers which variant it holds and treats it as that type (history half)

The arithmetic half (bit 0 of every data address is free; tag / untag) is Props/C12Arith.lean over
the layout model.  Here: what the union operations of M1 do, for every memory and handle.
-/
namespace M1
namespace C12

/-- the variant is what the constructor was, and the union refers to the very same block, at the
data address of the `Arc` it was made from -/
theorem C12_variant_remembered (m : Mem) (a : HV) :
    (ArcUnion.from_first m a).kind = .unionA ∧ (ArcUnion.from_second m a).kind = .unionB ∧
    (ArcUnion.from_first m a).blk = a.blk ∧ (ArcUnion.from_second m a).blk = a.blk ∧
    (ArcUnion.from_first m a).ty = a.ty ∧ (ArcUnion.from_second m a).ty = a.ty ∧
    (ArcUnion.from_first m a).off = Arc.as_ptr_off m a ∧ (ArcUnion.from_second m a).off = Arc.as_ptr_off m a := by
  simp [ArcUnion.from_first, ArcUnion.from_second, Arc.into_raw]

/-- `borrow()` yields the original data address (tag stripped) with the variant's type -/
theorem C12_borrow_is_data_ptr (m : Mem) (a : HV) :
    ArcUnion.borrow (ArcUnion.from_first m a) = Arc.into_raw m a ∧
    ArcUnion.borrow (ArcUnion.from_second m a) = Arc.into_raw m a := by
  simp [ArcUnion.borrow, ArcUnion.from_first, ArcUnion.from_second, Arc.into_raw]

/-- **clone moves the count of that block by one and keeps the variant** -/
theorem C12_clone (m : Mem) (u : HV) :
    (ArcUnion.clone m u).1 = incr m u.blk ∧ (ArcUnion.clone m u).2.blk = u.blk ∧
    (ArcUnion.clone m u).2.ty = u.ty ∧
    (u.kind = .unionA → (ArcUnion.clone m u).2.kind = .unionA) ∧
    (u.kind = .unionB → (ArcUnion.clone m u).2.kind = .unionB) := by
  simp only [ArcUnion.clone, ArcBorrow.clone_arc, Arc.clone, Arc.from_raw, ArcUnion.borrow]
  refine ⟨trivial, ?_, ?_, ?_, ?_⟩
  · split <;> simp [ArcUnion.from_first, ArcUnion.from_second, Arc.into_raw]
  · split <;> simp [ArcUnion.from_first, ArcUnion.from_second, Arc.into_raw]
  · intro h; simp [h, ArcUnion.from_first, Arc.into_raw]
  · intro h; simp [h, ArcUnion.from_second, Arc.into_raw]

/-- **drop releases that block as a handle of the variant's type**: one `drop_inner` on the block
with the variant's view (hence that type's destructor and layout) -/
theorem C12_drop (m : Mem) (u : HV) :
    ArcUnion.drop m u = decr m u.blk u.ty (viewLen m (Arc.from_raw m (ArcUnion.borrow u))) := by
  simp [ArcUnion.drop, Arc.drop, Arc.from_raw, ArcUnion.borrow]

/-- the two variants have different payload types in the model (Tracked 8/4 vs TrackedB 16/8): the
release layout is the variant's own -/
theorem C12_release_layout_differs : Ty.sized.releaseLayout 1 ≠ Ty.sizedB.releaseLayout 1 := by decide

end C12
end M1
