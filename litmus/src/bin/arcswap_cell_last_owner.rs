//! C02 with the arc-swap integration (`RefCnt for Arc<T>` / `ThinArc<H, T>`): an `ArcSwapAny` cell is one more owner.  Thread B
//! reads through its own handle and drops it; the cell — dropped by the main thread without any other synchronisation — is the
//! last owner and destroys the value through `RefCnt::dec`: B's read must happen-before that destruction.  Also: `load_full`
//! (RefCnt::inc) in one thread while another drops its handle, then the loaded handle is the last one.
use litmus::*;
use arc_swap::ArcSwapAny;
use triomphe::{Arc, ThinArc};

fn main() {
    let mut t = Tally::new();
    for r in 0..rounds(2) {
        // ---- ThinArc in the cell -------------------------------------------------------------
        let tag = 1500 + r as u64;
        let th = Thin::make(tag);
        t.shared(2);
        let th2 = th.clone();
        let cell: ArcSwapAny<ThinArc<Payload, Box<u64>>> = ArcSwapAny::new(th);
        std::thread::scope(|s| {
            s.spawn(move || {
                th2.read();
                drop(th2);
            });
            // no join before the cell goes away: the only ordering between B's read and the destruction is the count
            let got = cell.load_full();
            got.read();
            drop(got);
            drop(cell);
        });
        // ---- Arc<T> in the cell --------------------------------------------------------------
        let tag = 1600 + r as u64;
        let a = Arc::new(Payload::new(tag));
        t.shared(2);
        let b = a.clone();
        let cell: ArcSwapAny<Arc<Payload>> = ArcSwapAny::new(a);
        std::thread::scope(|s| {
            s.spawn(move || {
                b.read_expect(tag);
                drop(b);
            });
            let g = cell.load();
            g.read_expect(tag);
            drop(g);
            drop(cell);
        });
    }
    t.finish();
}
