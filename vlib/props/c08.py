"""C08 — copy-on-write: a write through make_mut is never seen through another handle.

Deciding method: (histories) Lean theorems in Props/C08.lean over M1: every uniqueness gate succeeds
iff `owners = 1` and leaves the state unchanged when it declines — tied by the history
correspondence; (schedules) `unique_verdict_exclusive` of the weak-memory model M4 instantiated at
the gate facts the translator reads from the source on this run (every load a gate reaches is at
least Acquire, the verdict compares with 1).  Miri litmus programs are the failing-input search.
"""
import json

from vlib import common, histcheck, miri

MODULE = "TriompheModel.Props.C08"
EXTRA = ["TriompheModel.Props.Gates", "TriompheModel.Proofs.HistCow", "TriompheModel.WM.Later", "TriompheModel.Props.Monitor", "TriompheModel.Props.ApiShape", "TriompheModel.Props.C03Programs"]
TAGS = ["C08"]
WEIGHTS = dict(makeMut=26, makeUnique=14, clone=18, cloneArc=8, conv=16, cb=8, drop=10)
PROGRAMS_QUICK = ["make_mut_vs_readers", "offset_make_mut_overaligned", "unwrap_or_clone_vs_make_mut"]


def schedule_part(ctx, prop, programs_quick):
    facts = common.regen_facts(ctx)
    a = facts.get("atomics", {})
    ctx.coverage["generated_facts"] = {"gates": a.get("gates"), "isUniqueGuard": a.get("isUniqueGuard"), "countLoadOrd": a.get("countLoadOrd"),
                                       "decOrd": a.get("decOrd")}
    progs = programs_quick if not ctx.thorough() else miri.programs_for(prop)
    res = miri.run_suite(ctx, progs, miri.seeds(ctx, 2 if not ctx.thorough() else 24))
    cov = miri.coverage(res)
    ctx.coverage["miri"] = {k: cov[k] for k in cov if k not in ("samples",)}
    ctx.coverage["miri_samples"] = cov.get("samples", [])[:3]
    bad = miri.failing(res)
    ctx.oblige("miri:litmus-race-free", not bad, "%d failing runs" % len(bad))
    return facts, res, bad


def schedule_search(ctx, prop, bad, lean_failed):
    """called when a Lean obligation on the gate facts failed: find a Miri witness"""
    if not bad:
        more = miri.run_suite(ctx, miri.programs_for(prop), miri.seeds(ctx, 16), stop_first=True)
        bad = miri.failing(more)
        ctx.coverage["search_runs"] = len(more)
    body = ["Lean obligations on the regenerated gate facts that no longer check: %s" % lean_failed,
            "generated facts: " + json.dumps(ctx.coverage.get("generated_facts")), ""]
    try:
        body += [common.wm_search(ctx, common.regen_facts(ctx))[1], ""]
    except Exception as e:
        body += ["model-side search failed to run: %s" % e, ""]
    if bad:
        r = bad[0]
        body += ["failing input: Miri litmus program `%s` with -Zmiri-seed=%d:" % (r["program"], r["seed"]), "  replay: " + r["cmd"], r["report"]]
        ctx.violation("miri", "\n".join(body), True)
    else:
        nat = miri.run_native(ctx, miri.programs_for(prop))
        nbad = miri.failing(nat)
        if nbad:
            r = nbad[0]
            body += ["failing input: litmus program `%s` run natively (%d rounds, real threads):" % (r["program"], r.get("rounds", 0)), "  replay: " + r["cmd"], r["report"]]
            ctx.violation("native", "\n".join(body), True)
        else:
            body.append("search: Miri runs and native stress runs found no race")
            ctx.defer_nfi("\n".join(body))


COW_CLASSES = ["nodrop", "nodrop_big", "withdrop", "zst", "wide"]


def cow_class_sweep(ctx, prop="C08", ops=("make_mut", "make_unique", "offset_make_mut")):
    """the same abstract copy-on-write cases at every payload class (no drop glue but an observable `Clone`, drop glue,
    zero-sized, over-aligned, large): the model is generic in the values, so its verdict — sole owner: same allocation,
    `Clone` not called; shared: `Clone` called exactly once, fresh allocation with count 1, the old one loses one owner,
    the other handles keep seeing the old value (Lean: C08_unique_in_place / C08_shared_redirects / C09_unwrap_or_clone)
    — must carry over to every class, in the dev and the release profile."""
    import subprocess
    cases = [(c, o, n, k) for c in COW_CLASSES for o in ops for n in (1, 2, 3) for k in (("arc",) if n == 1 else ("arc", "offset", "union", "raw"))]
    text = "".join("cow %s %s %d %s\n" % c for c in cases)
    bad, ran = [], 0
    for rel in (False, True):
        exe, out = common.cargo_build_bin(ctx, "cow", release=rel)
        if exe is None:
            ctx.oblige("corr:cow-class-sweep-build", False, out[-1500:])
            ctx.defer_nfi("the copy-on-write class sweep harness does not build against this tree:\n" + out[-2500:])
            return
        pr = subprocess.run([exe], input=text, capture_output=True, text=True, timeout=120)
        lines = pr.stdout.split("\n")
        for i, (c, o, n, k) in enumerate(cases):
            l = lines[i] if i < len(lines) and lines[i] else "st=crash(rc=%s)" % pr.returncode
            ran += 1
            kv = dict(x.split("=", 1) for x in l.split() if "=" in x)
            shared = n > 1
            why = []
            if kv.get("st") != "ok":
                why.append("status %s" % kv.get("st"))
            else:
                if kv["clones"] != ("1" if shared else "0"):
                    why.append("Clone::clone was called %s time(s), the model says %d" % (kv["clones"], 1 if shared else 0))
                if kv["same_alloc"] != ("0" if shared else "1"):
                    why.append("same allocation afterwards: %s, the model says %s" % (kv["same_alloc"], "no" if shared else "yes"))
                if shared and c != "zst" and kv["gen"] != "1":
                    why.append("the value the handle now refers to was not made by Clone (generation mark %s)" % kv["gen"])
                if shared and kv["other"] != ("0" if c == "zst" else "5"):
                    why.append("another handle sees %s instead of the old value" % kv["other"])
                if shared and kv["old_cnt"] != str(n - 1):
                    why.append("the old allocation reports count %s with %d owner(s) left" % (kv["old_cnt"], n - 1))
                if o != "unwrap_or_clone" and kv["new_cnt"] != "1":
                    why.append("the handle's allocation reports count %s" % kv["new_cnt"])
                if o != "unwrap_or_clone" and c != "zst" and kv["mine"] != "9":
                    why.append("the write is not visible through the handle itself (%s)" % kv["mine"])
            if why:
                bad.append(("cow %s %s %d %s" % (c, o, n, k), "release" if rel else "dev", l, why))
    ctx.coverage["cow_class_sweep"] = {"cases": ran, "classes": COW_CLASSES, "ops": list(ops), "failures": len(bad)}
    ctx.coverage["evaluations"] = ctx.coverage.get("evaluations", 0) + ran
    ctx.oblige("corr:cow-class-sweep", not bad, "%d failing" % len(bad))
    if bad:
        body = ["copy-on-write over payload classes: the real crate vs the (value-generic) model and the property", ""]
        for ln, prof, l, why in bad[:8]:
            body += ["case : %s   [%s profile]" % (ln, prof), "  impl : " + l, "  PROPERTY %s FAILS: " % prop + "; ".join(why), ""]
        body.append("replay: printf '<case line>\\n' | <harness bin cow>")
        ctx.violation("ops", "\n".join(body), True)



def cow_destructor_panic_pass(ctx, prop="C08"):
    """copy-on-write on a shared handle whose other owner leaves inside `T::clone`: the release of the old allocation at the
    end of make_mut / make_unique is then the LAST one and runs the old value's destructor, which panics (or not).  In the
    model the call is `makeMut` followed by the release of the other owner (Driver/Hist.lean `makeMutH … drop`): the handle
    is redirected to the fresh, solely owned copy whatever the destructor of the old value does; both blocks are freed once."""
    import subprocess
    exe, out = common.cargo_build_bin(ctx, "uninit")
    if exe is None:
        return
    cases = [(o, w) for o in ("make_mut", "make_unique") for w in ("none", "el")]
    pr = subprocess.run([exe], input="".join("cowdp %s %s\n" % c for c in cases), capture_output=True, text=True, timeout=120)
    lines = pr.stdout.split("\n")
    bad = []
    for i, (o, w) in enumerate(cases):
        l = lines[i] if i < len(lines) and lines[i] else "st=crash(rc=%s)" % pr.returncode
        kv = dict(x.split("=", 1) for x in l.split() if "=" in x)
        why = []
        if kv.get("st") != ("panic" if w == "el" else "ok"):
            why.append("status %s" % kv.get("st"))
        if kv.get("val") != "107":
            why.append("after the call the handle reads %s, the copy made by Clone is 107: the handle was not redirected to the fresh copy" % kv.get("val"))
        if kv.get("cnt") != "1":
            why.append("the handle reports count %s, must be the sole owner of the copy" % kv.get("cnt"))
        if kv.get("never_freed") != "0" or kv.get("freed_twice") != "0" or kv.get("blocks") != "2":
            why.append("allocator: %s blocks, %s never freed, %s freed twice (expected 2 / 0 / 0)" % (kv.get("blocks"), kv.get("never_freed"), kv.get("freed_twice")))
        if kv.get("edrop") != "2":
            why.append("%s destructor runs, expected 2 (the old value and the copy)" % kv.get("edrop"))
        if why:
            bad.append(((o, w), l, why))
    ctx.oblige("faults:cow-last-release-with-panicking-destructor", not bad, "%d failing" % len(bad))
    ctx.coverage["cow_destructor_panic"] = {"cases": len(cases), "failures": len(bad), "sample": lines[1] if len(lines) > 1 else ""}
    ctx.coverage["evaluations"] = ctx.coverage.get("evaluations", 0) + len(cases)
    if bad:
        body = ["copy-on-write on a shared handle; the other owner is dropped inside T::clone, so the old allocation's last release happens inside the call; its destructor panics (el) or not (none):", ""]
        for (c, l, why) in bad[:4]:
            body += ["case : cowdp %s %s" % c, "  impl : " + l, "  PROPERTY %s FAILS: " % prop + "; ".join(why), ""]
        ctx.violation("ops", "\n".join(body), True)

def run(ctx):
    facts, res, bad = schedule_part(ctx, "C08", PROGRAMS_QUICK)
    cow_class_sweep(ctx)
    cow_destructor_panic_pass(ctx)
    histcheck.run(ctx, MODULE, WEIGHTS, TAGS, lean_extra=EXTRA)
    if bad and not any(v["kind"] == "miri" for v in ctx.violations) and not getattr(ctx, "sched_handled", False):
        schedule_search(ctx, "C08", bad, [])


def replay(ctx, path):
    if "kind: miri" in open(path).read():
        miri.replay(ctx, path)
    else:
        histcheck.replay(ctx, path, TAGS)
