import TriompheModel.Proofs.HistInv
import TriompheModel.Proofs.HistVal
/-!
# C01 — a shared value lives exactly as long as some owning handle does

Corollaries of the invariants `M1.Inv` and `M1.LogInv` (Proofs/HistInv.lean), which hold in every
state reachable by ANY finite history of ops (`run ops`, `ops : List Op` arbitrary) over any mix of
handle kinds and conversion paths (Arc ↔ ThinArc ↔ OffsetArc ↔ ArcUnion ↔ UniqueArc ↔ raw pointers,
header erasure, `assume_init`, casts to `dyn`, transient borrows and callback scripts, scripted
iterators with lies and panics, panicking `Clone`).

Reading guide: `owners s b` counts the owning handle *values* of every kind that refer to block `b`;
`k.live` = not yet returned to the allocator; `k.leaked` = half-built block abandoned by a panicking
constructor (the documented leak — the only way a block can stay allocated without an owner).
-/
namespace M1
namespace C01

/-- the invariant holds initially -/
theorem C01_inv_init : Inv State.init := inv_init

/-- **alive exactly as long as owned.**  After any history, a block is still allocated iff some
owning handle refers to it (abandoned half-built blocks excepted): nothing is destroyed early,
nothing is leaked. -/
theorem C01_lifetime (ops : List Op) (b : Nat) (k : Block) (hk : (run ops).mem.blocks[b]? = some k)
    (hlk : k.leaked = false) : k.live = true ↔ 0 < owners (run ops) b :=
  live_iff_owned (inv_run ops) hk hlk

/-- **readable through every handle while owned**: every handle in the table points into a block
that exists, is live and is not an abandoned one -/
theorem C01_readable_while_owned (ops : List Op) (i : Nat) (h : HV) (hl : lookup (run ops) i = some h) :
    ∃ k, (run ops).mem.blocks[h.blk]? = some k ∧ k.live = true ∧ k.leaked = false :=
  (count_eq_owners (inv_run ops) hl).2

/-- **destroyed at the moment the last owner is released.**  If an op takes the number of owners of
a (non-abandoned) block from positive to zero, the block is dead afterwards and its (single)
`dealloc` event was emitted by that very op; conversely an op that leaves an owner leaves it live. -/
theorem C01_destroyed_at_last_release (ops : List Op) (op : Op) (b : Nat) (k k' : Block)
    (hk : (run ops).mem.blocks[b]? = some k) (hlk : k.leaked = false)
    (hk' : (step (run ops) op).1.mem.blocks[b]? = some k') (hlk' : k'.leaked = false)
    (hbefore : 0 < owners (run ops) b) (hafter : owners (step (run ops) op).1 b = 0) :
    k.live = true ∧ k'.live = false ∧
    (¬ ∃ sz al : Nat, Event.dealloc b sz al ∈ (run ops).mem.log) ∧
    (∃ sz al : Nat, Event.dealloc b sz al ∈ (step (run ops) op).1.mem.log) := by
  have hi := inv_run ops
  have hi' := inv_step (run ops) op hi
  have hl := loginv_run ops
  have hl' := loginv_step (run ops) op hi hl
  have h1 : k.live = true := (live_iff_owned hi hk hlk).2 hbefore
  have h2 : k'.live = false := by
    cases hv : k'.live with
    | false => rfl
    | true => have := (live_iff_owned hi' hk' hlk').1 hv; omega
  refine ⟨h1, h2, ?_, ?_⟩
  · intro hd
    have := (dealloc_iff_dead hl hk).1 hd
    rw [h1] at this; cases this
  · exact (dealloc_iff_dead hl' hk').2 h2

/-- **memory is returned exactly once**: in the log of any history a block has a `dealloc` event iff
it is dead, never two, and it comes after the block's (unique) `alloc` event -/
theorem C01_freed_exactly_once (ops : List Op) :
    (∀ (b : Nat) (k : Block), (run ops).mem.blocks[b]? = some k →
        ((∃ sz al : Nat, Event.dealloc b sz al ∈ (run ops).mem.log) ↔ k.live = false)) ∧
    (∀ (i j b sz al sz' al' : Nat), (run ops).mem.log[i]? = some (Event.dealloc b sz al) →
        (run ops).mem.log[j]? = some (Event.dealloc b sz' al') → i = j) ∧
    (∀ (i j b sz al sz' al' : Nat), (run ops).mem.log[i]? = some (Event.dealloc b sz al) →
        (run ops).mem.log[j]? = some (Event.alloc b sz' al') → j < i) := by
  have hl := loginv_run ops
  exact ⟨fun b k hk => dealloc_iff_dead hl hk, fun i j b sz al sz' al' h1 h2 => dealloc_unique hl h1 h2,
    fun i j b sz al sz' al' h1 h2 => alloc_before_dealloc hl h1 h2⟩

/-- **the destructor runs with the release, once**: the payload destructor events are emitted by
`drop_inner` exactly when it saw the count 1, immediately followed by the block's `dealloc` — so at
most once per block, by the previous theorem -/
theorem C01_destructor_with_release (m : Mem) (b : Nat) (t : Ty) (len : Nat) (k : Block)
    (hk : m.blocks[b]? = some k) :
    (decr m b t len).log = m.log ++
      (if k.count = 1 then payloadDrops b k t len ++
        [Event.dealloc b (t.releaseLayout len).size (t.releaseLayout len).align] else []) := by
  rw [decr_log, hk]

/-! ### values: destroyed at most once, and exactly at the last release

`FreshIds ops`: the identities of the values handed to the constructors / `writeSlot` in the history
are pairwise distinct (and below the range `Clone` draws new identities from) — what the harness's
identity-tracked payloads guarantee.  It is a decidable hypothesis, satisfied by `exampleValHistory`. -/

/-- **no value is destroyed twice**, in any history -/
theorem C01_destructor_at_most_once (ops : List Op) (h : FreshIds ops) : (dropIds (run ops).mem.log).Nodup :=
  drop_at_most_once ops h

/-- **nothing is destroyed early**: whatever a live block stores has not been destroyed -/
theorem C01_nothing_destroyed_early (ops : List Op) (h : FreshIds ops) (b : Nat) (k : Block)
    (hk : (run ops).mem.blocks[b]? = some k) (hl : k.live = true) :
    ∀ i, i ∈ k.ids → i ∉ dropIds (run ops).mem.log :=
  live_values_not_destroyed ops h b k hk hl

/-- **the destructor runs exactly at the last release**: dropping the sole owner through an
initialised view destroys exactly the values the block stores (header, then every element) … -/
theorem C01_last_release_destroys_the_value (ops : List Op) (src : Nat) (h : HV)
    (hs : lookup (run ops) src = some h) (hown : owners (run ops) h.blk = 1)
    (hinit : (asArc (run ops).mem h).ty.elemsInit = true) (hd : (dropHandle (run ops).mem h).isSome = true) :
    ∃ k : Block, (run ops).mem.blocks[h.blk]? = some k ∧
      dropIds (step (run ops) (.drop src)).1.mem.log = dropIds (run ops).mem.log ++ k.ids :=
  drop_releases_exactly (run ops) src h (inv_run ops) (leninv_run ops) hs hown hinit hd

/-- … and releasing one of several owners destroys nothing -/
theorem C01_other_release_destroys_nothing (ops : List Op) (src : Nat) (h : HV)
    (hs : lookup (run ops) src = some h) (hown : owners (run ops) h.blk ≠ 1) :
    dropIds (step (run ops) (.drop src)).1.mem.log = dropIds (run ops).mem.log :=
  drop_shared_destroys_nothing (run ops) src h (inv_run ops) hs hown

/-- only values that were handed in (or made by `Clone`) are ever destroyed -/
theorem C01_only_known_values_destroyed (ops : List Op) (h : FreshIds ops) :
    ∀ i, i ∈ dropIds (run ops).mem.log → i ∈ histIds ops ∨ 1000000 ≤ i :=
  destroyed_values_were_handed_in ops h

example : FreshIds exampleValHistory := by decide

/-- abandoned blocks (panicking constructor) are never referred to by anything -/
theorem C01_abandoned_unowned (ops : List Op) (b : Nat) (k : Block) (hk : (run ops).mem.blocks[b]? = some k)
    (hlk : k.leaked = true) : owners (run ops) b = 0 :=
  leaked_unowned (inv_run ops) hk hlk

/-- non-vacuity: a history through a callback clone, a raw pointer and `into_inner` -/
example : owners (run exampleHistory) 0 = 2 ∧ owners (run exampleHistory) 1 = 0 := by decide

end C01
end M1
