import TriompheModel.Proofs.HistLemmas
/-!
# Helper lemmas, part 5: the discipline of the allocation log

`LogInv m` relates the `alloc` / `dealloc` events recorded in `m.log` to the blocks of `m`:
every block has exactly one `alloc` event (with the layout stored in the block), a `dealloc` event
iff it is not live (and then exactly one), and the `alloc` event comes first.  This file proves
that the primitive memory operations preserve it.
-/
namespace M1

def isAlloc (b : Nat) : Event → Bool
  | .alloc b' _ _ => b' == b
  | _ => false

def isDealloc (b : Nat) : Event → Bool
  | .dealloc b' _ _ => b' == b
  | _ => false

/-- events that are neither `alloc` nor `dealloc` -/
def Event.quiet : Event → Bool
  | .alloc .. | .dealloc .. => false
  | _ => true

/-- a list of events without `alloc` / `dealloc` -/
def Quiet (es : List Event) : Prop := ∀ e ∈ es, e.quiet = true

theorem Quiet.nil : Quiet [] := fun _ h => by cases h

theorem Quiet.append {a b : List Event} (ha : Quiet a) (hb : Quiet b) : Quiet (a ++ b) := by
  intro e he
  rcases List.mem_append.1 he with h | h
  · exact ha e h
  · exact hb e h

theorem Quiet.cons {e : Event} {l : List Event} (he : e.quiet = true) (hl : Quiet l) : Quiet (e :: l) := by
  intro x hx
  rcases List.mem_cons.1 hx with rfl | h
  · exact he
  · exact hl x h

theorem Quiet.map_drop {α : Type} (l : List α) (f : α → Nat) : Quiet (l.map fun v => Event.drop (f v)) := by
  intro e he
  obtain ⟨x, _, rfl⟩ := List.mem_map.1 he
  rfl

theorem Quiet.countAlloc {es : List Event} (h : Quiet es) (b : Nat) : es.countP (isAlloc b) = 0 := by
  rw [List.countP_eq_zero]
  intro e he
  have := h e he
  cases e <;> simp_all [Event.quiet, isAlloc]

theorem Quiet.countDealloc {es : List Event} (h : Quiet es) (b : Nat) : es.countP (isDealloc b) = 0 := by
  rw [List.countP_eq_zero]
  intro e he
  have := h e he
  cases e <;> simp_all [Event.quiet, isDealloc]

theorem quiet_payloadDrops (b : Nat) (k : Block) (t : Ty) (len : Nat) : Quiet (payloadDrops b k t len) := by
  unfold payloadDrops
  apply Quiet.append
  · split
    · exact Quiet.cons rfl Quiet.nil
    · exact Quiet.nil
  · split
    · intro e he
      obtain ⟨x, _, rfl⟩ := List.mem_map.1 he
      obtain ⟨x1, x2⟩ := x
      simp only
      split <;> rfl
    · exact Quiet.nil

theorem quiet_dropRest (it : IterSt) : Quiet it.dropRest := Quiet.map_drop _ _

theorem upd_get (m : Mem) (b : Nat) (f : Block → Block) (j : Nat) :
    (m.upd b f).blocks[j]? = (m.blocks[j]?).map (fun k => if b = j then f k else k) := by
  simp [Mem.upd, List.getElem?_modify]

structure LogInv (m : Mem) : Prop where
  /-- a freed block has count word 0 (so a stray `drop_inner` on it would not free it again) -/
  dz : ∀ (b : Nat) (k : Block), m.blocks[b]? = some k → k.live = false → k.count = 0
  /-- number of `dealloc` events of a block: 0 while live, 1 afterwards -/
  nd : ∀ (b : Nat) (k : Block), m.blocks[b]? = some k →
        m.log.countP (isDealloc b) = if k.live then 0 else 1
  /-- no `dealloc` event for a block index that does not exist -/
  ndo : ∀ (b : Nat), m.blocks.length ≤ b → m.log.countP (isDealloc b) = 0
  /-- exactly one `alloc` event per block, none for other indices -/
  na : ∀ (b : Nat), m.log.countP (isAlloc b) = if b < m.blocks.length then 1 else 0
  /-- the `alloc` event carries the layout stored in the block -/
  lay : ∀ (b sz al : Nat), Event.alloc b sz al ∈ m.log → ∃ k : Block, m.blocks[b]? = some k ∧ k.lay = ⟨sz, al⟩
  /-- the `alloc` event of a block precedes its `dealloc` event -/
  ord : ∀ (i b sz al : Nat), m.log[i]? = some (Event.dealloc b sz al) →
        ∃ j : Nat, j < i ∧ ∃ sz' al' : Nat, m.log[j]? = some (Event.alloc b sz' al')

namespace LogInv

theorem init : LogInv ⟨[], [], n⟩ where
  dz := fun b k h => by simp at h
  nd := fun b k h => by simp at h
  ndo := fun b _ => rfl
  na := fun b => by simp
  lay := fun b sz al h => by cases h
  ord := fun i b sz al h => by simp at h

/-- an `alloc b` event exists in the log of an existing block -/
theorem alloc_exists {m : Mem} (hi : LogInv m) {b : Nat} (hb : b < m.blocks.length) :
    ∃ j : Nat, j < m.log.length ∧ ∃ sz al : Nat, m.log[j]? = some (Event.alloc b sz al) := by
  have h1 := hi.na b
  simp only [hb, if_true] at h1
  have h2 : 0 < m.log.countP (isAlloc b) := by omega
  rw [List.countP_pos_iff] at h2
  obtain ⟨e, he, hp⟩ := h2
  obtain ⟨j, hj⟩ := List.mem_iff_getElem?.1 he
  have hjl : j < m.log.length := by
    rcases Nat.lt_or_ge j m.log.length with h | h
    · exact h
    · rw [List.getElem?_eq_none h] at hj; cases hj
  cases e <;> simp only [isAlloc, beq_iff_eq] at hp
  · subst hp; exact ⟨j, hjl, _, _, hj⟩
  all_goals cases hp

/-- content / count update of one block that keeps `live`, `lay`, and count 0 of dead blocks -/
theorem upd {m : Mem} (hi : LogInv m) (b : Nat) (f : Block → Block)
    (hf : ∀ k, m.blocks[b]? = some k →
      (f k).live = k.live ∧ (f k).lay = k.lay ∧ (k.live = false → k.count = 0 → (f k).count = 0)) :
    LogInv (m.upd b f) := by
  have hget : ∀ (j : Nat) (k' : Block), (m.upd b f).blocks[j]? = some k' →
      ∃ k : Block, m.blocks[j]? = some k ∧ k'.live = k.live ∧ k'.lay = k.lay ∧ (k.live = false → k.count = 0 → k'.count = 0) := by
    intro j k' hk'
    rw [upd_get] at hk'
    cases hk : m.blocks[j]? with
    | none => rw [hk] at hk'; cases hk'
    | some k =>
      rw [hk] at hk'
      simp only [Option.map_some, Option.some.injEq] at hk'
      by_cases hbj : b = j
      · subst hbj
        simp only [if_true] at hk'
        subst hk'
        exact ⟨k, rfl, hf k hk⟩
      · simp only [hbj, if_false] at hk'
        subst hk'
        exact ⟨_, rfl, rfl, rfl, fun _ h => h⟩
  refine ⟨?_, ?_, ?_, ?_, ?_, ?_⟩
  · intro j k' hk' hl
    obtain ⟨k, hk, h1, _, h3⟩ := hget j k' hk'
    rw [h1] at hl
    exact h3 hl (hi.dz j k hk hl)
  · intro j k' hk'
    obtain ⟨k, hk, h1, _, _⟩ := hget j k' hk'
    rw [h1]; exact hi.nd j k hk
  · intro j hj
    rw [length_upd] at hj; exact hi.ndo j hj
  · intro j
    rw [length_upd]; exact hi.na j
  · intro j sz al hm
    obtain ⟨k, hk, hl⟩ := hi.lay j sz al hm
    simp only [upd_get, hk, Option.map_some]
    by_cases hbj : b = j
    · subst hbj
      simp only [if_true]
      exact ⟨_, rfl, by rw [(hf k hk).2.1]; exact hl⟩
    · simp only [hbj, if_false]; exact ⟨_, rfl, hl⟩
  · exact hi.ord

/-- appending events that are neither `alloc` nor `dealloc` -/
theorem emit {m : Mem} (hi : LogInv m) {es : List Event} (hq : Quiet es) : LogInv (m.emit es) := by
  refine ⟨hi.dz, ?_, ?_, ?_, ?_, ?_⟩
  · intro b k hk
    simp only [Mem.emit, List.countP_append, hq.countDealloc, Nat.add_zero]
    exact hi.nd b k hk
  · intro b hb
    simp only [Mem.emit, List.countP_append, hq.countDealloc, Nat.add_zero]
    exact hi.ndo b hb
  · intro b
    simp only [Mem.emit, List.countP_append, hq.countAlloc, Nat.add_zero]
    exact hi.na b
  · intro b sz al hm
    simp only [Mem.emit, List.mem_append] at hm
    rcases hm with hm | hm
    · exact hi.lay b sz al hm
    · have := hq _ hm; cases this
  · intro i b sz al hget
    simp only [Mem.emit] at hget ⊢
    rcases Nat.lt_or_ge i m.log.length with hlt | hge
    · rw [List.getElem?_append_left hlt] at hget
      obtain ⟨j, hj, sz', al', hj'⟩ := hi.ord i b sz al hget
      exact ⟨j, hj, sz', al', by rw [List.getElem?_append_left (by omega)]; exact hj'⟩
    · rw [List.getElem?_append_right hge] at hget
      have := hq _ (List.mem_of_getElem? hget); cases this

/-- the last reference goes away: the block dies and one `dealloc` is recorded -/
theorem free {m : Mem} (hi : LogInv m) {b : Nat} {k : Block} (hk : m.blocks[b]? = some k)
    (hl : k.live = true) {es : List Event} (hq : Quiet es) (sz al : Nat) :
    LogInv ((m.upd b fun k => { k with count := 0, live := false }).emit (es ++ [Event.dealloc b sz al])) := by
  have hb : b < m.blocks.length := (List.getElem?_eq_some_iff.1 hk).1
  have hget : ∀ (j : Nat) (k' : Block), (m.upd b fun k => { k with count := 0, live := false }).blocks[j]? = some k' →
      (j = b ∧ k'.live = false ∧ k'.count = 0) ∨ (j ≠ b ∧ m.blocks[j]? = some k') := by
    intro j k' hk'
    rw [upd_get] at hk'
    cases hkj : m.blocks[j]? with
    | none => rw [hkj] at hk'; cases hk'
    | some k0 =>
      rw [hkj] at hk'
      simp only [Option.map_some, Option.some.injEq] at hk'
      by_cases hbj : b = j
      · subst hbj
        simp only [if_true] at hk'
        subst hk'
        exact Or.inl ⟨rfl, rfl, rfl⟩
      · simp only [hbj, if_false] at hk'
        subst hk'
        exact Or.inr ⟨fun e => hbj e.symm, rfl⟩
  have hcd : ∀ j, (es ++ [Event.dealloc b sz al]).countP (isDealloc j) = if j = b then 1 else 0 := by
    intro j
    simp only [List.countP_append, hq.countDealloc, Nat.zero_add, List.countP_cons, List.countP_nil, isDealloc]
    by_cases hjb : j = b
    · subst hjb; simp
    · have : ¬ b = j := fun e => hjb e.symm
      simp [hjb, this]
  have hca : ∀ j, (es ++ [Event.dealloc b sz al]).countP (isAlloc j) = 0 := by
    intro j
    simp [List.countP_append, hq.countAlloc, isAlloc]
  have hlog : ((m.upd b fun k => { k with count := 0, live := false }).emit (es ++ [Event.dealloc b sz al])).log
      = m.log ++ (es ++ [Event.dealloc b sz al]) := rfl
  refine ⟨?_, ?_, ?_, ?_, ?_, ?_⟩
  · intro j k' hk' hl'
    rcases hget j k' hk' with ⟨_, _, h⟩ | ⟨_, h⟩
    · exact h
    · exact hi.dz j k' h hl'
  · intro j k' hk'
    rw [hlog, List.countP_append, hcd]
    rcases hget j k' hk' with ⟨rfl, h1, _⟩ | ⟨hne, h⟩
    · have := hi.nd j k hk
      simp only [hl, if_true] at this
      simp [this, h1]
    · have := hi.nd j k' h
      simp only [hne, if_false, Nat.add_zero]; exact this
  · intro j hj
    rw [hlog, List.countP_append, hcd]
    simp only [Mem.emit, length_upd] at hj
    have hne : ¬ j = b := by omega
    simp only [hne, if_false, Nat.add_zero]
    exact hi.ndo j hj
  · intro j
    rw [hlog, List.countP_append, hca]
    simp only [Mem.emit, length_upd, Nat.add_zero]
    exact hi.na j
  · intro j sz' al' hm
    simp only [Mem.emit, Mem.upd, List.mem_append, List.mem_cons, List.not_mem_nil, or_false] at hm
    rcases hm with hm | hm | hm
    · obtain ⟨k0, hk0, hl0⟩ := hi.lay j sz' al' hm
      simp only [Mem.emit, upd_get, hk0, Option.map_some]
      by_cases hbj : b = j
      · simp only [hbj, if_true]; exact ⟨_, rfl, hl0⟩
      · simp only [hbj, if_false]; exact ⟨_, rfl, hl0⟩
    · have := hq _ hm; cases this
    · cases hm
  · intro i j sz' al' hgeti
    simp only [Mem.emit, Mem.upd] at hgeti ⊢
    rcases Nat.lt_or_ge i m.log.length with hlt | hge
    · rw [List.getElem?_append_left hlt] at hgeti
      obtain ⟨j', hj, sz'', al'', hj'⟩ := hi.ord i j sz' al' hgeti
      exact ⟨j', hj, sz'', al'', by rw [List.getElem?_append_left (by omega)]; exact hj'⟩
    · rw [List.getElem?_append_right hge] at hgeti
      have hmem := List.mem_of_getElem? hgeti
      simp only [List.mem_append, List.mem_cons, List.not_mem_nil, or_false] at hmem
      rcases hmem with hmem | hmem
      · have := hq _ hmem; cases this
      · simp only [Event.dealloc.injEq] at hmem
        obtain ⟨rfl, _, _⟩ := hmem
        obtain ⟨j', hj, sz'', al'', hj'⟩ := hi.alloc_exists hb
        exact ⟨j', by omega, sz'', al'', by rw [List.getElem?_append_left hj]; exact hj'⟩

/-- a fresh block and its `alloc` event -/
theorem alloc {m : Mem} (hi : LogInv m) (lay : LY.Layout) (hdr : Option Item) (rl : Option Nat)
    (el : List (Option Item)) : LogInv (allocBlock m lay hdr rl el).1 := by
  have hblocks : (allocBlock m lay hdr rl el).1.blocks = m.blocks ++ [⟨1, true, lay, hdr, rl, el, false⟩] := rfl
  have hlog : (allocBlock m lay hdr rl el).1.log = m.log ++ [Event.alloc m.blocks.length lay.size lay.align] := rfl
  have hget : ∀ (j : Nat) (k : Block), (allocBlock m lay hdr rl el).1.blocks[j]? = some k →
      (j < m.blocks.length ∧ m.blocks[j]? = some k) ∨ (j = m.blocks.length ∧ k.live = true ∧ k.lay = lay) := by
    intro j k hk
    rw [hblocks] at hk
    rcases Nat.lt_or_ge j m.blocks.length with hlt | hge
    · rw [List.getElem?_append_left hlt] at hk; exact Or.inl ⟨hlt, hk⟩
    · rw [List.getElem?_append_right hge] at hk
      have hj : j = m.blocks.length := by
        rcases Nat.eq_or_lt_of_le hge with h | h
        · exact h.symm
        · rw [List.getElem?_eq_none (by simp; omega)] at hk; cases hk
      subst hj
      simp only [Nat.sub_self, List.getElem?_cons_zero, Option.some.injEq] at hk
      subst hk
      exact Or.inr ⟨rfl, rfl, rfl⟩
  have hcd : ∀ j, [Event.alloc m.blocks.length lay.size lay.align].countP (isDealloc j) = 0 := by
    intro j; simp [isDealloc]
  have hca : ∀ j, [Event.alloc m.blocks.length lay.size lay.align].countP (isAlloc j)
      = if j = m.blocks.length then 1 else 0 := by
    intro j
    by_cases hj : j = m.blocks.length
    · subst hj; simp [isAlloc]
    · have : ¬ m.blocks.length = j := fun e => hj e.symm
      simp [isAlloc, hj, this]
  refine ⟨?_, ?_, ?_, ?_, ?_, ?_⟩
  · intro j k hk hl
    rcases hget j k hk with ⟨_, h⟩ | ⟨_, h, _⟩
    · exact hi.dz j k h hl
    · rw [h] at hl; cases hl
  · intro j k hk
    rw [hlog, List.countP_append, hcd, Nat.add_zero]
    rcases hget j k hk with ⟨_, h⟩ | ⟨rfl, h, _⟩
    · exact hi.nd j k h
    · rw [h]; exact hi.ndo _ (Nat.le_refl _)
  · intro j hj
    rw [length_allocBlock] at hj
    rw [hlog, List.countP_append, hcd, Nat.add_zero]
    exact hi.ndo j (by omega)
  · intro j
    rw [hlog, List.countP_append, hca, length_allocBlock, hi.na j]
    by_cases h1 : j < m.blocks.length
    · have : ¬ j = m.blocks.length := by omega
      have h2 : j < m.blocks.length + 1 := by omega
      simp [h1, this, h2]
    · by_cases h2 : j = m.blocks.length
      · subst h2; simp
      · have h3 : ¬ j < m.blocks.length + 1 := by omega
        simp [h1, h2, h3]
  · intro j sz al hm
    rw [hlog] at hm
    simp only [List.mem_append, List.mem_cons, List.not_mem_nil, or_false] at hm
    rcases hm with hm | hm
    · obtain ⟨k, hk, hl⟩ := hi.lay j sz al hm
      have hj : j < m.blocks.length := (List.getElem?_eq_some_iff.1 hk).1
      exact ⟨k, by rw [hblocks, List.getElem?_append_left hj]; exact hk, hl⟩
    · simp only [Event.alloc.injEq] at hm
      obtain ⟨rfl, rfl, rfl⟩ := hm
      refine ⟨⟨1, true, lay, hdr, rl, el, false⟩, ?_, rfl⟩
      rw [hblocks, List.getElem?_append_right (Nat.le_refl _)]
      simp
  · intro i j sz al hgeti
    rw [hlog] at hgeti ⊢
    rcases Nat.lt_or_ge i m.log.length with hlt | hge
    · rw [List.getElem?_append_left hlt] at hgeti
      obtain ⟨j', hj, sz'', al'', hj'⟩ := hi.ord i j sz al hgeti
      exact ⟨j', hj, sz'', al'', by rw [List.getElem?_append_left (by omega)]; exact hj'⟩
    · rw [List.getElem?_append_right hge] at hgeti
      have hmem := List.mem_of_getElem? hgeti
      simp at hmem

/-! ### the memory operations of the model -/

theorem incr {m : Mem} (hi : LogInv m) {b : Nat} {k : Block} (hk : m.blocks[b]? = some k) (hl : k.live = true) :
    LogInv (incr m b) := by
  apply hi.upd
  intro k' hk'
  rw [hk] at hk'; cases hk'
  exact ⟨rfl, rfl, fun h => by rw [hl] at h; cases h⟩

theorem leak {m : Mem} (hi : LogInv m) (b : Nat) : LogInv (m.leak b) :=
  hi.upd b _ (fun _ _ => ⟨rfl, rfl, fun _ h => h⟩)

theorem writeVal {m : Mem} (hi : LogInv m) (b v : Nat) : LogInv (writeVal m b v) := by
  apply hi.upd
  intro k _
  split
  · exact ⟨rfl, rfl, fun _ h => h⟩
  · split <;> exact ⟨rfl, rfl, fun _ h => h⟩

theorem decr {m : Mem} (hi : LogInv m) (b : Nat) (t : Ty) (len : Nat) : LogInv (decr m b t len) := by
  unfold M1.decr
  split
  · exact hi
  · rename_i k hk
    split
    · rename_i h1
      have hl : k.live = true := by
        cases hlv : k.live with
        | true => rfl
        | false => have := hi.dz b k hk hlv; omega
      exact hi.free hk hl (quiet_payloadDrops b k t len) _ _
    · exact hi.upd b _ (fun _ _ => ⟨rfl, rfl, fun _ h => by simp [h]⟩)

theorem cloneValue {m : Mem} (hi : LogInv m) (b : Nat) : LogInv (cloneValue m b).1 := by
  unfold M1.cloneValue
  split
  · rename_i it _
    exact hi.emit (es := [Event.clone it.id m.nextClone]) (Quiet.cons rfl Quiet.nil) |> fun h => ⟨h.dz, h.nd, h.ndo, h.na, h.lay, h.ord⟩
  · exact hi

theorem into_inner {m : Mem} (hi : LogInv m) {u : HV} {k : Block} (hk : m.blocks[u.blk]? = some k)
    (hl : k.live = true) : LogInv (UniqueArc.into_inner m u).1 := by
  unfold UniqueArc.into_inner
  rw [hk]
  exact hi.free hk hl Quiet.nil _ _

theorem arc_new {m : Mem} (hi : LogInv m) (t : Ty) (v : Option Item) : LogInv (Arc.new m t v).1 :=
  hi.alloc ..

end LogInv

end M1
