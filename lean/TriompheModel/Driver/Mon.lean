import TriompheModel.Driver.Parse
import TriompheModel.Model.Monitor
/-!
Driver of the trace monitor (lean_exe `drv_mon`).  Line protocol on stdin:

* `reset`          monitor state := initial; prints `reset`
* `OP <op line>`   the op about to be observed, in the syntax of `parseOp` (`Driver/Parse.lean`); prints nothing.
                   A line `parseOp` does not accept (driver-level ops: `cmp`, `asw …`, `makeMutH …`) is remembered
                   as "no op": for the following observation only the op-independent checks K1 K2 K3 K5 run
                   (not the per-op checks K4, K6 – K15).
* `OBS <observation line of the implementation>`
                   `<status> out=<out> ev=[<events>] aux=<n> | <slot probes>` (each probe
                   `s<i>=<kind>.<ty>@b<blk>+<off>/len<len>/cnt<count>/<digest>`, the digest is parsed too: K7, K9, K10, K11
                   use what a handle shows; for a `cb` op the `out=` field is split into tokens, `parseCbToks`: K12, K13);
                   runs `M1.Mon.checkOp` (K1 – K15) with the
                   remembered op (`checkObsOnly` if none) and prints `ok` or `FAIL <tag>:<message>;<tag>:<message>…`;
                   prints `unparsed` if the line cannot be parsed (monitor state unchanged).

`M1.monitor_accepts_model` (Props/Monitor.lean): on the model's own lines the answer is always `ok`.
-/
open M1 M1.Mon

def parseKind : String → Option Kind
  | "arc" => some .arc | "uniq" => some .uniq | "thin" => some .thin | "offset" => some .offset
  | "unionA" => some .unionA | "unionB" => some .unionB | "raw" => some .raw | "rawThin" => some .rawThin
  | _ => none

def parseTy : String → Option Ty
  | "sized" => some .sized | "sizedB" => some .sizedB | "dyn" => some .dyn | "slice" => some .slice
  | "uslice" => some .uslice | "hs" => some .hs | "hwl" => some .hwl | "mu" => some .mu
  | "muSlice" => some .muSlice | "hsMu" => some .hsMu
  | _ => none

def parseBlk (s : String) : Option Nat := do (← stripPrefix "b" s).toNat?

/-- inverse of `showEvent` -/
def parseEvent (s : String) : Option Event :=
  match s.splitOn ":" with
  | ["alloc", b, sz, al] => do some (.alloc (← parseBlk b) (← sz.toNat?) (← al.toNat?))
  | ["dealloc", b, sz, al] => do some (.dealloc (← parseBlk b) (← sz.toNat?) (← al.toNat?))
  | ["drop", i] => do some (.drop (← i.toNat?))
  | ["clone", ab] =>
    match ab.splitOn ">" with
    | [a, b] => do some (.clone (← a.toNat?) (← b.toNat?))
    | _ => none
  | ["dropuninit", b, i] => do some (.dropUninit (← parseBlk b) (← i.toNat?))
  | _ => none

/-- `-` (no accessor), a number, or `n|n|…` when several accessors were read and agree -/
def parseCnt (s : String) : Option (Option Nat) :=
  if s == "-" then some none else
  match (s.splitOn "|").mapM (·.toNat?) with
  | some (n :: r) => if r.all (· == n) then some (some n) else none
  | _ => none

/-- `?` (never written) or `<id>.<val>` -/
def parseValItem (s : String) : Option (Option Item) :=
  if s == "?" then some none else
  match s.splitOn "." with
  | [a, b] => do some (some ⟨← a.toNat?, ← b.toNat?⟩)
  | _ => none

/-- `` (no header) or `h<id>.<val>` -/
def parseHdr (s : String) : Option (Option Item) :=
  if s.isEmpty then some none else do
    let it ← (← parseValItem (← stripPrefix "h" s))
    some (some it)

/-- inverse of `digest`: `!`, `<hdr>-` (a view whose elements are `MaybeUninit`), or `<hdr>[<item>,…]` -/
def parseDig (s : String) : Option (Option Dig) :=
  if s == "!" then some none else
  match s.splitOn "-" with
  | [hd, ""] => do some (some ⟨← parseHdr hd, none⟩)
  | [_] =>
    match s.splitOn "[" with
    | [hd, rest] =>
      match rest.splitOn "]" with
      | [inner, ""] => do
        let h ← parseHdr hd
        let es ← if inner.isEmpty then some [] else (inner.splitOn ",").mapM parseValItem
        some (some ⟨h, some es⟩)
      | _ => none
    | _ => none
  | _ => none

/-- `s<i>=<kind>.<ty>@b<blk>+<off>/len<len>/cnt<count or ->/<digest>` -/
def parseSlot (s : String) : Option (Nat × SlotObs) :=
  match s.splitOn "=" with
  | key :: rest => do
    let i ← (← stripPrefix "s" key).toNat?
    match ("=".intercalate rest).splitOn "@" with
    | kt :: addr =>
      match kt.splitOn ".", ("@".intercalate addr).splitOn "/" with
      | [k, t], [ba, lenS, cntS, digS] =>
        match ba.splitOn "+" with
        | [b, off] =>
          some (i, ⟨← parseKind k, ← parseTy t, ← parseBlk b, ← off.toNat?, ← (← stripPrefix "len" lenS).toNat?,
            ← parseCnt (← stripPrefix "cnt" cntS), ← parseDig digS⟩)
        | _ => none
      | _, _ => none
    | _ => none
  | _ => none

structure RawObs where
  status : String
  out : String
  evs : List Event
  slots : List (Nat × SlotObs)

def parseObsLine (line : String) : Option RawObs :=
  match line.trimAscii.toString.splitOn " |" with
  | head :: probe =>
    match head.splitOn " out=" with
    | status :: rest =>
      let parts := (" out=".intercalate rest).splitOn " ev=["
      match parts.reverse with
      | evpart :: outRev =>
        if outRev.isEmpty then none else
        match evpart.splitOn "] aux=" with
        | [evs, _aux] => do
          let es ← if evs.isEmpty then some [] else (evs.splitOn " ").mapM parseEvent
          let toks := ((" |".intercalate probe).splitOn " ").filter (fun t => !t.isEmpty)
          let sl ← toks.mapM parseSlot
          some ⟨status, " ev=[".intercalate outRev.reverse, es, sl⟩
        | _ => none
      | [] => none
    | [] => none
  | [] => none

/-- one token of the `out=` field of a `cb` op: `cnt=<n>` (`cnt=a|b|…`: the accessors read; `cntBad` if they disagree),
`val=<digest>`, `cloned`, `skip`, `mut=some`, `mut=none`, `replaced`, `swapped` -/
def parseCbTok (s : String) : CbTok :=
  if s == "cloned" then .cloned else if s == "skip" then .skip
  else if s == "mut=some" then .mutSome else if s == "mut=none" then .mutNone
  else if s == "replaced" then .replaced else if s == "swapped" then .swapped
  else match stripPrefix "cnt=" s with
    | some v =>
      match (v.splitOn "|").mapM (·.toNat?) with
      | some (n :: r) => if r.all (· == n) then .cnt n else .cntBad
      | _ => .other
    | none => if (stripPrefix "val=" s).isSome then .val else .other

/-- the `;`-separated tokens of the `out=` field -/
def parseCbToks (out : String) : List CbTok := ((out.splitOn ";").filter (fun t => !t.isEmpty)).map parseCbTok

def RawObs.toObs (r : RawObs) (op : Option Op) : Obs :=
  { panicked := isPanicStatus r.status
    badOp := isBadOpStatus r.status
    verdict := match op with | some op => verdictOfOut op r.out | none => none
    valOut := valShown r.out
    evs := r.evs
    slots := r.slots
    cbToks := match op with | some (.withCb ..) => parseCbToks r.out | _ => [] }

def showFails (fs : List Fail) : String :=
  if fs.isEmpty then "ok" else "FAIL " ++ ";".intercalate (fs.map fun f => f.tag ++ ":" ++ f.msg)

/-- the monitor's reaction to one observation -/
def monStep (st : MSt) (op : Option Op) (o : Obs) : MSt × List Fail :=
  match op with
  | some op => checkOp st op o
  | none => checkObsOnly st o

partial def monLoop (h : IO.FS.Stream) (out : IO.FS.Stream) (st : MSt) (op : Option Op) : IO Unit := do
  let line ← h.getLine
  if line.isEmpty then return ()
  let l := line.trimAscii.toString
  if l == "reset" then
    out.putStrLn "reset"
    out.flush
    monLoop h out MSt.init none
  else if l.isEmpty || l.startsWith "#" then
    monLoop h out st op
  else
    match stripPrefix "OP " l with
    | some opl => monLoop h out st (parseOp opl)
    | none =>
      match stripPrefix "OBS " l with
      | some obsl =>
        match parseObsLine obsl with
        | some r =>
          let (st', fs) := monStep st op (r.toObs op)
          out.putStrLn (showFails fs)
          out.flush
          monLoop h out st' none
        | none =>
          out.putStrLn "unparsed"
          out.flush
          monLoop h out st none
      | none =>
        out.putStrLn "unparsed"
        out.flush
        monLoop h out st op

def main : IO Unit := do
  let out ← IO.getStdout
  monLoop (← IO.getStdin) out MSt.init none
  out.flush
