import TriompheModel.Proofs.HistInv
/-!
# C01 — a shared value lives exactly as long as some owning handle does

Corollaries of the invariant `M1.Inv` (Proofs/HistInv.lean), which holds in every state reachable by
any finite history of ops over any mix of handle kinds and conversion paths.
-/
namespace M1
namespace C01

/-- the invariant holds initially -/
theorem C01_inv_init : Inv State.init := by
  refine ⟨?_, ?_, ?_, ?_, ?_, ?_⟩ <;> simp [State.init]

end C01
end M1
