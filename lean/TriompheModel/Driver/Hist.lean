import TriompheModel.Model.Ops
/-!
Driver of the history model (lean_exe `drv_hist`): one op per input line, one observation line per
op: `<status> out=<..> ev=[<sorted events of this op>] aux=0 | <probe of every slot>`.
The Rust harness (`harness/src/bin/hist.rs`) prints the same line for the real library.
-/
open M1

def parseItem (s : String) : Option Item :=
  match s.splitOn ":" with
  | [a, b] => do some ⟨← a.toNat?, ← b.toNat?⟩
  | _ => none

def parseItems (s : String) : Option (List Item) :=
  if s == "-" then some [] else (s.splitOn ",").mapM parseItem

def parseNats (s : String) : Option (List Nat) :=
  if s == "-" then some [] else (s.splitOn ",").mapM (·.toNat?)

def parseHints (s : String) : Option (List (Nat × Option Nat)) :=
  if s == "-" then some [] else
  (s.splitOn ",").mapM fun p =>
    match p.splitOn ":" with
    | [lo, hi] => do
        let l ← lo.toNat?
        if hi == "*" then some (l, none) else some (l, some (← hi.toNat?))
    | _ => none

def stripPrefix (p s : String) : Option String :=
  if s.startsWith p then some (s.drop p.length).toString else none

def parseConv : String → Option Conv
  | "intoRaw" => some .intoRaw | "fromRaw" => some .fromRaw
  | "intoRawOffset" => some .intoRawOffset | "fromRawOffset" => some .fromRawOffset
  | "fromThin" => some .fromThin | "thinIntoRaw" => some .thinIntoRaw | "thinFromRaw" => some .thinFromRaw
  | "unionFirst" => some .unionFirst | "unionSecond" => some .unionSecond
  | "eraseHeader" => some .eraseHeader | "addHeader" => some .addHeader
  | "shareable" => some .shareable | "assumeInit" => some .assumeInit | "toDyn" => some .toDyn
  | _ => none

def parseApi : String → Option CbApi
  | "rawOffset" => some .rawOffset | "offsetWithArc" => some .offsetWithArc
  | "borrowWithArc" => some .borrowWithArc | "thinWithArc" => some .thinWithArc
  | "thinWithArcMut" => some .thinWithArcMut
  | _ => none

def parseAct (s : String) : Option CbAct :=
  match s.splitOn ":" with
  | ["cnt"] => some .cnt
  | ["read"] => some .read
  | ["panic"] => some .panic
  | ["clone", k] => do some (.cloneTo (← k.toNat?))
  | ["cloneArc", k] => do some (.cloneArcTo (← k.toNat?))
  | ["getMut", v] => do some (.getMutWrite (← v.toNat?))
  | ["replace", k] => do some (.replaceWith (← k.toNat?))
  | ["swap", k] => do some (.swapWith (← k.toNat?))
  | _ => none

def parseBool (s : String) : Option Bool :=
  if s == "1" then some true else if s == "0" then some false else none

def parseIterCtor : String → Option IterCtor
  | "hsFromIter" => some .hsFromIter | "thinFromIter" => some .thinFromIter
  | "fromIter" => some .fromIter | "uniqueFromIter" => some .uniqueFromIter
  | _ => none

def parseOp (line : String) : Option Op :=
  match line.trimAscii.toString.splitOn " " with
  | ["create", d, "new", it] => do some (.create (← d.toNat?) (.new (← parseItem it)))
  | ["create", d, "newB", it] => do some (.create (← d.toNat?) (.newB (← parseItem it)))
  | ["create", d, "fromBox", it] => do some (.create (← d.toNat?) (.fromBox (← parseItem it)))
  | ["create", d, "uniqueNew", it] => do some (.create (← d.toNat?) (.uniqueNew (← parseItem it)))
  | ["create", d, "fromVec", _cap, its] => do some (.create (← d.toNat?) (.fromVec (← parseItems its)))
  | ["create", d, "hsFromVec", h, _cap, its] => do some (.create (← d.toNat?) (.hsFromVec (← parseItem h) (← parseItems its)))
  | ["create", d, "hwlFromVec", h, r, _cap, its] => do
      some (.create (← d.toNat?) (.hwlFromVec (← parseItem h) (← r.toNat?) (← parseItems its)))
  -- `impl<T: Default> Default for Arc<T>` is `Arc::new(Default::default())`; the harness's `Tracked::default()` is (4000000, 0)
  | ["create", d, "default"] => do some (.create (← d.toNat?) (.new ⟨4000000, 0⟩))
  | ["create", d, "newUninit"] => do some (.create (← d.toNat?) .newUninit)
  | ["create", d, "uniqueNewUninit"] => do some (.create (← d.toNat?) .uniqueNewUninit)
  | ["create", d, "newUninitSlice", n] => do some (.create (← d.toNat?) (.newUninitSlice (← n.toNat?)))
  | ["create", d, "uniqueNewUninitSlice", n] => do some (.create (← d.toNat?) (.uniqueNewUninitSlice (← n.toNat?)))
  | ["create", d, "hsUninit", h, n] => do some (.create (← d.toNat?) (.hsUninit (← parseItem h) (← n.toNat?)))
  | ["iter", d, which, h, lens, hints, items, pan] => do
      let w ← parseIterCtor which
      let hd ← if h == "-" then some none else (parseItem h).map some
      let ls ← parseNats (← stripPrefix "lens=" lens)
      let hs ← parseHints (← stripPrefix "hints=" hints)
      let its ← parseItems (← stripPrefix "items=" items)
      let p ← stripPrefix "panic=" pan
      let pa ← if p == "-" then some none else (p.toNat?).map some
      some (.iterCtor (← d.toNat?) w hd ⟨ls, hs, its, pa⟩)
  | ["clone", d, s] => do some (.clone (← d.toNat?) (← s.toNat?))
  | ["drop", s] => do some (.drop (← s.toNat?))
  | ["conv", s, c] => do some (.conv (← s.toNat?) (← parseConv c))
  | ["intoThin", s] => do some (.intoThin (← s.toNat?))
  | ["cloneArc", d, s] => do some (.cloneArc (← d.toNat?) (← s.toNat?))
  | ["isUnique", s] => do some (.isUnique (← s.toNat?))
  | ["getMut", s, v] => do some (.getMut (← s.toNat?) (← v.toNat?))
  | ["getUnique", s, v] => do some (.getUnique (← s.toNat?) (← v.toNat?))
  | ["makeMut", s, v, p] => do some (.makeMut (← s.toNat?) (← v.toNat?) (← parseBool p))
  | ["makeUnique", s, v, p] => do some (.makeUnique (← s.toNat?) (← v.toNat?) (← parseBool p))
  | ["tryUnwrap", s] => do some (.tryUnwrap (← s.toNat?))
  | ["unwrapOrClone", s, p] => do some (.unwrapOrClone (← s.toNat?) (← parseBool p))
  | ["intoInner", s] => do some (.intoInner (← s.toNat?))
  | ["tryUnique", s] => do some (.tryUnique (← s.toNat?))
  | ["uniqWrite", s, v] => do some (.uniqWrite (← s.toNat?) (← v.toNat?))
  | ["writeSlot", s, i, it] => do some (.writeSlot (← s.toNat?) (← i.toNat?) (← parseItem it))
  | ["cb", s, api, acts] => do
      let as ← if acts == "-" then some [] else (acts.splitOn ",").mapM parseAct
      some (.withCb (← s.toNat?) (← parseApi api) as)
  | ["dropAll"] => some .dropAll
  | _ => none

def showEvent : Event → String
  | .alloc b sz al => s!"alloc:b{b}:{sz}:{al}"
  | .dealloc b sz al => s!"dealloc:b{b}:{sz}:{al}"
  | .drop id => s!"drop:{id}"
  | .clone a b => s!"clone:{a}>{b}"
  | .dropUninit b i => s!"dropuninit:b{b}:{i}"

def showKind : Kind → String
  | .arc => "arc" | .uniq => "uniq" | .thin => "thin" | .offset => "offset"
  | .unionA => "unionA" | .unionB => "unionB" | .raw => "raw" | .rawThin => "rawThin"

def showTy : Ty → String
  | .sized => "sized" | .sizedB => "sizedB" | .dyn => "dyn" | .slice => "slice" | .uslice => "uslice"
  | .hs => "hs" | .hwl => "hwl" | .mu => "mu" | .muSlice => "muSlice" | .hsMu => "hsMu"

/-- the count as reported through the accessors the kind offers (`-` if it offers none) -/
def showCnt (m : Mem) (h : HV) : String :=
  match h.kind with
  | .uniq | .raw | .rawThin => "-"
  | _ => toString (loadCount m h.blk)

def insertSorted [Ord α] (x : α) : List α → List α
  | [] => [x]
  | y :: r => if compare x y == .gt then y :: insertSorted x r else x :: y :: r
def sortList [Ord α] (l : List α) : List α := l.foldl (fun acc x => insertSorted x acc) []

def probe (s : State) : String :=
  let es := sortList (s.slots.map fun (i, _) => i)
  " ".intercalate (es.filterMap fun i =>
    (lookup s i).map fun h =>
      s!"s{i}={showKind h.kind}.{showTy h.ty}@b{h.blk}+{h.off}/len{viewLen s.mem h}/cnt{showCnt s.mem h}/{digest s.mem h}")

def obsLine (s0 s1 : State) (o : Out) : String :=
  let evs := sortList ((s1.mem.log.drop s0.mem.log.length).map showEvent)
  s!"{o.status} out={o.out} ev=[{" ".intercalate evs}] aux=0 | {probe s1}"

/-- `T::clone`, called by the library in the middle of `make_mut` / `make_unique` / `unwrap_or_clone` on a SHARED handle,
is user code: it may use another handle (slot `k`) to the value — drop it, read the count through it, ask it for
`get_mut`.  In the model this is a composition of steps: the count read / `get_mut` verdict is that of the state BEFORE the
op (the library has not released or redirected anything yet when it calls `clone`), and a drop of `k` inside `clone` has
the same effect as a drop right after the op (the old allocation loses its owners in the other order; if the writer has
become the last owner by then, ITS release destroys the old value).  On a sole owner `clone` is not called: plain op. -/
def hookOp (s : State) (opn src : String) (v : Option String) (k act : String) : Option (State × Out) := do
  let src ← src.toNat?
  let k ← k.toNat?
  let v ← match v with | some x => x.toNat? | none => some 0
  let h ← lookup s src
  let base : Op ← match opn with
    | "makeMutH" => some (.makeMut src v false)
    | "makeUniqueH" => some (.makeUnique src v false)
    | "unwrapOrCloneH" => some (.unwrapOrClone src false)
    | _ => none
  let hk ← match lookup s k with | some x => some x | none => none
  let okSrc := (h.kind = .arc && h.ty = .sized) || (opn == "makeMutH" && h.kind = .offset && h.ty = .sized)
  let okK := k != src && (hk.kind = .arc || hk.kind = .offset || hk.kind = .unionA || hk.kind = .unionB) &&
    (act == "drop" || act == "cnt" || (act == "getmut" && hk.kind = .arc))
  if !(okSrc && okK) then some (s, badOp) else
  let shared := !(Arc.is_unique s.mem h)
  let (s1, o1) := step s base
  if o1.status != "ok" then some (s, badOp) else
  let pre := if o1.out == "" then "" else o1.out ++ ";"
  if !shared then some (s1, ok (pre ++ "hook=-")) else
  match act with
  | "drop" =>
    let (s2, o2) := step s1 (.drop k)
    if o2.status != "ok" then some (s, badOp) else some (s2, ok (pre ++ "hook=dropped"))
  | "cnt" => some (s1, ok (pre ++ s!"hook=cnt:{loadCount s.mem hk.blk}"))
  | _ => some (s1, ok (pre ++ (if loadCount s.mem hk.blk == 1 then "hook=mut:some" else "hook=mut:none")))

partial def loop (h : IO.FS.Stream) (out : IO.FS.Stream) (s : State) : IO Unit := do
  let line ← h.getLine
  if line.isEmpty then return ()
  let l := line.trimAscii.toString
  if l == "reset" then
    out.putStrLn "reset"
    out.flush
    loop h out State.init
  else if l.isEmpty || l.startsWith "#" then
    loop h out s
  else
    match parseOp l with
    | none =>
      match l.splitOn " " with
      | [opn, a1, a2, a3, a4] =>
        -- re-entrant user code inside `T::clone` (`makeMutH s v k act` / `makeUniqueH s v k act`): see `hookOp`
        match hookOp s opn a1 (some a2) a3 a4 with
        | some (s', o) => out.putStrLn (obsLine s s' o); out.flush; loop h out s'
        | none => out.putStrLn "unparsed"; out.flush; loop h out s
      | ["unwrapOrCloneH", a1, a3, a4] =>
        match hookOp s "unwrapOrCloneH" a1 none a3 a4 with
        | some (s', o) => out.putStrLn (obsLine s s' o); out.flush; loop h out s'
        | none => out.putStrLn "unparsed"; out.flush; loop h out s
      | "asw" :: rest =>
        -- arc-swap integration (`RefCnt for Arc<T>`): an `ArcSwapAny<Arc<T>>` cell is one more owning handle of the
        -- allocation.  Its operations are compositions of steps of the model (so every theorem about histories applies
        -- to the expanded history): new = move in (clone + drop of the source), load = read-only, load_full = clone,
        -- store = release the old value + move the new one in, into_inner = move out (nothing changes).
        let expansion : Option (List Op) := match rest with
          | ["new", d, src] => do some [.clone (← d.toNat?) (← src.toNat?), .drop (← src.toNat?)]
          | ["load", _c] => some []
          | ["loadFull", d, c] => do some [.clone (← d.toNat?) (← c.toNat?)]
          | ["store", c, k] => do some [.drop (← c.toNat?), .clone (← c.toNat?) (← k.toNat?), .drop (← k.toNat?)]
          | ["into", _c] => some []
          | _ => none
        match expansion with
        | none => out.putStrLn "unparsed"; out.flush; loop h out s
        | some ops =>
          let r := ops.foldl (fun (acc : State × Bool) o =>
            if acc.2 then (let (s', o') := step acc.1 o; (s', o'.status == "ok")) else acc) (s, true)
          if r.2 then
            out.putStrLn (obsLine s r.1 (ok "")); out.flush; loop h out r.1
          else
            out.putStrLn (obsLine s s badOp); out.flush; loop h out s
      | ["cmp", a, b] =>
        -- read-only: not a `step` (Model/Ops.lean, "comparison, hashing and formatting through handles")
        match a.toNat?, b.toNat? with
        | some a, some b => out.putStrLn (obsLine s s (cmpAnswer s a b)); out.flush; loop h out s
        | _, _ => out.putStrLn "unparsed"; out.flush; loop h out s
      | _ => out.putStrLn "unparsed"; out.flush; loop h out s
    | some op =>
      let (s', o) := step s op
      out.putStrLn (obsLine s s' o)
      out.flush
      loop h out s'

def main : IO Unit := do
  let out ← IO.getStdout
  loop (← IO.getStdin) out State.init
  out.flush
