import TriompheModel.WM.Consume
/-!
Necessity witness for the Acquire ordering of the uniqueness gate (same program as ExampleConsume, but the
gate load is Relaxed): thread A owns h0, clones it into h1 (RMW 0) and hands h1 to
thread B; B reads the payload (event 0) and drops h1 (RMW 1, release); A calls `try_unwrap`: its
Acquire load of the count (event 1) reads RMW 1, sees 1, and A takes the value.
-/
open Facts
namespace WM
namespace ExGateRelaxed

deriving instance DecidableEq for Ev

abbrev EA := Fin 2     -- 0 = B's payload access through h1, 1 = A's gate load through h0
def exOps : List Op := [.inc 1 0, .dec 1]
def exKind : EA → AKind
  | 0 => .access 1
  | 1 => .load 0 .relaxed (some 1)
def exOrd : Nat → MemOrd
  | 0 => .relaxed
  | _ => .release
def r (i : Nat) : Ev EA := .rmw i
def e (a : EA) : Ev EA := .oth a
def exPairs : List (Ev EA × Ev EA) :=
  [ (r 0, e 0), (r 0, r 1), (e 0, r 1), (r 0, e 1) ]   -- no synchronises-with edge into the relaxed load

def exX : CountExec where
  A := EA
  ops := exOps
  ordR := exOrd
  kind := exKind
  hb := fun x y => (x, y) ∈ exPairs

theorem ex_trans : ∀ p ∈ exPairs, ∀ q ∈ exPairs, p.2 = q.1 → (p.1, q.2) ∈ exPairs := by decide
theorem ex_irrefl : ∀ p ∈ exPairs, p.1 ≠ p.2 := by decide
def coWWok : Bool := exPairs.all fun p => match p with
  | (.rmw i, .rmw j) => decide (i < j)
  | _ => true
def coWRok : Bool := exPairs.all fun p => match p with
  | (.rmw i, .oth a) => match (exKind a).loadInfo with
      | some (_, some j) => decide (i ≤ j)
      | some (_, none) => false
      | none => true
  | _ => true
theorem coWWok_true : coWWok = true := by decide
theorem coWRok_true : coWRok = true := by decide

theorem exOps_get (i : Nat) (o : Op) (h : exOps[i]? = some o) :
    (i = 0 ∧ o = .inc 1 0) ∨ (i = 1 ∧ o = .dec 1) := by
  match i, h with
  | 0, h => simp [exOps] at h; exact Or.inl ⟨rfl, h.symm⟩
  | 1, h => simp [exOps] at h; exact Or.inr ⟨rfl, h.symm⟩
  | n+2, h => simp [exOps] at h

theorem ex_consistent : Consistent exX where
  hb_trans := by intro a b c h1 h2; exact ex_trans (a, b) h1 (b, c) h2 rfl
  hb_irrefl := by intro a h; exact ex_irrefl (a, a) h rfl
  coWW := by
    intro i j h
    have := List.all_eq_true.1 coWWok_true _ h
    simpa using this
  coWR := by
    intro i a o rf hl h
    have := List.all_eq_true.1 coWRok_true _ h
    change (exKind a).loadInfo = some (o, rf) at hl
    simp only [hl] at this
    cases rf with
    | none => simp at this
    | some j => exact ⟨j, rfl, by simpa using this⟩
  sw_load := by
    intro i j a o hrel hl hacq hij
    change (exKind a).loadInfo = some (o, some j) at hl
    change (exOrd i).isRel = true at hrel
    change (r i, e a) ∈ exPairs
    match a, hl with
    | ⟨0, _⟩, hl => simp [exKind, AKind.loadInfo] at hl
    | ⟨1, _⟩, hl =>
      simp [exKind, AKind.loadInfo] at hl
      obtain ⟨rfl, rfl⟩ := hl
      simp [MemOrd.isAcq] at hacq
  sw_rmw := by
    intro i j hrel hacq hij hj
    change (exOrd j).isAcq = true at hacq
    change j < 2 at hj
    match j, hj, hacq with
    | 0, _, h => simp [exOrd, MemOrd.isAcq] at h
    | 1, _, h => simp [exOrd, MemOrd.isAcq] at h

theorem ex_protocol : Protocol exX .release (some .acquire) where
  fresh := by
    intro i j c s s' hi hj
    rcases exOps_get i _ hi with ⟨rfl, h⟩ | ⟨rfl, h⟩ <;> cases h
    rcases exOps_get j _ hj with ⟨rfl, h⟩ | ⟨rfl, h⟩ <;> cases h
    rfl
  kid_ne_zero := by
    intro i c s hi
    rcases exOps_get i _ hi with ⟨rfl, h⟩ | ⟨rfl, h⟩ <;> cases h
    decide
  dec_once := by
    intro i j h hi hj
    rcases exOps_get i _ hi with ⟨rfl, h1⟩ | ⟨rfl, h1⟩ <;> cases h1
    rcases exOps_get j _ hj with ⟨rfl, h2⟩ | ⟨rfl, h2⟩ <;> cases h2
    rfl
  birth_before_death := by
    intro j h hj hne
    rcases exOps_get j _ hj with ⟨rfl, h1⟩ | ⟨rfl, h1⟩ <;> cases h1
    exact ⟨0, 0, rfl, by show (r 0, r 1) ∈ exPairs; simp [exPairs, r, e]⟩
  src_born := by
    intro j c s hj hne
    rcases exOps_get j _ hj with ⟨rfl, h1⟩ | ⟨rfl, h1⟩ <;> cases h1
    exact absurd rfl hne
  src_alive := by
    intro j c s k hj hk
    rcases exOps_get j _ hj with ⟨rfl, h1⟩ | ⟨rfl, h1⟩ <;> cases h1
    rcases exOps_get k _ hk with ⟨rfl, h2⟩ | ⟨rfl, h2⟩ <;> cases h2
  dec_ord := by
    intro i h hi
    rcases exOps_get i _ hi with ⟨rfl, h1⟩ | ⟨rfl, h1⟩ <;> cases h1
    rfl
  via_real := by
    intro a h hv
    change (exKind a).via = some h at hv
    match a, hv with
    | ⟨0, _⟩, hv => simp [exKind, AKind.via] at hv; subst hv; exact Or.inr (by decide)
    | ⟨1, _⟩, hv => simp [exKind, AKind.via] at hv; exact Or.inl hv.symm
  via_alive := by
    intro a h k hv hk
    change (exKind a).via = some h at hv
    change (e a, r k) ∈ exPairs
    match a, hv with
    | ⟨0, _⟩, hv =>
      simp [exKind, AKind.via] at hv; subst hv
      rcases exOps_get k _ hk with ⟨rfl, h2⟩ | ⟨rfl, h2⟩ <;> cases h2
      simp [exPairs, r, e]
    | ⟨1, _⟩, hv =>
      simp [exKind, AKind.via] at hv; subst hv
      rcases exOps_get k _ hk with ⟨rfl, h2⟩ | ⟨rfl, h2⟩ <;> cases h2
  destroy_shape := by
    intro f k hf
    change exKind f = .destroy k at hf
    match f, hf with
    | ⟨0, _⟩, hf => simp [exKind] at hf
    | ⟨1, _⟩, hf => simp [exKind] at hf
  destroy_inj := by
    intro f₁ f₂ k h1 h2
    change exKind f₁ = .destroy k at h1
    match f₁, h1 with
    | ⟨0, _⟩, h1 => simp [exKind] at h1
    | ⟨1, _⟩, h1 => simp [exKind] at h1

theorem ex_corw : CoRW exX := by
  intro m a o rf hl hb
  change (e a, r m) ∈ exPairs at hb
  change (exKind a).loadInfo = some (o, rf) at hl
  match a, hl with
  | ⟨0, _⟩, hl => simp [exKind, AKind.loadInfo] at hl
  | ⟨1, _⟩, _ => simp [exPairs, r, e] at hb

theorem ex_viaborn : ViaBorn exX := by
  intro a h hv hne
  change (exKind a).via = some h at hv
  match a, hv with
  | ⟨0, _⟩, hv =>
    simp [exKind, AKind.via] at hv; subst hv
    exact ⟨0, 0, rfl, by show (r 0, e 0) ∈ exPairs; simp [exPairs, r, e]⟩
  | ⟨1, _⟩, hv => simp [exKind, AKind.via] at hv; exact absurd hv.symm hne

/-- **necessity of the Acquire in the uniqueness gate**: with a Relaxed gate load there is a
consistent, protocol-following execution in which the gate reads 1 (so `get_mut` would grant `&mut`)
while thread B's payload access is NOT ordered before it — the write would race with B's read. -/
theorem gate_acquire_needed :
    valRead exX.ops (some 1) = 1 ∧ ¬ exX.hb (.oth (0 : EA)) (.oth (1 : EA)) ∧ ¬ exX.hb (.oth (1 : EA)) (.oth (0 : EA)) := by
  refine ⟨by decide, ?_, ?_⟩ <;> (show ¬ (_ ∈ exPairs); decide)

end ExGateRelaxed
end WM
