//! Pass 3: derive the facts of Facts.lean from the census, the call graph and the syntax of the few
//! functions whose *shape* matters (`Arc::clone`, `Arc::drop_inner`, `Arc::is_unique`, `abort`).
//! Everything that is not recognised becomes `unknown` / `other` / `false` (fail closed).

use std::collections::{BTreeMap, BTreeSet};

use quote::ToTokens;
use syn::spanned::Spanned;
use syn::{Expr, Stmt};

use crate::analyze::{classify_atomic_call, is_box_from_raw, is_fence_path, ordering_of, path_idents, tokens_mention_ident, BodyFacts};
use crate::collect::{CfgKind, Crate};
use crate::lower::{Lowerer, Node, Val};
use crate::model::*;
use crate::roles::{Roles, ROLE_CLONE, ROLE_DROP};

pub const GATE_NAMES: &[&str] = &[
    "Arc::is_unique",
    "Arc::get_mut",
    "Arc::get_unique",
    "Arc::try_unique",
    "Arc::try_as_unique",
    "Arc::make_mut",
    "Arc::make_unique",
    "Arc::try_unwrap",
    "Arc::unwrap_or_clone",
    "Arc::write",
    "Arc::as_mut_slice",
    "must_be_unique",
    "UniqueArc::try_from",
    "OffsetArc::make_mut",
];

pub const FUNNEL_NAMES: &[&str] = &[
    "ThinArc::clone",
    "ThinArc::drop",
    "OffsetArc::clone",
    "OffsetArc::drop",
    "OffsetArc::clone_arc",
    "ArcBorrow::clone_arc",
    "ArcUnion::clone",
    "ArcUnion::drop",
];

const ARC_CTORS: &[&str] = &["from_raw", "from_raw_offset", "protected_from_thin", "from_thin", "from_raw_inner", "from_raw_slice"];
const PURE_METHODS: &[&str] = &["inner", "ptr", "as_ptr", "as_ref", "as_mut", "cast", "get"];
pub(crate) const PANIC_MACROS: &[&str] = &["panic", "unreachable", "unimplemented", "todo"];

pub struct Analysis<'a> {
    pub krate: &'a Crate,
    pub bodies: &'a [BodyFacts],
    /// which functions play the clone / drop role (`roles.rs`)
    pub roles: Roles,
    /// all sites sorted by (file, line); `fn_` is the canonical role name where the function plays one
    pub sites: Vec<Site>,
}

// ------------------------------------------------------------------------------------------------
// small syntactic helpers

pub fn flatten(b: &syn::Block) -> Vec<&Stmt> {
    let mut v = Vec::new();
    fn go<'a>(b: &'a syn::Block, v: &mut Vec<&'a Stmt>) {
        for s in &b.stmts {
            match s {
                Stmt::Expr(Expr::Unsafe(u), _) => go(&u.block, v),
                Stmt::Expr(Expr::Block(bl), _) if bl.label.is_none() => go(&bl.block, v),
                Stmt::Expr(Expr::Verbatim(ts), _) if ts.is_empty() => {}
                other => v.push(other),
            }
        }
    }
    go(b, &mut v);
    v
}

pub(crate) fn peel(e: &Expr) -> &Expr {
    match e {
        Expr::Paren(p) => peel(&p.expr),
        Expr::Group(g) => peel(&g.expr),
        _ => e,
    }
}

/// `unsafe { e }` / `{ e }` / `(e)`  ->  `e`
pub(crate) fn strip_blocks(e: &Expr) -> &Expr {
    match e {
        Expr::Paren(p) => strip_blocks(&p.expr),
        Expr::Group(g) => strip_blocks(&g.expr),
        Expr::Unsafe(u) => match u.block.stmts.as_slice() {
            [Stmt::Expr(inner, None)] => strip_blocks(inner),
            _ => e,
        },
        Expr::Block(b) if b.label.is_none() => match b.block.stmts.as_slice() {
            [Stmt::Expr(inner, None)] => strip_blocks(inner),
            _ => e,
        },
        _ => e,
    }
}

/// operand of a comparison: parentheses, `as T` casts and references do not matter
pub(crate) fn peel_val(e: &Expr) -> &Expr {
    match e {
        Expr::Paren(p) => peel_val(&p.expr),
        Expr::Group(g) => peel_val(&g.expr),
        Expr::Cast(c) => peel_val(&c.expr),
        Expr::Reference(r) => peel_val(&r.expr),
        _ => e,
    }
}

pub(crate) fn as_cmp(e: &Expr) -> Option<(Cmp, &Expr, &Expr)> {
    if let Expr::Binary(b) = peel(e) {
        let c = match b.op {
            syn::BinOp::Eq(_) => Cmp::Eq,
            syn::BinOp::Ne(_) => Cmp::Ne,
            syn::BinOp::Lt(_) => Cmp::Lt,
            syn::BinOp::Le(_) => Cmp::Le,
            syn::BinOp::Gt(_) => Cmp::Gt,
            syn::BinOp::Ge(_) => Cmp::Ge,
            _ => return None,
        };
        return Some((c, &b.left, &b.right));
    }
    None
}

pub(crate) fn int_lit(e: &Expr) -> Option<u128> {
    if let Expr::Lit(l) = peel_val(e) {
        if let syn::Lit::Int(i) = &l.lit {
            return i.base10_parse::<u128>().ok();
        }
    }
    None
}

pub(crate) fn single_ident(e: &Expr) -> Option<String> {
    if let Expr::Path(p) = peel_val(e) {
        if p.qself.is_none() && p.path.segments.len() == 1 {
            return Some(p.path.segments[0].ident.to_string());
        }
    }
    None
}

pub(crate) fn pat_ident(p: &syn::Pat) -> Option<String> {
    match p {
        syn::Pat::Ident(pi) => Some(pi.ident.to_string()),
        syn::Pat::Type(pt) => pat_ident(&pt.pat),
        _ => None,
    }
}

pub(crate) fn is_wild(p: &syn::Pat) -> bool {
    match p {
        syn::Pat::Wild(_) => true,
        syn::Pat::Type(pt) => is_wild(&pt.pat),
        _ => false,
    }
}

pub(crate) fn atomic_of_kind(e: &Expr, kind: Kind) -> Option<(MemOrd, usize)> {
    if let Expr::MethodCall(m) = peel_val(strip_blocks(e)) {
        if let Some((k, o)) = classify_atomic_call(m) {
            if k == kind {
                return Some((o, m.method.span().start().line));
            }
        }
    }
    None
}

pub(crate) fn macro_name(m: &syn::Macro) -> String {
    m.path.segments.last().map(|s| s.ident.to_string()).unwrap_or_default()
}

pub(crate) fn stmt_macro(s: &Stmt) -> Option<&syn::Macro> {
    match s {
        Stmt::Macro(m) => Some(&m.mac),
        Stmt::Expr(Expr::Macro(m), _) => Some(&m.mac),
        _ => None,
    }
}

pub(crate) fn is_plain_return(stmts: &[&Stmt]) -> bool {
    match stmts {
        [Stmt::Expr(Expr::Return(r), _)] => r.expr.is_none(),
        _ => false,
    }
}

pub(crate) fn is_pure(e: &Expr) -> bool {
    match e {
        Expr::Path(_) | Expr::Lit(_) => true,
        Expr::Paren(p) => is_pure(&p.expr),
        Expr::Group(g) => is_pure(&g.expr),
        Expr::Field(f) => is_pure(&f.base),
        Expr::Reference(r) => is_pure(&r.expr),
        Expr::Cast(c) => is_pure(&c.expr),
        Expr::Unary(u) => is_pure(&u.expr),
        Expr::Tuple(t) => t.elems.iter().all(is_pure),
        Expr::Binary(b) => {
            use syn::BinOp::*;
            let assign = matches!(
                b.op,
                AddAssign(_) | SubAssign(_) | MulAssign(_) | DivAssign(_) | RemAssign(_) | BitXorAssign(_) | BitAndAssign(_) | BitOrAssign(_) | ShlAssign(_) | ShrAssign(_)
            );
            !assign && is_pure(&b.left) && is_pure(&b.right)
        }
        Expr::MethodCall(m) => PURE_METHODS.contains(&m.method.to_string().as_str()) && is_pure(&m.receiver) && m.args.iter().all(is_pure),
        Expr::Call(c) => {
            if let Expr::Path(p) = &*c.func {
                let n = p.path.segments.last().map(|s| s.ident.to_string()).unwrap_or_default();
                PURE_METHODS.contains(&n.as_str()) && c.args.iter().all(is_pure)
            } else {
                false
            }
        }
        Expr::Unsafe(u) => match u.block.stmts.as_slice() {
            [Stmt::Expr(inner, None)] => is_pure(inner),
            _ => false,
        },
        _ => false,
    }
}

/// names of all functions / methods called somewhere in an expression (macros' token idents included)
pub(crate) fn call_names(e: &Expr) -> BTreeSet<String> {
    struct V(BTreeSet<String>);
    impl<'a> syn::visit::Visit<'a> for V {
        fn visit_expr_method_call(&mut self, m: &'a syn::ExprMethodCall) {
            self.0.insert(m.method.to_string());
            syn::visit::visit_expr_method_call(self, m);
        }
        fn visit_expr_call(&mut self, c: &'a syn::ExprCall) {
            if let Expr::Path(p) = &*c.func {
                if let Some(s) = p.path.segments.last() {
                    self.0.insert(s.ident.to_string());
                }
            }
            syn::visit::visit_expr_call(self, c);
        }
    }
    let mut v = V(BTreeSet::new());
    syn::visit::Visit::visit_expr(&mut v, e);
    v.0
}

// ------------------------------------------------------------------------------------------------

impl<'a> Analysis<'a> {
    pub fn new(krate: &'a Crate, bodies: &'a [BodyFacts], extra_sites: Vec<Site>) -> Self {
        let roles = Roles::compute(krate, bodies);
        let mut sites: Vec<Site> = bodies.iter().flat_map(|b| b.sites.iter().cloned()).collect();
        for s in &mut sites {
            if s.fn_idx != usize::MAX {
                s.fn_ = roles.display_name(krate, s.fn_idx);
            }
        }
        sites.extend(extra_sites);
        sites.sort_by(|a, b| (a.file.as_str(), a.line).cmp(&(b.file.as_str(), b.line)));
        Analysis { krate, bodies, roles, sites }
    }

    fn src_at(&self, file: &str, line: usize) -> Src {
        Src { file: file.to_string(), line, snippet: self.krate.snippet(file, line) }
    }

    fn fn_sites(&self, f: usize) -> Vec<&Site> {
        self.sites.iter().filter(|s| s.fn_idx == f).collect()
    }

    fn fns_named(&self, q: &str) -> Vec<usize> {
        self.krate.by_qname.get(q).cloned().unwrap_or_default()
    }

    /// all functions reachable from `start` over non-debug edges (every candidate target followed)
    pub fn reachable(&self, start: &[usize]) -> BTreeSet<usize> {
        let mut seen: BTreeSet<usize> = start.iter().copied().collect();
        let mut todo: Vec<usize> = start.to_vec();
        while let Some(f) = todo.pop() {
            for e in &self.bodies[f].edges {
                if e.debug {
                    continue;
                }
                for &t in &e.targets {
                    if seen.insert(t) {
                        todo.push(t);
                    }
                }
            }
        }
        seen
    }

    /// `f` contains a non-debug call all of whose candidate targets are in `goal` or themselves reach it
    pub fn reaches_all(&self, f: usize, goal: &BTreeSet<usize>) -> bool {
        fn go(an: &Analysis, f: usize, goal: &BTreeSet<usize>, memo: &mut BTreeMap<usize, bool>, stack: &mut BTreeSet<usize>) -> bool {
            if goal.contains(&f) {
                return true;
            }
            if let Some(&r) = memo.get(&f) {
                return r;
            }
            if !stack.insert(f) {
                return false;
            }
            let mut res = false;
            for e in &an.bodies[f].edges {
                if e.debug || e.targets.is_empty() {
                    continue;
                }
                if e.targets.iter().all(|&t| go(an, t, goal, memo, stack)) {
                    res = true;
                    break;
                }
            }
            stack.remove(&f);
            memo.insert(f, res);
            res
        }
        if goal.is_empty() {
            return false;
        }
        let mut memo = BTreeMap::new();
        let mut stack = BTreeSet::new();
        // the start itself does not count as "reached" unless it is a goal (handled by callers)
        for e in &self.bodies[f].edges {
            if e.debug || e.targets.is_empty() {
                continue;
            }
            stack.insert(f);
            let ok = e.targets.iter().all(|&t| go(self, t, goal, &mut memo, &mut stack));
            stack.remove(&f);
            if ok {
                return true;
            }
        }
        false
    }

    /// a shortest call chain from `f` to one of `goal` (for the comments)
    fn chain(&self, f: usize, goal: &BTreeSet<usize>) -> String {
        let mut prev: BTreeMap<usize, usize> = BTreeMap::new();
        let mut q = std::collections::VecDeque::new();
        q.push_back(f);
        let mut seen = BTreeSet::new();
        seen.insert(f);
        let mut hit = None;
        'outer: while let Some(x) = q.pop_front() {
            for e in &self.bodies[x].edges {
                if e.debug {
                    continue;
                }
                for &t in &e.targets {
                    if seen.insert(t) {
                        prev.insert(t, x);
                        if goal.contains(&t) {
                            hit = Some(t);
                            break 'outer;
                        }
                        q.push_back(t);
                    }
                }
            }
        }
        let Some(mut x) = hit else { return String::new() };
        let mut names = vec![self.krate.fns[x].qname.clone()];
        while let Some(&p) = prev.get(&x) {
            names.push(self.krate.fns[p].qname.clone());
            x = p;
        }
        names.reverse();
        names.join(" > ")
    }

    /// functions that (transitively, non-debug) perform an atomic load
    pub fn loaders(&self) -> BTreeSet<usize> {
        let mut set: BTreeSet<usize> = BTreeSet::new();
        for s in &self.sites {
            if s.kind == Kind::Load && !s.debug_only && s.fn_idx != usize::MAX {
                set.insert(s.fn_idx);
            }
        }
        loop {
            let mut changed = false;
            for f in 0..self.bodies.len() {
                if set.contains(&f) {
                    continue;
                }
                if self.bodies[f].edges.iter().any(|e| !e.debug && e.targets.iter().any(|t| set.contains(t))) {
                    set.insert(f);
                    changed = true;
                }
            }
            if !changed {
                break;
            }
        }
        set
    }

    // --- 2: clone / drop_inner -------------------------------------------------------------------

    fn single_site_ord(&self, qname: &str, kind: Kind) -> (MemOrd, Src) {
        let Some(f) = self.krate.unique_fn(qname) else {
            return (MemOrd::Unknown, Src::none(&format!("{} not found (or defined more than once)", qname)));
        };
        let v: Vec<&Site> = self.fn_sites(f).into_iter().filter(|s| s.kind == kind && !s.debug_only).collect();
        if v.len() == 1 {
            (v[0].ord, self.src_at(&v[0].file, v[0].line))
        } else {
            (MemOrd::Unknown, Src::none(&format!("{} has {} non-debug {} sites (expected exactly one)", qname, v.len(), kind.name())))
        }
    }

    /// ordering of the single atomic load that `qname` performs (itself or through crate calls)
    fn load_ord_of(&self, qname: &str) -> (MemOrd, Src) {
        let Some(f) = self.krate.unique_fn(qname) else {
            return (MemOrd::Unknown, Src::none(&format!("{} not found (or defined more than once)", qname)));
        };
        let r = self.reachable(&[f]);
        let v: Vec<&Site> = self.sites.iter().filter(|s| s.kind == Kind::Load && !s.debug_only && r.contains(&s.fn_idx)).collect();
        if v.len() == 1 {
            (v[0].ord, self.src_at(&v[0].file, v[0].line))
        } else {
            (MemOrd::Unknown, Src::none(&format!("{} reaches {} atomic loads (expected exactly one)", qname, v.len())))
        }
    }

    pub(crate) fn is_fence_expr(&self, e: &Expr) -> Option<(FenceKind, usize)> {
        let e = peel(strip_blocks(e));
        if let Some((o, line)) = atomic_of_kind(e, Kind::Load) {
            return Some((FenceKind::Load(o), line));
        }
        if let Expr::Call(c) = e {
            if let Expr::Path(p) = &*c.func {
                if is_fence_path(&p.path) == Some("fence") {
                    let o = c.args.first().map(ordering_of).unwrap_or(MemOrd::Unknown);
                    return Some((FenceKind::Fence(o), p.path.segments.last().unwrap().ident.span().start().line));
                }
            }
        }
        None
    }

    /// `self.drop_slow()` (any method of self whose body does `Box::from_raw`), `Box::from_raw(..)`,
    /// `drop(Box::from_raw(..))`
    pub(crate) fn is_destroy_expr(&self, f: usize, e: &Expr) -> bool {
        let mut e = peel(strip_blocks(e));
        if let Expr::Call(c) = e {
            if let Expr::Path(p) = &*c.func {
                if path_idents(&p.path).last().map(|s| s == "drop").unwrap_or(false) && c.args.len() == 1 {
                    e = peel(strip_blocks(&c.args[0]));
                }
            }
        }
        let self_ty = self.krate.fns[f].self_ty.clone().unwrap_or_default();
        let destroys = |q: String| -> bool {
            let t = self.fns_named(&q);
            !t.is_empty() && t.iter().all(|&i| self.bodies[i].has_box_from_raw)
        };
        match e {
            Expr::Call(c) => {
                if let Expr::Path(p) = &*c.func {
                    if is_box_from_raw(&p.path) {
                        return true;
                    }
                    let s = path_idents(&p.path);
                    if s.len() >= 2 {
                        let ty = if s[s.len() - 2] == "Self" { self_ty.clone() } else { s[s.len() - 2].clone() };
                        let arg_self = c.args.first().and_then(single_ident).map(|i| i == "self").unwrap_or(false);
                        if ty == self_ty && arg_self {
                            return destroys(format!("{}::{}", ty, s[s.len() - 1]));
                        }
                    }
                }
                false
            }
            Expr::MethodCall(m) => {
                if single_ident(&m.receiver).map(|i| i == "self").unwrap_or(false) {
                    return destroys(format!("{}::{}", self_ty, m.method));
                }
                false
            }
            _ => false,
        }
    }

    pub fn drop_facts(&self) -> ((Guard, Src), (Option<FenceKind>, Src), (Vec<DropStmt>, Src)) {
        let mut front_other: Option<String> = None;
        // the Drop impl(s) of Arc must do nothing but `self.drop_inner()`
        let drops: Vec<usize> =
            self.fns_named("Arc::drop").into_iter().filter(|&i| self.krate.fns[i].trait_name.as_deref() == Some("Drop")).collect();
        if drops.is_empty() {
            front_other = Some("no `impl Drop for Arc`".to_string());
        }
        for &d in &drops {
            let st = flatten(&self.krate.fns[d].block);
            let ok = match st.as_slice() {
                [Stmt::Expr(e, _)] => match peel(strip_blocks(e)) {
                    Expr::MethodCall(m) => m.method == "drop_inner" && m.args.is_empty() && single_ident(&m.receiver).as_deref() == Some("self"),
                    Expr::Call(c) => {
                        if let Expr::Path(p) = &*c.func {
                            let s = path_idents(&p.path);
                            s.len() >= 2
                                && s[s.len() - 1] == "drop_inner"
                                && (s[s.len() - 2] == "Self" || s[s.len() - 2] == "Arc")
                                && c.args.len() == 1
                                && single_ident(&c.args[0]).as_deref() == Some("self")
                        } else {
                            false
                        }
                    }
                    _ => false,
                },
                _ => false,
            };
            if !ok {
                let fi = &self.krate.fns[d];
                front_other = Some(format!("{}:{} `Drop for Arc` does more than `self.drop_inner()`", fi.file, fi.line));
            }
        }

        let Some(f) = self.krate.unique_fn("Arc::drop_inner") else {
            let why = Src::none("Arc::drop_inner not found (or defined more than once)");
            return ((Guard::UNKNOWN, why.clone()), (None, why.clone()), (vec![DropStmt::Other], why));
        };
        let fi = &self.krate.fns[f];
        let mut st = DropState { an: self, f, old: None, pending_let: false, out: Vec::new(), guard: None };
        st.classify(&flatten(&fi.block));
        if st.pending_let {
            st.out.push((DropStmt::Other, None, fi.line));
        }

        // collapse consecutive fences (any acquire among them is as good as one)
        let mut seq: Vec<(DropStmt, Option<FenceKind>, usize)> = Vec::new();
        for it in st.out {
            if it.0 == DropStmt::Fence {
                if let Some(last) = seq.last_mut() {
                    if last.0 == DropStmt::Fence {
                        let last_acq = last.1.map(|k| k.ord().is_acq()).unwrap_or(false);
                        let this_acq = it.1.map(|k| k.ord().is_acq()).unwrap_or(false);
                        if !last_acq && this_acq {
                            *last = it;
                        }
                        continue;
                    }
                }
            }
            seq.push(it);
        }
        // the fence fact: between the guarded decrement and the destruction
        let mut fence = (None, Src::none("no load/fence between the guarded decrement and the destruction"));
        if let Some(gi) = seq.iter().position(|x| x.0 == DropStmt::DecGuard) {
            for it in &seq[gi + 1..] {
                match it.0 {
                    DropStmt::Destroy => break,
                    DropStmt::Fence => {
                        fence = (it.1, self.src_at(&fi.file, it.2));
                        break;
                    }
                    _ => {}
                }
            }
        }
        let mut skel: Vec<DropStmt> = seq.iter().map(|x| x.0).collect();
        let mut skel_src = Src { file: fi.file.clone(), line: fi.line, snippet: self.krate.snippet(&fi.file, fi.line) };
        if let Some(why) = front_other {
            skel.insert(0, DropStmt::Other);
            skel_src = Src::none(&why);
        }
        let guard = st.guard.unwrap_or((Guard::UNKNOWN, Src::none("no `if <fetch_sub result> <cmp> <lit>` found in Arc::drop_inner")));
        (guard, fence, (skel, skel_src))
    }

    // --- 3: is_unique ----------------------------------------------------------------------------

    pub fn is_unique_guard(&self, loader_names: &BTreeSet<String>) -> (Guard, Src) {
        let Some(f) = self.krate.unique_fn("Arc::is_unique") else {
            return (Guard::UNKNOWN, Src::none("Arc::is_unique not found (or defined more than once)"));
        };
        let fi = &self.krate.fns[f];
        let st = flatten(&fi.block);
        let mut lets: BTreeMap<String, &Expr> = BTreeMap::new();
        let mut verdict: Option<&Expr> = None;
        for (i, s) in st.iter().enumerate() {
            match s {
                Stmt::Local(l) => {
                    if let (Some(id), Some(init)) = (pat_ident(&l.pat), &l.init) {
                        lets.insert(id, &init.expr);
                    } else {
                        return (Guard::UNKNOWN, Src::none("unrecognised statement in Arc::is_unique"));
                    }
                }
                Stmt::Expr(Expr::Return(r), _) if i + 1 == st.len() => verdict = r.expr.as_deref(),
                Stmt::Expr(e, None) if i + 1 == st.len() => verdict = Some(e),
                Stmt::Item(_) => {}
                other => {
                    if let Some(m) = stmt_macro(other) {
                        if macro_name(m).starts_with("debug_assert") {
                            continue;
                        }
                    }
                    return (Guard::UNKNOWN, Src::none("unrecognised statement in Arc::is_unique"));
                }
            }
        }
        let Some(v) = verdict else {
            return (Guard::UNKNOWN, Src::none("Arc::is_unique has no tail expression"));
        };
        let line = v.span().start().line;
        let Some((cmp, l, r)) = as_cmp(strip_blocks(v)) else {
            return (Guard::UNKNOWN, self.src_at(&fi.file, line));
        };
        let reads_count = |e: &Expr| -> bool {
            let e = match single_ident(e).and_then(|i| lets.get(&i).copied()) {
                Some(init) => init,
                None => e,
            };
            let names = call_names(e);
            names.iter().any(|n| n == "load" || loader_names.contains(n))
        };
        let g = if let (Some(n), true) = (int_lit(r), reads_count(l)) {
            Guard { cmp, lit: Some(n) }
        } else if let (Some(n), true) = (int_lit(l), reads_count(r)) {
            Guard { cmp: cmp.mirror(), lit: Some(n) }
        } else if reads_count(l) {
            Guard { cmp, lit: None }
        } else if reads_count(r) {
            Guard { cmp: cmp.mirror(), lit: None }
        } else {
            Guard::UNKNOWN
        };
        (g, self.src_at(&fi.file, line))
    }

    // --- 4: gates --------------------------------------------------------------------------------

    fn direct_count_comparison(&self, f: usize) -> bool {
        struct V {
            lets: BTreeSet<String>,
            hit: bool,
        }
        fn reads(e: &Expr, lets: &BTreeSet<String>) -> bool {
            if let Some(i) = single_ident(e) {
                if lets.contains(&i) {
                    return true;
                }
            }
            call_names(e).iter().any(|n| n == "count" || n == "strong_count" || n == "load")
        }
        impl<'a> syn::visit::Visit<'a> for V {
            fn visit_item(&mut self, _: &'a syn::Item) {}
            fn visit_local(&mut self, l: &'a syn::Local) {
                if let (Some(id), Some(init)) = (pat_ident(&l.pat), &l.init) {
                    if reads(&init.expr, &self.lets) {
                        self.lets.insert(id);
                    }
                }
                syn::visit::visit_local(self, l);
            }
            fn visit_expr_binary(&mut self, b: &'a syn::ExprBinary) {
                use syn::BinOp::*;
                if matches!(b.op, Eq(_) | Ne(_) | Lt(_) | Le(_) | Gt(_) | Ge(_)) && (reads(&b.left, &self.lets) || reads(&b.right, &self.lets)) {
                    self.hit = true;
                }
                syn::visit::visit_expr_binary(self, b);
            }
            fn visit_macro(&mut self, m: &'a syn::Macro) {
                let n = macro_name(m);
                if n.starts_with("debug_assert") {
                    return;
                }
                if n == "matches" || n == "assert" || n == "assert_eq" || n == "assert_ne" {
                    if tokens_mention_ident(m.tokens.clone(), "count") || tokens_mention_ident(m.tokens.clone(), "strong_count") || tokens_mention_ident(m.tokens.clone(), "load") {
                        self.hit = true;
                    }
                }
            }
        }
        let mut v = V { lets: BTreeSet::new(), hit: false };
        syn::visit::Visit::visit_block(&mut v, &self.krate.fns[f].block);
        v.hit
    }

    pub fn gates(&self) -> Vec<Gate> {
        let is_unique: BTreeSet<usize> = self.fns_named("Arc::is_unique").into_iter().collect();
        let mut out = Vec::new();
        for name in GATE_NAMES {
            let fs = self.fns_named(name);
            if fs.is_empty() {
                continue;
            }
            let r = self.reachable(&fs);
            let load_sites: Vec<&Site> = self.sites.iter().filter(|s| s.kind == Kind::Load && !s.debug_only && r.contains(&s.fn_idx)).collect();
            let loads: Vec<MemOrd> = load_sites.iter().map(|s| s.ord).collect();
            let via = if *name == "Arc::is_unique" {
                true
            } else {
                fs.iter().all(|&f| self.reaches_all(f, &is_unique) && !self.direct_count_comparison(f))
            };
            let mut note = String::new();
            if *name != "Arc::is_unique" {
                let c = self.chain(fs[0], &is_unique);
                if !c.is_empty() {
                    note.push_str(&c);
                } else {
                    note.push_str("does not reach Arc::is_unique");
                }
                if fs.iter().any(|&f| self.direct_count_comparison(f)) {
                    note.push_str("; compares a count itself");
                }
            } else {
                note.push_str("the verdict itself");
            }
            let ls: Vec<String> = load_sites.iter().map(|s| format!("{}:{} {}", s.file, s.line, s.fn_)).collect();
            note.push_str(&format!("; loads: {}", if ls.is_empty() { "none".to_string() } else { ls.join(", ") }));
            out.push(Gate { name: name.to_string(), loads, via_is_unique: via, note });
        }
        out
    }

    // --- 5: funnels ------------------------------------------------------------------------------

    fn arc_ctor(&self, f: usize, e: &Expr) -> bool {
        let e = peel(strip_blocks(e));
        if let Expr::Call(c) = e {
            if let Expr::Path(p) = &*c.func {
                let s = path_idents(&p.path);
                if s.len() >= 2 && ARC_CTORS.contains(&s[s.len() - 1].as_str()) {
                    let ty = &s[s.len() - 2];
                    let self_is_arc = self.krate.fns[f].self_ty.as_deref() == Some("Arc");
                    return ty == "Arc" || (ty == "Self" && self_is_arc);
                }
            }
        }
        false
    }

    /// every path through the block constructs an owning `Arc` from the raw parts and lets it drop
    fn drops_arc_block(&self, f: usize, b: &syn::Block) -> bool {
        b.stmts.iter().any(|s| match s {
            Stmt::Local(l) => match &l.init {
                Some(init) => (is_wild(&l.pat) || pat_ident(&l.pat).is_some()) && self.arc_ctor(f, &init.expr),
                None => false,
            },
            Stmt::Expr(e, semi) => self.drops_arc_expr(f, e, semi.is_some()),
            _ => false,
        })
    }

    fn drops_arc_expr(&self, f: usize, e: &Expr, is_stmt: bool) -> bool {
        match peel(e) {
            Expr::Unsafe(u) => self.drops_arc_block(f, &u.block),
            Expr::Block(b) => self.drops_arc_block(f, &b.block),
            Expr::Match(m) => !m.arms.is_empty() && m.arms.iter().all(|a| self.drops_arc_expr(f, &a.body, true)),
            Expr::If(i) => {
                self.drops_arc_block(f, &i.then_branch)
                    && match &i.else_branch {
                        Some((_, e)) => self.drops_arc_expr(f, e, true),
                        None => false,
                    }
            }
            Expr::Call(c) => {
                if let Expr::Path(p) = &*c.func {
                    if path_idents(&p.path).last().map(|s| s == "drop").unwrap_or(false) && c.args.len() == 1 {
                        return self.arc_ctor(f, &c.args[0]);
                    }
                }
                is_stmt && self.arc_ctor(f, e)
            }
            _ => false,
        }
    }

    pub fn funnels(&self) -> Vec<Funnel> {
        let arc_clone: BTreeSet<usize> =
            self.fns_named("Arc::clone").into_iter().filter(|&i| self.krate.fns[i].trait_name.as_deref() == Some("Clone")).collect();
        let arc_drop_ok = !self.fns_named("Arc::drop").is_empty();
        let mut out = Vec::new();
        for name in FUNNEL_NAMES {
            let fs = self.fns_named(name);
            if fs.is_empty() {
                continue;
            }
            let own: usize = fs.iter().map(|&f| self.fn_sites(f).len()).sum();
            let drop_like = name.ends_with("::drop");
            let (reaches, note) = if drop_like {
                let ok = arc_drop_ok && fs.iter().all(|&f| self.drops_arc_block(f, &self.krate.fns[f].block) && !self.bodies[f].has_forget);
                (ok, if ok { "rebuilds the owning Arc from the raw parts and lets it drop".to_string() } else { "no dropped `Arc::from_raw*`/`protected_from_thin` value found".to_string() })
            } else {
                let ok = fs.iter().all(|&f| self.reaches_all(f, &arc_clone));
                let c = self.chain(fs[0], &arc_clone);
                (ok, if ok { c } else { "does not reach Arc::clone".to_string() })
            };
            out.push(Funnel { name: name.to_string(), own_atomics: own, reaches, note });
        }
        out
    }

    // --- 6: census -------------------------------------------------------------------------------

    pub fn unknown_writes(&self) -> Vec<Site> {
        self.sites
            .iter()
            .filter(|s| !s.debug_only)
            .filter(|s| {
                if s.raw_write {
                    return true;
                }
                if !s.kind.is_write() {
                    return false;
                }
                let ok = (s.fn_ == "Arc::clone" && s.kind == Kind::FetchAdd) || (s.fn_ == "Arc::drop_inner" && (s.kind == Kind::FetchSub || s.kind == Kind::Fence));
                !ok
            })
            .cloned()
            .collect()
    }

    pub fn atomic_facts(&self) -> AtomicFacts {
        let loaders = self.loaders();
        let loader_names: BTreeSet<String> = loaders.iter().map(|&i| self.krate.fns[i].name.clone()).collect();
        let (dec_guard, fence, drop_skeleton) = self.drop_facts();
        AtomicFacts {
            sites: self.sites.clone(),
            clone_ord: self.single_site_ord("Arc::clone", Kind::FetchAdd),
            dec_ord: self.single_site_ord("Arc::drop_inner", Kind::FetchSub),
            dec_guard,
            fence,
            drop_skeleton,
            is_unique_guard: self.is_unique_guard(&loader_names),
            count_load_ord: self.load_ord_of("Arc::count"),
            strong_count_ord: self.load_ord_of("Arc::strong_count"),
            gates: self.gates(),
            funnels: self.funnels(),
            unknown_writes: self.unknown_writes(),
        }
    }

    // --- 7: constants ----------------------------------------------------------------------------

    fn max_refcount(&self) -> (MaxRefcount, Src) {
        let v: Vec<_> = self.krate.consts.iter().filter(|c| c.name == "MAX_REFCOUNT").collect();
        if v.len() != 1 {
            return (MaxRefcount::Unknown, Src::none(&format!("{} definitions of MAX_REFCOUNT", v.len())));
        }
        let c = v[0];
        let src = Src { file: c.file.clone(), line: c.line, snippet: c.snippet.clone() };
        fn ty_max(e: &Expr) -> Option<String> {
            match peel(e) {
                Expr::Path(p) => {
                    let s = path_idents(&p.path);
                    if s.len() >= 2 && s[s.len() - 1] == "MAX" {
                        return Some(s[s.len() - 2].clone());
                    }
                    None
                }
                Expr::Call(c) if c.args.is_empty() => {
                    if let Expr::Path(p) = &*c.func {
                        let s = path_idents(&p.path);
                        if s.len() >= 2 && s[s.len() - 1] == "max_value" {
                            return Some(s[s.len() - 2].clone());
                        }
                    }
                    None
                }
                _ => None,
            }
        }
        fn go(e: &Expr) -> MaxRefcount {
            let e = peel(e);
            if let Some(t) = ty_max(e) {
                return if t == "usize" { MaxRefcount::UsizeMax } else { MaxRefcount::Unknown };
            }
            match e {
                Expr::Lit(_) => int_lit(e).map(MaxRefcount::Lit).unwrap_or(MaxRefcount::Unknown),
                Expr::Cast(c) => {
                    let to_usize = matches!(&*c.ty, syn::Type::Path(p) if p.path.is_ident("usize"));
                    if !to_usize {
                        return MaxRefcount::Unknown;
                    }
                    match ty_max(&c.expr).as_deref() {
                        Some("isize") => MaxRefcount::IsizeMax,
                        Some("usize") => MaxRefcount::UsizeMax,
                        Some(_) => MaxRefcount::Unknown,
                        None => match go(&c.expr) {
                            MaxRefcount::Lit(n) => MaxRefcount::Lit(n),
                            MaxRefcount::UsizeMax => MaxRefcount::UsizeMax,
                            MaxRefcount::IsizeMax => MaxRefcount::IsizeMax,
                            _ => MaxRefcount::Unknown,
                        },
                    }
                }
                Expr::Binary(b) => {
                    // usize::MAX >> 1, usize::MAX / 2  ==  isize::MAX as usize
                    let l = go(&b.left);
                    let r = int_lit(&b.right);
                    match (&b.op, l, r) {
                        (syn::BinOp::Shr(_), MaxRefcount::UsizeMax, Some(1)) => MaxRefcount::IsizeMax,
                        (syn::BinOp::Div(_), MaxRefcount::UsizeMax, Some(2)) => MaxRefcount::IsizeMax,
                        _ => MaxRefcount::Unknown,
                    }
                }
                _ => MaxRefcount::Unknown,
            }
        }
        (go(&c.expr), src)
    }

    pub(crate) fn abort_call(&self, from_fn: usize, e: &Expr) -> Option<bool> {
        // Some(true): a call of the crate's `abort` / a process abort; Some(false): a call named abort
        // that resolves to something else
        if let Expr::Call(c) = peel(strip_blocks(e)) {
            if !c.args.is_empty() {
                return None;
            }
            if let Expr::Path(p) = &*c.func {
                let s = path_idents(&p.path);
                if s.last().map(|x| x == "abort").unwrap_or(false) {
                    let pre: Vec<&str> = s[..s.len() - 1].iter().map(|x| x.as_str()).collect();
                    let std_abort = matches!(pre.as_slice(), ["std", "process"] | ["process"] | ["core", "intrinsics"] | ["intrinsics"] | ["libc"]);
                    if std_abort {
                        return Some(true);
                    }
                    if pre.is_empty() || pre == ["crate"] || pre == ["super"] {
                        // must be the crate-root `abort`, not a function of the same name elsewhere
                        let file = &self.krate.fns[from_fn].file;
                        let shadow = self
                            .krate
                            .free_by_name
                            .get("abort")
                            .map(|v| v.iter().any(|&i| self.krate.fns[i].file != "lib.rs" || (pre.is_empty() && &self.krate.fns[i].file == file && file != "lib.rs")))
                            .unwrap_or(false);
                        return Some(!shadow);
                    }
                    return Some(false);
                }
            }
        }
        None
    }

    fn clone_guard(&self) -> ((Guard, Src), (bool, Src), (GuardAction, Src)) {
        let none = |w: &str| ((Guard::UNKNOWN, Src::none(w)), (false, Src::none(w)), (GuardAction::Nothing, Src::none(w)));
        let Some(f) = self.krate.unique_fn("Arc::clone") else {
            return none("Arc::clone not found (or defined more than once)");
        };
        let fi = &self.krate.fns[f];
        let st = flatten(&fi.block);
        let mut old: Option<String> = None;
        for s in &st {
            match s {
                Stmt::Local(l) => {
                    if let Some(init) = &l.init {
                        if atomic_of_kind(&init.expr, Kind::FetchAdd).is_some() {
                            old = pat_ident(&l.pat);
                        }
                    }
                }
                Stmt::Expr(Expr::If(i), _) => {
                    let Some((cmp, l, r)) = as_cmp(&i.cond) else { continue };
                    let is_old = |e: &Expr| -> bool {
                        let e = peel_val(e);
                        atomic_of_kind(e, Kind::FetchAdd).is_some() || (old.is_some() && single_ident(e) == old)
                    };
                    let is_max = |e: &Expr| -> bool {
                        if let Expr::Path(p) = peel_val(e) {
                            return path_idents(&p.path).last().map(|x| x == "MAX_REFCOUNT").unwrap_or(false);
                        }
                        false
                    };
                    let involved = is_old(l) || is_old(r) || is_max(l) || is_max(r);
                    if !involved {
                        continue;
                    }
                    // orient: observed value on the left, bound on the right
                    let (cmp, var, bound) = if is_old(l) || (is_max(r) && !is_old(r)) { (cmp, l, r) } else { (cmp.mirror(), r, l) };
                    let line = i.if_token.span.start().line;
                    let src = self.src_at(&fi.file, line);
                    let guard = Guard { cmp, lit: if is_max(bound) { None } else { int_lit(bound) } };
                    let on_old = is_old(var) && is_max(bound);
                    // action
                    let body = flatten(&i.then_branch);
                    let action = if i.else_branch.is_some() {
                        GuardAction::Unknown
                    } else if body.is_empty() {
                        GuardAction::Nothing
                    } else if body.len() == 1 && matches!(body[0], Stmt::Expr(e, _) if self.abort_call(f, e) == Some(true)) {
                        GuardAction::CallsAbort
                    } else if body.iter().any(|s| {
                        stmt_macro(s).map(|m| {
                            let n = macro_name(m);
                            PANIC_MACROS.contains(&n.as_str()) || n.starts_with("assert")
                        }) == Some(true)
                    }) {
                        GuardAction::Panics
                    } else {
                        GuardAction::Unknown
                    };
                    let asrc = match body.first() {
                        Some(s) => self.src_at(&fi.file, s.span().start().line),
                        None => src.clone(),
                    };
                    return ((guard, src.clone()), (on_old, src), (action, asrc));
                }
                _ => {}
            }
        }
        none("no `if <old count> <cmp> MAX_REFCOUNT` in Arc::clone")
    }

    fn classify_abort_fn(&self, f: usize) -> AbortImpl {
        let fi = &self.krate.fns[f];
        if tokens_mention_ident(fi.block.to_token_stream(), "forget") {
            return AbortImpl::Unknown;
        }
        // local guard types: `impl Drop for S { fn drop(&mut self) { panic!() } }`
        let mut guard_types: BTreeSet<String> = BTreeSet::new();
        for (i, g) in self.krate.fns.iter().enumerate() {
            if g.parent == Some(f) && g.trait_name.as_deref() == Some("Drop") && g.name == "drop" {
                let st = flatten(&self.krate.fns[i].block);
                let panics = st.iter().any(|s| stmt_macro(s).map(|m| macro_name(m) == "panic") == Some(true));
                if panics {
                    if let Some(t) = &g.self_ty {
                        guard_types.insert(t.clone());
                    }
                }
            }
        }
        let mut armed = false;
        for s in flatten(&fi.block) {
            match s {
                Stmt::Item(_) => {}
                Stmt::Local(l) => {
                    let Some(init) = &l.init else { continue };
                    let ty = match peel(strip_blocks(&init.expr)) {
                        Expr::Path(p) => path_idents(&p.path).last().cloned(),
                        Expr::Struct(s) => path_idents(&s.path).last().cloned(),
                        Expr::Call(c) => match &*c.func {
                            Expr::Path(p) => path_idents(&p.path).last().cloned(),
                            _ => None,
                        },
                        _ => None,
                    };
                    if let Some(t) = ty {
                        // `let _ = Guard;` drops at once: not armed
                        if guard_types.contains(&t) && pat_ident(&l.pat).is_some() {
                            armed = true;
                        }
                    }
                }
                other => {
                    if let Some(m) = stmt_macro(other) {
                        if PANIC_MACROS.contains(&macro_name(m).as_str()) {
                            return if armed { AbortImpl::DoublePanic } else { AbortImpl::SinglePanic };
                        }
                        continue;
                    }
                    if let Stmt::Expr(e, _) = other {
                        if let Expr::Call(c) = peel(strip_blocks(e)) {
                            if let Expr::Path(p) = &*c.func {
                                let sg = path_idents(&p.path);
                                if sg.len() >= 2 && sg[sg.len() - 1] == "abort" {
                                    return AbortImpl::ProcessAbort;
                                }
                            }
                        }
                        if matches!(e, Expr::Loop(_) | Expr::While(_) | Expr::Return(_)) {
                            return AbortImpl::Unknown;
                        }
                    }
                }
            }
        }
        AbortImpl::Unknown
    }

    fn abort_impl(&self, want_std: bool) -> (AbortImpl, Src) {
        let applies = |cfgs: &[CfgKind]| -> bool {
            cfgs.iter().all(|c| match c {
                CfgKind::Std => want_std,
                CfgKind::NoStd => !want_std,
                CfgKind::Other(_) => false,
            })
        };
        let mut cands: Vec<(AbortImpl, Src)> = Vec::new();
        for u in &self.krate.uses {
            if u.file != "lib.rs" || !applies(&u.cfgs) {
                continue;
            }
            for (path, bound) in &u.paths {
                if bound == "abort" {
                    let p: Vec<&str> = path.iter().map(|s| s.as_str()).collect();
                    let k = match p.as_slice() {
                        ["std", "process", "abort"] | ["core", "intrinsics", "abort"] | ["std", "intrinsics", "abort"] | ["libc", "abort"] => AbortImpl::ProcessAbort,
                        _ => AbortImpl::Unknown,
                    };
                    cands.push((k, Src { file: u.file.clone(), line: u.line, snippet: u.snippet.clone() }));
                }
            }
        }
        if let Some(v) = self.krate.free_by_name.get("abort") {
            for &i in v {
                let fi = &self.krate.fns[i];
                if fi.file != "lib.rs" || fi.parent.is_some() || !applies(&fi.cfgs) {
                    continue;
                }
                cands.push((self.classify_abort_fn(i), self.src_at(&fi.file, fi.line)));
            }
        }
        match cands.len() {
            1 => cands.pop().unwrap(),
            n => (AbortImpl::Unknown, Src::none(&format!("{} definitions of `abort` apply in lib.rs with feature std {}", n, if want_std { "on" } else { "off" }))),
        }
    }

    pub fn const_facts(&self) -> ConstFacts {
        let (clone_guard, on_old, action) = self.clone_guard();
        ConstFacts {
            max_refcount: self.max_refcount(),
            clone_guard,
            clone_guard_on_old_vs_max: on_old,
            clone_guard_action: action,
            abort_std: self.abort_impl(true),
            abort_no_std: self.abort_impl(false),
        }
    }
}

// ------------------------------------------------------------------------------------------------
// drop_inner statement classifier

struct DropState<'a, 'b> {
    an: &'b Analysis<'a>,
    f: usize,
    /// local bound to the result of the fetch_sub
    old: Option<String>,
    pending_let: bool,
    out: Vec<(DropStmt, Option<FenceKind>, usize)>,
    guard: Option<(Guard, Src)>,
}

impl<'a, 'b> DropState<'a, 'b> {
    fn file(&self) -> &str {
        &self.an.krate.fns[self.f].file
    }

    fn is_dec(&self, e: &Expr) -> bool {
        let e = peel_val(e);
        if atomic_of_kind(e, Kind::FetchSub).is_some() {
            return true;
        }
        self.old.is_some() && single_ident(e) == self.old
    }

    fn classify(&mut self, stmts: &[&Stmt]) {
        for s in stmts {
            let line = s.span().start().line;
            match s {
                Stmt::Item(_) => {}
                Stmt::Local(l) => {
                    let Some(init) = &l.init else { continue };
                    let e = &init.expr;
                    if atomic_of_kind(e, Kind::FetchSub).is_some() {
                        match pat_ident(&l.pat) {
                            Some(id) if init.diverge.is_none() => {
                                self.old = Some(id);
                                self.pending_let = true;
                            }
                            _ => self.out.push((DropStmt::Other, None, line)),
                        }
                    } else if let Some((k, ln)) = self.an.is_fence_expr(e) {
                        self.out.push((DropStmt::Fence, Some(k), ln));
                    } else if self.an.is_destroy_expr(self.f, e) {
                        self.out.push((DropStmt::Destroy, None, line));
                    } else if is_pure(e) && init.diverge.is_none() {
                        // a binding of a pure value (`let inner = self.inner();`)
                    } else {
                        self.out.push((DropStmt::Other, None, line));
                    }
                }
                Stmt::Macro(m) => {
                    let n = macro_name(&m.mac);
                    let mentions = |names: &[&str]| names.iter().any(|a| tokens_mention_ident(m.mac.tokens.clone(), a));
                    let writes = mentions(crate::analyze::UNMISTAKABLE) || mentions(&["store", "swap", "fence", "compiler_fence", "get_mut", "write"]);
                    let reads = mentions(&["load", "count", "strong_count", "is_unique"]);
                    let before_dec = !self.pending_let && !self.out.iter().any(|x| x.0 == DropStmt::DecGuard);
                    if n.starts_with("debug_assert") && !writes && (!reads || before_dec) {
                        // compiled out in release builds; at most reads the count while the handle
                        // is still owned (before the decrement)
                    } else {
                        self.out.push((DropStmt::Other, None, line));
                    }
                }
                Stmt::Expr(e, _) => {
                    let e = peel(e);
                    if let Expr::If(i) = e {
                        self.handle_if(i, line);
                    } else if let Some((k, ln)) = self.an.is_fence_expr(e) {
                        self.out.push((DropStmt::Fence, Some(k), ln));
                    } else if self.an.is_destroy_expr(self.f, e) {
                        self.out.push((DropStmt::Destroy, None, line));
                    } else {
                        self.out.push((DropStmt::Other, None, line));
                    }
                }
            }
        }
    }

    fn handle_if(&mut self, i: &syn::ExprIf, line: usize) {
        let Some((cmp, l, r)) = as_cmp(&i.cond) else {
            self.out.push((DropStmt::Other, None, line));
            return;
        };
        let (cmp, other) = if self.is_dec(l) {
            (cmp, r)
        } else if self.is_dec(r) {
            (cmp.mirror(), l)
        } else {
            self.out.push((DropStmt::Other, None, line));
            return;
        };
        self.pending_let = false;
        let lit = int_lit(other);
        let then_body = flatten(&i.then_branch);
        let src = Src { file: self.file().to_string(), line, snippet: self.an.krate.snippet(self.file(), line) };
        let else_block: Option<&syn::Block> = match &i.else_branch {
            None => None,
            Some((_, e)) => match &**e {
                Expr::Block(b) => Some(&b.block),
                _ => {
                    self.out.push((DropStmt::Other, None, line));
                    return;
                }
            },
        };
        if is_plain_return(&then_body) {
            // `if old CMP lit { return; }`  [else { destroy path }]
            self.record_guard(Guard { cmp, lit }, src);
            self.out.push((DropStmt::DecGuard, None, line));
            if let Some(b) = else_block {
                let st = flatten(b);
                self.classify(&st);
            }
        } else {
            // `if old CMP lit { fence; destroy }`  [else { return; }]: the early exit is the negation
            let else_ok = match else_block {
                None => true,
                Some(b) => {
                    let st = flatten(b);
                    st.is_empty() || is_plain_return(&st)
                }
            };
            if !else_ok {
                self.out.push((DropStmt::Other, None, line));
                return;
            }
            self.record_guard(Guard { cmp: cmp.negate(), lit }, src);
            self.out.push((DropStmt::DecGuard, None, line));
            self.classify(&then_body);
        }
    }

    fn record_guard(&mut self, g: Guard, src: Src) {
        if self.guard.is_none() {
            self.guard = Some((g, src));
        }
    }
}
