import TriompheModel.Proofs.HistInv
/-!
# C04 — the reported reference count equals the number of owning handles

`owners s b` is the number of owning handle values of ALL kinds in the slot table (raw pointers
handed out by `into_raw`-style calls included) that refer to block `b`.  Here: how each op changes
`owners`.  That the count *word* equals `owners` in every reachable state (also inside callbacks) is
the invariant `M1.Inv` (Proofs/HistInv.lean), from which `C04_count_eq_owners` follows.
-/
namespace M1
namespace C04

theorem owners_put (s : State) (m : Mem) (i : Nat) (h : HV) (b : Nat) :
    owners (s.put m i h) b = owners s b + (if h.blk = b then 1 else 0) := by
  simp [owners, State.put, List.countP_cons]

/-- **each clone-style operation raises the number of owners of exactly that block by one** -/
theorem C04_clone_plus_one (s : State) (dst src : Nat) (h : HV) (m : Mem) (c : HV)
    (hd : lookup s dst = none) (hs : lookup s src = some h) (hc : cloneHandle s.mem h = some (m, c)) :
    (step s (.clone dst src)).1 = s.put m dst c ∧
    (∀ b, owners (step s (.clone dst src)).1 b = owners s b + (if c.blk = b then 1 else 0)) := by
  have e : (step s (.clone dst src)).1 = s.put m dst c := by simp [step, hd, hs, hc]
  refine ⟨e, ?_⟩
  intro b; rw [e, owners_put]

/-- the clone refers to the same block as its source, and the only change to memory is one
`fetch_add(1)` on that block's count word -/
theorem C04_clone_same_block (m : Mem) (h : HV) (m' : Mem) (c : HV) (hc : cloneHandle m h = some (m', c)) :
    c.blk = h.blk ∧ m' = incr m h.blk := by
  unfold cloneHandle at hc
  split at hc <;> simp_all [Arc.clone, ThinArc.clone, ThinArc.thick, ThinArc.of_arc, OffsetArc.clone,
    OffsetArc.clone_arc, OffsetArc.transient, Arc.from_raw, Arc.into_raw_offset, Arc.into_raw, ArcUnion.clone,
    ArcBorrow.clone_arc, ArcUnion.borrow, ArcUnion.from_first, ArcUnion.from_second]
  all_goals (obtain ⟨rfl, rfl⟩ := hc; simp <;> split <;> simp)

/-- **the reported count equals the number of owning handles — after every history, through every
accessor of every slot.**  `loadCount` is what `count()` (Acquire) and `strong_count()` (Relaxed)
return sequentially, for the `Arc` that a handle of any kind stands for (`asArc`: ThinArc via
`with_arc`, OffsetArc / ArcBorrow / ArcUnion via `from_raw` of the data pointer). -/
theorem C04_count_eq_owners (ops : List Op) (i : Nat) (h : HV) (hl : lookup (run ops) i = some h) :
    loadCount (run ops).mem h.blk = owners (run ops) h.blk ∧
    Arc.strong_count (run ops).mem (asArc (run ops).mem h) = owners (run ops) h.blk ∧
    Arc.count (run ops).mem (asArc (run ops).mem h) = owners (run ops) h.blk :=
  ⟨(count_eq_owners (inv_run ops) hl).1, strong_count_eq_owners (inv_run ops) hl⟩

/-- the same from any state satisfying the invariant, continued by any further ops -/
theorem C04_count_eq_owners_from (s : State) (hi : Inv s) (ops : List Op) (i : Nat) (h : HV)
    (hl : lookup (ops.foldl (fun s o => (step s o).1) s) i = some h) :
    loadCount (ops.foldl (fun s o => (step s o).1) s).mem h.blk = owners (ops.foldl (fun s o => (step s o).1) s) h.blk :=
  (count_eq_owners (inv_run_from s hi ops) hl).1

/-- **inside a borrow callback**: whenever the invariant holds and slot `src` lends the transient
handle `t` (`Lends`), the count the callback reads through `t` is the number of owners … -/
theorem C04_inside_callbacks_reads_owners (s : State) (src : Nat) (t : HV) (hp : CbP src s t) :
    loadCount s.mem t.blk = owners s t.blk := by
  obtain ⟨hi, hs, hl, hb, _⟩ := hp
  rw [← hb]
  exact hi.loadCount_eq hl

/-- … and that situation (`CbP`: invariant + lending) is maintained by every action of every
callback script, whatever the API (`with_arc`, `with_raw_offset_arc`, `with_arc_mut` incl. replacing
the Arc or swapping it with another one), also when the script ends in a panic -/
theorem C04_inside_callbacks_maintained (api : CbApi) (src : Nat) (script : List CbAct) (s : State) (t : HV)
    (acc : String) (hp : CbP src s t) : ∃ t', CbP src (runCb api src script s t acc).1 t' :=
  runCb_ind api src (CbP src) (fun _ _ _ _ _ h hk hc => h.cloneTo hk hc api) (fun _ _ _ h hk _ => h.cloneArc hk)
    (fun _ _ v h => h.write v) (fun _ _ _ _ h hne hk _ => h.repl hne hk)
    (fun _ _ _ _ h hne hk _ _ => h.swap hne hk) script s t acc hp

/-- **`mem::swap` inside `with_arc_mut` is neutral**: the action `swapWith k` (the callback swaps the
lent `Arc` with one made from the ThinArc of slot `k`, and puts what it got back into slot `k`) changes
no memory at all — no count word, no event —, keeps the number of owners of every block, and the two
slots end up holding each other's allocation -/
theorem C04_cb_swap_neutral (s : State) (hi : Inv s) (src k : Nat) (hs h2 t : HV) (rest : List CbAct)
    (acc : String) (hls : lookup s src = some hs) (hlk : lookup s k = some h2) (hne : k ≠ src)
    (hthin : h2.kind = .thin) (hbt : hs.blk = t.blk) :
    ∃ s', runCb .thinWithArcMut src (.swapWith k :: rest) s t acc =
        runCb .thinWithArcMut src rest s' (ThinArc.thick s.mem h2) (acc ++ "swapped;") ∧
      s'.mem = s.mem ∧ (∀ b, owners s' b = owners s b) ∧
      (∃ x, lookup s' src = some x ∧ x.kind = .thin ∧ x.blk = h2.blk) ∧
      (∃ y, lookup s' k = some y ∧ y.kind = .thin ∧ y.blk = hs.blk) := by
  refine ⟨(s.set s.mem k (ThinArc.of_arc t)).set s.mem src (ThinArc.of_arc (ThinArc.thick s.mem h2)),
    by simp [runCb, hne, hlk, hthin], rfl, ?_, ?_, ?_⟩
  · intro b
    exact ownersL_swap (hk' := ThinArc.of_arc t) (hs' := ThinArc.of_arc (ThinArc.thick s.mem h2)) hi.keys
      (lookup_mem hls) (lookup_mem hlk) hne hbt.symm rfl b
  · have hk1 : ((setL (setL s.slots k (ThinArc.of_arc t)) src
        (ThinArc.of_arc (ThinArc.thick s.mem h2))).map (·.1)).Nodup := by
      rw [keys_setL, keys_setL]; exact hi.keys
    exact ⟨_, mem_lookupL hk1 (mem_setL_new (mem_setL_of_ne (lookup_mem hls) (fun e => hne e.symm))), rfl, rfl⟩
  · have hk1 : ((setL (setL s.slots k (ThinArc.of_arc t)) src
        (ThinArc.of_arc (ThinArc.thick s.mem h2))).map (·.1)).Nodup := by
      rw [keys_setL, keys_setL]; exact hi.keys
    exact ⟨_, mem_lookupL hk1 (mem_setL_of_ne (mem_setL_new (lookup_mem hlk)) hne), rfl, hbt.symm⟩

/-- the `cnt` action prints exactly that count -/
theorem C04_cb_cnt_prints_count (api : CbApi) (src : Nat) (rest : List CbAct) (s : State) (t : HV) (acc : String) :
    runCb api src (.cnt :: rest) s t acc = runCb api src rest s t (acc ++ s!"cnt={loadCount s.mem t.blk};") := by
  simp [runCb]

/-- **a release lowers the number of owners of exactly that block by one** -/
theorem C04_release_minus_one (s : State) (hi : Inv s) (src : Nat) (h : HV) (m : Mem)
    (hs : lookup s src = some h) (hd : dropHandle s.mem h = some m) :
    (step s (.drop src)).1 = s.del m src ∧
    ∀ b, owners (s.del m src) b + (if h.blk = b then 1 else 0) = owners s b := by
  have e : (step s (.drop src)).1 = s.del m src := by simp [step, hs, hd]
  refine ⟨e, ?_⟩
  intro b
  exact ownersL_del hi.keys (lookup_mem hs) b

/-- **conversions, gates and borrows are neutral**: an in-place conversion (into_raw, from_raw,
into/from_raw_offset, from_thin, thin into/from raw, union constructors, header erasure, shareable,
assume_init, cast to dyn) changes no count word and no number of owners -/
theorem C04_conv_neutral (s : State) (src : Nat) (c : Conv) (h h' : HV) (hs : lookup s src = some h)
    (hc : runConv s.mem h c = some h') (hi : Inv s) :
    (step s (.conv src c)).1.mem = s.mem ∧ ∀ b, owners (step s (.conv src c)).1 b = owners s b := by
  have e : (step s (.conv src c)).1 = s.set s.mem src h' := by simp [step, hs, hc]
  rw [e]
  refine ⟨rfl, fun b => ?_⟩
  have := ownersL_set (h' := h') hi.keys (lookup_mem hs) b
  rw [(runConv_spec hc).1] at this
  show ownersL (setL s.slots src h') b = ownersL s.slots b
  omega

theorem C04_is_unique_neutral (s : State) (src : Nat) : (step s (.isUnique src)).1 = s := by
  simp only [step]; split <;> (try split) <;> rfl

end C04
end M1
