"""C11 — raw pointers round-trip to the same allocation; handles are one word wide.

Deciding method: Lean theorems of `Props/C11.lean` over M2 (`as_ptr`/`into_raw`/OffsetArc/ArcBorrow
word = Deref address; `from_raw(into_raw)` recovers the block for sized, slice and dyn payloads;
`offset_of_data` recomputes the repr(C) offset).  Tie B: `drv_layout` vs the harness binary `layout`
on the shape matrix x constructors x into/from pairings, with and without `unsize` / `arc-swap`.
Known deviation (known_findings.json `ThinArc-raw-is-block-address`): ThinArc's raw accessors
return the block address; reported as KNOWN-FINDING only when the observation matches the recorded
pattern exactly.
"""
from vlib import layout_corr

MODULE = "TriompheModel.Props.C11"
ASSUME = [
    "addresses are modelled as natural numbers relative to the block the allocator returned; pointer provenance is out of scope",
    "Layout::for_value of a dyn pointee returns the concrete type's (size, align) (rustc vtable layout, trusted; observed for every shape)",
    "handle widths (one word / two words, null niche) are measured with size_of on the real types for every shape; the model only tabulates them",
    "'same contents and count, stable across clones and moves along every history' is the history model's invariant I4; here every into/from pairing is exercised once per case",
    "the harness runs on a 64-bit target; other word widths are covered by the theorems only",
]


def run(ctx):
    layout_corr.run_property(ctx, "C11", MODULE, ASSUME)


def replay(ctx, path):
    layout_corr.replay(ctx, "C11", path)
