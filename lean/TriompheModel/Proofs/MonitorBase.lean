import TriompheModel.Model.Monitor
import TriompheModel.Proofs.HistInv
import TriompheModel.Proofs.HistLen
import TriompheModel.Proofs.HistVal
import TriompheModel.Proofs.HistOff
import TriompheModel.Proofs.HistCow
/-!
# Soundness of the trace monitor on the model's own observations, part 1: the simulation relation and K1 – K6

For every check `Ki` of `Model/Monitor.lean`: on the observation `observe (run pre) op` that the model produces
after any history `pre`, the check returns `[]`; and the monitor state stays in the simulation relation `Rel` with the
model state.  `Props/Monitor.lean` assembles the theorem `monitor_accepts_model`.
-/
namespace M1
namespace Mon
open LY

/-! ## strings: statuses and verdicts -/

theorem isPanic_panicked (cls o : String) : isPanicStatus (panicked cls o).status = true := by
  simp [isPanicStatus, hasPrefix, panicked, String.toList_append]

theorem isPanic_ok (o : String) : isPanicStatus (ok o).status = false := by
  simp only [ok]; decide

theorem isPanic_badOp : isPanicStatus badOp.status = false := by decide
theorem isBadOp_badOp : isBadOpStatus badOp.status = true := by decide
theorem isBadOp_ok (o : String) : isBadOpStatus (ok o).status = false := by
  simp only [ok]; decide

theorem verdict_isUnique (src : Nat) (b : Bool) :
    verdictOf (.isUnique src) (ok s!"unique={b}") = some b := by
  cases b <;> (simp only [verdictOf, verdictOfOut, ok]; decide)

theorem verdict_getMut (s v : Nat) :
    verdictOf (.getMut s v) (ok "some") = some true ∧ verdictOf (.getMut s v) (ok "none") = some false := by
  simp only [verdictOf, verdictOfOut, ok]; decide

theorem verdict_getUnique (s v : Nat) :
    verdictOf (.getUnique s v) (ok "some") = some true ∧ verdictOf (.getUnique s v) (ok "none") = some false := by
  simp only [verdictOf, verdictOfOut, ok]; decide

theorem verdict_tryUnique (src : Nat) :
    verdictOf (.tryUnique src) (ok "ok") = some true ∧ verdictOf (.tryUnique src) (ok "err") = some false := by
  simp only [verdictOf, verdictOfOut, ok]; decide

theorem verdict_tryUnwrap_ok (src : Nat) (x : String) :
    verdictOf (.tryUnwrap src) (ok s!"ok={x}") = some true := by
  simp [verdictOf, verdictOfOut, ok, hasPrefix, String.toList_append, toString]

theorem valShown_none : valShown s!"val={showItem none}" = false := by decide

theorem valShown_some (it : Item) : valShown s!"val={showItem (some it)}" = true := by
  simp [valShown, showItem, String.toList_append, toString]
  intro h
  cases hr : Nat.toDigits 10 it.id with
  | nil => rw [hr] at h; simp at h
  | cons c cs => rw [hr] at h; simp at h

theorem valShown_val (v : Option Item) : valShown s!"val={showItem v}" = v.isSome := by
  cases v with
  | none => exact valShown_none
  | some it => exact valShown_some it

theorem verdict_tryUnwrap_err (src : Nat) : verdictOf (.tryUnwrap src) (ok "err") = some false := by
  simp only [verdictOf, verdictOfOut, ok]; decide

/-! ## the probe of a model state -/

theorem ownersO_observe (s : State) (b : Nat) : ownersO (observeSlots s) b = owners s b := by
  simp only [ownersO, observeSlots, owners, List.countP_map]
  rfl

theorem lookupO_observe (s : State) (i : Nat) : lookupO (observeSlots s) i = (lookup s i).map (slotObs s.mem) := by
  simp only [lookupO, observeSlots, lookup, List.find?_map, Option.map_map]
  rfl

theorem mem_observe {s : State} {e : Nat × SlotObs} (he : e ∈ observeSlots s) :
    ∃ h : HV, (e.1, h) ∈ s.slots ∧ e.2 = slotObs s.mem h := by
  simp only [observeSlots, List.mem_map] at he
  obtain ⟨⟨i, h⟩, hm, rfl⟩ := he
  exact ⟨h, hm, rfl⟩

/-! ## K1 -/

theorem K1_state {s : State} (hi : Inv s) (o : Obs) (ho : o.slots = observeSlots s) : checkK1 o = [] := by
  unfold checkK1
  rw [List.filterMap_eq_nil_iff]
  intro e he
  rw [ho] at he
  obtain ⟨h, hm, he2⟩ := mem_observe he
  have hl : lookup s e.1 = some h := mem_lookupL hi.keys hm
  rw [he2]
  simp only [slotObs]
  cases hc : obsCnt s.mem h with
  | none => rfl
  | some n =>
    have hn : n = loadCount s.mem h.blk := by
      unfold obsCnt at hc
      split at hc <;> simp_all
    have := (count_eq_owners hi hl).1
    simp only [ho, ownersO_observe, hn, this, beq_self_eq_true, if_true]

/-! ## K5 -/

theorem blockAddrKind_true {k : Kind} (h : blockAddrKind k = true) :
    k = .arc ∨ k = .uniq ∨ k = .thin ∨ k = .rawThin := by
  cases k <;> simp_all [blockAddrKind]

theorem blockAddrKind_false {k : Kind} (h : blockAddrKind k = false) :
    k = .raw ∨ k = .offset ∨ k = .unionA ∨ k = .unionB := by
  cases k <;> simp_all [blockAddrKind]

theorem dataOff_pos (t : Ty) (n : Nat) : t.dataOff n ≠ 0 := by
  rw [dataOff_values]; split <;> decide

theorem K5_run (ops : List Op) (o : Obs) (ho : o.slots = observeSlots (run ops)) : checkK5 o = [] := by
  unfold checkK5
  rw [List.append_eq_nil_iff, List.filterMap_eq_nil_iff, List.flatMap_eq_nil_iff]
  have hinv := inv_run ops
  have hoff := offinv_run ops
  refine ⟨?_, ?_⟩
  · intro e he
    rw [ho] at he
    obtain ⟨h, hm, he2⟩ := mem_observe he
    unfold k5One
    rw [he2]
    simp only [slotObs]
    by_cases hk : blockAddrKind h.kind = true
    · have := hoff.blk_addr e.1 h hm (blockAddrKind_true hk)
      simp [this, hk]
    · rw [Bool.not_eq_true] at hk
      have := hoff.data_addr e.1 h hm (blockAddrKind_false hk)
      have hne := dataOff_pos h.ty (viewLen (run ops).mem h)
      simp [this, hne, hk]
  · intro e he
    rw [List.filterMap_eq_nil_iff]
    intro e' he'
    rw [ho] at he he'
    obtain ⟨h, hm, he2⟩ := mem_observe he
    obtain ⟨h', hm', he2'⟩ := mem_observe he'
    unfold k5Pair
    rw [he2, he2']
    simp only [slotObs]
    by_cases hk : blockAddrKind h.kind = true
    · simp [hk]
    · rw [Bool.not_eq_true] at hk
      by_cases hk' : blockAddrKind h'.kind = true
      · simp [hk']
      · rw [Bool.not_eq_true] at hk'
        by_cases hb : h.blk = h'.blk
        · have hl : lookup (run ops) e.1 = some h := mem_lookupL hinv.keys hm
          have hl' : lookup (run ops) e'.1 = some h' := mem_lookupL hinv.keys hm'
          have h1 := data_kind_stores_value_address ops e.1 h hl (blockAddrKind_false hk)
          have h2 := data_kind_stores_value_address ops e'.1 h' hl' (blockAddrKind_false hk')
          have h3 := same_block_same_data_address ops e.1 e'.1 h h' hl hl' hb
          have : h.off = h'.off := by rw [h1, h2, h3]
          simp [this]
        · simp [hb]

/-! ## how the log and the `leaked` flags evolve along a step (new facts about `step`) -/

/-- from `m0` to `m`: the log only grows, blocks are only appended, and no block has become `leaked` -/
structure Grow (m0 m : Mem) : Prop where
  log : ∃ es, m.log = m0.log ++ es
  len : m0.blocks.length ≤ m.blocks.length
  noleak : ∀ (b : Nat) (k : Block), m.blocks[b]? = some k → k.leaked = true →
    ∃ k0 : Block, m0.blocks[b]? = some k0 ∧ k0.leaked = true

namespace Grow

theorem refl (m : Mem) : Grow m m := ⟨⟨[], by simp⟩, Nat.le_refl _, fun _ k hk hl => ⟨k, hk, hl⟩⟩

theorem upd {m0 m : Mem} (hg : Grow m0 m) (b : Nat) (f : Block → Block) (hf : ∀ k, (f k).leaked = k.leaked) :
    Grow m0 (m.upd b f) := by
  refine ⟨hg.log, by rw [length_upd]; exact hg.len, ?_⟩
  intro j k' hk' hl
  rw [upd_get] at hk'
  cases hk : m.blocks[j]? with
  | none => rw [hk] at hk'; cases hk'
  | some k =>
    rw [hk] at hk'
    simp only [Option.map_some, Option.some.injEq] at hk'
    by_cases hbj : b = j
    · simp only [hbj, if_true] at hk'
      subst hk'
      rw [hf] at hl
      exact hg.noleak j k hk hl
    · simp only [hbj, if_false] at hk'
      subst hk'
      exact hg.noleak j k hk hl

theorem emit {m0 m : Mem} (hg : Grow m0 m) (es : List Event) : Grow m0 (m.emit es) := by
  obtain ⟨es0, h0⟩ := hg.log
  exact ⟨⟨es0 ++ es, by simp [Mem.emit, h0]⟩, hg.len, hg.noleak⟩

theorem alloc {m0 m : Mem} (hg : Grow m0 m) (lay : Layout) (hdr : Option Item) (rl : Option Nat)
    (el : List (Option Item)) : Grow m0 (allocBlock m lay hdr rl el).1 := by
  obtain ⟨es0, h0⟩ := hg.log
  refine ⟨⟨es0 ++ [Event.alloc m.blocks.length lay.size lay.align], by simp [allocBlock, h0]⟩,
    by rw [length_allocBlock]; have := hg.len; omega, ?_⟩
  intro j k hk hl
  have hb : (allocBlock m lay hdr rl el).1.blocks = m.blocks ++ [⟨1, true, lay, hdr, rl, el, false⟩] := rfl
  rw [hb] at hk
  rcases append_get _ _ _ _ hk with h | h
  · exact hg.noleak j k h hl
  · rw [h.2] at hl; cases hl

theorem incr {m0 m : Mem} (hg : Grow m0 m) (b : Nat) : Grow m0 (incr m b) := hg.upd b _ (fun _ => rfl)

theorem decr {m0 m : Mem} (hg : Grow m0 m) (b : Nat) (t : Ty) (l : Nat) : Grow m0 (decr m b t l) := by
  unfold M1.decr
  split
  · exact hg
  · split
    · exact (hg.upd b (fun k => { k with count := 0, live := false }) (fun _ => rfl)).emit _
    · exact hg.upd b _ (fun _ => rfl)

theorem writeVal {m0 m : Mem} (hg : Grow m0 m) (b v : Nat) : Grow m0 (writeVal m b v) := by
  apply hg.upd
  intro k
  split
  · rfl
  · split <;> rfl

theorem cloneValue {m0 m : Mem} (hg : Grow m0 m) (b : Nat) : Grow m0 (cloneValue m b).1 := by
  unfold M1.cloneValue
  split
  · rename_i it _
    have := hg.emit [Event.clone it.id m.nextClone]
    exact ⟨this.log, this.len, this.noleak⟩
  · exact hg

theorem into_inner {m0 m : Mem} (hg : Grow m0 m) (u : HV) : Grow m0 (UniqueArc.into_inner m u).1 := by
  unfold UniqueArc.into_inner
  split
  · exact hg
  · exact (hg.upd u.blk (fun k => { k with count := 0, live := false }) (fun _ => rfl)).emit _

theorem append_block {m0 m : Mem} (hg : Grow m0 m) (k0 : Block) (hk0 : k0.leaked = false) (es : List Event) (nc : Nat) :
    Grow m0 ⟨m.blocks ++ [k0], m.log ++ es, nc⟩ := by
  obtain ⟨es0, h0⟩ := hg.log
  refine ⟨⟨es0 ++ es, by simp [h0]⟩, by simp only [List.length_append, List.length_singleton]; have := hg.len; omega, ?_⟩
  intro j k hk hl
  rcases append_get _ _ _ _ hk with h | h
  · exact hg.noleak j k h hl
  · rw [h.2, hk0] at hl; cases hl

theorem same_blocks {m0 m : Mem} (hg : Grow m0 m) (es : List Event) (nc : Nat) :
    Grow m0 ⟨m.blocks, m.log ++ es, nc⟩ := by
  obtain ⟨es0, h0⟩ := hg.log
  exact ⟨⟨es0 ++ es, by simp [h0]⟩, hg.len, hg.noleak⟩

theorem closed (m0 : Mem) : MemClosed (Grow m0) where
  hIncr := fun _ b _ hp _ _ => hp.incr b
  hDecr := fun _ b t l hp _ => hp.decr b t l
  hWriteVal := fun _ b v hp => hp.writeVal b v
  hCloneValue := fun _ b hp => hp.cloneValue b
  hCloneNew := fun _ b _ hp => (hp.cloneValue b).alloc ..
  hIntoInner := fun _ u hp => hp.into_inner u

end Grow

/-- what one op does to the log and to the `leaked` flags: the log grows by a suffix, blocks are only appended, and a
block is `leaked` afterwards only if it was before, or if it was allocated by this very op and the op's status is a
panic -/
structure StepGrow (s : State) (op : Op) : Prop where
  log : ∃ es, (step s op).1.mem.log = s.mem.log ++ es
  len : s.mem.blocks.length ≤ (step s op).1.mem.blocks.length
  leak : ∀ (b : Nat) (k : Block), (step s op).1.mem.blocks[b]? = some k → k.leaked = true →
    (∃ k0 : Block, s.mem.blocks[b]? = some k0 ∧ k0.leaked = true) ∨
    (s.mem.blocks.length ≤ b ∧ isPanicStatus (step s op).2.status = true)

theorem StepGrow.of_grow {s : State} {op : Op} (h : Grow s.mem (step s op).1.mem) : StepGrow s op :=
  ⟨h.log, h.len, fun b k hk hl => Or.inl (h.noleak b k hk hl)⟩

theorem step_grow {s : State} (hi : Inv' s) (op : Op) : StepGrow s op := by
  cases hp : op.plain with
  | true => exact .of_grow (closed_step (Grow.closed s.mem) hi (Grow.refl _) op hp)
  | false =>
    cases op with
    | create dst c =>
      apply StepGrow.of_grow
      simp only [step]
      split
      · exact Grow.refl _
      · split
        · exact Grow.refl _
        · rename_i m h hc
          rw [runCtor_eq, Option.map_eq_some_iff] at hc
          obtain ⟨lay, _, he⟩ := hc
          cases he
          exact (Grow.refl s.mem).alloc lay _ _ _
    | writeSlot src i v =>
      apply StepGrow.of_grow
      simp only [step]
      split
      · split
        · split
          · simp only
            split
            · exact (Grow.refl _).emit _
            · exact Grow.refl _
          · exact (Grow.refl _).upd _ _ (fun _ => rfl)
        · exact Grow.refl _
      · exact Grow.refl _
    | iterCtor dst w h sc =>
      cases hd : lookup s dst with
      | some x =>
        have e : step s (.iterCtor dst w h sc) = (s, badOp) := by simp [step, hd]
        exact .of_grow (by rw [e]; exact Grow.refl _)
      | none =>
        have hs := runIterCtor_spec s.mem true w h sc
        have eb : ∀ m hv, runIterCtor s.mem true w h sc = .built m hv →
            step s (.iterCtor dst w h sc) = (s.put m dst hv, ok) := by
          intro m hv hr; simp [step, hd, hr]
        have ep : ∀ m cls, runIterCtor s.mem true w h sc = .panicked m cls →
            step s (.iterCtor dst w h sc) = (⟨m, s.slots⟩, panicked cls) := by
          intro m cls hr; simp [step, hd, hr]
        generalize hr : runIterCtor s.mem true w h sc = r at hs
        cases hs with
        | built lay hal =>
          have e := eb _ _ hr
          apply StepGrow.of_grow; rw [e]
          exact (Grow.refl s.mem).append_block _ rfl _ _
        | noBlock k cls =>
          have e := ep _ _ hr
          apply StepGrow.of_grow; rw [e]
          exact (Grow.refl s.mem).same_blocks _ _
        | noAlloc n hal =>
          have e := ep _ _ hr
          apply StepGrow.of_grow; rw [e]
          exact (Grow.refl s.mem).same_blocks _ _
        | thinMismatch lay n1 hw hn hal =>
          have e := ep _ _ hr
          apply StepGrow.of_grow; rw [e]
          have := (Grow.refl s.mem).append_block ⟨0, false, lay, h, some n1, sc.items.map some, false⟩ rfl
            ([Event.alloc s.mem.blocks.length lay.size lay.align] ++
              (hdrDrops h ++ dropsOf sc.items ++
                [.dealloc s.mem.blocks.length (Ty.hwl.releaseLayout sc.items.length).size
                  (Ty.hwl.releaseLayout sc.items.length).align])) s.mem.nextClone
          simpa using this
        | leaked lay rl es k cls hes =>
          have e := ep _ _ hr
          refine ⟨?_, ?_, ?_⟩
          · rw [e]; exact ⟨_, List.append_assoc _ _ _⟩
          · rw [e]; simp
          · intro b k' hk' hl
            rw [e] at hk' ⊢
            simp only at hk'
            rcases append_get _ _ _ _ hk' with h1 | h1
            · exact Or.inl ⟨k', h1, hl⟩
            · exact Or.inr ⟨by omega, isPanic_panicked _ _⟩
    | _ => cases hp

/-! ## K2: the event fold against a disciplined log -/

/-- what the monitor knows after the events `pre` of the whole log -/
structure Track (pre : List Event) (st : MSt) : Prop where
  live : ∀ b sz al, (b, sz, al) ∈ st.live ↔
    (Event.alloc b sz al ∈ pre ∧ ∀ sz' al', Event.dealloc b sz' al' ∉ pre)
  dropped : ∀ id, id ∈ st.dropped ↔ Event.drop id ∈ pre

/-- the discipline of a complete log `L` (and of the probe `o.slots` taken at its end) that K2 checks -/
structure LogOk (o : Obs) (L : List Event) : Prop where
  allocFresh : ∀ pre rest b sz al, L = pre ++ Event.alloc b sz al :: rest →
    ∀ sz' al', Event.dealloc b sz' al' ∉ pre
  deallocLive : ∀ pre rest b sz al, L = pre ++ Event.dealloc b sz al :: rest →
    (∃ sz' al', Event.alloc b sz' al' ∈ pre) ∧ (∀ sz' al', Event.dealloc b sz' al' ∉ pre)
  layout : ∀ b sz al sz' al', Event.alloc b sz al ∈ L → Event.dealloc b sz' al' ∈ L → sz' = sz ∧ al' = al
  unowned : ∀ b sz al, Event.dealloc b sz al ∈ L → ownersO o.slots b = 0
  dropOnce : ∀ pre rest id, L = pre ++ Event.drop id :: rest → Event.drop id ∉ pre

theorem mem_snoc {x e : Event} {pre : List Event} : x ∈ pre ++ [e] ↔ x ∈ pre ∨ x = e := by simp

/-- an event that is neither `alloc`, `dealloc` nor `drop` changes nothing -/
theorem track_other {pre : List Event} {e : Event} {st : MSt} (ht : Track pre st)
    (h1 : ∀ b sz al, e ≠ Event.alloc b sz al) (h2 : ∀ b sz al, e ≠ Event.dealloc b sz al)
    (h3 : ∀ id, e ≠ Event.drop id) : Track (pre ++ [e]) st := by
  refine ⟨?_, ?_⟩
  · intro b sz al
    rw [ht.live, mem_snoc]
    constructor
    · rintro ⟨ha, hd⟩
      exact ⟨Or.inl ha, fun s a hm => by
        rcases mem_snoc.1 hm with hm | hm
        · exact hd s a hm
        · exact h2 _ _ _ hm.symm⟩
    · rintro ⟨ha | ha, hd⟩
      · exact ⟨ha, fun s a hm => hd s a (mem_snoc.2 (Or.inl hm))⟩
      · exact absurd ha.symm (h1 _ _ _)
  · intro id
    rw [ht.dropped, mem_snoc]
    constructor
    · exact Or.inl
    · rintro (h | h)
      · exact h
      · exact absurd h.symm (h3 _)

theorem k2Step_sound {o : Obs} {L : List Event} (hL : LogOk o L) {pre rest : List Event} {e : Event} {st : MSt}
    (hsplit : L = pre ++ e :: rest) (ht : Track pre st) :
    (k2Step o st e).2 = [] ∧ Track (pre ++ [e]) (k2Step o st e).1 := by
  cases e with
  | alloc b sz al =>
    refine ⟨rfl, ?_, ?_⟩
    · intro b' sz' al'
      show (b', sz', al') ∈ (b, sz, al) :: st.live ↔ _
      rw [List.mem_cons, ht.live, mem_snoc]
      constructor
      · rintro (h | ⟨h1, h2⟩)
        · cases h
          exact ⟨Or.inr rfl, fun s a hm => by
            rcases mem_snoc.1 hm with hm | hm
            · exact hL.allocFresh pre rest _ _ _ hsplit s a hm
            · cases hm⟩
        · exact ⟨Or.inl h1, fun s a hm => by
            rcases mem_snoc.1 hm with hm | hm
            · exact h2 s a hm
            · cases hm⟩
      · rintro ⟨h1 | h1, h2⟩
        · exact Or.inr ⟨h1, fun s a hm => h2 s a (mem_snoc.2 (Or.inl hm))⟩
        · cases h1; exact Or.inl rfl
    · intro id
      show id ∈ st.dropped ↔ _
      rw [ht.dropped, mem_snoc]
      constructor
      · exact Or.inl
      · rintro (h | h)
        · exact h
        · cases h
  | dealloc b sz al =>
    obtain ⟨⟨sz0, al0, ha0⟩, hnd⟩ := hL.deallocLive pre rest b sz al hsplit
    have hlive0 : (b, sz0, al0) ∈ st.live := (ht.live b sz0 al0).2 ⟨ha0, hnd⟩
    have hdL : Event.dealloc b sz al ∈ L := by rw [hsplit]; simp
    refine ⟨?_, ?_, ?_⟩
    · show (match st.live.find? (fun e => e.1 == b) with
        | none => [Fail.freeNotLive "C01" b]
        | some e => if e.2.1 == sz && e.2.2 == al then [] else [Fail.freeLayout "C05" b e.2.1 e.2.2 sz al]) ++
       (if ownersO o.slots b == 0 then [] else [Fail.freeOwned "C01" b (ownersO o.slots b)]) = []
      rw [List.append_eq_nil_iff]
      refine ⟨?_, ?_⟩
      · cases hf : st.live.find? (fun e => e.1 == b) with
        | none =>
          rw [List.find?_eq_none] at hf
          have := hf _ hlive0
          simp at this
        | some e =>
          have hm := List.mem_of_find?_eq_some hf
          have hb := List.find?_some hf
          simp only [beq_iff_eq] at hb
          obtain ⟨b1, s1, a1⟩ := e
          simp only at hb
          subst hb
          have ha1 := ((ht.live b1 s1 a1).1 hm).1
          have haL : Event.alloc b1 s1 a1 ∈ L := by rw [hsplit]; exact List.mem_append_left _ ha1
          obtain ⟨rfl, rfl⟩ := hL.layout _ _ _ _ _ haL hdL
          simp
      · rw [hL.unowned b sz al hdL]; rfl
    · intro b' sz' al'
      show (b', sz', al') ∈ st.live.filter (fun e => e.1 != b) ↔ _
      rw [List.mem_filter, ht.live, mem_snoc]
      constructor
      · rintro ⟨⟨h1, h2⟩, h3⟩
        refine ⟨Or.inl h1, fun s a hm => ?_⟩
        rcases mem_snoc.1 hm with hm | hm
        · exact h2 s a hm
        · cases hm; simp at h3
      · rintro ⟨h1 | h1, h2⟩
        · refine ⟨⟨h1, fun s a hm => h2 s a (mem_snoc.2 (Or.inl hm))⟩, ?_⟩
          simp only [bne_iff_ne, ne_eq]
          intro hb
          subst hb
          exact h2 sz al (mem_snoc.2 (Or.inr rfl))
        · cases h1
    · intro id
      show id ∈ st.dropped ↔ _
      rw [ht.dropped, mem_snoc]
      constructor
      · exact Or.inl
      · rintro (h | h)
        · exact h
        · cases h
  | drop id =>
    have hnot : id ∉ st.dropped := fun h => hL.dropOnce pre rest id hsplit ((ht.dropped id).1 h)
    refine ⟨?_, ?_, ?_⟩
    · show (if st.dropped.contains id then [Fail.doubleDrop "C01" id] else []) = []
      simp [hnot]
    · intro b' sz' al'
      show (b', sz', al') ∈ st.live ↔ _
      rw [ht.live, mem_snoc]
      constructor
      · rintro ⟨ha, hd⟩
        exact ⟨Or.inl ha, fun s a hm => by
          rcases mem_snoc.1 hm with hm | hm
          · exact hd s a hm
          · cases hm⟩
      · rintro ⟨ha | ha, hd⟩
        · exact ⟨ha, fun s a hm => hd s a (mem_snoc.2 (Or.inl hm))⟩
        · cases ha
    · intro id'
      show id' ∈ id :: st.dropped ↔ _
      rw [List.mem_cons, ht.dropped, mem_snoc]
      constructor
      · rintro (h | h)
        · subst h; exact Or.inr rfl
        · exact Or.inl h
      · rintro (h | h)
        · exact Or.inr h
        · cases h; exact Or.inl rfl
  | clone a c =>
    exact ⟨rfl, track_other ht (fun _ _ _ h => by cases h) (fun _ _ _ h => by cases h) (fun _ h => by cases h)⟩
  | dropUninit a c =>
    exact ⟨rfl, track_other ht (fun _ _ _ h => by cases h) (fun _ _ _ h => by cases h) (fun _ h => by cases h)⟩

theorem k2_sound {o : Obs} {L : List Event} (hL : LogOk o L) :
    ∀ (evs pre : List Event) (st : MSt), L = pre ++ evs → Track pre st →
      (k2 o st evs).2 = [] ∧ Track L (k2 o st evs).1 := by
  intro evs
  induction evs with
  | nil => intro pre st hsplit ht; simp only [List.append_nil] at hsplit; subst hsplit; exact ⟨rfl, ht⟩
  | cons e r ih =>
    intro pre st hsplit ht
    obtain ⟨h1, h2⟩ := k2Step_sound hL hsplit ht
    obtain ⟨h3, h4⟩ := ih (pre ++ [e]) (k2Step o st e).1 (by rw [hsplit]; simp) h2
    refine ⟨?_, h4⟩
    simp only [k2, h1, h3, List.append_nil]

/-- K2 never forgets a documented leak, and records the blocks allocated by a panicking op -/
theorem k2_leakOk_mono (o : Obs) : ∀ (evs : List Event) (st : MSt) (b : Nat),
    b ∈ st.leakOk → b ∈ (k2 o st evs).1.leakOk := by
  intro evs
  induction evs with
  | nil => intro st b h; exact h
  | cons e r ih =>
    intro st b h
    simp only [k2]
    apply ih
    cases e <;> simp only [k2Step] <;> try exact h
    split
    · exact List.mem_cons_of_mem _ h
    · exact h

theorem k2_leakOk_new (o : Obs) (hp : o.panicked = true) : ∀ (evs : List Event) (st : MSt) (b sz al : Nat),
    Event.alloc b sz al ∈ evs → b ∈ (k2 o st evs).1.leakOk := by
  intro evs
  induction evs with
  | nil => intro st b sz al h; cases h
  | cons e r ih =>
    intro st b sz al h
    simp only [k2]
    rcases List.mem_cons.1 h with h | h
    · subst h
      apply k2_leakOk_mono
      simp [k2Step, hp]
    · exact ih _ b sz al h

theorem k2_pre (o : Obs) : ∀ (evs : List Event) (st : MSt), (k2 o st evs).1.pre = st.pre := by
  intro evs
  induction evs with
  | nil => intro st; rfl
  | cons e r ih =>
    intro st
    simp only [k2]
    rw [ih]
    cases e <;> rfl

/-! ## the log of a reachable state is disciplined; so is the log with the events of the last op permuted -/

/-- facts about a log that do not depend on the order of its events -/
structure LogFacts (o : Obs) (L : List Event) : Prop where
  allocOnce : ∀ b, L.countP (isAlloc b) ≤ 1
  deallocOnce : ∀ b, L.countP (isDealloc b) ≤ 1
  allocated : ∀ b sz al, Event.dealloc b sz al ∈ L → ∃ sz' al', Event.alloc b sz' al' ∈ L
  layout : ∀ b sz al sz' al', Event.alloc b sz al ∈ L → Event.dealloc b sz' al' ∈ L → sz' = sz ∧ al' = al
  unowned : ∀ b sz al, Event.dealloc b sz al ∈ L → ownersO o.slots b = 0
  drops : (dropIds L).Nodup

/-- every `dealloc` is preceded by an `alloc` of the same block -/
def Ordered (L : List Event) : Prop :=
  ∀ pre rest b sz al, L = pre ++ Event.dealloc b sz al :: rest → ∃ sz' al', Event.alloc b sz' al' ∈ pre

theorem two_of_split {p : Event → Bool} {pre rest : List Event} {x y : Event} (hx : x ∈ pre) (hpx : p x = true)
    (hpy : p y = true) : 2 ≤ (pre ++ y :: rest).countP p := by
  rw [List.countP_append, List.countP_cons, if_pos hpy]
  have : 0 < pre.countP p := List.countP_pos_iff.2 ⟨x, hx, hpx⟩
  omega

theorem logOk_of_facts {o : Obs} {L : List Event} (hf : LogFacts o L) (ho : Ordered L) : LogOk o L where
  allocFresh := by
    intro pre rest b sz al hsplit sz' al' hm
    obtain ⟨p1, p2, rfl⟩ := List.append_of_mem hm
    obtain ⟨s0, a0, h0⟩ := ho p1 (p2 ++ Event.alloc b sz al :: rest) b sz' al' (by rw [hsplit]; simp)
    have := two_of_split (p := isAlloc b) (pre := p1 ++ Event.dealloc b sz' al' :: p2) (rest := rest)
      (x := Event.alloc b s0 a0) (y := Event.alloc b sz al) (List.mem_append_left _ h0) (by simp [isAlloc])
      (by simp [isAlloc])
    rw [← hsplit] at this
    have := hf.allocOnce b
    omega
  deallocLive := by
    intro pre rest b sz al hsplit
    refine ⟨ho pre rest b sz al hsplit, ?_⟩
    intro sz' al' hm
    have := two_of_split (p := isDealloc b) (rest := rest) (y := Event.dealloc b sz al) hm (by simp [isDealloc])
      (by simp [isDealloc])
    rw [← hsplit] at this
    have := hf.deallocOnce b
    omega
  layout := hf.layout
  unowned := hf.unowned
  dropOnce := by
    intro pre rest id hsplit hm
    have hnd := hf.drops
    rw [hsplit, dropIds_append] at hnd
    have h1 : id ∈ dropIds pre := by
      simp only [dropIds, List.mem_filterMap]
      exact ⟨_, hm, rfl⟩
    have h2 : id ∈ dropIds (Event.drop id :: rest) := by
      rw [dropIds_cons_drop]; exact List.mem_cons_self
    exact (List.nodup_append.1 hnd).2.2 id h1 id h2 rfl

theorem LogFacts.perm {o : Obs} {L L' : List Event} (hp : L.Perm L') (hf : LogFacts o L) : LogFacts o L' where
  allocOnce := fun b => by rw [← hp.countP_eq]; exact hf.allocOnce b
  deallocOnce := fun b => by rw [← hp.countP_eq]; exact hf.deallocOnce b
  allocated := fun b sz al h => by
    obtain ⟨s, a, h'⟩ := hf.allocated b sz al (hp.mem_iff.2 h)
    exact ⟨s, a, hp.mem_iff.1 h'⟩
  layout := fun b sz al sz' al' h1 h2 => hf.layout b sz al sz' al' (hp.mem_iff.2 h1) (hp.mem_iff.2 h2)
  unowned := fun b sz al h => hf.unowned b sz al (hp.mem_iff.2 h)
  drops := ((hp.filterMap Event.dropId?).nodup_iff).1 hf.drops

theorem getElem?_of_mem_left {x : Event} {pre rest : List Event} (h : x ∈ pre) :
    ∃ i, i < pre.length ∧ (pre ++ rest)[i]? = some x := by
  obtain ⟨i, hi⟩ := List.mem_iff_getElem?.1 h
  have hlt : i < pre.length := (List.getElem?_eq_some_iff.1 hi).1
  exact ⟨i, hlt, by rw [List.getElem?_append_left hlt]; exact hi⟩

theorem getElem?_mid (pre rest : List Event) (e : Event) : (pre ++ e :: rest)[pre.length]? = some e := by
  rw [List.getElem?_append_right (Nat.le_refl _)]; simp

theorem ordered_of_loginv {m : Mem} (hl : LogInv m) : Ordered m.log := by
  intro pre rest b sz al hsplit
  have hmid := getElem?_mid pre rest (Event.dealloc b sz al)
  rw [← hsplit] at hmid
  obtain ⟨j, hj, sz', al', hget⟩ := hl.ord _ b sz al hmid
  rw [hsplit, List.getElem?_append_left hj] at hget
  exact ⟨sz', al', List.mem_of_getElem? hget⟩

theorem facts_of_state {s : State} (hi : Inv s) (hl : LogInv s.mem) (hdl : DL s.mem)
    (hnd : (dropIds s.mem.log).Nodup) (o : Obs) (ho : o.slots = observeSlots s) : LogFacts o s.mem.log where
  allocOnce := fun b => by have := hl.na b; split at this <;> omega
  deallocOnce := fun b => dealloc_le_one hl b
  allocated := by
    intro b sz al hd
    obtain ⟨i, hi⟩ := List.mem_iff_getElem?.1 hd
    obtain ⟨j, _, sz', al', hj⟩ := hl.ord i b sz al hi
    exact ⟨sz', al', List.mem_of_getElem? hj⟩
  layout := by
    intro b sz al sz' al' ha hd
    obtain ⟨k, hk, hlay⟩ := hl.lay b sz al ha
    obtain ⟨k', hk', hlay'⟩ := hdl b sz' al' hd
    rw [hk] at hk'; cases hk'
    rw [hlay] at hlay'
    simp only [Layout.mk.injEq] at hlay'
    exact ⟨hlay'.1.symm, hlay'.2.symm⟩
  unowned := by
    intro b sz al hd
    have hb := dealloc_inb hl hd
    obtain ⟨k, hk⟩ : ∃ k, s.mem.blocks[b]? = some k := ⟨_, List.getElem?_eq_getElem hb⟩
    have hdead := (dealloc_iff_dead hl hk).1 ⟨sz, al, hd⟩
    rw [ho, ownersO_observe]
    exact hi.dead b k hk hdead
  drops := hnd

/-- a split of `A ++ N` at an element that is not in `A` lies beyond `A` -/
theorem prefix_of_split {α : Type} : ∀ (A N p : List α) (x : α) (r : List α),
    A ++ N = p ++ x :: r → x ∉ A → ∃ q, p = A ++ q := by
  intro A
  induction A with
  | nil => intro N p x r _ _; exact ⟨p, rfl⟩
  | cons a A' ih =>
    intro N p x r h hx
    cases p with
    | nil =>
      simp only [List.cons_append, List.nil_append, List.cons.injEq] at h
      exact absurd (h.1 ▸ List.mem_cons_self) hx
    | cons a' p' =>
      simp only [List.cons_append, List.cons.injEq] at h
      obtain ⟨q, hq⟩ := ih N p' x r h.2 (fun hm => hx (List.mem_cons_of_mem _ hm))
      exact ⟨q, by rw [h.1, hq]; rfl⟩

theorem canonEvs_perm (evs : List Event) : (canonEvs evs).Perm evs := List.filter_append_perm _ _

/-- with the allocations of the last op first, every `dealloc` still comes after the `alloc` of its block -/
theorem ordered_canon {o : Obs} {log evs : List Event} (hord : Ordered log)
    (hf : LogFacts o (log ++ canonEvs evs)) : Ordered (log ++ canonEvs evs) := by
  -- a split inside the canonical part
  have hcanon : ∀ (a' rest : List Event) (b sz al : Nat), canonEvs evs = a' ++ Event.dealloc b sz al :: rest →
      ∃ sz' al', Event.alloc b sz' al' ∈ log ++ a' := by
    intro a' rest b sz al hc
    obtain ⟨s0, a0, hm⟩ := hf.allocated b sz al (by rw [hc]; simp)
    rcases List.mem_append.1 hm with hm | hm
    · exact ⟨s0, a0, List.mem_append_left _ hm⟩
    · have hc' := hc
      unfold canonEvs at hc' hm
      rcases List.mem_append.1 hm with hm | hm
      · obtain ⟨q, hq⟩ := prefix_of_split _ _ _ _ _ hc' (by simp [isAllocEv])
        exact ⟨s0, a0, List.mem_append_right _ (by rw [hq]; exact List.mem_append_left _ hm)⟩
      · simp [isAllocEv] at hm
  intro pre rest b sz al hsplit
  rcases List.append_eq_append_iff.1 hsplit with ⟨a', hpre, hc⟩ | ⟨c', hlog, hc⟩
  · obtain ⟨s0, a0, hm⟩ := hcanon a' rest b sz al hc
    exact ⟨s0, a0, by rw [hpre]; exact hm⟩
  · cases c' with
    | nil =>
      simp only [List.nil_append] at hc
      simp only [List.append_nil] at hlog
      obtain ⟨s0, a0, hm⟩ := hcanon [] rest b sz al hc.symm
      exact ⟨s0, a0, by rw [← hlog]; simpa using hm⟩
    | cons x c'' =>
      simp only [List.cons_append, List.cons.injEq] at hc
      rw [← hc.1] at hlog
      exact hord pre c'' b sz al hlog

theorem Track.congr {L L' : List Event} {st : MSt} (ht : Track L st) (h : ∀ x, x ∈ L ↔ x ∈ L') : Track L' st where
  live := fun b sz al => by
    rw [ht.live, h]
    constructor
    · rintro ⟨h1, h2⟩; exact ⟨h1, fun s a hm => h2 s a ((h _).2 hm)⟩
    · rintro ⟨h1, h2⟩; exact ⟨h1, fun s a hm => h2 s a ((h _).1 hm)⟩
  dropped := fun id => by rw [ht.dropped, h]

/-! ## the simulation relation, and the op-independent checks K1 K2 K3 K5 -/

/-- the monitor state `st` describes the model state `s` -/
structure Rel (st : MSt) (s : State) : Prop where
  pre : st.pre = observeSlots s
  track : Track s.mem.log st
  leak : ∀ (b : Nat) (k : Block), s.mem.blocks[b]? = some k → k.leaked = true → b ∈ st.leakOk

theorem rel_init : Rel MSt.init State.init where
  pre := rfl
  track := ⟨fun b sz al => by simp [MSt.init, State.init], fun id => by simp [MSt.init, State.init]⟩
  leak := fun b k hk => by simp [State.init] at hk

theorem observe_evs {s : State} {op : Op} {es : List Event} (h : (step s op).1.mem.log = s.mem.log ++ es) :
    (observe s op).evs = es := by
  simp [observe, h]

/-- the op-independent checks pass on the model's observation, with the events of the op in ANY order -/
theorem checkObsOnly_sound {s : State} {op : Op} {st : MSt} (hr : Rel st s)
    (hl : LogInv s.mem) (hg : StepGrow s op)
    (hi' : Inv (step s op).1) (hl' : LogInv (step s op).1.mem) (hdl' : DL (step s op).1.mem)
    (hnd' : (dropIds (step s op).1.mem.log).Nodup) (hk5 : checkK5 (observe s op) = [])
    (evs' : List Event) (hperm : evs'.Perm (observe s op).evs) :
    (checkObsOnly st ((observe s op).withEvs evs')).2 = [] ∧
    Rel (checkObsOnly st ((observe s op).withEvs evs')).1 (step s op).1 := by
  obtain ⟨es, hes⟩ := hg.log
  have hevs := observe_evs hes
  rw [hevs] at hperm
  generalize ho : (observe s op).withEvs evs' = o
  have hoevs : o.evs = evs' := by rw [← ho]; rfl
  have hslots : o.slots = observeSlots (step s op).1 := by rw [← ho]; rfl
  have hpan : o.panicked = (observe s op).panicked := by rw [← ho]; rfl
  have hk5' : checkK5 o = [] := by rw [← ho]; exact hk5
  -- the log with the events of this op in canonical order
  have hpermL : (s.mem.log ++ es).Perm (s.mem.log ++ canonEvs evs') :=
    List.Perm.append_left _ ((canonEvs_perm evs').trans hperm).symm
  have hfacts : LogFacts o (s.mem.log ++ canonEvs evs') := by
    have := facts_of_state hi' hl' hdl' hnd' o hslots
    rw [hes] at this
    exact this.perm hpermL
  have hLok := logOk_of_facts hfacts (ordered_canon (ordered_of_loginv hl) hfacts)
  obtain ⟨hk2, htrack0⟩ := k2_sound hLok (canonEvs evs') s.mem.log st rfl hr.track
  have htrack : Track (step s op).1.mem.log (k2 o st (canonEvs evs')).1 := by
    apply htrack0.congr
    intro x; rw [hes]; exact hpermL.mem_iff.symm
  -- every abandoned block is a documented leak
  have hleak : ∀ (b : Nat) (k : Block), (step s op).1.mem.blocks[b]? = some k → k.leaked = true →
      b ∈ (k2 o st (canonEvs evs')).1.leakOk := by
    intro b k hk hlk
    rcases hg.leak b k hk hlk with ⟨k0, hk0, hlk0⟩ | ⟨hge, hpan'⟩
    · exact k2_leakOk_mono _ _ _ _ (hr.leak b k0 hk0 hlk0)
    · have hb : b < (step s op).1.mem.blocks.length := (List.getElem?_eq_some_iff.1 hk).1
      obtain ⟨j, _, sz, al, hj⟩ := hl'.alloc_exists hb
      have hm := List.mem_of_getElem? hj
      rw [hes] at hm
      rcases List.mem_append.1 hm with hm | hm
      · obtain ⟨k1, hk1, _⟩ := hl.lay b sz al hm
        have := (List.getElem?_eq_some_iff.1 hk1).1
        omega
      · have hm' : Event.alloc b sz al ∈ canonEvs evs' := ((canonEvs_perm evs').trans hperm).mem_iff.2 hm
        exact k2_leakOk_new o (by rw [hpan]; exact hpan') _ _ b sz al hm'
  have hk3 : (k2 o st (canonEvs evs')).1.live.filter (k3Bad o (k2 o st (canonEvs evs')).1) = [] := by
    rw [List.filter_eq_nil_iff]
    intro e he
    obtain ⟨b, sz, al⟩ := e
    obtain ⟨ha, hnd⟩ := (htrack.live b sz al).1 he
    obtain ⟨k, hk, _⟩ := hl'.lay b sz al ha
    have hlive : k.live = true := by
      cases hlv : k.live with
      | true => rfl
      | false =>
        obtain ⟨sz', al', hd⟩ := (dealloc_iff_dead hl' hk).2 hlv
        exact absurd hd (hnd sz' al')
    simp only [k3Bad, hslots, ownersO_observe, Bool.and_eq_true, beq_iff_eq, Bool.not_eq_eq_eq_not, Bool.not_true,
      not_and, Bool.not_eq_false]
    intro hown
    cases hlk : k.leaked with
    | true => simpa using hleak b k hk hlk
    | false =>
      have := hi'.cnt b k hk hlive hlk
      omega
  have hk1 := K1_state hi' o hslots
  refine ⟨?_, ?_, ?_, ?_⟩
  · simp only [checkObsOnly, hoevs, checkK3, hk1, hk2, hk3, hk5', List.map_nil, List.append_nil]
  · exact hslots
  · simp only [checkObsOnly, hoevs]
    exact ⟨htrack.live, htrack.dropped⟩
  · intro b k hk hlk
    simp only [checkObsOnly, hoevs]
    exact List.mem_append_right _ (hleak b k hk hlk)

/-! ## K4: the gates -/

theorem observe_eq {s s' : State} {op : Op} {out : Out} (e : step s op = (s', out)) :
    observe s op = ⟨isPanicStatus out.status, isBadOpStatus out.status, verdictOf op out, valShown out.out,
      s'.mem.log.drop s.mem.log.length, observeSlots s', cbToksFor s op⟩ := by
  simp [observe, e]

theorem k4_badOp {pre : List (Nat × SlotObs)} {op : Op} {o : Obs} (hb : o.badOp = true) : checkK4 pre op o = [] := by
  unfold checkK4
  split
  · rfl
  · simp [hb]

theorem k4_of {pre : List (Nat × SlotObs)} {op : Op} {o : Obs} {src : Nat} {p : SlotObs} {v : Bool}
    (hsrc : gateSrc op = some src) (hp : lookupO pre src = some p) (hv : o.verdict = some v)
    (h1 : v = (ownersO pre p.blk == 1))
    (h2 : v = false → lookupO o.slots src = some p ∧ o.evs = []) : checkK4 pre op o = [] := by
  unfold checkK4
  rw [hsrc]
  simp only [hp, hv]
  split
  · rfl
  · rw [List.append_eq_nil_iff]
    refine ⟨by simp [← h1], ?_⟩
    cases v with
    | true => simp
    | false =>
      obtain ⟨h3, h4⟩ := h2 rfl
      simp [h3, h4]

/-- the gate's verdict is "sole owner among the probed slots" -/
theorem sole_owner {s : State} (hi : Inv s) {src : Nat} {h : HV} (hl : lookup s src = some h) :
    Arc.is_unique s.mem h = (ownersO (observeSlots s) (slotObs s.mem h).blk == 1) := by
  rw [ownersO_observe]
  show (loadCount s.mem h.blk == 1) = (owners s h.blk == 1)
  rw [(count_eq_owners hi hl).1]

theorem K4_sound {s : State} (hi : Inv s) (op : Op) : checkK4 (observeSlots s) op (observe s op) = [] := by
  have hbad : ∀ {op : Op}, step s op = (s, badOp) → checkK4 (observeSlots s) op (observe s op) = [] := by
    intro op e
    apply k4_badOp
    rw [observe_eq e]; exact isBadOp_badOp
  have hdrop : s.mem.log.drop s.mem.log.length = [] := by simp
  cases op with
  | isUnique src =>
    cases hl : lookup s src with
    | none => exact hbad (by simp [step, hl])
    | some h =>
      by_cases hk : h.kind = .arc
      · have e : step s (.isUnique src) = (s, ok s!"unique={Arc.is_unique s.mem h}") := by simp [step, hl, hk]
        have hp : lookupO (observeSlots s) src = some (slotObs s.mem h) := by rw [lookupO_observe, hl]; rfl
        refine k4_of rfl hp (by rw [observe_eq e]; exact verdict_isUnique src _) (sole_owner hi hl) ?_
        intro _
        rw [observe_eq e]
        exact ⟨hp, hdrop⟩
      · exact hbad (by simp [step, hl, hk])
  | getMut src v =>
    cases hl : lookup s src with
    | none => exact hbad (by simp [step, hl])
    | some h =>
      have hp : lookupO (observeSlots s) src = some (slotObs s.mem h) := by rw [lookupO_observe, hl]; rfl
      by_cases hk : h.kind = .arc ∧ h.ty.elemsInit = true
      · cases hu : Arc.is_unique s.mem h with
        | true =>
          have e : step s (.getMut src v) = (⟨writeVal s.mem h.blk v, s.slots⟩, ok "some") := by
            simp [step, hl, hk, hu]
          refine k4_of rfl hp (by rw [observe_eq e]; exact (verdict_getMut src v).1)
            (by rw [← sole_owner hi hl, hu]) (fun h => by cases h)
        | false =>
          have e : step s (.getMut src v) = (s, ok "none") := by simp [step, hl, hk, hu]
          refine k4_of rfl hp (by rw [observe_eq e]; exact (verdict_getMut src v).2)
            (by rw [← sole_owner hi hl, hu]) ?_
          intro _
          rw [observe_eq e]
          exact ⟨hp, hdrop⟩
      · exact hbad (by simp [step, hl, hk])
  | getUnique src v =>
    cases hl : lookup s src with
    | none => exact hbad (by simp [step, hl])
    | some h =>
      have hp : lookupO (observeSlots s) src = some (slotObs s.mem h) := by rw [lookupO_observe, hl]; rfl
      by_cases hk : h.kind = .arc ∧ h.ty.elemsInit = true
      · cases hu : Arc.is_unique s.mem h with
        | true =>
          have e : step s (.getUnique src v) = (⟨writeVal s.mem h.blk v, s.slots⟩, ok "some") := by
            simp [step, hl, hk, Arc.try_unique, hu]
          refine k4_of rfl hp (by rw [observe_eq e]; exact (verdict_getUnique src v).1)
            (by rw [← sole_owner hi hl, hu]) (fun h => by cases h)
        | false =>
          have e : step s (.getUnique src v) = (s, ok "none") := by simp [step, hl, hk, Arc.try_unique, hu]
          refine k4_of rfl hp (by rw [observe_eq e]; exact (verdict_getUnique src v).2)
            (by rw [← sole_owner hi hl, hu]) ?_
          intro _
          rw [observe_eq e]
          exact ⟨hp, hdrop⟩
      · exact hbad (by simp [step, hl, hk])
  | tryUnique src =>
    cases hl : lookup s src with
    | none => exact hbad (by simp [step, hl])
    | some h =>
      have hp : lookupO (observeSlots s) src = some (slotObs s.mem h) := by rw [lookupO_observe, hl]; rfl
      by_cases hk : h.kind = .arc ∧ (h.ty = .sized ∨ h.ty = .slice ∨ h.ty = .hs ∨ h.ty = .hwl ∨ h.ty = .mu ∨ h.ty = .muSlice)
      · cases hu : Arc.is_unique s.mem h with
        | true =>
          have e : step s (.tryUnique src) = (s.set s.mem src { h with kind := .uniq }, ok "ok") := by
            simp [step, hl, hk, Arc.try_unique, hu]
          refine k4_of rfl hp (by rw [observe_eq e]; exact (verdict_tryUnique src).1)
            (by rw [← sole_owner hi hl, hu]) (fun h => by cases h)
        | false =>
          have e : step s (.tryUnique src) = (s, ok "err") := by simp [step, hl, hk, Arc.try_unique, hu]
          refine k4_of rfl hp (by rw [observe_eq e]; exact (verdict_tryUnique src).2)
            (by rw [← sole_owner hi hl, hu]) ?_
          intro _
          rw [observe_eq e]
          exact ⟨hp, hdrop⟩
      · exact hbad (by simp [step, hl, hk])
  | tryUnwrap src =>
    cases hl : lookup s src with
    | none => exact hbad (by simp [step, hl])
    | some h =>
      have hp : lookupO (observeSlots s) src = some (slotObs s.mem h) := by rw [lookupO_observe, hl]; rfl
      by_cases hk : h.kind = .arc ∧ h.ty = .sized
      · cases hu : Arc.is_unique s.mem h with
        | true =>
          have e : ∃ (m : Mem) (x : String), step s (.tryUnwrap src) = (s.del m src, ok s!"ok={x}") := by
            simp only [step, hl, hk, and_self, if_true, Arc.try_unwrap, Arc.try_unique, hu]
            exact ⟨_, _, rfl⟩
          obtain ⟨m, x, e⟩ := e
          refine k4_of rfl hp (by rw [observe_eq e]; exact verdict_tryUnwrap_ok src x)
            (by rw [← sole_owner hi hl, hu]) (fun h => by cases h)
        | false =>
          have e : step s (.tryUnwrap src) = (s, ok "err") := by
            simp [step, hl, hk, Arc.try_unwrap, Arc.try_unique, hu]
          refine k4_of rfl hp (by rw [observe_eq e]; exact verdict_tryUnwrap_err src)
            (by rw [← sole_owner hi hl, hu]) ?_
          intro _
          rw [observe_eq e]
          exact ⟨hp, hdrop⟩
      · exact hbad (by simp [step, hl, hk])
  | _ => rfl

/-! ## K6: no op ever rewrites a union handle (a new fact about `step`) -/

/-- every union handle of `sl0` is still there in `sl`, exactly the same handle value -/
def KeepL (sl0 sl : Slots) : Prop :=
  ∀ (i : Nat) (h : HV), lookupL sl0 i = some h → unionKind h.kind = true → lookupL sl i = some h

/-- slot `i` does not hold a union handle -/
def NotUnionAt (sl : Slots) (i : Nat) : Prop := ∀ hs, lookupL sl i = some hs → unionKind hs.kind = false

theorem lookupL_delL (sl : Slots) (i j : Nat) : lookupL (delL sl i) j = if j = i then none else lookupL sl j := by
  induction sl with
  | nil => simp [delL, lookupL]
  | cons e r ih =>
    obtain ⟨a, x⟩ := e
    by_cases hai : a = i
    · subst hai
      have : delL ((a, x) :: r) a = delL r a := by simp [delL]
      rw [this, ih]
      by_cases hj : j = a
      · simp [hj]
      · simp only [hj, if_false]
        rw [lookupL_cons_ne (fun e => hj e.symm)]
    · have : delL ((a, x) :: r) i = (a, x) :: delL r i := by simp [delL, hai]
      rw [this]
      by_cases haj : a = j
      · subst haj
        rw [lookupL_cons_self, lookupL_cons_self]
        simp [hai]
      · rw [lookupL_cons_ne haj, lookupL_cons_ne haj, ih]

theorem lookupL_setL_self (sl : Slots) (i : Nat) (h' : HV) :
    lookupL (setL sl i h') i = (lookupL sl i).map fun _ => h' := by
  induction sl with
  | nil => rfl
  | cons e r ih =>
    obtain ⟨a, x⟩ := e
    have hcons : setL ((a, x) :: r) i h' = (if a = i then (i, h') else (a, x)) :: setL r i h' := by
      simp [setL]
    rw [hcons]
    by_cases he : a = i
    · subst he
      simp only [if_true]
      rw [lookupL_cons_self, lookupL_cons_self]; rfl
    · simp only [he, if_false]
      rw [lookupL_cons_ne he, lookupL_cons_ne he, ih]

namespace KeepL

theorem refl (sl : Slots) : KeepL sl sl := fun _ _ h _ => h

theorem ne_of {sl0 sl : Slots} (hk : KeepL sl0 sl) {src : Nat} (hn : NotUnionAt sl src) {i : Nat} {h : HV}
    (hl : lookupL sl0 i = some h) (hu : unionKind h.kind = true) : i ≠ src := by
  intro e; subst e
  have := hn h (hk i h hl hu)
  rw [hu] at this; cases this

theorem put {sl0 sl : Slots} (hk : KeepL sl0 sl) {dst : Nat} (hd : lookupL sl dst = none) (c : HV) :
    KeepL sl0 ((dst, c) :: sl) := by
  intro i h hl hu
  have hne : dst ≠ i := by
    intro e; subst e
    rw [hk _ h hl hu] at hd; cases hd
  rw [lookupL_cons_ne hne]
  exact hk i h hl hu

theorem del {sl0 sl : Slots} (hk : KeepL sl0 sl) {src : Nat} (hn : NotUnionAt sl src) : KeepL sl0 (delL sl src) := by
  intro i h hl hu
  rw [lookupL_delL, if_neg (hk.ne_of hn hl hu)]
  exact hk i h hl hu

theorem set {sl0 sl : Slots} (hk : KeepL sl0 sl) {src : Nat} (hn : NotUnionAt sl src) (h' : HV) :
    KeepL sl0 (setL sl src h') := by
  intro i h hl hu
  rw [lookupL_setL_ne _ _ (hk.ne_of hn hl hu)]
  exact hk i h hl hu

end KeepL

theorem notUnionAt_of {s : State} {src : Nat} {h : HV} (hl : lookup s src = some h) (hk : unionKind h.kind = false) :
    NotUnionAt s.slots src := by
  intro hs h2
  have : lookup s src = some hs := h2
  rw [hl] at this; cases this; exact hk

/-- `runCb_ind` with the API known in the `replaceWith` case as well -/
theorem runCb_ind' (api : CbApi) (src : Nat) (P : State → HV → Prop)
    (hcloneTo : ∀ (s : State) (t : HV) (k : Nat) (m : Mem) (c : HV), P s t → lookup s k = none →
      cloneHandle s.mem t = some (m, c) →
      P (s.put m k (if api = .thinWithArcMut then ThinArc.of_arc c else c)) t)
    (hcloneArc : ∀ (s : State) (t : HV) (k : Nat), P s t → lookup s k = none → api = .rawOffset →
      P (s.put (incr s.mem t.blk) k { OffsetArc.transient s.mem t with kind := .arc }) t)
    (hwrite : ∀ (s : State) (t : HV) (v : Nat), P s t → P ⟨writeVal s.mem t.blk v, s.slots⟩ t)
    (hrepl : ∀ (s : State) (t : HV) (k : Nat) (h2 : HV), P s t → k ≠ src → lookup s k = some h2 →
      h2.kind = .thin → api = .thinWithArcMut →
      P ((s.del (Arc.drop s.mem t) k).set (Arc.drop s.mem t) src (ThinArc.of_arc (ThinArc.thick s.mem h2)))
        (ThinArc.thick s.mem h2))
    (hswap : ∀ (s : State) (t : HV) (k : Nat) (h2 : HV), P s t → k ≠ src → lookup s k = some h2 →
      h2.kind = .thin → api = .thinWithArcMut →
      P ((s.set s.mem k (ThinArc.of_arc t)).set s.mem src (ThinArc.of_arc (ThinArc.thick s.mem h2)))
        (ThinArc.thick s.mem h2))
    (script : List CbAct) :
    ∀ (s : State) (t : HV) (acc : String), P s t → ∃ t', P (runCb api src script s t acc).1 t' := by
  induction script with
  | nil => intro s t acc hp; exact ⟨t, hp⟩
  | cons a rest ih =>
    intro s t acc hp
    cases a <;> simp only [runCb]
    case cnt => exact ih _ _ _ hp
    case read => exact ih _ _ _ hp
    case panic => exact ⟨t, hp⟩
    case cloneTo k =>
      split
      · exact ih _ _ _ hp
      · rename_i hk
        split
        · exact ih _ _ _ hp
        · rename_i m c hc
          exact ih _ _ _ (hcloneTo s t k m c hp hk hc)
    case cloneArcTo k =>
      split
      · exact ih _ _ _ hp
      · rename_i hk
        split
        · rename_i ha
          rw [clone_arc_offset]
          exact ih _ _ _ (hcloneArc s t k hp hk ha)
        · exact ih _ _ _ hp
    case getMutWrite v =>
      split
      · split
        · exact ih _ _ _ (hwrite s t v hp)
        · exact ih _ _ _ hp
      · exact ih _ _ _ hp
    case replaceWith k =>
      split
      · rename_i hc
        split
        · rename_i h2 hlk
          split
          · rename_i hthin
            exact ih _ _ _ (hrepl s t k h2 hp hc.2 hlk hthin hc.1)
          · exact ih _ _ _ hp
        · exact ih _ _ _ hp
      · exact ih _ _ _ hp
    case swapWith k =>
      split
      · rename_i hc
        split
        · rename_i h2 hlk
          split
          · rename_i hthin
            exact ih _ _ _ (hswap s t k h2 hp hc.2 hlk hthin hc.1)
          · exact ih _ _ _ hp
        · exact ih _ _ _ hp
      · exact ih _ _ _ hp

/-- what a callback script maintains about the slot table -/
def CbKeep (sl0 : Slots) (api : CbApi) (src : Nat) (s : State) (_t : HV) : Prop :=
  KeepL sl0 s.slots ∧ (api = .thinWithArcMut → ∀ hs, lookup s src = some hs → hs.kind = .thin)

theorem thin_notUnion {sl : Slots} {i : Nat} (h : ∀ hs, lookupL sl i = some hs → hs.kind = .thin) : NotUnionAt sl i := by
  intro hs hl; rw [h hs hl]; rfl

theorem runCb_keep (sl0 : Slots) (api : CbApi) (src : Nat) (script : List CbAct) (s : State) (t : HV) (acc : String)
    (hp : CbKeep sl0 api src s t) : KeepL sl0 (runCb api src script s t acc).1.slots := by
  suffices h : ∃ t', CbKeep sl0 api src (runCb api src script s t acc).1 t' by
    obtain ⟨t', h, _⟩ := h; exact h
  refine runCb_ind' api src (CbKeep sl0 api src) ?_ ?_ ?_ ?_ ?_ script s t acc hp
  · intro s t k m c hp hk _
    refine ⟨hp.1.put hk _, ?_⟩
    intro ha hs hl
    by_cases hks : k = src
    · subst hks
      have : lookup (s.put m k (if api = .thinWithArcMut then ThinArc.of_arc c else c)) k =
          some (if api = .thinWithArcMut then ThinArc.of_arc c else c) := lookupL_cons_self
      rw [this] at hl
      cases hl
      rw [if_pos ha]; rfl
    · rw [lookup_put_ne hks] at hl
      exact hp.2 ha hs hl
  · intro s t k hp hk ha
    refine ⟨hp.1.put hk _, ?_⟩
    intro ha'; rw [ha] at ha'; cases ha'
  · intro s t v hp
    exact hp
  · intro s t k h2 hp hne hlk hthin ha
    have hnk : NotUnionAt s.slots k := notUnionAt_of hlk (by rw [hthin]; rfl)
    have hsrc : ∀ hs, lookupL (delL s.slots k) src = some hs → hs.kind = .thin := by
      intro hs hl
      rw [lookupL_delL, if_neg (fun e => hne e.symm)] at hl
      exact hp.2 ha hs hl
    refine ⟨(hp.1.del hnk).set (thin_notUnion hsrc) _, ?_⟩
    intro _ hs hl
    have : lookupL (setL (delL s.slots k) src (ThinArc.of_arc (ThinArc.thick s.mem h2))) src = some hs := hl
    rw [lookupL_setL_self] at this
    cases hx : lookupL (delL s.slots k) src with
    | none => rw [hx] at this; cases this
    | some x => rw [hx] at this; cases this; rfl
  · intro s t k h2 hp hne hlk hthin ha
    have hnk : NotUnionAt s.slots k := notUnionAt_of hlk (by rw [hthin]; rfl)
    have hsrc : ∀ hs, lookupL (setL s.slots k (ThinArc.of_arc t)) src = some hs → hs.kind = .thin := by
      intro hs hl
      rw [lookupL_setL_ne _ _ (fun e => hne e.symm)] at hl
      exact hp.2 ha hs hl
    refine ⟨(hp.1.set hnk _).set (thin_notUnion hsrc) _, ?_⟩
    intro _ hs hl
    have : lookupL (setL (setL s.slots k (ThinArc.of_arc t)) src (ThinArc.of_arc (ThinArc.thick s.mem h2))) src
        = some hs := hl
    rw [lookupL_setL_self] at this
    cases hx : lookupL (setL s.slots k (ThinArc.of_arc t)) src with
    | none => rw [hx] at this; cases this
    | some x => rw [hx] at this; cases this; rfl


theorem runConv_notUnion {m : Mem} {h h' : HV} {c : Conv} (hc : runConv m h c = some h') :
    unionKind h.kind = false := by
  cases hk : h.kind <;> first
    | rfl
    | (exfalso; cases c <;> simp [runConv, hk] at hc)

theorem keep_mem {sl0 : Slots} {s : State} (h : KeepL sl0 s.slots) (m : Mem) : KeepL sl0 (State.mk m s.slots).slots := h

/-- **no op other than `drop` / `dropAll` removes or rewrites a union handle** -/
theorem step_keep (s : State) (op : Op) (hop : k6Applies op = true) : KeepL s.slots (step s op).1.slots := by
  have R := KeepL.refl s.slots
  have arcNU : ∀ {src : Nat} {h : HV}, lookup s src = some h → h.kind = .arc → NotUnionAt s.slots src :=
    fun hl hk => notUnionAt_of hl (by rw [hk]; rfl)
  cases op with
  | drop src => cases hop
  | dropAll => cases hop
  | create dst c =>
    simp only [step]
    split
    · exact R
    · rename_i hd
      split
      · exact R
      · exact R.put hd _
  | iterCtor dst w h sc =>
    simp only [step]
    split
    · exact R
    · rename_i hd
      split
      · exact R.put hd _
      · exact R
  | clone dst src =>
    simp only [step]
    split
    · rename_i hd hs
      split
      · exact R.put hd _
      · exact R
    · exact R
  | conv src c =>
    simp only [step]
    split
    · rename_i h hl
      split
      · rename_i h' hc
        exact R.set (notUnionAt_of hl (runConv_notUnion hc)) _
      · exact R
    · exact R
  | intoThin src =>
    simp only [step]
    split
    · rename_i h hl
      split
      · rename_i hk
        split
        · exact R.set (arcNU hl hk.1) _
        · exact R.del (arcNU hl hk.1)
      · exact R
    · exact R
  | cloneArc dst src =>
    simp only [step]
    split
    · rename_i hd hs
      split
      · exact R.put hd _
      · exact R
    · exact R
  | isUnique src =>
    simp only [step]
    split
    · split <;> exact R
    · exact R
  | getMut src v =>
    simp only [step]
    split
    · split
      · split <;> exact R
      · exact R
    · exact R
  | getUnique src v =>
    simp only [step]
    split
    · split
      · split <;> exact R
      · exact R
    · exact R
  | makeMut src v cp =>
    simp only [step]
    split
    · rename_i h hl
      split
      · rename_i hk
        split
        · exact R.set (arcNU hl hk.1) _
        · exact R
      · split
        · rename_i hk
          split
          · exact R.set (notUnionAt_of hl (by rw [hk]; rfl)) _
          · exact R
        · exact R
    · exact R
  | makeUnique src v cp =>
    simp only [step]
    split
    · rename_i h hl
      split
      · rename_i hk
        split
        · exact R.set (arcNU hl hk.1) _
        · exact R
      · exact R
    · exact R
  | tryUnwrap src =>
    simp only [step]
    split
    · rename_i h hl
      split
      · rename_i hk
        split
        · exact R.del (arcNU hl hk.1)
        · exact R
      · exact R
    · exact R
  | unwrapOrClone src cp =>
    simp only [step]
    split
    · rename_i h hl
      split
      · rename_i hk
        split
        · exact R.del (arcNU hl hk.1)
        · split
          · exact R.del (arcNU hl hk.1)
          · exact R.del (arcNU hl hk.1)
      · exact R
    · exact R
  | intoInner src =>
    simp only [step]
    split
    · rename_i h hl
      split
      · rename_i hk
        exact R.del (notUnionAt_of hl (by rw [hk.1]; rfl))
      · exact R
    · exact R
  | tryUnique src =>
    simp only [step]
    split
    · rename_i h hl
      split
      · rename_i hk
        split
        · exact R.set (arcNU hl hk.1) _
        · exact R
      · exact R
    · exact R
  | uniqWrite src v =>
    simp only [step]
    split
    · split <;> exact R
    · exact R
  | writeSlot src i v =>
    simp only [step]
    split
    · split
      · split <;> exact R
      · exact R
    · exact R
  | withCb src api script =>
    simp only [step]
    split
    · rename_i h hl
      split
      · rename_i t ht
        apply runCb_keep
        refine ⟨R, ?_⟩
        intro ha hs hl'
        rw [hl] at hl'; cases hl'
        subst ha
        simp only [transientOf] at ht
        split at ht
        · assumption
        · cases ht
      · exact R
    · exact R

theorem K6_sound {s : State} (hi : Inv s) (op : Op) : checkK6 (observeSlots s) op (observe s op) = [] := by
  unfold checkK6
  split
  · rename_i hop
    rw [List.filterMap_eq_nil_iff]
    intro e he
    obtain ⟨h, hm, he2⟩ := mem_observe he
    have hl : lookupL s.slots e.1 = some h := mem_lookupL hi.keys hm
    unfold k6One
    rw [he2]
    by_cases hu : unionKind h.kind = true
    · have hk := step_keep s op hop e.1 h hl hu
      have : lookupO (observe s op).slots e.1 = some (slotObs (step s op).1.mem h) := by
        show lookupO (observeSlots (step s op).1) e.1 = _
        rw [lookupO_observe]
        show (lookupL (step s op).1.slots e.1).map _ = _
        rw [hk]; rfl
      simp [this, slotObs, hu]
    · simp [slotObs, hu]
  · rfl

end Mon
end M1
