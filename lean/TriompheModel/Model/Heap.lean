import TriompheModel.Model.Layout
/-!
# M1, micro level — memory, handle values, and the primitive operations on the count word

Import-free apart from the layout model (core Lean only).  A *handle value* (`HV`) is the model of
a Rust value of one of the handle types: which block it points into, at which offset, with which
static type view and fat-pointer metadata.  Nothing here knows about "owners": ownership is what the
theorems derive.  `incr` is `fetch_add(1)`, `decr` is `Arc::drop_inner`.
-/
namespace M1
open LY

/-- pointer width of the modelled target (the harness runs on x86-64) -/
def bits : Nat := 64

/-- an identity-tracked value (`Tracked { id, val }` / `TrackedB` in the harness) -/
structure Item where
  id : Nat
  val : Nat
deriving DecidableEq, Repr, Inhabited

/-- static type view of the payload a handle points to -/
inductive Ty
  | sized      -- Tracked
  | sizedB     -- TrackedB (second type of the ArcUnion)
  | dyn        -- dyn Tr (over Tracked)
  | slice      -- [Tracked]
  | uslice     -- HeaderSlice<(), [Tracked]>
  | hs         -- HeaderSlice<Tracked, [Tracked]>
  | hwl        -- HeaderSlice<HeaderWithLength<Tracked>, [Tracked]>  (unchecked or protected view)
  | mu         -- MaybeUninit<Tracked>
  | muSlice    -- [MaybeUninit<Tracked>]
  | hsMu       -- HeaderSlice<Tracked, [MaybeUninit<Tracked>]>
deriving DecidableEq, Repr, Inhabited

/-- kind of handle -/
inductive Kind
  | arc | uniq | thin | offset | unionA | unionB
  | raw        -- `*const T` from `into_raw` (data address, fat if T is unsized)
  | rawThin    -- `*const c_void` from `ThinArc::into_raw`
deriving DecidableEq, Repr, Inhabited

/-- layout of `Tracked` (8,4) and the over-aligned `TrackedB` (16,16) -/
def trackedLay : Layout := ⟨8, 4⟩
def trackedBLay : Layout := ⟨16, 16⟩

def Ty.elemLay : Ty → Layout
  | .sizedB => trackedBLay
  | _ => trackedLay

/-- layout of the header type of the view -/
def Ty.hdrLay : Ty → Layout
  | .hs | .hsMu => trackedLay
  | .hwl => (headerWithLengthLayout bits trackedLay).1
  | _ => unitLayout

/-- does the view consider the elements initialised (so that dropping the payload drops them)? -/
def Ty.elemsInit : Ty → Bool
  | .mu | .muSlice | .hsMu => false
  | _ => true

/-- is the handle's pointer fat (carries a length)? -/
def Ty.isSlicey : Ty → Bool
  | .slice | .uslice | .hs | .hwl | .muSlice | .hsMu => true
  | _ => false

/-- type layout of the payload for a view and a slice length (`Layout::for_value`) -/
def Ty.valueLayout (t : Ty) (len : Nat) : Layout :=
  match t with
  | .sized | .sizedB | .dyn | .mu => t.elemLay
  | .slice | .muSlice => sliceLayout t.elemLay len
  | .uslice | .hs | .hwl | .hsMu => (headerSliceLayout t.hdrLay t.elemLay len).1

/-- offset of `data` inside `ArcInner<view>`: the compile-time field offset used by `as_ptr`, and
what `offset_of_data` recomputes -/
def Ty.dataOff (t : Ty) (len : Nat) : Nat := (arcInnerLayout bits (t.valueLayout len)).2

/-- release-side layout: `Layout::for_value(&*ptr)` on `*mut ArcInner<view>` -/
def Ty.releaseLayout (t : Ty) (len : Nat) : Layout := (arcInnerLayout bits (t.valueLayout len)).1

structure Block where
  count : Nat
  live : Bool
  lay : Layout                 -- layout requested from the allocator
  hdr : Option Item            -- header value, if the payload has a droppable header
  recLen : Option Nat          -- the length word stored in the block (HeaderWithLength)
  elems : List (Option Item)   -- payload slots; `none` = never written
  leaked : Bool                -- half-built allocation abandoned by a panicking constructor (the documented leak)
deriving DecidableEq, Repr, Inhabited

inductive Event
  | alloc (b size align : Nat)
  | dealloc (b size align : Nat)
  | drop (id : Nat)
  | clone (src new : Nat)
  | dropUninit (b i : Nat)       -- a never-written slot was destroyed (never happens via the safe API)
deriving DecidableEq, Repr, Inhabited

structure Mem where
  blocks : List Block
  log : List Event
  nextClone : Nat                -- identity given to the next value produced by `Clone`
deriving Repr, Inhabited

/-- a Rust value of a handle type -/
structure HV where
  kind : Kind
  ty : Ty
  blk : Nat
  off : Nat        -- offset of the stored address from the block start
  len : Nat        -- slice length carried by a fat pointer (0 for thin pointers)
deriving DecidableEq, Repr, Inhabited

def Mem.upd (m : Mem) (b : Nat) (f : Block → Block) : Mem :=
  { m with blocks := m.blocks.modify b f }

def Mem.emit (m : Mem) (es : List Event) : Mem := { m with log := m.log ++ es }

/-- `count.fetch_add(1, Relaxed)` (the overflow guard is the subject of C16 / M6) -/
def incr (m : Mem) (b : Nat) : Mem := m.upd b fun k => { k with count := k.count + 1 }

/-- `count.load(..)` -/
def loadCount (m : Mem) (b : Nat) : Nat := (m.blocks[b]?.map (·.count)).getD 0

/-- events of dropping the payload in place through a view: header first, then the elements in
order; `MaybeUninit` elements are not dropped -/
def payloadDrops (b : Nat) (k : Block) (t : Ty) (len : Nat) : List Event :=
  (match k.hdr with | some h => [Event.drop h.id] | none => []) ++
  (if t.elemsInit then
    ((k.elems.take len).zipIdx.map fun (e, i) =>
      match e with
      | some it => Event.drop it.id
      | none => Event.dropUninit b i)
  else [])

/-- `Arc::drop_inner` through a handle with view `t` and slice length `len`:
`if fetch_sub(1, Release) != 1 { return }; load(Acquire); drop_slow()` where `drop_slow` is
`Box::from_raw(ptr)`: payload destructor, then `dealloc` with `Layout::for_value`. -/
def decr (m : Mem) (b : Nat) (t : Ty) (len : Nat) : Mem :=
  match m.blocks[b]? with
  | none => m
  | some k =>
    if k.count = 1 then
      let rl := t.releaseLayout len
      ((m.upd b fun k => { k with count := 0, live := false }).emit
        (payloadDrops b k t len ++ [.dealloc b rl.size rl.align]))
    else m.upd b fun k => { k with count := k.count - 1 }

/-- append a freshly allocated block with count 1 -/
def allocBlock (m : Mem) (lay : Layout) (hdr : Option Item) (recLen : Option Nat)
    (elems : List (Option Item)) : Mem × Nat :=
  let b := m.blocks.length
  ({ m with blocks := m.blocks ++ [⟨1, true, lay, hdr, recLen, elems, false⟩],
            log := m.log ++ [.alloc b lay.size lay.align] }, b)

/-- a panicking constructor abandons its half-built block -/
def Mem.leak (m : Mem) (b : Nat) : Mem := m.upd b fun k => { k with leaked := true }

/-- the slice length a handle's view sees: fat pointers carry it; a thin pointer reads the length
word stored in the block (`thin_to_thick`) -/
def viewLen (m : Mem) (h : HV) : Nat :=
  match h.kind with
  | .thin | .rawThin => ((m.blocks[h.blk]?.bind (·.recLen))).getD 0
  | _ => if h.ty.isSlicey then h.len else 1

end M1
