//! Lowering of a function body to a small *count-relevant* structure, with crate-private helpers
//! inlined.
//!
//! The shape recognisers of `facts.rs` (the decrement path of `Drop for Arc`, the overflow guard of
//! `Clone for Arc`, the verdict of `Arc::is_unique`) used to look at the statements of one function
//! that they found by name.  They now look at the `Node`s this module produces for the role's *entry
//! point*:
//!
//! * statements are classified one by one (same vocabulary as before: atomic access on the count,
//!   fence, destruction, abort, `if`, `return`, macro statement, everything else = `Other`);
//! * a direct call — `self.h(..)`, `Self::h(..)`, `Arc::h(..)`, free `h(..)` — that resolves to exactly
//!   one *helper* (a function that is not an entry point of the crate, `FnInfo::is_entry`) is replaced
//!   by the lowering of the helper's body, parameters bound to the abstract values of the arguments
//!   (bounded depth, no recursion).  A call that is not inlined stays a `Call` node;
//! * a tiny abstract value (`Val`) is tracked for locals so that `let old = ..fetch_sub(..); let last =
//!   old == 1; if last { .. }` is the same as `if ..fetch_sub(..) == 1 { .. }`;
//! * early `return`s are turned into structured control flow (`if c { return; } rest` becomes
//!   `if !c { rest }`), so "return unless last" and "if last { destroy }" have one normal form; a
//!   two-armed `match` on a boolean or on an integer literal is an `if`.
//!
//! Nothing is guessed: an expression that is not recognised and is not syntactically pure becomes an
//! `Other` node, a value that is not understood is `Val::Unknown`.  The consumers fail closed on both.

use syn::spanned::Spanned;
use syn::{Expr, Stmt};

use crate::analyze::{classify_atomic_call, is_fence_path, ordering_of, path_idents, tokens_mention_ident, UNMISTAKABLE};
use crate::facts::{flatten, int_lit, is_pure, is_wild, macro_name, pat_ident, Analysis};
use crate::model::{Cmp, Kind, MemOrd};
use std::collections::BTreeSet;

pub const MAX_INLINE_DEPTH: usize = 6;

#[derive(Clone, Debug, PartialEq)]
pub enum Val {
    /// not understood
    Unknown,
    /// does not involve a count (parameters, pointers, projections, …)
    Pure,
    Lit(u128),
    Bool(bool),
    /// the constant `MAX_REFCOUNT`
    Max,
    /// the value returned by a `fetch_add` / `fetch_sub` on the count
    Old(Kind),
    /// a value read from the count (`.load(..)`, or a crate function that performs such a load)
    Read,
    Cmp(Cmp, Box<Val>, Box<Val>),
    Not(Box<Val>),
}

impl Val {
    pub fn negate(self) -> Val {
        match self {
            Val::Cmp(c, l, r) => Val::Cmp(c.negate(), l, r),
            Val::Not(v) => *v,
            Val::Bool(b) => Val::Bool(!b),
            Val::Unknown => Val::Unknown,
            v => Val::Not(Box::new(v)),
        }
    }
}

#[derive(Clone, Debug, PartialEq)]
pub struct At {
    pub file: String,
    pub line: usize,
}

#[derive(Clone, Debug, PartialEq)]
pub enum Node {
    /// an atomic access recognised by the census rule (`classify_atomic_call`); `stmt_level`: it is a
    /// statement of its own or the initialiser of a `let` (not buried in a condition); `discarded`: the
    /// result is not bound to a name
    Atomic { kind: Kind, ord: MemOrd, stmt_level: bool, discarded: bool, at: At },
    /// `fence(o)` / `atomic::fence(o)`
    Fence { ord: MemOrd, at: At },
    /// `Box::from_raw(..)` dropped, or a call of a method whose body does that
    Destroy { at: At },
    /// a call named `abort`; `ok`: it is the crate's `abort` / a process abort
    Abort { ok: bool, at: At },
    /// a macro in statement position
    Macro { name: String, reads: bool, writes: bool, at: At },
    /// a call of a crate function that was not inlined; `loader`: every candidate performs a count load
    Call { loader: bool, at: At },
    If { cond: Val, then: Vec<Node>, els: Vec<Node>, at: At },
    Return { at: At },
    Other { why: String, at: At },
}

pub struct Lowered {
    /// normalised: no `Return` left (except inside constructs that were not understood → `Other`)
    pub nodes: Vec<Node>,
    /// abstract value of the function's result
    pub result: Val,
}

struct Frame {
    f: usize,
    env: Vec<(String, Val)>,
    out: Vec<Node>,
    result: Val,
    /// a `return <value>` somewhere other than the last statement: the result is not one expression
    early_value_return: bool,
}

pub struct Lowerer<'a, 'b> {
    pub an: &'b Analysis<'a>,
    pub loaders: &'b BTreeSet<usize>,
}

impl<'a, 'b> Lowerer<'a, 'b> {
    pub fn lower_entry(&self, f: usize) -> Lowered {
        let mut stack = vec![f];
        let nparams = self.an.krate.fns[f].params.len();
        self.lower_fn(f, vec![Val::Pure; nparams], &mut stack)
    }

    fn lower_fn(&self, f: usize, args: Vec<Val>, stack: &mut Vec<usize>) -> Lowered {
        let fi = &self.an.krate.fns[f];
        let mut fr = Frame { f, env: Vec::new(), out: Vec::new(), result: Val::Unknown, early_value_return: false };
        for (i, (name, _)) in fi.params.iter().enumerate() {
            if let Some(n) = name {
                if n != "self" {
                    fr.env.push((n.clone(), args.get(i).cloned().unwrap_or(Val::Unknown)));
                }
            }
        }
        let stmts = flatten(&fi.block);
        self.block(&mut fr, &stmts, true, stack);
        let (nodes, _) = normalize(fr.out);
        let result = if fr.early_value_return { Val::Unknown } else { fr.result };
        Lowered { nodes, result }
    }

    fn at(&self, fr: &Frame, line: usize) -> At {
        At { file: self.an.krate.fns[fr.f].file.clone(), line }
    }

    fn lookup(&self, fr: &Frame, name: &str) -> Option<Val> {
        fr.env.iter().rev().find(|(n, _)| n == name).map(|(_, v)| v.clone())
    }

    // --- statements -----------------------------------------------------------------------------

    /// `fn_level`: the statements are the function's own top level (the last one may be its result)
    fn block(&self, fr: &mut Frame, stmts: &[&Stmt], fn_level: bool, stack: &mut Vec<usize>) {
        let save = fr.env.len();
        let n = stmts.len();
        for (i, s) in stmts.iter().enumerate() {
            let last = i + 1 == n;
            let line = s.span().start().line;
            match s {
                Stmt::Item(_) => {}
                Stmt::Local(l) => {
                    let Some(init) = &l.init else { continue };
                    if init.diverge.is_some() {
                        fr.out.push(Node::Other { why: "let-else".into(), at: self.at(fr, line) });
                        continue;
                    }
                    let discarded = is_wild(&l.pat);
                    let v = self.value(fr, &init.expr, true, discarded, stack);
                    match pat_ident(&l.pat) {
                        Some(id) => fr.env.push((id, v)),
                        None => {
                            if !discarded {
                                // a destructuring pattern: the names it binds are not tracked
                                bind_unknown(&l.pat, &mut fr.env);
                            }
                        }
                    }
                }
                Stmt::Macro(m) => self.macro_stmt(fr, &m.mac, line),
                Stmt::Expr(e, semi) => {
                    let is_tail = fn_level && last && semi.is_none();
                    self.stmt_expr(fr, e, is_tail, fn_level && last, stack);
                }
            }
        }
        if !fn_level {
            fr.env.truncate(save);
        }
    }

    fn macro_stmt(&self, fr: &mut Frame, mac: &syn::Macro, line: usize) {
        let n = macro_name(mac);
        let mentions = |names: &[&str]| names.iter().any(|a| tokens_mention_ident(mac.tokens.clone(), a));
        let writes = mentions(UNMISTAKABLE) || mentions(&["store", "swap", "fence", "compiler_fence", "get_mut", "write"]);
        let reads = mentions(&["load", "count", "strong_count", "is_unique"]) || crate::analyze::mentions_count(&mac.tokens);
        fr.out.push(Node::Macro { name: n, reads, writes, at: self.at(fr, line) });
    }

    fn stmt_expr(&self, fr: &mut Frame, e: &Expr, is_tail: bool, is_last: bool, stack: &mut Vec<usize>) {
        let e = peel(e);
        let line = e.span().start().line;
        match e {
            Expr::If(_) | Expr::Match(_) => {
                let node = match e {
                    Expr::If(i) => self.if_node(fr, i, stack),
                    Expr::Match(m) => self.match_node(fr, m, stack),
                    _ => unreachable!(),
                };
                if is_tail {
                    // `if c { true } else { false }` / `match n { 1 => true, _ => false }` as the result
                    if let (Some((t, f)), Node::If { cond, then, els, .. }) = (self.bool_arms(fr, e, stack), &node) {
                        if then.is_empty() && els.is_empty() {
                            fr.result = match (t, f) {
                                (true, false) => cond.clone(),
                                (false, true) => cond.clone().negate(),
                                _ => Val::Unknown,
                            };
                            return;
                        }
                    }
                }
                fr.out.push(node);
            }
            Expr::Return(r) => {
                if let Some(v) = &r.expr {
                    let val = self.value(fr, v, true, true, stack);
                    if is_last {
                        fr.result = val;
                    } else {
                        fr.early_value_return = true;
                    }
                }
                fr.out.push(Node::Return { at: self.at(fr, line) });
            }
            Expr::Macro(m) => self.macro_stmt(fr, &m.mac, line),
            Expr::Assign(a) => {
                // a tracked local is overwritten: whatever was known about it is gone
                self.forget_assigned(fr, &a.left);
                fr.out.push(Node::Other { why: "assignment".into(), at: self.at(fr, line) });
            }
            Expr::Binary(b) if is_compound_assign(&b.op) => {
                self.forget_assigned(fr, &b.left);
                fr.out.push(Node::Other { why: "assignment".into(), at: self.at(fr, line) });
            }
            Expr::Unsafe(u) => {
                let st = flatten(&u.block);
                self.block(fr, &st, false, stack);
            }
            Expr::Block(b) if b.label.is_none() => {
                let st = flatten(&b.block);
                self.block(fr, &st, false, stack);
            }
            _ => {
                let v = self.value(fr, e, true, true, stack);
                if is_tail {
                    fr.result = v;
                }
            }
        }
    }

    /// both arms of an `if`/`else` or of a two-armed `match` are boolean literals: (first arm, second arm)
    fn bool_arms(&self, _fr: &Frame, e: &Expr, _stack: &mut Vec<usize>) -> Option<(bool, bool)> {
        fn lit_bool(e: &Expr) -> Option<bool> {
            match peel_all(e) {
                Expr::Lit(l) => match &l.lit {
                    syn::Lit::Bool(b) => Some(b.value),
                    _ => None,
                },
                _ => None,
            }
        }
        fn block_bool(b: &syn::Block) -> Option<bool> {
            match b.stmts.as_slice() {
                [Stmt::Expr(e, None)] => lit_bool(e),
                _ => None,
            }
        }
        match e {
            Expr::If(i) => {
                let t = block_bool(&i.then_branch)?;
                let f = match &i.else_branch {
                    Some((_, e)) => lit_bool(e)?,
                    None => return None,
                };
                Some((t, f))
            }
            Expr::Match(m) if m.arms.len() == 2 => Some((lit_bool(&m.arms[0].body)?, lit_bool(&m.arms[1].body)?)),
            _ => None,
        }
    }

    fn forget_assigned(&self, fr: &mut Frame, place: &Expr) {
        let mut e = place;
        loop {
            match e {
                Expr::Paren(p) => e = &p.expr,
                Expr::Group(g) => e = &g.expr,
                Expr::Unary(u) => e = &u.expr,
                Expr::Field(f) => e = &f.base,
                Expr::Index(i) => e = &i.expr,
                _ => break,
            }
        }
        if let Expr::Path(p) = e {
            if p.path.segments.len() == 1 {
                let id = p.path.segments[0].ident.to_string();
                for (n, v) in fr.env.iter_mut() {
                    if *n == id {
                        *v = Val::Unknown;
                    }
                }
                fr.env.push((id, Val::Unknown));
            }
        }
    }

    fn branch(&self, fr: &mut Frame, b: &syn::Block, stack: &mut Vec<usize>) -> Vec<Node> {
        let saved = std::mem::take(&mut fr.out);
        let st = flatten(b);
        self.block(fr, &st, false, stack);
        std::mem::replace(&mut fr.out, saved)
    }

    fn if_node(&self, fr: &mut Frame, i: &syn::ExprIf, stack: &mut Vec<usize>) -> Node {
        let line = i.if_token.span.start().line;
        let cond = self.value(fr, &i.cond, false, false, stack);
        let then = self.branch(fr, &i.then_branch, stack);
        let els = match &i.else_branch {
            None => Vec::new(),
            Some((_, e)) => match &**e {
                Expr::Block(b) => self.branch(fr, &b.block, stack),
                Expr::If(j) => {
                    let saved = std::mem::take(&mut fr.out);
                    let n = self.if_node(fr, j, stack);
                    fr.out = saved;
                    vec![n]
                }
                other => vec![Node::Other { why: "else branch".into(), at: self.at(fr, other.span().start().line) }],
            },
        };
        Node::If { cond, then, els, at: self.at(fr, line) }
    }

    /// `match b { true => A, false => B }`, `match n { 1 => A, _ => B }` are `if`s
    fn match_node(&self, fr: &mut Frame, m: &syn::ExprMatch, stack: &mut Vec<usize>) -> Node {
        let line = m.match_token.span.start().line;
        let at = self.at(fr, line);
        enum P {
            Bool(bool),
            Int(u128),
            Wild,
        }
        fn classify(p: &syn::Pat) -> Option<P> {
            match p {
                syn::Pat::Wild(_) => Some(P::Wild),
                syn::Pat::Lit(l) => match &l.lit {
                    syn::Lit::Bool(b) => Some(P::Bool(b.value)),
                    syn::Lit::Int(i) => i.base10_parse::<u128>().ok().map(P::Int),
                    _ => None,
                },
                syn::Pat::Paren(p) => classify(&p.pat),
                _ => None,
            }
        }
        let unsupported = |why: &str| Node::Other { why: why.to_string(), at: at.clone() };
        if m.arms.len() != 2 || m.arms.iter().any(|a| a.guard.is_some()) {
            return unsupported("match");
        }
        let (Some(p0), Some(p1)) = (classify(&m.arms[0].pat), classify(&m.arms[1].pat)) else {
            return unsupported("match");
        };
        let scrut = self.value(fr, &m.expr, false, false, stack);
        // (condition under which arm 0 runs)
        let cond = match (p0, p1) {
            (P::Bool(true), P::Bool(false)) | (P::Bool(true), P::Wild) => scrut,
            (P::Bool(false), P::Bool(true)) | (P::Bool(false), P::Wild) => scrut.negate(),
            (P::Int(n), P::Wild) => Val::Cmp(Cmp::Eq, Box::new(scrut), Box::new(Val::Lit(n))),
            _ => return unsupported("match"),
        };
        let mut arm = |fr: &mut Frame, body: &Expr| -> Vec<Node> {
            let saved = std::mem::take(&mut fr.out);
            let save_env = fr.env.len();
            match peel(body) {
                Expr::Block(b) if b.label.is_none() => {
                    let st = flatten(&b.block);
                    self.block(fr, &st, false, stack);
                }
                Expr::Unsafe(u) => {
                    let st = flatten(&u.block);
                    self.block(fr, &st, false, stack);
                }
                other => self.stmt_expr(fr, other, false, false, stack),
            }
            fr.env.truncate(save_env);
            std::mem::replace(&mut fr.out, saved)
        };
        let then = arm(fr, &m.arms[0].body);
        let els = arm(fr, &m.arms[1].body);
        Node::If { cond, then, els, at }
    }

    // --- values ---------------------------------------------------------------------------------

    /// Abstract value of `e`; pushes the nodes of what evaluating it does.  `stmt_level` / `discarded`
    /// describe the position of `e` itself (a statement or `let` initialiser / result not bound).
    fn value(&self, fr: &mut Frame, e: &Expr, stmt_level: bool, discarded: bool, stack: &mut Vec<usize>) -> Val {
        let e = peel_all(e);
        let line = e.span().start().line;
        match e {
            Expr::Lit(l) => match (&l.lit, int_lit(e)) {
                (syn::Lit::Bool(b), _) => Val::Bool(b.value),
                (_, Some(n)) => Val::Lit(n),
                _ => Val::Pure,
            },
            Expr::Path(p) => {
                let segs = path_idents(&p.path);
                if segs.last().map(|s| s == "MAX_REFCOUNT").unwrap_or(false) {
                    return Val::Max;
                }
                if p.qself.is_none() && segs.len() == 1 {
                    if let Some(v) = self.lookup(fr, &segs[0]) {
                        return v;
                    }
                }
                Val::Pure
            }
            Expr::Binary(b) => {
                let c = match b.op {
                    syn::BinOp::Eq(_) => Some(Cmp::Eq),
                    syn::BinOp::Ne(_) => Some(Cmp::Ne),
                    syn::BinOp::Lt(_) => Some(Cmp::Lt),
                    syn::BinOp::Le(_) => Some(Cmp::Le),
                    syn::BinOp::Gt(_) => Some(Cmp::Gt),
                    syn::BinOp::Ge(_) => Some(Cmp::Ge),
                    _ => None,
                };
                match c {
                    Some(c) => {
                        let l = self.value(fr, &b.left, false, false, stack);
                        let r = self.value(fr, &b.right, false, false, stack);
                        Val::Cmp(c, Box::new(l), Box::new(r))
                    }
                    None => self.fallback(fr, e, line),
                }
            }
            Expr::Unary(u) => match u.op {
                syn::UnOp::Not(_) => match self.value(fr, &u.expr, false, false, stack) {
                    Val::Pure => Val::Pure,
                    v => v.negate(),
                },
                _ => self.fallback(fr, e, line),
            },
            Expr::MethodCall(m) => {
                let mline = m.method.span().start().line;
                if let Some((kind, ord)) = classify_atomic_call(m) {
                    fr.out.push(Node::Atomic { kind, ord, stmt_level, discarded, at: self.at(fr, mline) });
                    return match kind {
                        Kind::FetchAdd | Kind::FetchSub => Val::Old(kind),
                        Kind::Load => Val::Read,
                        _ => Val::Unknown,
                    };
                }
                if self.an.is_destroy_expr(fr.f, e) {
                    fr.out.push(Node::Destroy { at: self.at(fr, mline) });
                    return Val::Pure;
                }
                let col = m.method.span().start().column;
                let mut args: Vec<&Expr> = vec![&*m.receiver];
                args.extend(m.args.iter());
                self.call(fr, e, mline, col, &args, stack)
            }
            Expr::Call(c) => {
                if let Expr::Path(p) = &*c.func {
                    let pline = p.path.segments.last().map(|s| s.ident.span().start().line).unwrap_or(line);
                    let col = p.path.segments.last().map(|s| s.ident.span().start().column).unwrap_or(0);
                    if let Some(which) = is_fence_path(&p.path) {
                        if which == "fence" {
                            let ord = c.args.first().map(ordering_of).unwrap_or(MemOrd::Unknown);
                            fr.out.push(Node::Fence { ord, at: self.at(fr, pline) });
                        } else {
                            fr.out.push(Node::Other { why: "compiler_fence".into(), at: self.at(fr, pline) });
                        }
                        return Val::Pure;
                    }
                    if self.an.is_destroy_expr(fr.f, e) {
                        fr.out.push(Node::Destroy { at: self.at(fr, pline) });
                        return Val::Pure;
                    }
                    if let Some(ok) = self.an.abort_call(fr.f, e) {
                        fr.out.push(Node::Abort { ok, at: self.at(fr, pline) });
                        return Val::Pure;
                    }
                    let args: Vec<&Expr> = c.args.iter().collect();
                    return self.call(fr, e, pline, col, &args, stack);
                }
                self.fallback(fr, e, line)
            }
            _ => self.fallback(fr, e, line),
        }
    }

    fn fallback(&self, fr: &mut Frame, e: &Expr, line: usize) -> Val {
        if is_pure(e) {
            Val::Pure
        } else {
            fr.out.push(Node::Other { why: "unrecognised expression".into(), at: self.at(fr, line) });
            Val::Unknown
        }
    }

    /// a call expression (method or path) at (line, col) with the given argument expressions
    /// (receiver first): inline a helper, note a loader, accept a pure projection, else `Other`
    fn call(&self, fr: &mut Frame, e: &Expr, line: usize, col: usize, args: &[&Expr], stack: &mut Vec<usize>) -> Val {
        let edge = self.an.bodies[fr.f].edges.iter().find(|x| x.line == line && x.col == col && !x.debug);
        if let Some(edge) = edge {
            if edge.targets.len() == 1 {
                let t = edge.targets[0];
                let ti = &self.an.krate.fns[t];
                if !ti.is_entry() && !stack.contains(&t) && stack.len() < MAX_INLINE_DEPTH && ti.params.len() == args.len() {
                    let vals: Vec<Val> = args.iter().map(|a| self.value(fr, a, false, false, stack)).collect();
                    stack.push(t);
                    let low = self.lower_fn(t, vals, stack);
                    stack.pop();
                    fr.out.extend(low.nodes);
                    return low.result;
                }
            }
            let loader = edge.targets.iter().all(|t| self.loaders.contains(t));
            fr.out.push(Node::Call { loader, at: self.at(fr, line) });
            return if loader { Val::Read } else { Val::Unknown };
        }
        self.fallback(fr, e, line)
    }
}

fn is_compound_assign(op: &syn::BinOp) -> bool {
    use syn::BinOp::*;
    matches!(op, AddAssign(_) | SubAssign(_) | MulAssign(_) | DivAssign(_) | RemAssign(_) | BitXorAssign(_) | BitAndAssign(_) | BitOrAssign(_) | ShlAssign(_) | ShrAssign(_))
}

fn bind_unknown(p: &syn::Pat, env: &mut Vec<(String, Val)>) {
    struct V<'e>(&'e mut Vec<(String, Val)>);
    impl<'a, 'e> syn::visit::Visit<'a> for V<'e> {
        fn visit_pat_ident(&mut self, i: &'a syn::PatIdent) {
            self.0.push((i.ident.to_string(), Val::Unknown));
            syn::visit::visit_pat_ident(self, i);
        }
    }
    syn::visit::Visit::visit_pat(&mut V(env), p);
}

fn peel(e: &Expr) -> &Expr {
    match e {
        Expr::Paren(p) => peel(&p.expr),
        Expr::Group(g) => peel(&g.expr),
        _ => e,
    }
}

/// parentheses, `as` casts, references, and `unsafe { e }` / `{ e }` around a single expression
fn peel_all(e: &Expr) -> &Expr {
    match e {
        Expr::Paren(p) => peel_all(&p.expr),
        Expr::Group(g) => peel_all(&g.expr),
        Expr::Cast(c) => peel_all(&c.expr),
        Expr::Reference(r) => peel_all(&r.expr),
        Expr::Unsafe(u) => match u.block.stmts.as_slice() {
            [Stmt::Expr(inner, None)] => peel_all(inner),
            _ => e,
        },
        Expr::Block(b) if b.label.is_none() => match b.block.stmts.as_slice() {
            [Stmt::Expr(inner, None)] => peel_all(inner),
            _ => e,
        },
        _ => e,
    }
}

// ------------------------------------------------------------------------------------------------
// normalisation

/// Turn early returns into structured control flow; returns (nodes, the sequence always returns).
/// `if c { A; return } R`  =>  `if c { A } else { R }`, likewise for the else branch; statements after
/// an unconditional `return` are dropped; `if c { } else { B }`  =>  `if !c { B }`.
pub fn normalize(nodes: Vec<Node>) -> (Vec<Node>, bool) {
    let mut out = Vec::new();
    let mut it = nodes.into_iter();
    while let Some(n) = it.next() {
        match n {
            Node::Return { .. } => return (out, true),
            Node::If { cond, then, els, at } => {
                let (t, tr) = normalize(then);
                let (e, er) = normalize(els);
                if tr && er {
                    out.push(canon_if(cond, t, e, at));
                    return (out, true);
                }
                if tr || er {
                    let rest: Vec<Node> = it.collect();
                    let (r, rr) = normalize(rest);
                    let (t2, e2) = if tr {
                        let mut e2 = e;
                        e2.extend(r);
                        (t, e2)
                    } else {
                        let mut t2 = t;
                        t2.extend(r);
                        (t2, e)
                    };
                    out.push(canon_if(cond, t2, e2, at));
                    return (out, rr);
                }
                out.push(canon_if(cond, t, e, at));
            }
            other => out.push(other),
        }
    }
    (out, false)
}

fn canon_if(cond: Val, then: Vec<Node>, els: Vec<Node>, at: At) -> Node {
    if then.is_empty() && !els.is_empty() {
        Node::If { cond: cond.negate(), then: els, els: Vec::new(), at }
    } else {
        Node::If { cond, then, els, at }
    }
}
