//! C02: two threads (main + one worker) read through their own handle, duplicate, and drop, with
//! no synchronisation other than the reference count.  Whoever drops last destroys the value.
use litmus::*;
use triomphe::Arc;

fn main() {
    let mut t = Tally::new();
    for r in 0..rounds(8) {
        clone_read_drop::<Arc<Payload>>(&mut t, 2, 10 + r as u64);
    }
    t.finish();
}
