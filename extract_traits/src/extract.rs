//! Walks the parsed files and fills `Facts`.
use crate::conv::*;
use crate::model::*;
use proc_macro2::Span;
use syn::spanned::Spanned;

pub struct Src {
    pub rel: String,
    pub file: syn::File,
}

const IMPL_TRAITS: &[&str] = &[
    "PartialEq", "Eq", "PartialOrd", "Ord", "Hash", "Debug", "Display", "Pointer", "Borrow", "AsRef",
    "Serialize", "Deserialize",
    // census of entry points (Props/TraitCensus.lean): which provided trait methods the crate overrides
    "Clone", "RefCnt", "Default",
];

fn line_of(s: Span) -> usize {
    s.start().line
}

/// `#[cfg(test)]`, `#[cfg(all(test, ..))]`, `#[test]`
fn is_test_only(attrs: &[syn::Attribute]) -> bool {
    fn meta_requires_test(m: &syn::Meta) -> bool {
        match m {
            syn::Meta::Path(p) => p.is_ident("test"),
            syn::Meta::List(l) if l.path.is_ident("all") => l
                .parse_args_with(syn::punctuated::Punctuated::<syn::Meta, syn::Token![,]>::parse_terminated)
                .map(|ms| ms.iter().any(meta_requires_test))
                .unwrap_or(false),
            _ => false,
        }
    }
    attrs.iter().any(|a| {
        if a.path().is_ident("test") {
            return true;
        }
        if a.path().is_ident("cfg") {
            if let Ok(m) = a.parse_args::<syn::Meta>() {
                return meta_requires_test(&m);
            }
        }
        false
    })
}

fn item_attrs(it: &syn::Item) -> &[syn::Attribute] {
    match it {
        syn::Item::Const(i) => &i.attrs,
        syn::Item::Enum(i) => &i.attrs,
        syn::Item::Fn(i) => &i.attrs,
        syn::Item::Impl(i) => &i.attrs,
        syn::Item::Mod(i) => &i.attrs,
        syn::Item::Struct(i) => &i.attrs,
        syn::Item::Type(i) => &i.attrs,
        syn::Item::Union(i) => &i.attrs,
        syn::Item::Trait(i) => &i.attrs,
        syn::Item::Static(i) => &i.attrs,
        syn::Item::Use(i) => &i.attrs,
        syn::Item::Macro(i) => &i.attrs,
        _ => &[],
    }
}

/// every item outside test-only code, inline modules flattened
fn flat_items<'a>(items: &'a [syn::Item], out: &mut Vec<&'a syn::Item>) {
    for it in items {
        if is_test_only(item_attrs(it)) {
            continue;
        }
        if let syn::Item::Mod(m) = it {
            if let Some((_, inner)) = &m.content {
                flat_items(inner, out);
            }
            continue;
        }
        out.push(it);
    }
}

fn attrs_repr_derives(attrs: &[syn::Attribute]) -> (Vec<String>, Vec<String>) {
    let mut repr = Vec::new();
    let mut derives = Vec::new();
    for a in attrs {
        if a.path().is_ident("repr") {
            if let Ok(ms) = a.parse_args_with(syn::punctuated::Punctuated::<syn::Meta, syn::Token![,]>::parse_terminated) {
                for m in ms {
                    repr.push(toks(&m));
                }
            } else {
                repr.push("unknown".into());
            }
        } else if a.path().is_ident("derive") {
            if let Ok(ps) = a.parse_args_with(syn::punctuated::Punctuated::<syn::Path, syn::Token![,]>::parse_terminated) {
                for p in ps {
                    derives.push(last_ident(&p));
                }
            } else {
                derives.push("unknown".into());
            }
        } else if a.path().is_ident("cfg_attr") {
            let t = toks(&a.meta);
            if t.contains("derive") || t.contains("repr") {
                derives.push(t);
            }
        }
    }
    (repr, derives)
}

fn is_pub(v: &syn::Visibility) -> bool {
    matches!(v, syn::Visibility::Public(_))
}

fn fields_of(fs: &syn::Fields, prefix: &str, sc: &Scope, out: &mut Vec<Field>) {
    for (i, f) in fs.iter().enumerate() {
        let n = f.ident.as_ref().map(|x| x.to_string()).unwrap_or_else(|| i.to_string());
        out.push(Field { name: format!("{}{}", prefix, n), ty: conv_ty(&f.ty, sc) });
    }
}

struct ImplCtx {
    head: String,
    self_ty: String,
    type_params: Vec<String>,
    impl_lts: Vec<String>,
    self_lts: Vec<String>,
    outlives: Vec<(String, String)>,
    head_pub: bool,
}

pub struct Extractor {
    pub base: Scope,
    pub facts: Facts,
    pub pub_structs: std::collections::BTreeMap<String, bool>,
}

fn self_head(ty: &syn::Type) -> Option<&syn::PathSegment> {
    match ty {
        syn::Type::Path(tp) if tp.qself.is_none() => tp.path.segments.last(),
        syn::Type::Paren(p) => self_head(&p.elem),
        syn::Type::Group(p) => self_head(&p.elem),
        _ => None,
    }
}

fn named_lts_in(ty: &syn::Type, sc: &Scope) -> Vec<String> {
    let mut occ = Vec::new();
    collect_regions(ty, sc, false, &mut occ);
    let mut out = Vec::new();
    for o in occ {
        if let Region::Named(n) = o.region {
            if !out.contains(&n) {
                out.push(n);
            }
        }
    }
    out
}

impl Extractor {
    pub fn new() -> Self {
        Extractor { base: Scope::default(), facts: Facts::default(), pub_structs: Default::default() }
    }

    pub fn run(mut self, srcs: &[Src]) -> Facts {
        let mut all: Vec<(&str, Vec<&syn::Item>)> = Vec::new();
        for s in srcs {
            let mut v = Vec::new();
            flat_items(&s.file.items, &mut v);
            all.push((&s.rel, v));
            self.facts.files.push(s.rel.clone());
        }
        // pass 1: names, lifetime arities, aliases
        for (_, items) in &all {
            for it in items {
                let (name, generics, vis) = match it {
                    syn::Item::Struct(s) => (s.ident.to_string(), &s.generics, &s.vis),
                    syn::Item::Enum(s) => (s.ident.to_string(), &s.generics, &s.vis),
                    syn::Item::Union(s) => (s.ident.to_string(), &s.generics, &s.vis),
                    syn::Item::Type(t) => {
                        let ps: Vec<String> = t
                            .generics
                            .params
                            .iter()
                            .filter_map(|p| match p {
                                syn::GenericParam::Type(tp) => Some(tp.ident.to_string()),
                                _ => None,
                            })
                            .collect();
                        if t.generics.params.len() == ps.len() {
                            self.base.aliases.insert(t.ident.to_string(), Alias { params: ps, ty: (*t.ty).clone() });
                        }
                        continue;
                    }
                    _ => continue,
                };
                if MAGIC.contains(&name.as_str()) || PRIMS.contains(&name.as_str()) {
                    self.base.shadowed.insert(name.clone());
                    self.facts.notes.push(format!("crate-local type `{}` shadows a built-in name: treated as unknown", name));
                }
                let k = generics.params.iter().filter(|p| matches!(p, syn::GenericParam::Lifetime(_))).count();
                self.base.lt_arity.insert(name.clone(), k);
                self.pub_structs.insert(name, is_pub(vis));
            }
        }
        // pass 2
        for (rel, items) in &all {
            for it in items {
                match it {
                    syn::Item::Struct(s) => self.do_struct(rel, &s.ident, &s.generics, &s.attrs, &s.vis, "struct", |sc, out| fields_of(&s.fields, "", sc, out)),
                    syn::Item::Union(s) => self.do_struct(rel, &s.ident, &s.generics, &s.attrs, &s.vis, "union", |sc, out| {
                        for f in &s.fields.named {
                            out.push(Field { name: f.ident.as_ref().unwrap().to_string(), ty: conv_ty(&f.ty, sc) });
                        }
                    }),
                    syn::Item::Enum(e) => self.do_struct(rel, &e.ident, &e.generics, &e.attrs, &e.vis, "enum", |sc, out| {
                        for v in &e.variants {
                            fields_of(&v.fields, &format!("{}.", v.ident), sc, out);
                        }
                    }),
                    syn::Item::Impl(i) => self.do_impl(rel, i),
                    syn::Item::Fn(f) => self.do_fn(rel, None, &f.vis, &f.sig, "", &f.attrs),
                    _ => {}
                }
            }
        }
        self.facts
    }

    fn do_struct<F: FnOnce(&Scope, &mut Vec<Field>)>(
        &mut self, rel: &str, ident: &syn::Ident, generics: &syn::Generics, attrs: &[syn::Attribute], vis: &syn::Visibility,
        kind: &'static str, fill: F,
    ) {
        let (params, where_other, _) = conv_generics(generics);
        let mut sc = self.base.clone();
        sc.type_params = params.iter().filter(|p| p.kind == ParamKind::Type).map(|p| p.name.clone()).collect();
        let mut fields = Vec::new();
        fill(&sc, &mut fields);
        let (repr, derives) = attrs_repr_derives(attrs);
        let name = ident.to_string();
        if !where_other.is_empty() {
            self.facts.notes.push(format!("struct {}: where predicates not on a bare parameter: {:?}", name, where_other));
        }
        for d in &derives {
            if IMPL_TRAITS.contains(&d.as_str()) {
                self.facts.impls.push(ImplFact {
                    file: rel.into(), line: line_of(ident.span()), trait_: d.clone(), self_head: name.clone(),
                    self_ty: name.clone(), method: "*".into(), form: "derived", body: String::new(),
                });
            }
        }
        self.facts.reprs.push(ReprFact { name: name.clone(), repr: repr.clone(), field_order: fields.iter().map(|f| f.name.clone()).collect() });
        self.facts.structs.push(StructDef {
            file: rel.into(), line: line_of(ident.span()), name, kind, is_pub: is_pub(vis), params, fields, repr, derives,
        });
    }

    fn do_impl(&mut self, rel: &str, i: &syn::ItemImpl) {
        let (params, where_other, outlives) = conv_generics(&i.generics);
        let type_params: Vec<String> = params.iter().filter(|p| p.kind == ParamKind::Type).map(|p| p.name.clone()).collect();
        let impl_lts: Vec<String> = params.iter().filter(|p| p.kind == ParamKind::Lifetime).map(|p| p.name.clone()).collect();
        let has_const = params.iter().any(|p| p.kind == ParamKind::Const);
        let mut sc = self.base.clone();
        sc.type_params = type_params.iter().cloned().collect();
        let head_seg = self_head(&i.self_ty);
        let head = head_seg.map(|s| s.ident.to_string()).unwrap_or_else(|| toks(&*i.self_ty));
        let self_ty_str = toks(&*i.self_ty);
        let self_lts = named_lts_in(&i.self_ty, &sc);
        let (tname, negative) = match &i.trait_ {
            Some((bang, p, _)) => (last_ident(p), bang.is_some()),
            None => (String::new(), false),
        };
        let line = line_of(i.impl_token.span());

        // --- Send / Sync / Copy / Clone headers
        let tid = match tname.as_str() {
            "Send" => Some("send"),
            "Sync" => Some("sync"),
            "Copy" => Some("copy"),
            "Clone" => Some("clone"),
            _ => None,
        };
        if let Some(tid) = tid {
            let mut generic = head_seg.is_some() && !has_const;
            let mut s_lts = Vec::new();
            let mut s_args = Vec::new();
            if let Some(seg) = head_seg {
                // path must be a plain (possibly qualified) path whose inner segments have no args
                match &seg.arguments {
                    syn::PathArguments::None => {}
                    syn::PathArguments::AngleBracketed(a) => {
                        for ga in &a.args {
                            match ga {
                                syn::GenericArgument::Lifetime(l) => match region_of(Some(l)) {
                                    Region::Named(n) if impl_lts.contains(&n) && !s_lts.contains(&n) => s_lts.push(n),
                                    Region::Elided => s_lts.push("_".into()),
                                    _ => {
                                        generic = false;
                                        s_lts.push(l.ident.to_string());
                                    }
                                },
                                syn::GenericArgument::Type(t) => {
                                    let bare = match t {
                                        syn::Type::Path(tp) if tp.qself.is_none() && tp.path.segments.len() == 1 && tp.path.segments[0].arguments.is_empty() => {
                                            Some(tp.path.segments[0].ident.to_string())
                                        }
                                        _ => None,
                                    };
                                    match bare {
                                        Some(n) if type_params.contains(&n) && !s_args.contains(&n) => s_args.push(n),
                                        _ => {
                                            generic = false;
                                            s_args.push(toks(t));
                                        }
                                    }
                                }
                                _ => generic = false,
                            }
                        }
                    }
                    _ => generic = false,
                }
            }
            if type_params.iter().any(|p| !s_args.contains(p)) {
                generic = false;
            }
            let hdr = ImplHdr {
                file: rel.into(), line, trait_: tid, is_unsafe: i.unsafety.is_some(), negative, self_ty: head.clone(), generic,
                self_lts: s_lts, self_args: s_args, params: params.clone(), where_other: where_other.clone(),
            };
            if tid == "send" || tid == "sync" {
                self.facts.auto_impls.push(hdr);
            } else {
                self.facts.copy_clone_impls.push(hdr);
            }
        }

        // --- delegation forms
        if IMPL_TRAITS.contains(&tname.as_str()) && self.base.lt_arity.contains_key(&head) {
            let mut any = false;
            for it in &i.items {
                if let syn::ImplItem::Fn(f) = it {
                    any = true;
                    let (form, body) = crate::forms::classify(&tname, &head, f);
                    self.facts.impls.push(ImplFact {
                        file: rel.into(), line: line_of(f.sig.ident.span()), trait_: tname.clone(), self_head: head.clone(),
                        self_ty: self_ty_str.clone(), method: f.sig.ident.to_string(), form, body,
                    });
                }
            }
            if !any {
                self.facts.impls.push(ImplFact {
                    file: rel.into(), line, trait_: tname.clone(), self_head: head.clone(), self_ty: self_ty_str.clone(),
                    method: String::new(), form: "marker", body: String::new(),
                });
            }
        }

        // --- signatures
        let head_pub = *self.pub_structs.get(&head).unwrap_or(&true);
        let ctx = ImplCtx { head, self_ty: self_ty_str, type_params, impl_lts, self_lts, outlives, head_pub };
        for it in &i.items {
            if let syn::ImplItem::Fn(f) = it {
                if is_test_only(&f.attrs) {
                    continue;
                }
                self.do_fn(rel, Some(&ctx), &f.vis, &f.sig, &tname, &f.attrs);
            }
        }
    }

    fn do_fn(&mut self, rel: &str, ctx: Option<&ImplCtx>, vis: &syn::Visibility, sig: &syn::Signature, tname: &str, attrs: &[syn::Attribute]) {
        if is_test_only(attrs) {
            return;
        }
        let (fparams, _fwhere, foutl) = conv_generics(&sig.generics);
        let fn_lts: Vec<String> = fparams.iter().filter(|p| p.kind == ParamKind::Lifetime).map(|p| p.name.clone()).collect();
        let mut sc = self.base.clone();
        if let Some(c) = ctx {
            sc.type_params.extend(c.type_params.iter().cloned());
            sc.self_lts = c.self_lts.clone();
        }
        sc.type_params.extend(fparams.iter().filter(|p| p.kind == ParamKind::Type).map(|p| p.name.clone()));

        // callbacks from bounds
        let mut callbacks = Vec::new();
        let mut cb_params: Vec<String> = Vec::new();
        let scan_bounds = |param: &str, bounds: &[syn::TypeParamBound], extra_for: &[String], sc: &Scope, callbacks: &mut Vec<Callback>| -> bool {
            let mut is_cb = false;
            for b in bounds {
                if let syn::TypeParamBound::Trait(t) = b {
                    if let Some(seg) = t.path.segments.last() {
                        let n = seg.ident.to_string();
                        if let (true, syn::PathArguments::Parenthesized(pa)) = (["Fn", "FnMut", "FnOnce"].contains(&n.as_str()), &seg.arguments) {
                            is_cb = true;
                            let mut for_lts: Vec<String> = extra_for.to_vec();
                            if let Some(bl) = &t.lifetimes {
                                for gp in &bl.lifetimes {
                                    if let syn::GenericParam::Lifetime(l) = gp {
                                        for_lts.push(l.lifetime.ident.to_string());
                                    }
                                }
                            }
                            let mut regs = Vec::new();
                            for a in &pa.inputs {
                                collect_regions(a, sc, false, &mut regs);
                            }
                            if !regs.is_empty() {
                                callbacks.push(Callback { param: param.to_string(), fn_trait: n, for_lts, arg_regions: regs });
                            }
                        }
                    }
                }
            }
            is_cb
        };
        for (p, bounds, for_lts) in raw_param_bounds(&sig.generics) {
            if scan_bounds(&p, &bounds, &for_lts, &sc, &mut callbacks) {
                cb_params.push(p);
            }
        }

        // receiver and inputs
        let mut recv = "none";
        let mut recv_region = Region::Unknown;
        let mut other_inputs = Vec::new();
        let is_self_like = |t: &syn::Type| -> bool {
            match self_head(t) {
                Some(seg) => {
                    let n = seg.ident.to_string();
                    match ctx {
                        Some(c) => n == "Self" || n == c.head,
                        None => self.base.lt_arity.contains_key(&n),
                    }
                }
                None => false,
            }
        };
        for (idx, a) in sig.inputs.iter().enumerate() {
            match a {
                syn::FnArg::Receiver(r) => {
                    if r.colon_token.is_none() {
                        match &r.reference {
                            Some((_, lt)) => {
                                recv = if r.mutability.is_some() { "refMutSelf" } else { "refSelf" };
                                recv_region = region_of(lt.as_ref());
                            }
                            None => recv = "byValue",
                        }
                    } else {
                        match &*r.ty {
                            syn::Type::Reference(rf) if toks(&*rf.elem) == "Self" => {
                                recv = if rf.mutability.is_some() { "refMutSelf" } else { "refSelf" };
                                recv_region = region_of(rf.lifetime.as_ref());
                            }
                            t if toks(t) == "Self" => recv = "byValue",
                            _ => recv = "other",
                        }
                    }
                }
                syn::FnArg::Typed(pt) => {
                    if let syn::Type::ImplTrait(it) = &*pt.ty {
                        let bs: Vec<syn::TypeParamBound> = it.bounds.iter().cloned().collect();
                        if scan_bounds("impl", &bs, &[], &sc, &mut callbacks) {
                            continue;
                        }
                    }
                    if idx == 0 {
                        match &*pt.ty {
                            syn::Type::Reference(rf) if is_self_like(&rf.elem) => {
                                recv = if rf.mutability.is_some() { "thisRefMut" } else { "thisRef" };
                                recv_region = region_of(rf.lifetime.as_ref());
                                // regions nested inside the handle type itself count as further inputs
                                collect_regions(&rf.elem, &sc, false, &mut other_inputs);
                                continue;
                            }
                            t if is_self_like(t) => {
                                recv = "byValue";
                                collect_regions(t, &sc, false, &mut other_inputs);
                                continue;
                            }
                            _ => {}
                        }
                    }
                    collect_regions(&pt.ty, &sc, false, &mut other_inputs);
                }
            }
        }

        let mut out_regions = Vec::new();
        let mut out_shape = String::new();
        if let syn::ReturnType::Type(_, t) = &sig.output {
            collect_regions(t, &sc, true, &mut out_regions);
            out_shape = toks(&**t);
        }
        if out_regions.is_empty() && callbacks.is_empty() {
            return;
        }
        let name = sig.ident.to_string();
        let (key, self_ty, impl_lts, self_lts, mut outlives, head_pub) = match ctx {
            Some(c) => (format!("{}::{}", c.head, name), c.self_ty.clone(), c.impl_lts.clone(), c.self_lts.clone(), c.outlives.clone(), c.head_pub),
            None => (format!("::{}", name), String::new(), vec![], vec![], vec![], true),
        };
        outlives.extend(foutl);
        let is_pub_fn = if !tname.is_empty() { true } else { is_pub(vis) && head_pub };
        self.facts.sigs.push(Sig {
            file: rel.into(), line: line_of(sig.ident.span()), key, self_ty, trait_: tname.to_string(), is_pub: is_pub_fn,
            is_unsafe: sig.unsafety.is_some(), impl_lts, self_lts, fn_lts, outlives, recv, recv_region, other_inputs,
            out_regions, out_shape, callbacks,
        });
        let _ = cb_params;
    }
}
