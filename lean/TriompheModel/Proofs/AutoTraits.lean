import TriompheModel.Model.AutoTraits
/-!
# Helper lemmas for C13 (about the model M7, independent of the generated tables)

* `class_abstraction_complete`: the bound language that the translator extracts from the
  `unsafe impl Send/Sync` headers (`Send`, `Sync`, `?Sized`, `Sized`, `T: 'a` for a lifetime argument
  of the self type) cannot distinguish two types of the same `(send?, sync?, sized?)` class.  Hence
  deciding an impl's applicability on the 8 classes decides it for **all** Rust types `T`.
* `boundsHold_mono`: more capable types satisfy more bound sets (justifies reading a generic probe
  `fn f<T: Send>() { assert_send::<K<T>>() }` at the least class satisfying the declared bound).
* `shared_of_ok` / `unique_of_ok`: the Boolean table checks (`decide`d in `Props/C13.lean`) imply the
  quantified statements.
-/
namespace AutoTraits
open FactsTraits

/-- An arbitrary Rust type, as far as a `where`-bound can observe it: which auto traits it has, whether
it is `Sized`, which lifetimes it outlives, and which other traits it implements.  This is what the
class abstraction forgets: `outlives` and `implements` are arbitrary functions. -/
structure AbsType where
  send : Bool
  sync : Bool
  sized : Bool
  outlives : String → Bool      -- `T: 'l`
  static : Bool                 -- `T: 'static`
  implements : String → Bool    -- any other trait bound, by its normalised text

def AbsType.cls (t : AbsType) : Class := ⟨t.send, t.sync, t.sized⟩

/-- satisfaction of one bound by an arbitrary type (the "real" semantics of the bound language) -/
def AbsType.satisfies (t : AbsType) : Bound → Bool
  | .send => t.send
  | .sync => t.sync
  | .qsized => true
  | .sized => t.sized
  | .outlives l => t.outlives l
  | .static => t.static
  | .other s => t.implements s

/-- a parameter's declared bound set holds for `t` (implicit `Sized` unless `?Sized`) -/
def AbsType.satisfiesAll (t : AbsType) (bs : List Bound) : Bool :=
  (bs.contains .qsized || t.sized) && bs.all t.satisfies

/-- `t` may be an argument of the self type `K<'l.., t>`: well-formedness of that type implies
`t: 'l` for each of its lifetime arguments (as `ArcBorrow<'a, T: 'a>` declares) -/
def AbsType.wfFor (t : AbsType) (lts : List String) : Prop := ∀ l, lts.contains l = true → t.outlives l = true

theorem all_congr_mem {α : Type} (l : List α) (f g : α → Bool) (h : ∀ a, a ∈ l → f a = g a) :
    l.all f = l.all g := by
  induction l with
  | nil => rfl
  | cons a as ih =>
    simp only [List.all_cons]
    rw [h a (List.mem_cons_self ..), ih (fun b hb => h b (List.mem_cons_of_mem _ hb))]

theorem satisfies_eq_boundHolds (lts : List String) (t : AbsType) (hwf : t.wfFor lts) (b : Bound)
    (hb : Bound.classOnly lts b = true) : t.satisfies b = boundHolds lts t.cls b := by
  cases b with
  | send => rfl
  | sync => rfl
  | qsized => rfl
  | sized => rfl
  | outlives l =>
    simp only [Bound.classOnly] at hb
    simp only [AbsType.satisfies, boundHolds]
    rw [hwf l hb, hb]
  | static => simp [Bound.classOnly] at hb
  | other s => simp [Bound.classOnly] at hb

/-- **Completeness of the class abstraction.**  For a bound set in the extracted fragment, whether it
holds for an arbitrary type depends only on the type's class: the model's `boundsHold` on the class
is the bound set's truth value on the type. -/
theorem class_abstraction_complete (lts : List String) (bs : List Bound)
    (hfrag : bs.all (Bound.classOnly lts) = true) (t : AbsType) (hwf : t.wfFor lts) :
    t.satisfiesAll bs = boundsHold lts bs t.cls := by
  unfold AbsType.satisfiesAll boundsHold
  have hall : bs.all t.satisfies = bs.all (boundHolds lts t.cls) := by
    apply all_congr_mem
    intro b hb
    exact satisfies_eq_boundHolds lts t hwf b (List.all_eq_true.mp hfrag b hb)
  rw [hall]
  rfl

/-- two types of the same class are indistinguishable by the extracted bound language -/
theorem same_class_same_verdict (lts : List String) (bs : List Bound)
    (hfrag : bs.all (Bound.classOnly lts) = true) (t₁ t₂ : AbsType)
    (h₁ : t₁.wfFor lts) (h₂ : t₂.wfFor lts) (hc : t₁.cls = t₂.cls) :
    t₁.satisfiesAll bs = t₂.satisfiesAll bs := by
  rw [class_abstraction_complete lts bs hfrag t₁ h₁, class_abstraction_complete lts bs hfrag t₂ h₂, hc]

/-- the order on classes: `c ≤ d` when `d` has every capability `c` has -/
def Class.le (c d : Class) : Prop :=
  (c.send = true → d.send = true) ∧ (c.sync = true → d.sync = true) ∧ (c.sized = true → d.sized = true)

theorem boundHolds_mono (lts : List String) (c d : Class) (h : Class.le c d) (b : Bound)
    (hb : boundHolds lts c b = true) : boundHolds lts d b = true := by
  cases b with
  | send => exact h.1 hb
  | sync => exact h.2.1 hb
  | qsized => rfl
  | sized => exact h.2.2 hb
  | outlives l => exact hb
  | static => exact hb
  | other s => exact hb

/-- bound sets are monotone: a more capable type satisfies every bound set a less capable one does -/
theorem boundsHold_mono (lts : List String) (bs : List Bound) (c d : Class) (h : Class.le c d)
    (hc : boundsHold lts bs c = true) : boundsHold lts bs d = true := by
  unfold boundsHold at *
  rw [Bool.and_eq_true] at *
  refine ⟨?_, ?_⟩
  · cases hq : bs.contains Bound.qsized with
    | true => rfl
    | false =>
      have := hc.1
      rw [hq] at this
      simp only [Bool.false_or] at this
      simp [h.2.2 this]
  · rw [List.all_eq_true] at *
    intro b hb
    exact boundHolds_mono lts c d h b (hc.2 b hb)

/-- from the `decide`d table check to the quantified statement -/
theorem shared_of_ok (tb : Tables) (K : String) (h : sharedKindOk tb K = true)
    (cs : List Class) (hlen : cs.length = arity tb K) (hwf : wfArgs tb K cs = true) :
    isSend tb K cs = cs.all (fun c => c.send && c.sync) ∧
    isSync tb K cs = cs.all (fun c => c.send && c.sync) := by
  unfold sharedKindOk at h
  rw [List.all_eq_true] at h
  have hm : cs ∈ classLists (arity tb K) := hlen ▸ mem_classLists cs
  have := h cs hm
  rw [hwf] at this
  simpa using this

theorem unique_of_ok (tb : Tables) (K : String) (h : uniqueKindOk tb K = true)
    (cs : List Class) (hlen : cs.length = arity tb K) (hwf : wfArgs tb K cs = true) :
    isSend tb K cs = cs.all (·.send) ∧ isSync tb K cs = cs.all (·.sync) := by
  unfold uniqueKindOk at h
  rw [List.all_eq_true] at h
  have hm : cs ∈ classLists (arity tb K) := hlen ▸ mem_classLists cs
  have := h cs hm
  rw [hwf] at this
  simpa using this

/-- from the table check to "every obligated signature in the table" -/
theorem bounded_of_ok (sigs : List Sig) (h : sigsBounded sigs = true) (s : Sig) (hs : s ∈ sigs)
    (hp : s.isPub = true) (hu : s.isUnsafe = false) : regionBounded s = true := by
  unfold sigsBounded at h
  rw [List.all_eq_true] at h
  apply h s
  rw [List.mem_filter]
  exact ⟨hs, by simp [Sig.obligated, hp, hu]⟩

theorem hr_of_ok (sigs : List Sig) (h : callbacksHigherRanked sigs = true) (s : Sig) (hs : s ∈ sigs)
    (hp : s.isPub = true) (hu : s.isUnsafe = false) (cb : Callback) (hcb : cb ∈ s.callbacks) :
    higherRanked cb = true := by
  unfold callbacksHigherRanked at h
  rw [List.all_eq_true] at h
  have := h s (by rw [List.mem_filter]; exact ⟨hs, by simp [Sig.obligated, hp, hu]⟩)
  rw [List.all_eq_true] at this
  exact this cb hcb

end AutoTraits
