import TriompheModel.Model.Layout
/-!
# Helper lemmas for M2 (layouts and addresses) — core Lean only

`roundUp` facts, powers of two, the shape of `reprC2`, and the hypotheses the property theorems
use: `Layout.AlignIs l e` (`l.align = 2^e`), `Layout.WF l` (`l.align ∣ l.size`, which Rust
guarantees for the layout of every *type*, but not for an arbitrary `Layout` value) and
`WordBits bits k` (`bits = 8 * 2^k`, `k ≥ 1`: 16, 32, 64, 128, … bit `usize`).
-/
namespace LY

/-! ## roundUp -/

theorem le_roundUp (n : Nat) {a : Nat} (ha : 0 < a) : n ≤ roundUp n a := by
  unfold roundUp
  have h1 := Nat.div_add_mod (n + a - 1) a
  have h2 := Nat.mod_lt (n + a - 1) ha
  rw [Nat.mul_comm] at h1
  omega

theorem roundUp_lt (n : Nat) {a : Nat} (ha : 0 < a) : roundUp n a < n + a := by
  unfold roundUp
  have h1 := Nat.div_add_mod (n + a - 1) a
  rw [Nat.mul_comm] at h1
  omega

theorem dvd_roundUp (n a : Nat) : a ∣ roundUp n a := ⟨(n + a - 1) / a, Nat.mul_comm _ _⟩

theorem roundUp_mod (n a : Nat) : roundUp n a % a = 0 := Nat.mod_eq_zero_of_dvd (dvd_roundUp n a)

theorem roundUp_of_dvd {n a : Nat} (ha : 0 < a) (h : a ∣ n) : roundUp n a = n := by
  obtain ⟨k, rfl⟩ := h
  unfold roundUp
  have e : a * k + a - 1 = a * k + (a - 1) := by omega
  rw [e, Nat.mul_add_div ha, Nat.div_eq_of_lt (by omega), Nat.add_zero, Nat.mul_comm]

theorem roundUp_zero (a : Nat) : roundUp 0 a = 0 := by
  unfold roundUp
  cases a with
  | zero => simp
  | succ a => simp [Nat.div_eq_of_lt]

/-- `roundUp n a` is the *least* multiple of `a` that is `≥ n` -/
theorem roundUp_le_of_dvd {n a k : Nat} (ha : 0 < a) (hk : a ∣ k) (hn : n ≤ k) : roundUp n a ≤ k := by
  obtain ⟨q, rfl⟩ := hk
  unfold roundUp
  have h : (n + a - 1) / a < q + 1 := by
    rw [Nat.div_lt_iff_lt_mul ha, Nat.succ_mul, Nat.mul_comm q a]
    omega
  have h' : (n + a - 1) / a ≤ q := Nat.lt_succ_iff.mp h
  calc (n + a - 1) / a * a ≤ q * a := Nat.mul_le_mul_right a h'
    _ = a * q := Nat.mul_comm q a

/-- two multiples of `a` that differ are at least `a` apart -/
theorem add_le_of_dvd_of_lt {a x y : Nat} (hx : a ∣ x) (hy : a ∣ y) (h : x < y) : x + a ≤ y := by
  obtain ⟨p, rfl⟩ := hx
  obtain ⟨q, rfl⟩ := hy
  have hpq : p < q := by
    apply Nat.lt_of_not_le
    intro hqp
    exact absurd (Nat.mul_le_mul_left a hqp) (Nat.not_le_of_lt h)
  calc a * p + a = a * (p + 1) := (Nat.mul_succ a p).symm
    _ ≤ a * q := Nat.mul_le_mul_left a hpq

theorem roundUp_unique {n a k : Nat} (ha : 0 < a) (hk : a ∣ k) (h1 : n ≤ k) (h2 : k < n + a) :
    roundUp n a = k := by
  apply Nat.le_antisymm (roundUp_le_of_dvd ha hk h1)
  apply Nat.le_of_not_lt
  intro hlt
  have := add_le_of_dvd_of_lt (dvd_roundUp n a) hk hlt
  have := le_roundUp n ha
  omega

theorem roundUp_mono {m n a : Nat} (ha : 0 < a) (h : m ≤ n) : roundUp m a ≤ roundUp n a :=
  roundUp_le_of_dvd ha (dvd_roundUp n a) (Nat.le_trans h (le_roundUp n ha))

/-- rounding to a coarser alignment absorbs an earlier rounding to a finer one -/
theorem roundUp_roundUp_of_dvd {n a m : Nat} (ha : 0 < a) (hm : 0 < m) (h : a ∣ m) :
    roundUp (roundUp n a) m = roundUp n m := by
  apply roundUp_unique hm (dvd_roundUp n m)
  · exact roundUp_le_of_dvd ha (Nat.dvd_trans h (dvd_roundUp n m)) (le_roundUp n hm)
  · have := roundUp_lt n hm
    have := le_roundUp n ha
    omega

theorem roundUp_add_left_of_dvd {x s a : Nat} (ha : 0 < a) (hx : a ∣ x) :
    roundUp (x + s) a = x + roundUp s a := by
  apply roundUp_unique ha ((Nat.dvd_add_right hx).mpr (dvd_roundUp s a))
  · have := le_roundUp s ha; omega
  · have := roundUp_lt s ha; omega

/-- Rust computes `(n + a - 1) & !(a - 1)`; over `Nat`, `x & !m = x - (x & m)` for a mask `m`, and
for `a = 2^e` this is the model's `roundUp` -/
theorem roundUp_eq_mask (n e : Nat) :
    roundUp n (2 ^ e) = (n + 2 ^ e - 1) - ((n + 2 ^ e - 1) &&& (2 ^ e - 1)) := by
  unfold roundUp
  rw [Nat.and_two_pow_sub_one_eq_mod]
  have h1 := Nat.div_add_mod (n + 2 ^ e - 1) (2 ^ e)
  rw [Nat.mul_comm] at h1
  omega

/-! ## powers of two -/

theorem pow2_pos (e : Nat) : 0 < 2 ^ e := Nat.two_pow_pos e

theorem pow2_dvd_of_le {a b : Nat} (h : a ≤ b) : 2 ^ a ∣ 2 ^ b := Nat.pow_dvd_pow 2 h

theorem max_pow2 (a b : Nat) : max (2 ^ a) (2 ^ b) = 2 ^ (max a b) := by
  cases Nat.le_total a b with
  | inl h =>
    rw [Nat.max_eq_right h, Nat.max_eq_right (Nat.pow_le_pow_right (by decide) h)]
  | inr h =>
    rw [Nat.max_eq_left h, Nat.max_eq_left (Nat.pow_le_pow_right (by decide) h)]

theorem pow2_dvd_max_left (a b : Nat) : 2 ^ a ∣ max (2 ^ a) (2 ^ b) := by
  rw [max_pow2]; exact pow2_dvd_of_le (Nat.le_max_left a b)

theorem pow2_dvd_max_right (a b : Nat) : 2 ^ b ∣ max (2 ^ a) (2 ^ b) := by
  rw [max_pow2]; exact pow2_dvd_of_le (Nat.le_max_right a b)

theorem two_dvd_pow2 {k : Nat} (hk : 1 ≤ k) : 2 ∣ 2 ^ k := by
  have := pow2_dvd_of_le hk
  simpa using this

/-- `2^a` divides `2^(n)` or exceeds it: used for "the padded size stays ≤ isize::MAX" -/
theorem pow2_dvd_sub {n m : Nat} (h : m ≤ n) : 2 ^ m ∣ 2 ^ n - 2 ^ m :=
  Nat.dvd_sub (pow2_dvd_of_le h) (Nat.dvd_refl _)

/-! ## hypotheses of the property theorems (all decidable) -/

/-- the alignment of `l` is the power of two `2^e` (every Rust `Layout` has such an `e`) -/
def Layout.AlignIs (l : Layout) (e : Nat) : Prop := l.align = 2 ^ e
instance (l : Layout) (e : Nat) : Decidable (l.AlignIs e) := inferInstanceAs (Decidable (_ = _))

/-- size is a multiple of the alignment: guaranteed by Rust for the layout of every type (and of
`[T]`, `str`, `dyn Trait` values), but not for arbitrary `Layout` values such as the
un-padded result of `Layout::extend` -/
def Layout.WF (l : Layout) : Prop := l.align ∣ l.size
instance (l : Layout) : Decidable l.WF := inferInstanceAs (Decidable (_ ∣ _))

/-- `usize` has `bits = 8 * 2^k` bits with `k ≥ 1` (16-, 32-, 64-, … bit targets) -/
def WordBits (bits k : Nat) : Prop := 1 ≤ k ∧ bits = 8 * 2 ^ k
instance (bits k : Nat) : Decidable (WordBits bits k) := inferInstanceAs (Decidable (_ ∧ _))

theorem wordBits16 : WordBits 16 1 := by decide
theorem wordBits32 : WordBits 32 2 := by decide
theorem wordBits64 : WordBits 64 3 := by decide

theorem wordLayout_eq {bits k : Nat} (hb : WordBits bits k) : wordLayout bits = ⟨2 ^ k, 2 ^ k⟩ := by
  obtain ⟨_, rfl⟩ := hb
  unfold wordLayout
  rw [Nat.mul_div_cancel_left _ (by decide : 0 < 8)]

theorem Layout.AlignIs.pos {l : Layout} {e : Nat} (h : l.AlignIs e) : 0 < l.align := by
  rw [h]; exact pow2_pos e

/-! ## repr(C) two-field struct -/

section reprC2
variable {a b : Layout} {ea eb : Nat}

theorem reprC2_off (a b : Layout) : (reprC2 a b).2 = roundUp a.size b.align := rfl
theorem reprC2_align (a b : Layout) : (reprC2 a b).1.align = max a.align b.align := rfl
theorem reprC2_size (a b : Layout) :
    (reprC2 a b).1.size = roundUp (roundUp a.size b.align + b.size) (max a.align b.align) := rfl

theorem reprC2_alignIs (ha : a.AlignIs ea) (hb : b.AlignIs eb) :
    (reprC2 a b).1.AlignIs (max ea eb) := by
  unfold Layout.AlignIs at *
  rw [reprC2_align, ha, hb, max_pow2]

theorem reprC2_align_dvd_left (ha : a.AlignIs ea) (hb : b.AlignIs eb) :
    a.align ∣ (reprC2 a b).1.align := by
  unfold Layout.AlignIs at *
  rw [reprC2_align, ha, hb]; exact pow2_dvd_max_left ea eb

theorem reprC2_align_dvd_right (ha : a.AlignIs ea) (hb : b.AlignIs eb) :
    b.align ∣ (reprC2 a b).1.align := by
  unfold Layout.AlignIs at *
  rw [reprC2_align, ha, hb]; exact pow2_dvd_max_right ea eb

theorem reprC2_align_pos (ha : a.AlignIs ea) (hb : b.AlignIs eb) : 0 < (reprC2 a b).1.align :=
  (reprC2_alignIs ha hb).pos

/-- the struct's size is a multiple of its alignment -/
theorem reprC2_wf (a b : Layout) : (reprC2 a b).1.WF := dvd_roundUp _ _

/-- field `b` starts after field `a` -/
theorem reprC2_off_ge (hb : b.AlignIs eb) : a.size ≤ (reprC2 a b).2 := le_roundUp _ hb.pos

/-- field `b` is aligned inside the struct -/
theorem reprC2_off_dvd (a b : Layout) : b.align ∣ (reprC2 a b).2 := dvd_roundUp _ _

/-- field `b` ends inside the struct -/
theorem reprC2_fits (ha : a.AlignIs ea) (hb : b.AlignIs eb) :
    (reprC2 a b).2 + b.size ≤ (reprC2 a b).1.size :=
  le_roundUp _ (reprC2_align_pos ha hb)

/-- … and the struct is not larger than needed: less than one alignment unit of tail padding -/
theorem reprC2_tight (ha : a.AlignIs ea) (hb : b.AlignIs eb) :
    (reprC2 a b).1.size < (reprC2 a b).2 + b.size + (reprC2 a b).1.align :=
  roundUp_lt _ (reprC2_align_pos ha hb)

/-- a struct whose first field is `()` has the layout of its second field, at offset 0
(header erasure: `HeaderSlice<(), T>` vs `T`) -/
theorem reprC2_unit {p : Layout} {e : Nat} (hp : p.AlignIs e) (hwf : p.WF) :
    reprC2 unitLayout p = (p, 0) := by
  have hpos := hp.pos
  have hmax : max 1 p.align = p.align := Nat.max_eq_right hpos
  unfold reprC2 unitLayout
  simp only [roundUp_zero, Nat.zero_add, hmax, roundUp_of_dvd hpos hwf]

end reprC2

/-! ## `Layout::extend` + `pad_to_align` against `reprC2` -/

theorem extend_some {bits : Nat} {l next : Layout} {r : Layout × Nat}
    (h : Layout.extend bits l next = some r) :
    r = (⟨roundUp l.size next.align + next.size, max l.align next.align⟩, roundUp l.size next.align) ∧
    roundUp l.size next.align + next.size ≤ maxSize bits (max l.align next.align) := by
  unfold Layout.extend at h
  simp only at h
  split at h
  · cases h; exact ⟨rfl, by assumption⟩
  · cases h

theorem extend_pad_eq_reprC2 {bits : Nat} {l next : Layout} {r : Layout × Nat}
    (h : Layout.extend bits l next = some r) :
    r.1.padToAlign = (reprC2 l next).1 ∧ r.2 = (reprC2 l next).2 := by
  obtain ⟨rfl, _⟩ := extend_some h
  exact ⟨rfl, rfl⟩

theorem extend_none_iff {bits : Nat} {l next : Layout} :
    Layout.extend bits l next = none ↔
      maxSize bits (max l.align next.align) < roundUp l.size next.align + next.size := by
  unfold Layout.extend
  simp only
  split
  · constructor
    · intro h; cases h
    · intro h; omega
  · constructor
    · intro _; omega
    · intro _; rfl

theorem array_some {bits : Nat} {elem : Layout} {n : Nat} {arr : Layout}
    (h : Layout.array bits elem n = some arr) :
    arr = sliceLayout elem n ∧ elem.size * n ≤ maxSize bits elem.align := by
  unfold Layout.array at h
  split at h
  · cases h; exact ⟨rfl, by assumption⟩
  · cases h

theorem array_none_iff {bits : Nat} {elem : Layout} {n : Nat} :
    Layout.array bits elem n = none ↔ maxSize bits elem.align < elem.size * n := by
  unfold Layout.array
  split
  · constructor
    · intro h; cases h
    · intro h; omega
  · constructor
    · intro _; omega
    · intro _; rfl

/-- everything `allocLayoutFor` decides -/
theorem allocLayoutFor_some {bits : Nat} {v L : Layout} (h : allocLayoutFor bits v = some L) :
    L = (arcInnerLayout bits v).1 ∧
    offsetOfData bits v = some (arcInnerLayout bits v).2 ∧
    (arcInnerLayout bits v).2 + v.size ≤ maxSize bits (max (wordLayout bits).align v.align) := by
  unfold allocLayoutFor at h
  cases hx : Layout.extend bits (wordLayout bits) v with
  | none => rw [hx] at h; cases h
  | some r =>
    rw [hx] at h
    obtain ⟨rfl, hle⟩ := extend_some hx
    simp only [Option.map] at h
    cases h
    refine ⟨rfl, ?_, hle⟩
    unfold offsetOfData
    rw [hx]; rfl

/-- everything `headerSliceValueLayout` (the inner computation of
`allocate_for_header_and_slice`) decides -/
theorem headerSliceValueLayout_some {bits : Nat} {h t : Layout} {len : Nat} {v : Layout}
    (hv : headerSliceValueLayout bits h t len = some v) :
    v = (headerSliceLayout h t len).1 ∧
    t.size * len ≤ maxSize bits t.align ∧
    (headerSliceLayout h t len).2 + t.size * len ≤ maxSize bits (max h.align t.align) := by
  unfold headerSliceValueLayout at hv
  cases ha : Layout.array bits t len with
  | none => rw [ha] at hv; cases hv
  | some arr =>
    rw [ha] at hv
    obtain ⟨rfl, hle⟩ := array_some ha
    simp only at hv
    cases hx : Layout.extend bits h (sliceLayout t len) with
    | none => rw [hx] at hv; cases hv
    | some r =>
      rw [hx] at hv
      obtain ⟨rfl, hle2⟩ := extend_some hx
      simp only [Option.map] at hv
      cases hv
      exact ⟨rfl, hle, hle2⟩

theorem allocLayoutHeaderSlice_some {bits : Nat} {h t : Layout} {len : Nat} {L : Layout}
    (hL : allocLayoutHeaderSlice bits h t len = some L) :
    headerSliceValueLayout bits h t len = some (headerSliceLayout h t len).1 ∧
    allocLayoutFor bits (headerSliceLayout h t len).1 = some L := by
  unfold allocLayoutHeaderSlice at hL
  cases hv : headerSliceValueLayout bits h t len with
  | none => rw [hv] at hL; cases hL
  | some v =>
    rw [hv] at hL
    obtain ⟨rfl, _, _⟩ := headerSliceValueLayout_some hv
    exact ⟨rfl, hL⟩

/-! ## the `ArcInner` block -/

section arcInner
variable {bits k : Nat} {p : Layout} {e : Nat}

theorem word_alignIs (hb : WordBits bits k) : (wordLayout bits).AlignIs k := by
  unfold Layout.AlignIs; rw [wordLayout_eq hb]

theorem word_size (hb : WordBits bits k) : (wordLayout bits).size = 2 ^ k := by
  rw [wordLayout_eq hb]

theorem word_align (hb : WordBits bits k) : (wordLayout bits).align = 2 ^ k := by
  rw [wordLayout_eq hb]

/-- the data offset is at least one word (the count precedes the payload) … -/
theorem dataOff_ge_word (hp : p.AlignIs e) :
    (wordLayout bits).size ≤ (arcInnerLayout bits p).2 := reprC2_off_ge hp

/-- … and is a multiple of the payload alignment -/
theorem dataOff_dvd (bits : Nat) (p : Layout) : p.align ∣ (arcInnerLayout bits p).2 :=
  reprC2_off_dvd _ _

theorem arcInner_align_dvd_payload (hb : WordBits bits k) (hp : p.AlignIs e) :
    p.align ∣ (arcInnerLayout bits p).1.align := reprC2_align_dvd_right (word_alignIs hb) hp

theorem arcInner_align_dvd_word (hb : WordBits bits k) (hp : p.AlignIs e) :
    (wordLayout bits).align ∣ (arcInnerLayout bits p).1.align :=
  reprC2_align_dvd_left (word_alignIs hb) hp

theorem arcInner_fits (hb : WordBits bits k) (hp : p.AlignIs e) :
    (arcInnerLayout bits p).2 + p.size ≤ (arcInnerLayout bits p).1.size :=
  reprC2_fits (word_alignIs hb) hp

/-- the data address is aligned for the payload whenever the block is aligned as requested -/
theorem dataAddr_aligned (hb : WordBits bits k) (hp : p.AlignIs e) {base : Nat}
    (hbase : (arcInnerLayout bits p).1.align ∣ base) :
    p.align ∣ base + (arcInnerLayout bits p).2 :=
  (Nat.dvd_add_right (Nat.dvd_trans (arcInner_align_dvd_payload hb hp) hbase)).mpr (dataOff_dvd bits p)

/-- the data offset is even (the word size is even and divides it, or the payload alignment is a
larger power of two) -/
theorem dataOff_even (hb : WordBits bits k) (hp : p.AlignIs e) : 2 ∣ (arcInnerLayout bits p).2 := by
  have h2 : 2 ∣ 2 ^ k := two_dvd_pow2 hb.1
  show 2 ∣ roundUp (wordLayout bits).size p.align
  rw [word_size hb, hp]
  cases Nat.le_total e k with
  | inl h =>
    -- align ≤ word: the offset is the word size itself
    rw [roundUp_of_dvd (pow2_pos e) (pow2_dvd_of_le h)]; exact h2
  | inr h =>
    -- align ≥ word: the offset is a multiple of align, which is a multiple of the word size
    exact Nat.dvd_trans h2 (Nat.dvd_trans (pow2_dvd_of_le h) (dvd_roundUp _ _))

theorem block_align_even (hb : WordBits bits k) (hp : p.AlignIs e) :
    2 ∣ (arcInnerLayout bits p).1.align :=
  Nat.dvd_trans (by rw [word_align hb]; exact two_dvd_pow2 hb.1) (arcInner_align_dvd_word hb hp)

end arcInner

/-! ## the padded size of a valid request never exceeds `isize::MAX - (align - 1)` -/

theorem roundUp_le_maxSize {bits x m : Nat} (hm : ∃ e, m = 2 ^ e) (hx : x ≤ maxSize bits m) :
    roundUp x m ≤ maxSize bits m := by
  obtain ⟨e, rfl⟩ := hm
  unfold maxSize at *
  cases Nat.lt_or_ge (bits - 1) e with
  | inl hlt =>
    -- align > 2^(bits-1): maxSize is 0, so x = 0
    have : 2 ^ (bits - 1) ≤ 2 ^ e := Nat.pow_le_pow_right (by decide) (Nat.le_of_lt hlt)
    have hx0 : x = 0 := by omega
    subst hx0; rw [roundUp_zero]; exact Nat.zero_le _
  | inr hge =>
    exact roundUp_le_of_dvd (pow2_pos e) (pow2_dvd_sub hge) hx

end LY
