//! C15 / C03: the deprecated `Arc<[MaybeUninit<T>]>::as_mut_slice` and `Arc<MaybeUninit<T>>::write` mutate only for
//! a sole owner.  A reader thread reads the slots through its clone and drops it; main waits until it is the sole
//! owner by polling the WRITE ITSELF (it panics while shared) — never a count accessor, so the only synchronisation
//! between the reader's reads and main's write is the uniqueness check inside the deprecated call.
#![allow(deprecated)]
use litmus::*;
use std::mem::MaybeUninit;
use std::panic::{catch_unwind, AssertUnwindSafe};
use triomphe::Arc;

fn main() {
    let mut t = Tally::new();
    std::panic::set_hook(Box::new(|_| {}));
    for r in 0..rounds(3) as u64 {
        // slice form
        let mut a: Arc<[MaybeUninit<u64>]> = Arc::new_uninit_slice(3);
        for (i, s) in a.as_mut_slice().iter_mut().enumerate() { s.write(r + i as u64); }
        let b = a.clone();
        std::thread::scope(|sc| {
            sc.spawn(move || {
                let sum: u64 = b.iter().map(|x| unsafe { x.assume_init_read() }).sum();
                check(sum == 3 * r + 3, "reader saw a torn / overwritten slice");
                drop(b);
            });
            let mut polls = 0u32;
            loop {
                let ok = catch_unwind(AssertUnwindSafe(|| { a.as_mut_slice()[0].write(1000 + r); })).is_ok();
                if ok { break; }
                polls += 1;
                check(polls < 200_000, "as_mut_slice never granted although the other owner is gone (polls)");
                spin();
            }
        });
        check(unsafe { a[0].assume_init_read() } == 1000 + r, "the write through the sole owner is lost");
        drop(a);
        // single-value form
        let mut v: Arc<MaybeUninit<u64>> = Arc::new_uninit();
        v.write(r);
        let w = v.clone();
        std::thread::scope(|sc| {
            sc.spawn(move || {
                check(unsafe { w.assume_init_read() } == r, "reader saw an overwritten value");
                drop(w);
            });
            let mut polls = 0u32;
            loop {
                let ok = catch_unwind(AssertUnwindSafe(|| { v.write(2000 + r); })).is_ok();
                if ok { break; }
                polls += 1;
                check(polls < 200_000, "write never granted although the other owner is gone (polls)");
                spin();
            }
        });
        check(unsafe { v.assume_init_read() } == 2000 + r, "the write through the sole owner is lost");
    }
    t.shared(2);
    println!("LITMUS threads=2 destroyed=1");
    std::mem::forget(t);
}
