//! Normalisation of one-line comparison / formatting / serde method bodies to a delegation form.
//! Informational for C14 / C17; `other` whenever the body is not one of the known shapes.
use crate::conv::toks;

fn single_expr(b: &syn::Block) -> Option<&syn::Expr> {
    // leading `use` items do not change what the body computes
    let stmts: Vec<&syn::Stmt> = b.stmts.iter().filter(|s| !matches!(s, syn::Stmt::Item(syn::Item::Use(_)))).collect();
    if stmts.len() != 1 {
        return None;
    }
    match stmts[0] {
        syn::Stmt::Expr(e, None) => Some(peel(e)),
        _ => None,
    }
}

fn peel(e: &syn::Expr) -> &syn::Expr {
    match e {
        syn::Expr::Paren(p) => peel(&p.expr),
        syn::Expr::Group(g) => peel(&g.expr),
        syn::Expr::Unsafe(u) if u.block.stmts.len() == 1 => match &u.block.stmts[0] {
            syn::Stmt::Expr(e, None) => peel(e),
            _ => e,
        },
        _ => e,
    }
}

fn is_ident(s: &str) -> bool {
    !s.is_empty() && s.chars().all(|c| c.is_alphanumeric() || c == '_') && !s.chars().next().unwrap().is_numeric()
}

const SELF_DEREF: &[(&str, &str)] = &[
    ("*(*self)", "*(*other)"),
    ("**self", "**other"),
    ("*self.0.as_ptr()", "*other.0.as_ptr()"),
    ("(**self)", "(**other)"),
];

fn deref_binop(s: &str, op: &str) -> bool {
    SELF_DEREF.iter().any(|(l, r)| s == format!("{}{}{}", l, op, r))
}

fn strip_fmt_prefix<'a>(s: &'a str, tr: &str) -> Option<&'a str> {
    for pre in ["fmt::", "core::fmt::", "std::fmt::", ""] {
        let p = format!("{}{}::fmt(", pre, tr);
        if let Some(rest) = s.strip_prefix(p.as_str()) {
            return rest.strip_suffix(')');
        }
    }
    None
}

pub fn classify(tr: &str, head: &str, f: &syn::ImplItemFn) -> (&'static str, String) {
    let m = f.sig.ident.to_string();
    let body_str = {
        let mut t = toks(&f.block);
        if t.len() > 300 {
            t.truncate(300);
            t.push('…');
        }
        t
    };
    let e = match single_expr(&f.block) {
        Some(e) => e,
        None => return ("other", body_str),
    };
    let s = toks(e);
    // second parameter name (state / f / serializer / other)
    let arg2 = f.sig.inputs.iter().nth(1).and_then(|a| match a {
        syn::FnArg::Typed(pt) => Some(toks(&*pt.pat)),
        _ => None,
    });
    let arg1 = f.sig.inputs.iter().next().and_then(|a| match a {
        syn::FnArg::Typed(pt) => Some(toks(&*pt.pat)),
        _ => None,
    });
    let form: &'static str = (|| {
        match (tr, m.as_str()) {
            ("PartialEq", "eq") => {
                if deref_binop(&s, "==") {
                    return "derefEq";
                }
                for pe in ["Self::ptr_eq(self,other)||", &format!("{}::ptr_eq(self,other)||", head)] {
                    if let Some(r) = s.strip_prefix(pe) {
                        if deref_binop(r, "==") {
                            return "ptrEqOrDerefEq";
                        }
                    }
                }
                if s == "ThinArc::with_arc(self,|a|ThinArc::with_arc(other,|b|*a==*b))" {
                    return "viaWithArc";
                }
                if let syn::Expr::Match(mt) = e {
                    if toks(&*mt.expr) == "(self.borrow(),other.borrow())" && mt.arms.len() == 3 {
                        let ok = mt.arms.iter().all(|a| {
                            let p = toks(&a.pat);
                            let b = toks(&*a.body);
                            a.guard.is_none()
                                && ((p == "(First(x),First(y))" && b == "x==y")
                                    || (p == "(Second(x),Second(y))" && b == "x==y")
                                    || (p == "(_,_)" && b == "false"))
                        });
                        if ok {
                            return "viaBorrow";
                        }
                    }
                }
                "other"
            }
            ("PartialEq", "ne") => {
                if deref_binop(&s, "!=") {
                    return "derefNe";
                }
                for pe in ["!Self::ptr_eq(self,other)&&", &format!("!{}::ptr_eq(self,other)&&", head)] {
                    if let Some(r) = s.strip_prefix(pe) {
                        if deref_binop(r, "!=") {
                            return "ptrNeAndDerefNe";
                        }
                    }
                }
                "other"
            }
            ("PartialOrd", "lt") if deref_binop(&s, "<") => "derefCmp",
            ("PartialOrd", "le") if deref_binop(&s, "<=") => "derefCmp",
            ("PartialOrd", "gt") if deref_binop(&s, ">") => "derefCmp",
            ("PartialOrd", "ge") if deref_binop(&s, ">=") => "derefCmp",
            ("PartialOrd", "partial_cmp") | ("Ord", "cmp") => {
                if s == format!("(**self).{}(&**other)", m) {
                    return "derefCall";
                }
                if s == format!("ThinArc::with_arc(self,|a|ThinArc::with_arc(other,|b|a.{}(b)))", m) {
                    return "viaWithArc";
                }
                "other"
            }
            ("Hash", "hash") => {
                if let Some(a) = &arg2 {
                    if is_ident(a) && s == format!("(**self).hash({})", a) {
                        return "derefCall";
                    }
                    if is_ident(a) && s == format!("ThinArc::with_arc(self,|a|a.hash({}))", a) {
                        return "viaWithArc";
                    }
                }
                "other"
            }
            ("Debug", "fmt") | ("Display", "fmt") | ("Pointer", "fmt") => {
                if let (Some(args), Some(a)) = (strip_fmt_prefix(&s, tr), &arg2) {
                    if !is_ident(a) {
                        return "other";
                    }
                    if tr == "Pointer" {
                        if args == format!("&self.ptr(),{}", a) {
                            return "pointerOfPtr";
                        }
                        return "other";
                    }
                    if args == format!("&**self,{}", a) || args == format!("unsafe{{&*self.0.as_ptr()}},{}", a) {
                        return "derefFmt";
                    }
                    if args == format!("&self.borrow(),{}", a) {
                        return "viaBorrow";
                    }
                }
                "other"
            }
            ("Borrow", "borrow") | ("AsRef", "as_ref") => {
                if s == "self" || s == "&**self" || s == "&*self" {
                    "selfDeref"
                } else {
                    "other"
                }
            }
            ("Serialize", "serialize") => {
                if let Some(a) = &arg2 {
                    if is_ident(a) && s == format!("(**self).serialize({})", a) {
                        return "derefSerialize";
                    }
                }
                "other"
            }
            ("Deserialize", "deserialize") => {
                if let Some(a) = &arg1 {
                    if is_ident(a) && s == format!("T::deserialize({}).map({}::new)", a, head) {
                        return "mapNew";
                    }
                }
                "other"
            }
            _ => "other",
        }
    })();
    (form, body_str)
}
