import TriompheModel.FactsTraits
/-!
# M7 — auto traits and borrow signatures (property C13)

An executable model of two rustc rules, applied to the *extracted tables* (`FactsTraits`), never to
a hand-written description of the crate.  Core Lean only (it is linked into `drv_traits`).

(i)  **Auto-trait resolution.**  For a struct `K` and a class `(send?, sync?, sized?)` for each of
     its type arguments: `K<..>` is `Send` iff an explicit `impl Send for K<P..>` exists whose bounds
     hold under the assignment; if there is **no** explicit impl, structurally: every field is
     `Send`, where `NonNull<_>`, `*const _`, `*mut _` never are, `PhantomData<X>` iff `X`,
     `&X: Send` iff `X: Sync`, `&mut X: Send` iff `X: Send`, `AtomicUsize` always, a parameter per
     its class, a nested struct recursively.  Same for `Sync` (`&X: Sync` iff `X: Sync`).
     The recursion is on a fuel counter (total, kernel-reducible, so `decide` can run it).

(ii) **Borrow signatures.**  Lifetime elision (rules 2 and 3 of the reference) and the
     signature-level outlives relation: `regionBounded sig` says every region position of the return
     type is the receiver's region, a lifetime parameter of the `Self` type (with a `Self`-typed
     receiver), or declared to be outlived by one of those — and is not `'static` over the payload
     nor a fresh method-level lifetime.  `higherRanked cb` says a callback bound quantifies over the
     region of the reference it is handed.

What is *modelled, not verified*: that rustc implements exactly these two rules; the borrow checker
itself (the model stops at the signature).
-/
namespace AutoTraits
open FactsTraits

/-- The auto-trait class of a type: everything a `Send`/`Sync`/`?Sized` bound can observe. -/
structure Class where
  send : Bool
  sync : Bool
  sized : Bool
deriving DecidableEq, Repr, Inhabited

/-- fail-closed class -/
def Class.bot : Class := ⟨false, false, false⟩
/-- `usize`, `AtomicUsize`, … -/
def Class.top : Class := ⟨true, true, true⟩

/-- the 8 classes (4 auto-trait classes × sized/unsized) -/
def allClasses : List Class :=
  [⟨true, true, true⟩, ⟨true, false, true⟩, ⟨false, true, true⟩, ⟨false, false, true⟩,
   ⟨true, true, false⟩, ⟨true, false, false⟩, ⟨false, true, false⟩, ⟨false, false, false⟩]

theorem mem_allClasses (c : Class) : c ∈ allClasses := by
  cases c with
  | mk a b s => cases a <;> cases b <;> cases s <;> simp [allClasses]

/-- all assignments for `n` type parameters -/
def classLists : Nat → List (List Class)
  | 0 => [[]]
  | n + 1 => allClasses.flatMap (fun c => (classLists n).map (fun cs => c :: cs))

theorem mem_classLists : ∀ (cs : List Class), cs ∈ classLists cs.length
  | [] => by simp [classLists]
  | c :: cs => by
    simp only [classLists, List.length_cons, List.mem_flatMap, List.mem_map]
    exact ⟨c, mem_allClasses c, cs, mem_classLists cs, rfl⟩

structure Tables where
  structs : List StructDef
  impls : List ImplHdr

abbrev Env := List (String × Class)

def Env.get (env : Env) (p : String) : Class :=
  match env.find? (fun e => e.1 == p) with
  | some e => e.2
  | none => Class.bot

/-! ### (i) auto traits -/

/-- Does one bound hold for a type of class `c`?  `lts` = the lifetime arguments of the impl's self
type: `T: 'a` for such an `'a` is implied by well-formedness of `K<'a, T>` (see
`class_abstraction_complete`).  `'static` and foreign traits are not class-determined: fail closed. -/
def boundHolds (lts : List String) (c : Class) : Bound → Bool
  | .send => c.send
  | .sync => c.sync
  | .qsized => true
  | .sized => c.sized
  | .outlives l => lts.contains l
  | .static => false
  | .other _ => false

/-- a parameter's bound set: the implicit `Sized` unless `?Sized` is written, and every bound -/
def boundsHold (lts : List String) (bs : List Bound) (c : Class) : Bool :=
  (bs.contains .qsized || c.sized) && bs.all (boundHolds lts c)

def typeParams (ps : List Param) : List Param := ps.filter (fun p => p.kind == .type)

/-- an explicit impl applies to `K<cs..>` -/
def implApplies (i : ImplHdr) (cs : List Class) : Bool :=
  i.generic && !i.negative && i.whereOther.isEmpty && i.selfArgs.length == cs.length &&
  (typeParams i.params).all (fun p => i.selfArgs.contains p.name) &&
  (i.selfArgs.zip cs).all (fun pc =>
    match i.params.find? (fun p => p.name == pc.1 && p.kind == .type) with
    | some p => boundsHold i.selfLts p.bounds pc.2
    | none => false)

def implsFor (tb : Tables) (name : String) (t : TraitId) : List ImplHdr :=
  tb.impls.filter (fun i => i.selfTy == name && i.trait_ == t)

/-- class of the struct `name` applied to arguments of classes `cs`, given the class function `rec`
for field types (one level less fuel) -/
def namedClass (rec : Env → Ty → Class) (tb : Tables) (name : String) (cs : List Class) : Class :=
  match tb.structs.find? (fun s => s.name == name) with
  | none => Class.bot
  | some sd =>
    let tps := typeParams sd.params
    if tps.length != cs.length || sd.kind == .union then Class.bot else
    let env : Env := (tps.map (·.name)).zip cs
    let fcs := sd.fields.map (fun f => rec env f.ty)
    let sendI := implsFor tb name .send
    let syncI := implsFor tb name .sync
    { send := if sendI.isEmpty then fcs.all (·.send) else sendI.any (implApplies · cs)
      sync := if syncI.isEmpty then fcs.all (·.sync) else syncI.any (implApplies · cs)
      sized := match sd.kind, fcs.getLast? with
               | .struct, some c => c.sized
               | _, _ => true }

/-- class of a type under an assignment of classes to the parameters in scope -/
def tyClass (tb : Tables) : Nat → Env → Ty → Class
  | 0, _, _ => Class.bot
  | n + 1, env, ty =>
    match ty with
    | .param p => env.get p
    | .nonNull _ => ⟨false, false, true⟩
    | .rawPtr _ _ => ⟨false, false, true⟩
    | .phantom t => let c := tyClass tb n env t; ⟨c.send, c.sync, true⟩
    | .ref _ m t =>
      let c := tyClass tb n env t
      if m then ⟨c.send, c.sync, true⟩ else ⟨c.sync, c.sync, true⟩
    | .tuple ts =>
      let cs := ts.map (tyClass tb n env)
      ⟨cs.all (·.send), cs.all (·.sync), match cs.getLast? with | some c => c.sized | none => true⟩
    | .atomicUsize => Class.top
    | .prim name => ⟨true, true, name != "str"⟩
    | .named name _ args => namedClass (tyClass tb n) tb name (args.map (tyClass tb n env))
    | .array t => let c := tyClass tb n env t; ⟨c.send, c.sync, true⟩
    | .slice t => let c := tyClass tb n env t; ⟨c.send, c.sync, false⟩
    | .unknown _ => Class.bot

def fuel : Nat := 8

/-- class of the handle kind `K` at argument classes `cs` -/
def kindClass (tb : Tables) (K : String) (cs : List Class) : Class :=
  namedClass (tyClass tb fuel) tb K cs

def isSend (tb : Tables) (K : String) (cs : List Class) : Bool := (kindClass tb K cs).send
def isSync (tb : Tables) (K : String) (cs : List Class) : Bool := (kindClass tb K cs).sync

/-- the struct declaration admits these arguments: a parameter without `?Sized` needs a sized type -/
def wfArgs (tb : Tables) (K : String) (cs : List Class) : Bool :=
  match tb.structs.find? (fun s => s.name == K) with
  | none => false
  | some sd =>
    let tps := typeParams sd.params
    tps.length == cs.length &&
    (tps.zip cs).all (fun pc => pc.1.bounds.contains .qsized || pc.2.sized)

def arity (tb : Tables) (K : String) : Nat :=
  match tb.structs.find? (fun s => s.name == K) with
  | none => 0
  | some sd => (typeParams sd.params).length

def hasExplicit (tb : Tables) (K : String) : Bool :=
  !(implsFor tb K .send).isEmpty && !(implsFor tb K .sync).isEmpty

/-- the bound language of one impl header is the class-only fragment -/
def Bound.classOnly (lts : List String) : Bound → Bool
  | .send | .sync | .qsized | .sized => true
  | .outlives l => lts.contains l
  | .static | .other _ => false

def implWellFormed (i : ImplHdr) : Bool :=
  i.generic && i.isUnsafe && !i.negative && i.whereOther.isEmpty &&
  (typeParams i.params).all (fun p => p.bounds.all (Bound.classOnly i.selfLts))

/-- every `Send`/`Sync` impl of the crate is of the understood shape -/
def boundLanguageOk (tb : Tables) : Bool := tb.impls.all implWellFormed

/-- "shared" handle kinds: `Send` and `Sync` exactly when every payload type is both -/
def sharedKindOk (tb : Tables) (K : String) : Bool :=
  (classLists (arity tb K)).all (fun cs =>
    !wfArgs tb K cs ||
      (isSend tb K cs == cs.all (fun c => c.send && c.sync) &&
       isSync tb K cs == cs.all (fun c => c.send && c.sync)))

/-- "unique" handle kinds (Box-like): `Send` iff payload `Send`, `Sync` iff payload `Sync` -/
def uniqueKindOk (tb : Tables) (K : String) : Bool :=
  (classLists (arity tb K)).all (fun cs =>
    !wfArgs tb K cs ||
      (isSend tb K cs == cs.all (·.send) && isSync tb K cs == cs.all (·.sync)))

/-- plain data (`HeaderSlice`, …): structural, component-wise -/
def plainKindOk (tb : Tables) (K : String) : Bool :=
  (implsFor tb K .send).isEmpty && (implsFor tb K .sync).isEmpty && uniqueKindOk tb K

/-! ### ownership / lifetime markers -/

/-- `p` occurs in `ty` in an owning position (not behind a reference or raw pointer) -/
def ownsParam (p : String) : Nat → Ty → Bool
  | 0, _ => false
  | n + 1, ty =>
    match ty with
    | .param q => q == p
    | .phantom t => ownsParam p n t
    | .tuple ts => ts.any (ownsParam p n)
    | .named _ _ args => args.any (ownsParam p n)
    | .array t => ownsParam p n t
    | .slice t => ownsParam p n t
    | _ => false

/-- a field type that tells dropck/variance that the struct owns a `p`: `PhantomData<..p..>`, a field
of type `p`, or an owning struct applied to `p` (`UniqueArc(Arc<T>)`) — *not* `NonNull<..>` alone -/
def ownsMarker (sd : StructDef) (p : String) : Bool :=
  sd.fields.any (fun f => ownsParam p fuel f.ty)

/-- every type parameter of `K` has an ownership marker -/
def ownsAll (tb : Tables) (K : String) : Bool :=
  match tb.structs.find? (fun s => s.name == K) with
  | none => false
  | some sd => !(typeParams sd.params).isEmpty && (typeParams sd.params).all (fun p => ownsMarker sd p.name)

/-- `PhantomData<&'l P>` -/
def isPhantomRef (l p : String) : Ty → Bool
  | .phantom (.ref (.named l') false (.param q)) => l' == l && q == p
  | _ => false

/-- a borrowed view `K<'l, P>` carries `PhantomData<&'l P>` for its lifetime and each type parameter -/
def borrowMarker (tb : Tables) (K : String) : Bool :=
  match tb.structs.find? (fun s => s.name == K) with
  | none => false
  | some sd =>
    match (sd.params.filter (fun p => p.kind == .lifetime)).map (·.name) with
    | [l] => !(typeParams sd.params).isEmpty &&
        (typeParams sd.params).all (fun p => sd.fields.any (fun f => isPhantomRef l p.name f.ty))
    | _ => false

/-- an enum of borrowed views: every variant field is a `K'<'l, P>` with `K'` a marked borrowed view,
`'l` the enum's own lifetime, and every type parameter used -/
def borrowEnumMarker (tb : Tables) (K : String) : Bool :=
  match tb.structs.find? (fun s => s.name == K) with
  | none => false
  | some sd =>
    match (sd.params.filter (fun p => p.kind == .lifetime)).map (·.name) with
    | [l] =>
      !sd.fields.isEmpty &&
      sd.fields.all (fun f => match f.ty with
        | .named k [.named l'] [.param _] => l' == l && borrowMarker tb k
        | _ => false) &&
      (typeParams sd.params).all (fun p => sd.fields.any (fun f => match f.ty with
        | .named _ _ [.param q] => q == p.name
        | _ => false))
    | _ => false

/-! ### (ii) borrow signatures -/

def _root_.FactsTraits.Sig.recvIsRef (s : Sig) : Bool :=
  match s.recv with
  | .refSelf | .refMutSelf | .thisRef | .thisRefMut => true
  | _ => false

def _root_.FactsTraits.Sig.hasSelfRecv (s : Sig) : Bool :=
  match s.recv with
  | .none | .other => false
  | _ => true

/-- what an *elided* output region resolves to (lifetime elision): rule 3 — a `&self`/`&mut self`
receiver wins; rule 2 — otherwise there must be exactly one input region position.  `true` = it
resolves to the receiver's region. -/
def _root_.FactsTraits.Sig.elidedIsRecv (s : Sig) : Bool :=
  match s.recv with
  | .refSelf | .refMutSelf => true
  | .thisRef | .thisRefMut => s.otherInputs.isEmpty
  | .none => s.otherInputs.length == 1     -- no handle involved: the borrow is derived from the only input
  | _ => false

/-- a named region is bounded by the handle: it *is* the receiver's (named) region, or a lifetime of
the `Self` type while a `Self`-typed receiver is present, or some such region is declared to outlive
it (`'s: 'o`).  A method-level lifetime that no receiver constrains is not.  A function without any
handle-typed receiver (`fn first<'q>(xs: &'q [u8]) -> &'q u8`) lends nothing of a handle: its output
only has to be tied to one of its inputs. -/
def _root_.FactsTraits.Sig.namedOk (s : Sig) : Nat → String → Bool
  | 0, _ => false
  | k + 1, n =>
    (s.recvIsRef && s.recvRegion == .named n) ||
    (s.hasSelfRecv && s.selfLts.contains n) ||
    (s.recv == .none && s.otherInputs.any (fun o => o.region == .named n)) ||
    s.outlives.any (fun ab => ab.2 == n && ab.1 != n && s.namedOk k ab.1)

def _root_.FactsTraits.Sig.occOk (s : Sig) (o : RegionOcc) : Bool :=
  match o.region with
  | .elided => s.elidedIsRecv
  | .named n => s.namedOk 4 n
  | .static => !o.payload
  | .unknown => false

/-- every region position of the return type is bounded by the handle the borrow came from -/
def regionBounded (s : Sig) : Bool := s.outRegions.all s.occOk

/-- how the output is tied (for the driver / probes): all positions to the receiver borrow, all to a
`Self` lifetime, … -/
def _root_.FactsTraits.Sig.tie (s : Sig) : String :=
  if s.outRegions.isEmpty then "none"
  else if !regionBounded s then "unbounded"
  else if s.outRegions.all (fun o => match o.region with
      | .elided => true
      | .named n => s.recvRegion == .named n
      | _ => false) then "recv"
  else if s.outRegions.all (fun o => match o.region with
      | .named n => s.selfLts.contains n
      | _ => false) then "selflt"
  else "mixed"

/-- the bound `F: FnOnce(&X) -> U` quantifies over the region of every reference it is handed:
written without a name (elided ⇒ `for<'r>`), or bound by an explicit `for<'r>` -/
def higherRanked (cb : Callback) : Bool :=
  cb.argRegions.all (fun o => match o.region with
    | .elided => true
    | .named n => cb.forLts.contains n
    | _ => false)

/-- the obligations concern what safe client code can call -/
def _root_.FactsTraits.Sig.obligated (s : Sig) : Bool :=
  -- `unsafe fn CoerciblePtr::replace_ptr` is what the SAFE `unsize::CoerceUnsize::unsize` (feature `unsize`) returns
  -- through: its output type is what safe code gets, so its regions are obligated too
  s.isPub && (!s.isUnsafe || s.trait_ == "CoerciblePtr")

def sigsBounded (sigs : List Sig) : Bool := (sigs.filter Sig.obligated).all regionBounded
def callbacksHigherRanked (sigs : List Sig) : Bool :=
  (sigs.filter Sig.obligated).all (fun s => s.callbacks.all higherRanked)

end AutoTraits
