-- Root of the `TriompheModel` library: everything that `lake build` checks.
import TriompheModel.Facts
import TriompheModel.WM.Example
import TriompheModel.WM.Weak
import TriompheModel.Generated.Atomics
