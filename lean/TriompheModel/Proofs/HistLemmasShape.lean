import TriompheModel.Proofs.HistLemmas
/-!
# Helper lemmas, part 3: what each modelled Rust function does to the core view of memory and to
the block a handle refers to ("shape" lemmas)
-/
namespace M1

theorem setAt_setAt (c : Nat → Option Core) (b : Nat) (v w : Option Core) :
    setAt (setAt c b v) b w = setAt c b w := by
  funext j
  simp only [setAt]
  by_cases h : j = b <;> simp [h]

theorem loadCount_of_cv {m : Mem} {b n : Nat} {lv lk : Bool} (h : cv m b = some (n, lv, lk)) :
    loadCount m b = n := by
  obtain ⟨k, hk, hc⟩ := cv_eq_some h
  simp only [Block.core, Prod.mk.injEq] at hc
  simp [loadCount, hk, hc.1]

theorem is_unique_iff_loadCount (m : Mem) (a : HV) : Arc.is_unique m a = true ↔ loadCount m a.blk = 1 := by
  simp [Arc.is_unique, Arc.count]

/-! ### handle-only functions keep the block -/

@[simp] theorem asArc_blk (m : Mem) (h : HV) : (asArc m h).blk = h.blk := by
  unfold asArc; cases h.kind <;> rfl

theorem Arc.drop_eq (m : Mem) (a : HV) : Arc.drop m a = decr m a.blk a.ty (viewLen m a) := rfl

theorem cloneHandle_spec {m m' : Mem} {h c : HV} (hc : cloneHandle m h = some (m', c)) :
    m' = incr m h.blk ∧ c.blk = h.blk ∧ c.kind ≠ .uniq ∧ h.kind ≠ .uniq := by
  unfold cloneHandle at hc
  split at hc
  all_goals
    rename_i hk
    cases hc
  all_goals
    refine ⟨rfl, ?_, ?_, by rw [hk]; decide⟩
  · rfl
  · simp
  · rfl
  · simp [ThinArc.of_arc]
  · rfl
  · simp [Arc.into_raw_offset]
  · simp only [hk]; rfl
  · simp [hk, ArcUnion.from_first]
  · simp only [hk]; rfl
  · simp [hk, ArcUnion.from_second]

theorem dropHandle_spec {m m' : Mem} {h : HV} (hd : dropHandle m h = some m') :
    ∃ t l, m' = decr m h.blk t l := by
  unfold dropHandle at hd
  split at hd
  all_goals
    cases hd
  all_goals exact ⟨_, _, rfl⟩

theorem runConv_spec {m : Mem} {h h' : HV} {c : Conv} (hc : runConv m h c = some h') :
    h'.blk = h.blk ∧ (h'.kind = .uniq → h.kind = .uniq) := by
  cases c <;> simp only [runConv] at hc
  case assumeInit =>
    split at hc
    · rename_i hcond
      split at hc
      · simp only [Option.some.injEq] at hc; subst hc; exact ⟨rfl, fun h => h⟩
      · simp only [Option.some.injEq] at hc; subst hc; exact ⟨rfl, fun h => h⟩
      · split at hc
        · simp only [Option.some.injEq] at hc; subst hc; exact ⟨rfl, fun h => h⟩
        · cases hc
      · cases hc
    · cases hc
  case toDyn =>
    split at hc
    · simp only [Option.some.injEq] at hc; subst hc
      exact ⟨rfl, fun hk => by simp [Arc.from_raw] at hk⟩
    · split at hc
      · simp only [Option.some.injEq] at hc; subst hc; exact ⟨rfl, fun h => h⟩
      · cases hc
  all_goals
    split at hc
    · simp only [Option.some.injEq] at hc
      subst hc
      refine ⟨rfl, ?_⟩
      intro hk
      first
        | exact hk
        | (simp [Arc.into_raw, Arc.from_raw, Arc.into_raw_offset, Arc.from_raw_offset, ThinArc.thick,
            ThinArc.into_raw, ThinArc.from_raw, ArcUnion.from_first, ArcUnion.from_second,
            UniqueArc.shareable] at hk)
    · cases hc

/-! ### functions that change the count word -/

theorem into_thin_spec (m : Mem) (a : HV) :
    (∃ t, Arc.into_thin m a = (m, some t) ∧ t.blk = a.blk ∧ t.kind = .thin) ∨
    (Arc.into_thin m a = (decr m a.blk a.ty (viewLen m a), none)) := by
  unfold Arc.into_thin
  simp only
  split
  · left; exact ⟨_, rfl, rfl, rfl⟩
  · right; rfl

theorem try_unique_ok {m : Mem} {a u : HV} (h : Arc.try_unique m a = .ok u) :
    Arc.is_unique m a = true ∧ u.blk = a.blk := by
  unfold Arc.try_unique at h
  split at h
  · rename_i hu; cases h; exact ⟨hu, rfl⟩
  · cases h

theorem try_unique_error {m : Mem} {a u : HV} (h : Arc.try_unique m a = .error u) :
    Arc.is_unique m a = false ∧ u = a := by
  unfold Arc.try_unique at h
  split at h
  · cases h
  · rename_i hu; cases h; exact ⟨by simpa using hu, rfl⟩

theorem cv_into_inner (m : Mem) (u : HV) :
    cv (UniqueArc.into_inner m u).1 = setAt (cv m) u.blk ((cv m u.blk).map deadC) := by
  unfold UniqueArc.into_inner
  split
  · rename_i hn
    have : cv m u.blk = none := by simp [cv, hn]
    simp only [this, Option.map_none]
    rw [← this, setAt_self]
  · simp only [cv_emit]
    exact cv_upd m u.blk _ deadC (fun _ => rfl)

theorem try_unwrap_spec (m : Mem) (a : HV) :
    (∃ m' v, Arc.try_unwrap m a = (m', .ok v) ∧ Arc.is_unique m a = true ∧
        cv m' = setAt (cv m) a.blk ((cv m a.blk).map deadC)) ∨
    (Arc.try_unwrap m a = (m, .error a) ∧ Arc.is_unique m a = false) := by
  unfold Arc.try_unwrap
  split
  · rename_i u hu
    obtain ⟨h1, h2⟩ := try_unique_ok hu
    left
    refine ⟨(UniqueArc.into_inner m u).1, (UniqueArc.into_inner m u).2, rfl, h1, ?_⟩
    rw [cv_into_inner, h2]
  · rename_i a' hu
    obtain ⟨h1, h2⟩ := try_unique_error hu
    right; subst h2; exact ⟨rfl, h1⟩

theorem cv_arc_new (m : Mem) (t : Ty) (v : Option Item) :
    cv (Arc.new m t v).1 = setAt (cv m) m.blocks.length (some (1, true, false)) := by
  unfold Arc.new
  exact cv_allocBlock ..

@[simp] theorem arc_new_blk (m : Mem) (t : Ty) (v : Option Item) : (Arc.new m t v).2.blk = m.blocks.length := rfl
@[simp] theorem arc_new_kind (m : Mem) (t : Ty) (v : Option Item) : (Arc.new m t v).2.kind = .arc := rfl

theorem make_mut_eq (m : Mem) (a : HV) (cp : Bool) :
    Arc.make_mut m a cp =
      if Arc.is_unique m a then (m, some a) else if cp then (m, none) else
        (Arc.drop (Arc.new (cloneValue m a.blk).1 a.ty (cloneValue m a.blk).2).1 a,
         some (Arc.new (cloneValue m a.blk).1 a.ty (cloneValue m a.blk).2).2) := rfl

/-- `Arc::make_mut`: unchanged, or panicked (unchanged), or redirected to a fresh block -/
theorem make_mut_spec (m : Mem) (a : HV) (cp : Bool) (hb : a.blk ≠ m.blocks.length) :
    (Arc.make_mut m a cp = (m, some a)) ∨ (Arc.make_mut m a cp = (m, none)) ∨
    (∃ m' f, Arc.make_mut m a cp = (m', some f) ∧ f.blk = m.blocks.length ∧ f.kind = .arc ∧
      cv m' = setAt (setAt (cv m) m.blocks.length (some (1, true, false))) a.blk ((cv m a.blk).map decC)) := by
  rw [make_mut_eq]
  split
  · left; rfl
  · split
    · right; left; rfl
    · right; right
      refine ⟨Arc.drop (Arc.new (cloneValue m a.blk).1 a.ty (cloneValue m a.blk).2).1 a,
        (Arc.new (cloneValue m a.blk).1 a.ty (cloneValue m a.blk).2).2, rfl, ?_, ?_, ?_⟩
      · simp
      · simp
      · simp only [Arc.drop_eq, cv_decr, cv_arc_new, cv_cloneValue, length_cloneValue]
        rw [setAt_ne _ _ hb]

/-! ### constructors -/

/-- `m'` is `m` plus one fresh block with count 1 -/
def AllocOut (m m' : Mem) : Prop := cv m' = setAt (cv m) m.blocks.length (some (1, true, false))

/-- `m'` is `m` (up to contents/log), possibly plus one fresh block that is dead or abandoned -/
def JunkOut (m m' : Mem) : Prop :=
  cv m' = cv m ∨ ∃ x lv lk, (lv = false ∨ lk = true) ∧ cv m' = setAt (cv m) m.blocks.length (some (x, lv, lk))

theorem allocHeaderSlice_spec {m m' : Mem} {hl el : LY.Layout} {hdr : Option Item} {rl : Option Nat}
    {elems : List (Option Item)} {b : Nat} (h : allocHeaderSlice m hl el hdr rl elems = some (m', b)) :
    AllocOut m m' ∧ b = m.blocks.length := by
  unfold allocHeaderSlice at h
  split at h
  · cases h
  · simp only [Option.some.injEq] at h
    have h1 : (allocBlock _ _ _ _ _).1 = m' := congrArg Prod.fst h
    have h2 : (allocBlock _ _ _ _ _).2 = b := congrArg Prod.snd h
    simp only [allocBlock_snd] at h2
    exact ⟨by rw [← h1]; exact cv_allocBlock .., h2.symm⟩

theorem runCtor_spec {m m' : Mem} {c : Ctor} {h : HV} (hc : runCtor m c = some (m', h)) :
    AllocOut m m' ∧ h.blk = m.blocks.length := by
  cases c <;> simp only [runCtor] at hc
  case new v => cases hc; exact ⟨cv_arc_new .., rfl⟩
  case newB v => cases hc; exact ⟨cv_arc_new .., rfl⟩
  case uniqueNew v => cases hc; exact ⟨cv_arc_new .., rfl⟩
  case newUninit => cases hc; exact ⟨cv_arc_new .., rfl⟩
  case uniqueNewUninit => cases hc; exact ⟨cv_allocBlock .., rfl⟩
  case fromBox v =>
    split at hc
    · cases hc
    · cases hc; exact ⟨cv_allocBlock .., rfl⟩
  all_goals
    simp only [Option.map_eq_some_iff] at hc
    obtain ⟨⟨m1, b⟩, h1, h2⟩ := hc
    obtain ⟨h3, h4⟩ := allocHeaderSlice_spec h1
    cases h2
    exact ⟨h3, h4⟩

/-! ### constructors driven by a scripted iterator -/

def CtorRes.Spec (m : Mem) : CtorRes → Prop
  | .built m' h => AllocOut m m' ∧ h.blk = m.blocks.length
  | .panicked m' _ => JunkOut m m'

theorem junk_leak {m m1 : Mem} (h : AllocOut m m1) (es : List Event) :
    JunkOut m ((m1.leak m.blocks.length).emit es) := by
  right
  refine ⟨1, true, true, Or.inr rfl, ?_⟩
  rw [cv_emit, cv_leak, h]
  simp [setAt_setAt, leakC]

theorem fromHeaderAndIterCore_spec (m : Mem) (hdrLay : LY.Layout) (hdr : Option Item)
    (recLen : Option Nat) (ty : Ty) (n : Nat) (it : IterSt) :
    (fromHeaderAndIterCore m hdrLay hdr recLen ty n it).Spec m := by
  unfold fromHeaderAndIterCore
  split
  · exact Or.inl rfl
  · split
    rename_i m1 b hab
    have h1 : AllocOut m m1 := by
      have : (allocBlock _ _ _ _ _).1 = m1 := congrArg Prod.fst hab
      rw [← this]; exact cv_allocBlock ..
    have h2 : b = m.blocks.length := by
      have : (allocBlock _ _ _ _ _).2 = b := congrArg Prod.snd hab
      rw [← this]; rfl
    subst h2
    split
    · exact junk_leak h1 _
    · rename_i elems it' hfill
      have h3 : AllocOut m (m1.upd m.blocks.length fun k => { k with elems := elems }) := by
        unfold AllocOut
        rw [cv_upd_content m1 m.blocks.length (fun k => { k with elems := elems }) (fun _ => rfl)]; exact h1
      simp only
      split
      · exact ⟨h3, rfl⟩
      · exact junk_leak h3 _
      · exact junk_leak h3 _

theorem junk_dead {m m1 : Mem} {a : HV} (h : AllocOut m m1) (hb : a.blk = m.blocks.length) (t : Ty) (l : Nat) :
    JunkOut m (decr m1 a.blk t l) := by
  right
  refine ⟨0, false, false, Or.inl rfl, ?_⟩
  rw [cv_decr, h, hb]
  simp [setAt_setAt, decC]

theorem core_built {m : Mem} {hl : LY.Layout} {hdr : Option Item} {rl : Option Nat} {ty : Ty} {n : Nat}
    {it : IterSt} {m1 : Mem} {a : HV} (h : fromHeaderAndIterCore m hl hdr rl ty n it = .built m1 a) :
    AllocOut m m1 ∧ a.blk = m.blocks.length := by
  have := fromHeaderAndIterCore_spec m hl hdr rl ty n it
  rw [h] at this; exact this

theorem core_panicked {m : Mem} {hl : LY.Layout} {hdr : Option Item} {rl : Option Nat} {ty : Ty} {n : Nat}
    {it : IterSt} {m1 : Mem} {cls : String} (h : fromHeaderAndIterCore m hl hdr rl ty n it = .panicked m1 cls) :
    JunkOut m m1 := by
  have := fromHeaderAndIterCore_spec m hl hdr rl ty n it
  rw [h] at this; exact this

theorem runIterCtor_shape (m : Mem) (dbg : Bool) (which : IterCtor) (h : Option Item) (sc : IterScript) :
    (runIterCtor m dbg which h sc).Spec m := by
  cases which
  case hsFromIter => exact fromHeaderAndIterCore_spec ..
  case thinFromIter =>
    simp only [runIterCtor]
    split
    · rename_i hc; exact core_panicked hc
    · rename_i m1 a hc
      obtain ⟨h1, h2⟩ := core_built hc
      rcases into_thin_spec m1 a with ⟨t, ht, hb, _⟩ | hn
      · rw [ht]; exact ⟨h1, hb.trans h2⟩
      · rw [hn]; exact junk_dead h1 h2 _ _
  all_goals
    simp only [runIterCtor]
    split
    · split
      · exact Or.inl rfl
      · split
        · exact Or.inl rfl
        · split
          · rename_i hc; exact core_panicked hc
          · rename_i hc; exact ⟨(core_built hc).1, (core_built hc).2⟩
    · split
      · exact Or.inl rfl
      · split
        · exact Or.inl rfl
        · rename_i m1 a hc
          obtain ⟨h1, h2⟩ := runCtor_spec hc
          exact ⟨h1, h2⟩

end M1
