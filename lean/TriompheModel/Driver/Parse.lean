import TriompheModel.Model.Ops
/-!
Parsers and printers of the line protocol of the history correspondence, shared by the model driver
(`Driver/Hist.lean`, lean_exe `drv_hist`) and the monitor driver (`Driver/Mon.lean`, lean_exe `drv_mon`).
-/
open M1

def parseItem (s : String) : Option Item :=
  match s.splitOn ":" with
  | [a, b] => do some ⟨← a.toNat?, ← b.toNat?⟩
  | _ => none

def parseItems (s : String) : Option (List Item) :=
  if s == "-" then some [] else (s.splitOn ",").mapM parseItem

def parseNats (s : String) : Option (List Nat) :=
  if s == "-" then some [] else (s.splitOn ",").mapM (·.toNat?)

def parseHints (s : String) : Option (List (Nat × Option Nat)) :=
  if s == "-" then some [] else
  (s.splitOn ",").mapM fun p =>
    match p.splitOn ":" with
    | [lo, hi] => do
        let l ← lo.toNat?
        if hi == "*" then some (l, none) else some (l, some (← hi.toNat?))
    | _ => none

def stripPrefix (p s : String) : Option String :=
  if s.startsWith p then some (s.drop p.length).toString else none

def parseConv : String → Option Conv
  | "intoRaw" => some .intoRaw | "fromRaw" => some .fromRaw
  | "intoRawOffset" => some .intoRawOffset | "fromRawOffset" => some .fromRawOffset
  | "fromThin" => some .fromThin | "thinIntoRaw" => some .thinIntoRaw | "thinFromRaw" => some .thinFromRaw
  | "unionFirst" => some .unionFirst | "unionSecond" => some .unionSecond
  | "eraseHeader" => some .eraseHeader | "addHeader" => some .addHeader
  | "shareable" => some .shareable | "assumeInit" => some .assumeInit | "toDyn" => some .toDyn
  | _ => none

def parseApi : String → Option CbApi
  | "rawOffset" => some .rawOffset | "offsetWithArc" => some .offsetWithArc
  | "borrowWithArc" => some .borrowWithArc | "thinWithArc" => some .thinWithArc
  | "thinWithArcMut" => some .thinWithArcMut
  | _ => none

def parseAct (s : String) : Option CbAct :=
  match s.splitOn ":" with
  | ["cnt"] => some .cnt
  | ["read"] => some .read
  | ["panic"] => some .panic
  | ["clone", k] => do some (.cloneTo (← k.toNat?))
  | ["cloneArc", k] => do some (.cloneArcTo (← k.toNat?))
  | ["getMut", v] => do some (.getMutWrite (← v.toNat?))
  | ["replace", k] => do some (.replaceWith (← k.toNat?))
  | ["swap", k] => do some (.swapWith (← k.toNat?))
  | _ => none

def parseBool (s : String) : Option Bool :=
  if s == "1" then some true else if s == "0" then some false else none

def parseIterCtor : String → Option IterCtor
  | "hsFromIter" => some .hsFromIter | "thinFromIter" => some .thinFromIter
  | "fromIter" => some .fromIter | "uniqueFromIter" => some .uniqueFromIter
  | _ => none

def parseOp (line : String) : Option Op :=
  match line.trimAscii.toString.splitOn " " with
  | ["create", d, "new", it] => do some (.create (← d.toNat?) (.new (← parseItem it)))
  | ["create", d, "newB", it] => do some (.create (← d.toNat?) (.newB (← parseItem it)))
  | ["create", d, "fromBox", it] => do some (.create (← d.toNat?) (.fromBox (← parseItem it)))
  | ["create", d, "uniqueNew", it] => do some (.create (← d.toNat?) (.uniqueNew (← parseItem it)))
  | ["create", d, "fromVec", _cap, its] => do some (.create (← d.toNat?) (.fromVec (← parseItems its)))
  | ["create", d, "hsFromVec", h, _cap, its] => do some (.create (← d.toNat?) (.hsFromVec (← parseItem h) (← parseItems its)))
  | ["create", d, "hwlFromVec", h, r, _cap, its] => do
      some (.create (← d.toNat?) (.hwlFromVec (← parseItem h) (← r.toNat?) (← parseItems its)))
  -- `impl<T: Default> Default for Arc<T>` is `Arc::new(Default::default())`; the harness's `Tracked::default()` is (4000000, 0)
  | ["create", d, "default"] => do some (.create (← d.toNat?) (.new ⟨4000000, 0⟩))
  | ["create", d, "newUninit"] => do some (.create (← d.toNat?) .newUninit)
  | ["create", d, "uniqueNewUninit"] => do some (.create (← d.toNat?) .uniqueNewUninit)
  | ["create", d, "newUninitSlice", n] => do some (.create (← d.toNat?) (.newUninitSlice (← n.toNat?)))
  | ["create", d, "uniqueNewUninitSlice", n] => do some (.create (← d.toNat?) (.uniqueNewUninitSlice (← n.toNat?)))
  | ["create", d, "hsUninit", h, n] => do some (.create (← d.toNat?) (.hsUninit (← parseItem h) (← n.toNat?)))
  | ["iter", d, which, h, lens, hints, items, pan] => do
      let w ← parseIterCtor which
      let hd ← if h == "-" then some none else (parseItem h).map some
      let ls ← parseNats (← stripPrefix "lens=" lens)
      let hs ← parseHints (← stripPrefix "hints=" hints)
      let its ← parseItems (← stripPrefix "items=" items)
      let p ← stripPrefix "panic=" pan
      let pa ← if p == "-" then some none else (p.toNat?).map some
      some (.iterCtor (← d.toNat?) w hd ⟨ls, hs, its, pa⟩)
  -- a non-fused source: `late=` is what it would yield if polled again after its first `None`; that is not part of the
  -- input sequence, so the model's iterator is the one without it
  | ["iter", d, which, h, lens, hints, items, pan, late] => do
      let w ← parseIterCtor which
      let hd ← if h == "-" then some none else (parseItem h).map some
      let ls ← parseNats (← stripPrefix "lens=" lens)
      let hs ← parseHints (← stripPrefix "hints=" hints)
      let its ← parseItems (← stripPrefix "items=" items)
      let p ← stripPrefix "panic=" pan
      let pa ← if p == "-" then some none else (p.toNat?).map some
      let _ ← parseItems (← stripPrefix "late=" late)
      some (.iterCtor (← d.toNat?) w hd ⟨ls, hs, its, pa⟩)
  | ["clone", d, s] => do some (.clone (← d.toNat?) (← s.toNat?))
  | ["drop", s] => do some (.drop (← s.toNat?))
  | ["conv", s, c] => do some (.conv (← s.toNat?) (← parseConv c))
  | ["intoThin", s] => do some (.intoThin (← s.toNat?))
  | ["cloneArc", d, s] => do some (.cloneArc (← d.toNat?) (← s.toNat?))
  | ["isUnique", s] => do some (.isUnique (← s.toNat?))
  | ["getMut", s, v] => do some (.getMut (← s.toNat?) (← v.toNat?))
  | ["getUnique", s, v] => do some (.getUnique (← s.toNat?) (← v.toNat?))
  | ["makeMut", s, v, p] => do some (.makeMut (← s.toNat?) (← v.toNat?) (← parseBool p))
  | ["makeUnique", s, v, p] => do some (.makeUnique (← s.toNat?) (← v.toNat?) (← parseBool p))
  | ["tryUnwrap", s] => do some (.tryUnwrap (← s.toNat?))
  | ["unwrapOrClone", s, p] => do some (.unwrapOrClone (← s.toNat?) (← parseBool p))
  | ["intoInner", s] => do some (.intoInner (← s.toNat?))
  | ["tryUnique", s] => do some (.tryUnique (← s.toNat?))
  | ["uniqWrite", s, v] => do some (.uniqWrite (← s.toNat?) (← v.toNat?))
  | ["writeSlot", s, i, it] => do some (.writeSlot (← s.toNat?) (← i.toNat?) (← parseItem it))
  | ["cb", s, api, acts] => do
      let as ← if acts == "-" then some [] else (acts.splitOn ",").mapM parseAct
      some (.withCb (← s.toNat?) (← parseApi api) as)
  | ["dropAll"] => some .dropAll
  | _ => none

def showEvent : Event → String
  | .alloc b sz al => s!"alloc:b{b}:{sz}:{al}"
  | .dealloc b sz al => s!"dealloc:b{b}:{sz}:{al}"
  | .drop id => s!"drop:{id}"
  | .clone a b => s!"clone:{a}>{b}"
  | .dropUninit b i => s!"dropuninit:b{b}:{i}"

def showKind : Kind → String
  | .arc => "arc" | .uniq => "uniq" | .thin => "thin" | .offset => "offset"
  | .unionA => "unionA" | .unionB => "unionB" | .raw => "raw" | .rawThin => "rawThin"

def showTy : Ty → String
  | .sized => "sized" | .sizedB => "sizedB" | .dyn => "dyn" | .slice => "slice" | .uslice => "uslice"
  | .hs => "hs" | .hwl => "hwl" | .mu => "mu" | .muSlice => "muSlice" | .hsMu => "hsMu"
