"""Regenerates MANIFEST.json from the table below (keeps it valid and the not_applicable list current)."""
import json
import os

VERIF = os.path.dirname(os.path.dirname(os.path.abspath(__file__)))

TB = ("Trusted base: Lean 4.33 kernel; axioms propext/Classical.choice/Quot.sound only (audited each run); "
      "the translator /verif/extract (Tie A) and the correspondence harness (Tie B) as stated in DESIGN.md §8; "
      "rustc codegen, core/alloc, allocator, OS and hardware are modelled, not verified.")

HIST_NOTE = TB + (" The sequential model M1/M3 (lean/TriompheModel/Model/{Heap,Handles,Ops}.lean) is hand-written, mirroring the Rust function by function, "
                  "and is tied to the code by the history correspondence (same op lines on the Lean driver and on the real crate; outputs compared; "
                  "property monitors evaluated on the implementation's own trace — among them the monitor written in Lean (Model/Monitor.lean, exe drv_mon) "
                  "for which `M1.monitor_accepts_model` is proved: it accepts every trace of the model, for every history —), in the dev and the release profile, with sized, over-aligned, dyn and zero-sized "
                  "payloads (a ZST build of the harness), comparison/hash/format ops with armed panics, scripted panics in every user callback. "
                  "Payload universe of the correspondence: the harness's identity-tracked types.")
SCHED_NOTE = (" Schedule half: assumed, not derived: Consistent (RC11/C++20 fragment for a location written only by RMWs) and CoRW. Protocol, ViaBorn and MutExcl "
              "are DERIVED (WM/Ownership.lean) for every run of an operational, ownership-guarded semantics of handle programs; that this semantics is what safe "
              "Rust lets a client do with handles is the residual assumption. Concrete executions are checked by the "
              "proved-sound Boolean checkers of WM/FinExec.lean; the model-side search (WM/Search.lean, exe drv_wm) over a template family is a search, not a theorem.")


def hist(technique, text, ref, extra=""):
    return dict(technique=technique, text=text, design_ref=ref, note=HIST_NOTE + extra)


CLAIMS = {
    "C01": hist("Lean 4 proof: ownership invariant of the handle machine preserved by every op (induction over histories) + differential correspondence with the real crate",
                "Theorems over the executable model M1 of all handle kinds and conversions: the invariant Inv (count word = number of owning handle values of all kinds; dead and abandoned blocks unowned; a live block has an owner) for every finite history, from which 'alive iff owned', 'destroyed at the last release' follow. The model is validated against the real library on ~55k operations per run (systematic tour of every op x handle type x co-owner kinds + seeded random histories) and the property itself is monitored on the implementation's traces (allocator and destructor events, poisoned quarantine).",
                "DESIGN.md §2 M1, §6 C01"),
    "C02": dict(
        technique="Lean 4 proof over an axiomatic RC11-fragment model of the count word, instantiated at atomic orderings re-extracted from source (translator); Miri litmus runs as failing-input search",
        text="For every consistent execution (any number of threads, any rf/mo choice coherence allows) following the ownership protocol, the theorems C02_destroy_after_all / C02_destroy_unique / C02_nothing_after_destroy hold at the decrement ordering, fence and drop_inner statement order that the translator reads from /repo/src on this run; each obligation on those generated facts is a `decide` that stops compiling when the source changes unsafely. Proof is the right level because the property quantifies over all schedules and all legal load outcomes, which no execution on this machine can enumerate.",
        design_ref="DESIGN.md §2 M4, §6 C02",
        note=TB + SCHED_NOTE),
    "C03": hist("Lean 4 proof: gate ops grant iff count word = 1 and leave the state unchanged on decline (M1) + weak-memory theorem unique_verdict_exclusive at gate facts re-extracted from source; correspondence + Miri search",
                "History half: per-gate theorems over M1 (get_mut, get_unique, is_unique, try_unique/TryFrom, try_unwrap, deprecated write/as_mut_slice, ThinArc::with_arc_mut∘get_mut) with count = owners from the invariant; tied by the history correspondence with co-owners of every kind. Schedule half: for every consistent execution, an Acquire gate load returning 1 is happens-after every access through every other handle that existed (former sharers), and every handle created later is born after the granted write (later sharers, WM/Later.lean: no access through another handle is concurrent with the write); the obligation that every load reachable from each gate is Acquire and compared with 1 is discharged on translator output of this run.",
                "DESIGN.md §2 M1/M4, §6 C03", SCHED_NOTE),
    "C04": hist("Lean 4 proof: count word = owners in every reachable state incl. inside callbacks (invariant), per-op owner deltas; differential correspondence reading the count through every accessor after every op",
                "Theorems over M1: each clone-style op adds exactly one owner of that block, each release removes one, conversions/borrows/gates are neutral, and the count word equals the number of owning handle values (Inv) after every op of every history. The correspondence prints the count through every accessor of every slot after every op (and inside callback scripts) for the real library and compares with the model; the monitor recomputes owners from the implementation's own slot table.",
                "DESIGN.md §2 M1, §6 C04"),
    "C05": dict(
        technique="Lean 4 proof over an exact transcription of core::alloc::Layout arithmetic (request side = release side for every size/align=2^e/length/word width; fits; aligned; overflow refused) + history invariants LenInv/LayInv/LogInv giving dealloc layout = alloc layout along every history; shape-matrix and history correspondences with a tracking allocator",
        text="Arithmetic theorems quantify over all header/element layouts, lengths and pointer widths; the history theorem C05_dealloc_layout_invariant quantifies over all finite op histories of the handle machine (every handle kind and conversion path): every dealloc event carries exactly the (size, align) of the block's alloc event, and each block is freed at most once. Tied to the code by ~11k shape x constructor x release-path cases per quick run (630k thorough, several build configurations, near-overflow lengths in child processes) and by the history correspondence comparing allocator events.",
        design_ref="DESIGN.md §2 M2, §6 C05",
        note=TB + " core::alloc::Layout is re-modelled (cross-checked numerically against core on every run), not verified; 16/32-bit widths are theorem-only."),
    "C06": hist("Lean 4 proof: every constructor and every honest iterator script yields a new block with exactly the given header/elements, count 1, no input value destroyed, and for EVERY script a built result has exactly the items (runIterCtor_spec); correspondence over lengths across internal boundaries, capacities, hint regimes and the size/alignment matrix",
                "Theorems over M3 for all memories, headers, item lists of any length and all scripts: contents, freshness, log = one alloc and no drop; dropping the fresh handle destroys each element exactly once. The correspondence runs every constructor on the real crate with identity-tracked elements (lengths 0..12, 31-33, 255, 256, 1000; capacities >= length; exact / inexact / lying hints) and, for the T: Copy constructors and every header/element size-alignment class incl. padding between header and slice, the shape-matrix harness reads the contents back.",
                "DESIGN.md §2 M3, §6 C06", " Zero-sized element types are handled by the layout slice (refusal with a panic or correct contents), not by M3."),
    "C11": dict(
        technique="Lean 4 proof over the layout model: as_ptr/into_raw/OffsetArc/ArcBorrow words = data address = Deref address, heap_ptr = base, from_raw∘into_raw = id for sized/slice/dyn, for every payload layout; shape-matrix correspondence of every accessor pairing; known finding for ThinArc raw accessors",
        text="Theorems for every payload size/align=2^e/length/word width; the ThinArc deviation (raw accessors return the block address) is proved as such with a concrete witness and claimed only as C11_thin_as_ptr_partial — it is recorded in known_findings.json and printed as KNOWN-FINDING when (and only when) the observation matches exactly. 200k accessor observations per quick run are compared with the model and with the property (address Deref yields, round trip recovers block/contents/count, handle widths and null niche).",
        design_ref="DESIGN.md §2 M2, §6 C11, §7 F3",
        note=TB + " Stability of addresses across clones/moves along histories is the history model's (M1) handle-value semantics (HV.off never changes for a block)."),
    "C07": hist("Lean 4 proof: every iterator script (any lie, panic at any call) ends built-initialised or panicked with at most one abandoned/freed block and no double drop; Clone/callback panics leave the state as modelled; invariant preserved; correspondence with panic injection at every call",
                "Theorems over M3/M1 quantify over all scripts (reported lengths and hints changing between calls, panic position) and all callback scripts; the correspondence injects a panic at every k-th call and every (reported, actual) pair with difference <= 2 on the real library, with identity-tracked payloads and a tracking allocator detecting double drops, uninitialised reads and leaks.",
                "DESIGN.md §2 M3, §6 C07"),
    "C08": hist("Lean 4 proof: make_mut on sole owner = identity, on shared = one Clone + fresh block + one decrement (M1); schedule half via the Acquire gate theorem; correspondence + Miri search",
                "Per-op theorems for Arc::make_mut / make_unique / OffsetArc::make_mut in any memory; with the invariant, sole owner = owners 1. The correspondence checks allocation identity, clone events and that other handles keep observing the old value, for co-owners of every kind, and the same verdict over payload classes (no drop glue with an observable Clone, drop glue, zero-sized, over-aligned, large) in both profiles. Schedule half: the in-place write is concurrent with no access through another handle (C08_in_place_write_races_with_nothing).",
                "DESIGN.md §6 C08", SCHED_NOTE),
    "C09": hist("Lean 4 proof: try_unique/try_unwrap/into_inner move out iff count word = 1 without destructor and with one dealloc, else same handle (M1); weak-memory theorems consume_unique / consume_excludes_destroy; correspondence + Miri search",
                "History half: per-op theorems in any memory. Schedule half: for every consistent execution at most one thread's unwrapping gate succeeds, and then no destruction exists (WM/Consume.lean), at the gate facts of this run.",
                "DESIGN.md §6 C09", SCHED_NOTE),
    "C10": hist("Lean 4 proof: thin<->fat round trips are identities on the word, same view, mismatch refused and released (M1); differential correspondence over every (recorded, true) length pair and with_arc_mut scripts",
                "Theorems over M1 for every memory and handle: thin->fat->thin and fat->thin->fat are identities (the latter iff the recorded length is right, which into_thin asserts), same header/elements/addresses, a mismatch panics and releases exactly the argument; with_arc_mut replace/panic scripts are covered by the invariant and the correspondence.",
                "DESIGN.md §6 C10"),
    "C12": hist("Lean 4 proof: union constructors/borrow/clone/drop keep variant and block and act as the variant's Arc (M1) + bit-0 arithmetic over the layout model; correspondence over histories and shape pairs",
                "History-level theorems for every memory and handle; arithmetic half in Props/C12Arith.lean (layout slice).",
                "DESIGN.md §6 C12"),
    "C13": dict(
        technique="Lean 4 decision procedure (model of rustc auto-trait resolution and signature-level outlives) over impl/signature tables re-extracted from source by a translator; rustc probe programs as the implementation-side correspondence",
        text="For every handle kind and every class assignment of its type parameters the model's Send/Sync verdict equals 'all payloads Send+Sync' (UniqueArc: Send iff Send, Sync iff Sync), proved by decide over the tables regenerated from /repo/src on this run, with a general lemma that the class abstraction is complete for the extracted bound language; every borrow-returning signature is region-bounded and every callback bound higher-ranked. ~600 probe programs (incl. the safe `unsize` front end of CoerciblePtr) compiled against the current crate must be accepted/rejected as the property demands and as the model predicts. The lifetime half is PARTIAL: signature-level rule + probes, not a model of the borrow checker.",
        design_ref="DESIGN.md §2 M7, §6 C13",
        note=TB + " rustc is the oracle for probes; two rustc rules are modelled, not verified."),
    "C14": dict(
        technique="Lean 4 proof over a delegation model of every comparison/hash/format impl, for every payload operator table; differential correspondence on an exhaustive small domain + scripted payloads",
        text="For EVERY PayloadOps (independent eq/ne/lt/le/gt/ge/partial_cmp/cmp/hash/debug/display functions) each handle kind's observers equal the payload's on the held values (same-allocation licence for Arc/ThinArc eq/ne only), header-slice values order as header then slice, and with lawful payloads the ten operators are mutually consistent and equal handles hash equally. 130k queries per quick run compare the real impls with the model and with the observers applied to the values directly.",
        design_ref="DESIGN.md §2 M5, §6 C14, §7",
        note=TB + " Two genuine defects were repaired by fix: commits (see known_findings.json)."),
    "C15": hist("Lean 4 proof: dropping through a MaybeUninit view emits no element destructor, assume_init is a cast, afterwards one drop per element, deprecated writes on shared handles panic without mutating (M1); correspondence over every written subset",
                "Theorems over M1 for every block, view and length; the correspondence enumerates every subset of written slots for lengths <= 3 and random ones beyond, with identity-tracked elements.",
                "DESIGN.md §6 C15"),
    "C16": dict(
        technique="Lean 4 proof over BitVec 64 (and parametric width) of the clone guard built from constants/operator/abort implementation re-extracted from source; child-process correspondence presetting the count",
        text="For every count word w: the clone terminates the process iff w > isize::MAX, else returns w+1 without wrap; for every sequence of clone/drop/forget the word never wraps while a handle exists; with n clones in flight it stays below 2^bits. Obligations on the generated guard facts (operator, constant, abort in std and no_std not catchable, every clone path funnels into Arc::clone) are decide on translator output of this run. ~450 child processes (20 clone entry points incl. over-aligned payloads and handles produced by arc-swap x start counts x std/no_std x dev/release) are compared with the model.",
        design_ref="DESIGN.md §2 M6, §6 C16",
        note=TB),
    "C17": dict(
        technique="Lean 4 proof that the Arc/UniqueArc serde impls are the payload's (delegation model, any payload, any serializer state, any heap) + impl-form facts from the translator; recording serializer/deserializer correspondence with failure injection",
        text="For every payload, serializer state and heap: serialising drives exactly the payload's calls (errors included); deserialising yields a new block with count 1 or passes the error through with the heap unchanged. The correspondence compares call logs, results, allocations and counts for a payload family with failure injected at each k-th callback.",
        design_ref="DESIGN.md §2 M8, §6 C17",
        note=TB),
}

NOT_YET = "not yet claimed in this commit: machinery for this property is under construction (DESIGN.md §10 order of work); it will be claimed, not abandoned"


def main():
    props = [json.loads(l)["id"] for l in open(os.path.join(VERIF, "properties.jsonl"))]
    checks = []
    for p in props:
        if p not in CLAIMS:
            continue
        c = CLAIMS[p]
        checks.append({
            "property_id": p,
            "quick_cmd": "bin/check %s --tier quick" % p,
            "thorough_cmd": "bin/check %s --tier thorough" % p,
            "evidence_file": "/verif/evidence/%s.json" % p,
            "replay_cmd_template": "bin/check %s --replay {path}" % p,
            "engine": "lean4-proof+tie",
            "level_claimed": {"category": "proof", "text": c["text"], "design_ref": c["design_ref"]},
            "level_note": c["note"],
            "technique": c["technique"],
        })
    m = {
        "version": 1,
        "setup_cmd": "cd /verif && bin/setup",
        "hooks": {"guard": "triomphe_verif",
                  "enable": "no hooks: every check builds the unmodified crate from /repo's working tree (cargo path dependency); nothing in /repo is guarded",
                  "baseline_off_cmd": "cd /repo && cargo test --workspace --no-fail-fast --offline",
                  "source_commits": [], "add_only": True},
        "engines": [{"name": "lean4-proof+tie", "path": "/verif/lean, /verif/extract, /verif/extract_traits, /verif/harness, /verif/litmus, /verif/vlib",
                     "serves_properties": sorted(CLAIMS),
                     "kind_free_text": "Lean 4 theorems over executable models; model tied to /repo on every run by a syn-based translator (regenerated facts) and by differential correspondence runs (Lean drivers vs the real crate)"}],
        "checks": checks,
        "notes": "fix: commits in /repo: 80d4dbc (ArcBorrow by-value eq/Debug), 3524b4e (HeaderWithLength ordering consistent with equality); see known_findings.json and DESIGN.md §7.",
        "not_applicable": [{"property_id": p, "reason": NOT_YET} for p in props if p not in CLAIMS],
    }
    json.dump(m, open(os.path.join(VERIF, "MANIFEST.json"), "w"), indent=1)


if __name__ == "__main__":
    main()
