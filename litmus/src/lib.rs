//! Shared pieces of the Miri litmus programs (see ../README.md).
//!
//! Rules every program follows, because Miri's race detector works on happens-before:
//!  * worker threads never print, lock, or touch any synchronising object other than the reference
//!    count under test (and, where the scenario *is* a hand-over, the channel that carries the
//!    handle) -- an accidental mutex/SeqCst edge would hide exactly the races we look for;
//!  * the bookkeeping counters below are `Relaxed` and are only read by `main` after every thread
//!    was joined;
//!  * payloads own heap memory (String, Vec, Box), so a use-after-free is a real heap access and
//!    the destructor is a real write/deallocation;
//!  * spin loops call `std::hint::spin_loop()` / `yield_now()` so Miri's scheduler makes progress;
//!  * `main` ends with `Tally::finish`, which checks the destructor/clone counts (a logic failure
//!    is reported as `LITMUS-ASSERT-FAILED`, distinct from a Miri diagnosis) and prints the line
//!    `LITMUS threads=<n> destroyed=<0|1>` that vlib/miri.py parses for its coverage figure.
#![allow(clippy::new_without_default)]

use std::sync::atomic::{AtomicUsize, Ordering::Relaxed};

use triomphe::{Arc, ArcBorrow, ArcUnion, ArcUnionBorrow, OffsetArc, ThinArc};

static DROPS: AtomicUsize = AtomicUsize::new(0);
static CLONES: AtomicUsize = AtomicUsize::new(0);

/// Number of payload destructors run so far (Relaxed; meaningful after joins only).
pub fn drops() -> usize {
    DROPS.load(Relaxed)
}

/// Number of `Payload::clone` calls so far.
pub fn clones() -> usize {
    CLONES.load(Relaxed)
}

/// Fail the program with a message that vlib/miri.py classifies as `assert-failed`.
#[track_caller]
pub fn check(cond: bool, what: &str) {
    if !cond {
        panic!("LITMUS-ASSERT-FAILED: {}", what);
    }
}

/// One step of a polling loop (lets Miri's scheduler run the other threads).
pub fn spin() {
    std::hint::spin_loop();
    std::thread::yield_now();
}

/// Rounds per program: argument `--rounds=N` (default given by the program; small, Miri is slow).
/// (Program arguments, not environment variables: Miri's isolation hides the host environment.)
pub fn rounds(default: usize) -> usize {
    std::env::args()
        .find_map(|a| a.strip_prefix("--rounds=").and_then(|s| s.parse().ok()))
        .unwrap_or(default)
}

/// Heap-owning payload whose content is a function of `tag` (so a torn / stale read is detectable).
pub struct Payload {
    pub tag: u64,
    pub text: String,
    pub nums: Vec<u64>,
    pub boxed: Box<u64>,
}

impl Payload {
    pub fn new(tag: u64) -> Self {
        Payload {
            tag,
            text: format!("payload-{:04}", tag),
            nums: vec![tag, tag + 1, tag + 2],
            boxed: Box::new(tag * 7),
        }
    }

    pub fn expected(tag: u64) -> u64 {
        let text: u64 = format!("payload-{:04}", tag).bytes().map(u64::from).sum();
        text + (3 * tag + 3) + tag * 7 + tag
    }

    /// Read every part of the payload, including the three inner heap blocks.
    pub fn sum(&self) -> u64 {
        let text: u64 = self.text.bytes().map(u64::from).sum();
        let nums: u64 = self.nums.iter().sum();
        text + nums + *self.boxed + self.tag
    }

    /// Read and compare with what a payload of this tag must contain.
    #[track_caller]
    pub fn read_check(&self) {
        let tag = self.tag;
        check(self.sum() == Payload::expected(tag), "payload content differs from what was stored");
    }

    /// Read, check self-consistency, and check it is the value stored under `tag`.
    #[track_caller]
    pub fn read_expect(&self, tag: u64) {
        self.read_check();
        check(self.tag == tag, "read a value other than the one this handle refers to");
    }

    /// Overwrite every part with the content for `tag` (writes the struct and the heap blocks).
    pub fn rewrite(&mut self, tag: u64) {
        self.tag = tag;
        self.text = format!("payload-{:04}", tag);
        self.nums.clear();
        self.nums.extend_from_slice(&[tag, tag + 1, tag + 2]);
        *self.boxed = tag * 7;
    }
}

impl Clone for Payload {
    fn clone(&self) -> Self {
        CLONES.fetch_add(1, Relaxed);
        Payload { tag: self.tag, text: self.text.clone(), nums: self.nums.clone(), boxed: self.boxed.clone() }
    }
}

impl Drop for Payload {
    fn drop(&mut self) {
        // a real write to the dying value, then the fields free their heap blocks
        *self.boxed = 0;
        DROPS.fetch_add(1, Relaxed);
    }
}

/// Second payload type for `ArcUnion<_, Other>` (different size and alignment padding).
pub struct Other {
    pub pad: u8,
    pub inner: Payload,
}

/// Bookkeeping of one program run.
pub struct Tally {
    threads: usize,
    created: usize,
    base_drops: usize,
}

impl Tally {
    pub fn new() -> Self {
        // vlib/miri.py warms the build with `-- --build-only`: compile, start, stop at once
        if std::env::args().any(|a| a == "--build-only") {
            println!("LITMUS build-only");
            std::process::exit(0);
        }
        Tally { threads: 0, created: 0, base_drops: drops() }
    }

    /// A shared payload was created and `n` threads (main included if it takes part) touch it.
    pub fn shared(&mut self, n: usize) {
        self.created += 1;
        self.threads = self.threads.max(n);
    }

    /// `k` further payload values came into existence (deep clones made by make_mut & co.).
    pub fn extra_values(&mut self, k: usize) {
        self.created += k;
    }

    /// Every payload value ever created must have been destroyed exactly once by now.
    pub fn finish(self) {
        let d = drops() - self.base_drops;
        let destroyed = d == self.created;
        println!("LITMUS threads={} destroyed={}", self.threads, if destroyed { 1 } else { 0 });
        check(
            destroyed,
            &format!("{} payload value(s) created but {} destructor run(s): destroyed more or less than once", self.created, d),
        );
    }
}

// -------------------------------------------------------------------------------------------------
/// One owning handle kind: how to make, duplicate and read through it.
pub trait Handle: Send + Sync + Sized {
    const KIND: &'static str;
    fn make(tag: u64) -> Self;
    fn dup(&self) -> Self;
    fn read(&self);
}

impl Handle for Arc<Payload> {
    const KIND: &'static str = "arc";
    fn make(tag: u64) -> Self {
        Arc::new(Payload::new(tag))
    }
    fn dup(&self) -> Self {
        self.clone()
    }
    fn read(&self) {
        self.read_check()
    }
}

impl Handle for OffsetArc<Payload> {
    const KIND: &'static str = "offset";
    fn make(tag: u64) -> Self {
        Arc::into_raw_offset(Arc::new(Payload::new(tag)))
    }
    fn dup(&self) -> Self {
        self.clone()
    }
    fn read(&self) {
        self.read_check()
    }
}

pub type Thin = ThinArc<Payload, Box<u64>>;

impl Handle for Thin {
    const KIND: &'static str = "thin";
    fn make(tag: u64) -> Self {
        let items: Vec<Box<u64>> = (0..3).map(|i| Box::new(tag + i)).collect();
        ThinArc::from_header_and_iter(Payload::new(tag), items.into_iter())
    }
    fn dup(&self) -> Self {
        self.clone()
    }
    fn read(&self) {
        self.header.header.read_check();
        let tag = self.header.header.tag;
        check(self.header.length == 3 && self.slice.len() == 3, "thin length");
        let s: u64 = self.slice.iter().map(|b| **b).sum();
        check(s == 3 * tag + 3, "thin slice content");
    }
}

pub struct UnionFirst(pub ArcUnion<Payload, Other>);
pub struct UnionSecond(pub ArcUnion<Payload, Other>);

fn read_union(u: &ArcUnion<Payload, Other>) {
    match u.borrow() {
        ArcUnionBorrow::First(p) => p.read_check(),
        ArcUnionBorrow::Second(o) => {
            check(o.pad == 5, "union second pad");
            o.inner.read_check()
        }
    }
}

impl Handle for UnionFirst {
    const KIND: &'static str = "union-first";
    fn make(tag: u64) -> Self {
        UnionFirst(ArcUnion::from_first(Arc::new(Payload::new(tag))))
    }
    fn dup(&self) -> Self {
        UnionFirst(self.0.clone())
    }
    fn read(&self) {
        check(self.0.is_first(), "union variant");
        read_union(&self.0)
    }
}

impl Handle for UnionSecond {
    const KIND: &'static str = "union-second";
    fn make(tag: u64) -> Self {
        UnionSecond(ArcUnion::from_second(Arc::new(Other { pad: 5, inner: Payload::new(tag) })))
    }
    fn dup(&self) -> Self {
        UnionSecond(self.0.clone())
    }
    fn read(&self) {
        check(self.0.is_second(), "union variant");
        read_union(&self.0)
    }
}

/// An `Arc` whose duplicates are made through `ArcBorrow::clone_arc` and read through the borrow.
pub struct ViaBorrow(pub Arc<Payload>);

impl Handle for ViaBorrow {
    const KIND: &'static str = "borrow-clone-arc";
    fn make(tag: u64) -> Self {
        ViaBorrow(Arc::new(Payload::new(tag)))
    }
    fn dup(&self) -> Self {
        let b: ArcBorrow<'_, Payload> = self.0.borrow_arc();
        ViaBorrow(b.clone_arc())
    }
    fn read(&self) {
        let b = self.0.borrow_arc();
        b.get().read_check();
        b.with_arc(|a| a.read_check());
    }
}

// -------------------------------------------------------------------------------------------------
/// The basic C02 scenario for any handle kind, `n` threads (main is one of them):
/// main creates the value and one duplicate per worker; each worker reads, duplicates once more,
/// reads through the duplicate, drops both; main reads and drops concurrently, *before* joining.
/// Whoever drops last destroys a value the others read without any other synchronisation.
pub fn clone_read_drop<H: Handle>(t: &mut Tally, n: usize, tag: u64) {
    let a = H::make(tag);
    t.shared(n);
    let others: Vec<H> = (1..n).map(|_| a.dup()).collect();
    std::thread::scope(|s| {
        for (i, h) in others.into_iter().enumerate() {
            s.spawn(move || {
                h.read();
                if i % 2 == 0 {
                    let h2 = h.dup();
                    drop(h);
                    h2.read();
                    drop(h2);
                } else {
                    let h2 = h.dup();
                    h2.read();
                    drop(h2);
                    h.read();
                    drop(h);
                }
            });
        }
        a.read();
        drop(a);
    });
}
