//! C08 / C09: T1 calls `unwrap_or_clone` on its handle while T2 calls `make_mut` on the other one and writes.  While T1 is
//! still reading the shared value (inside `T::clone`) it must still COUNT as an owner: T2 then sees a shared value and
//! copies; if T1 is done and has released its reference, T2 may write in place — ordered after T1's reads by the count.
//! An implementation that gives its reference up before cloning lets T2 write in place under T1's reads.
use litmus::*;
use triomphe::Arc;

fn main() {
    let mut t = Tally::new();
    for r in 0..rounds(6) {
        let tag = 2100 + r as u64;
        let a = Arc::new(Payload::new(tag));
        t.shared(2);
        let mut b = a.clone();
        let c0 = clones();
        std::thread::scope(|s| {
            s.spawn(move || {
                let v = Arc::unwrap_or_clone(a);
                v.read_expect(tag);
                drop(v);
            });
            // no synchronisation other than the count
            let m = Arc::make_mut(&mut b);
            m.rewrite(tag + 1);
            m.read_expect(tag + 1);
        });
        b.read_expect(tag + 1);
        // T1 either cloned (shared at its gate) or moved out (T2 had already redirected itself): 1 or 2 clones in total, never a torn value
        let made = clones() - c0;
        check(made >= 1 && made <= 2, "unexpected number of Clone calls");
        t.extra_values(made);
        drop(b);
    }
    t.finish();
}
