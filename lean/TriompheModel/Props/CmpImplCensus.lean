import TriompheModel.Generated.Impls
/-!
# Census of the comparison / hashing / formatting impls (Tie A for C14)

The comparison harness (`harness/src/bin/cmp.rs`, the `cmp` history op) drives, for every handle and payload type, exactly the
trait impls the crate has today.  A NEW impl — say `PartialOrd`/`Ord`/`Hash` for a handle that only had `PartialEq`, by a
`#[derive]` on the pointer field — is an observer the harness does not call, and one that may well compare or hash the ADDRESS
instead of the value.  This obligation demands that the set of (trait, type) pairs among the comparison, hashing, formatting and
borrowing traits is exactly the known one, on the impl table the translator regenerates from the source on every run.
-/
open FactsTraits
namespace CmpImplCensus

def cmpTraits : List String := ["PartialEq", "Eq", "PartialOrd", "Ord", "Hash", "Debug", "Display", "Pointer", "Borrow", "AsRef"]

def impls : List (String × String) :=
  ((Generated.implForms.filter (fun r => cmpTraits.contains r.trait_)).map (fun r => (r.trait_, r.selfHead))).eraseDups

def expected : List (String × String) :=
  [("PartialEq", "Arc"), ("PartialOrd", "Arc"), ("Ord", "Arc"), ("Eq", "Arc"), ("Display", "Arc"), ("Debug", "Arc"), ("Pointer", "Arc"),
   ("Hash", "Arc"), ("Borrow", "Arc"), ("AsRef", "Arc"),
   ("PartialEq", "ArcBorrow"), ("Eq", "ArcBorrow"), ("Debug", "ArcBorrow"),
   ("PartialEq", "ArcUnion"), ("Debug", "ArcUnionBorrow"), ("Debug", "ArcUnion"),
   ("Debug", "HeaderSlice"), ("Eq", "HeaderSlice"), ("PartialEq", "HeaderSlice"), ("Hash", "HeaderSlice"), ("PartialOrd", "HeaderSlice"), ("Ord", "HeaderSlice"),
   ("Debug", "HeaderWithLength"), ("Eq", "HeaderWithLength"), ("PartialEq", "HeaderWithLength"), ("Hash", "HeaderWithLength"),
   ("Debug", "HeaderSliceWithLengthProtected"), ("Hash", "HeaderSliceWithLengthProtected"), ("Eq", "HeaderSliceWithLengthProtected"),
   ("PartialEq", "HeaderSliceWithLengthProtected"), ("Ord", "HeaderSliceWithLengthProtected"), ("PartialOrd", "HeaderSliceWithLengthProtected"),
   ("Eq", "OffsetArc"), ("Debug", "OffsetArc"), ("PartialEq", "OffsetArc"),
   ("PartialEq", "ThinArc"), ("Eq", "ThinArc"), ("PartialOrd", "ThinArc"), ("Ord", "ThinArc"), ("Hash", "ThinArc"), ("Debug", "ThinArc"), ("Pointer", "ThinArc")]

/-- **the comparison / hash / format impls are exactly the ones the harness exercises** -/
theorem obl_cmp_impl_census : (impls.all (fun x => expected.contains x) && expected.all (fun x => impls.contains x)) = true := by decide

end CmpImplCensus
