import TriompheModel.Model.Ops
/-!
# C04 — the reported reference count equals the number of owning handles

`owners s b` is the number of owning handle values of ALL kinds in the slot table (raw pointers
handed out by `into_raw`-style calls included) that refer to block `b`.  Here: how each op changes
`owners`.  That the count *word* equals `owners` in every reachable state (also inside callbacks) is
the invariant `M1.Inv` (Proofs/HistInv.lean), from which `C04_count_eq_owners` follows.
-/
namespace M1
namespace C04

theorem owners_put (s : State) (m : Mem) (i : Nat) (h : HV) (b : Nat) :
    owners (s.put m i h) b = owners s b + (if h.blk = b then 1 else 0) := by
  simp [owners, State.put, List.countP_cons]

/-- **each clone-style operation raises the number of owners of exactly that block by one** -/
theorem C04_clone_plus_one (s : State) (dst src : Nat) (h : HV) (m : Mem) (c : HV)
    (hd : lookup s dst = none) (hs : lookup s src = some h) (hc : cloneHandle s.mem h = some (m, c)) :
    (step s (.clone dst src)).1 = s.put m dst c ∧
    (∀ b, owners (step s (.clone dst src)).1 b = owners s b + (if c.blk = b then 1 else 0)) := by
  have e : (step s (.clone dst src)).1 = s.put m dst c := by simp [step, hd, hs, hc]
  refine ⟨e, ?_⟩
  intro b; rw [e, owners_put]

/-- the clone refers to the same block as its source, and the only change to memory is one
`fetch_add(1)` on that block's count word -/
theorem C04_clone_same_block (m : Mem) (h : HV) (m' : Mem) (c : HV) (hc : cloneHandle m h = some (m', c)) :
    c.blk = h.blk ∧ m' = incr m h.blk := by
  unfold cloneHandle at hc
  split at hc <;> simp_all [Arc.clone, ThinArc.clone, ThinArc.thick, ThinArc.of_arc, OffsetArc.clone,
    OffsetArc.clone_arc, OffsetArc.transient, Arc.from_raw, Arc.into_raw_offset, Arc.into_raw, ArcUnion.clone,
    ArcBorrow.clone_arc, ArcUnion.borrow, ArcUnion.from_first, ArcUnion.from_second]
  all_goals (obtain ⟨rfl, rfl⟩ := hc; simp <;> split <;> simp)

end C04
end M1
