import TriompheModel.Proofs.HistOffBase
import TriompheModel.Proofs.HistLenStep
import TriompheModel.Proofs.HistValStep
/-!
# Every op keeps the stored addresses right; blocks never change shape
(helper file 2 for `Proofs/HistOff.lean`)
-/
namespace M1
open LY

/-- every slot's handle stores the right address -/
def OffAll (s : State) : Prop := ∀ e, e ∈ s.slots → OffOk e.2

namespace OffAll
variable {s : State}

theorem slot (ha : OffAll s) {i : Nat} {h : HV} (hl : lookup s i = some h) : OffOk h := ha (i, h) (lookup_mem hl)

theorem frame (ha : OffAll s) (m' : Mem) : OffAll ⟨m', s.slots⟩ := ha

theorem put (ha : OffAll s) (m' : Mem) (dst : Nat) {h : HV} (ho : OffOk h) : OffAll (s.put m' dst h) := by
  intro e he
  rcases List.mem_cons.1 he with rfl | he
  · exact ho
  · exact ha e he

theorem del (ha : OffAll s) (m' : Mem) (src : Nat) : OffAll (s.del m' src) :=
  fun e he => ha e (mem_delL.1 he).1

theorem set (ha : OffAll s) (m' : Mem) (src : Nat) {h : HV} (ho : OffOk h) : OffAll (s.set m' src h) := by
  intro e he
  rcases mem_setL he with ⟨he', _⟩ | ⟨rfl, _⟩
  · exact ha e he'
  · exact ho

end OffAll

theorem ctor_handle_off (c : Ctor) (b : Nat) : OffOk (c.handle b) := by
  cases c <;> exact OffOk.of_blk rfl rfl

theorem iter_handle_off (w : IterCtor) (b l : Nat) : OffOk ⟨w.kind, w.ty, b, 0, l⟩ := by
  cases w <;> exact OffOk.of_blk rfl rfl

theorem make_mut_handle {m : Mem} {a : HV} {cp : Bool} {f : HV} (h : (Arc.make_mut m a cp).2 = some f) :
    f = a ∨ (f.kind = .arc ∧ f.off = 0) := by
  rw [make_mut_eq] at h
  split at h
  · cases h; exact Or.inl rfl
  · split at h
    · cases h
    · cases h; exact Or.inr ⟨rfl, rfl⟩

section
variable {s : State} (ha : OffAll s)
include ha
set_option linter.unusedSectionVars false

theorem off_create (dst : Nat) (c : Ctor) : OffAll (step s (.create dst c)).1 := by
  simp only [step]
  split
  · exact ha
  · split
    · exact ha
    · rename_i m h hc
      rw [runCtor_eq, Option.map_eq_some_iff] at hc
      obtain ⟨lay, _, he⟩ := hc
      cases he
      exact ha.put _ dst (ctor_handle_off c _)

theorem off_iterCtor (dst : Nat) (w : IterCtor) (h : Option Item) (sc : IterScript) :
    OffAll (step s (.iterCtor dst w h sc)).1 := by
  simp only [step]
  split
  · exact ha
  · have hs := runIterCtor_spec s.mem true w h sc
    generalize runIterCtor s.mem true w h sc = r at hs
    cases hs with
    | built lay hal => exact ha.put _ dst (iter_handle_off w _ _)
    | noBlock k cls => exact ha
    | noAlloc n hal => exact ha
    | leaked lay rl es k cls hes => exact ha
    | thinMismatch lay n1 hw hn hal => exact ha

theorem off_clone (dst src : Nat) : OffAll (step s (.clone dst src)).1 := by
  simp only [step]
  split
  · rename_i h hd hs
    split
    · rename_i m c hc
      exact ha.put m dst (cloneHandle_off hc (ha.slot hs))
    · exact ha
  · exact ha

theorem off_drop (src : Nat) : OffAll (step s (.drop src)).1 := by
  simp only [step]
  split
  · split
    · exact ha.del _ src
    · exact ha
  · exact ha

theorem off_conv (src : Nat) (c : Conv) : OffAll (step s (.conv src c)).1 := by
  simp only [step]
  split
  · rename_i h hs
    split
    · rename_i h' hc
      exact ha.set _ src (runConv_off hc (ha.slot hs))
    · exact ha
  · exact ha

theorem off_intoThin (src : Nat) : OffAll (step s (.intoThin src)).1 := by
  simp only [step]
  split
  · rename_i h hs
    split
    · rename_i hc
      by_cases hrec : ((s.mem.blocks[h.blk]?.bind (·.recLen))).getD 0 = h.len
      · rw [into_thin_eq, if_pos hrec]
        exact ha.set _ src ((ha.slot hs).blkBlk (by rw [hc.1]; rfl) (h' := ThinArc.of_arc h) rfl rfl)
      · rw [into_thin_eq, if_neg hrec]
        exact ha.del _ src
    · exact ha
  · exact ha

theorem off_cloneArc (dst src : Nat) : OffAll (step s (.cloneArc dst src)).1 := by
  simp only [step]
  split
  · rename_i h hd hs
    have ho := ha.slot hs
    split
    · rename_i m a hr
      split at hr
      · rename_i hc
        cases hr
        refine ha.put _ dst (OffOk.of_blk (h := Arc.from_raw s.mem (ArcBorrow.of_arc s.mem h)) rfl ?_)
        have hnt : h.kind.isThin = false := by rw [hc.1]; rfl
        rw [Off.from_raw_off s.mem (p := ArcBorrow.of_arc s.mem h) rfl]
        show (Arc.into_raw s.mem h).off - h.ty.dataOff (fatLen h) = 0
        rw [Off.into_raw_off s.mem hnt, ho.blk (by rw [hc.1]; rfl), Nat.zero_add]
        exact Nat.sub_self _
      · split at hr
        · rename_i hc
          cases hr
          refine ha.put _ dst (ho.toBlk (by rw [hc]; rfl) (h' := { OffsetArc.transient s.mem h with kind := .arc }) rfl ?_)
          exact Off.from_raw_off s.mem (p := { h with kind := .raw }) rfl
        · split at hr
          · rename_i hc
            cases hr
            have hd : h.kind.isBlockAddr = false := by rcases hc with hc | hc <;> rw [hc] <;> rfl
            refine ha.put _ dst (ho.toBlk hd (h' := Arc.from_raw s.mem (ArcUnion.borrow h)) rfl ?_)
            exact Off.from_raw_off s.mem (p := { h with kind := .raw }) rfl
          · cases hr
    · exact ha
  · exact ha

theorem off_isUnique (src : Nat) : OffAll (step s (.isUnique src)).1 := by
  simp only [step]
  split
  · split <;> exact ha
  · exact ha

theorem off_getMut (src v : Nat) : OffAll (step s (.getMut src v)).1 := by
  simp only [step]
  split
  · split
    · split <;> exact ha
    · exact ha
  · exact ha

theorem off_getUnique (src v : Nat) : OffAll (step s (.getUnique src v)).1 := by
  simp only [step]
  split
  · split
    · split <;> exact ha
    · exact ha
  · exact ha

theorem off_uniqWrite (src v : Nat) : OffAll (step s (.uniqWrite src v)).1 := by
  simp only [step]
  split
  · split <;> exact ha
  · exact ha

theorem off_writeSlot (src i : Nat) (v : Item) : OffAll (step s (.writeSlot src i v)).1 := by
  simp only [step]
  split
  · split
    · split <;> exact ha
    · exact ha
  · exact ha

theorem off_tryUnique (src : Nat) : OffAll (step s (.tryUnique src)).1 := by
  simp only [step]
  split
  · rename_i h hs
    split
    · rename_i hc
      by_cases hu : Arc.is_unique s.mem h = true
      · rw [try_unique_eq, if_pos hu]
        exact ha.set _ src ((ha.slot hs).blkBlk (by rw [hc.1]; rfl) (h' := { h with kind := .uniq }) rfl rfl)
      · rw [try_unique_eq, if_neg hu]
        exact ha
    · exact ha
  · exact ha

theorem off_intoInner (src : Nat) : OffAll (step s (.intoInner src)).1 := by
  simp only [step]
  split
  · split
    · exact ha.del _ src
    · exact ha
  · exact ha

theorem off_tryUnwrap (src : Nat) : OffAll (step s (.tryUnwrap src)).1 := by
  simp only [step]
  split
  · split
    · split
      · exact ha.del _ src
      · exact ha
    · exact ha
  · exact ha

theorem off_unwrapOrClone (src : Nat) (cp : Bool) : OffAll (step s (.unwrapOrClone src cp)).1 := by
  simp only [step]
  split
  · split
    · split
      · exact ha.del _ src
      · split
        · exact ha.del _ src
        · exact ha.del _ src
    · exact ha
  · exact ha

theorem off_makeMut (src v : Nat) (cp : Bool) : OffAll (step s (.makeMut src v cp)).1 := by
  simp only [step]
  split
  · rename_i h hs
    have ho := ha.slot hs
    split
    · split
      · rename_i m h' hmm
        apply (ha.set (writeVal m h'.blk v) src (h := h'))
        rcases make_mut_handle (by rw [hmm]) with rfl | ⟨hk, h0⟩
        · exact ho
        · exact OffOk.of_blk (by rw [hk]; rfl) h0
      · exact ha
    · split
      · rename_i hc
        split
        · rename_i m a' hmm
          apply (ha.set (writeVal m a'.blk v) src (h := Arc.into_raw_offset m a'))
          have hoa : OffOk (Arc.from_raw_offset s.mem h) :=
            ho.toBlk (by rw [hc]; rfl) rfl (Off.from_raw_off s.mem (p := { h with kind := .raw }) rfl)
          have hfa : OffOk a' ∧ a'.kind = .arc := by
            rcases make_mut_handle (by rw [hmm]) with rfl | ⟨hk, h0⟩
            · exact ⟨hoa, rfl⟩
            · exact ⟨OffOk.of_blk (by rw [hk]; rfl) h0, hk⟩
          exact hfa.1.toData (m := m) hfa.2 rfl rfl rfl rfl
        · exact ha
      · exact ha
  · exact ha

theorem off_makeUnique (src v : Nat) (cp : Bool) : OffAll (step s (.makeUnique src v cp)).1 := by
  simp only [step]
  split
  · rename_i h hs
    have ho := ha.slot hs
    split
    · split
      · rename_i m h' hmm
        apply (ha.set (writeVal m h'.blk v) src (h := h'))
        rcases make_mut_handle (by rw [hmm]) with rfl | ⟨hk, h0⟩
        · exact ho
        · exact OffOk.of_blk (by rw [hk]; rfl) h0
      · exact ha
    · exact ha
  · exact ha

theorem off_releaseSlot (i : Nat) : OffAll (releaseSlot s i) := by
  unfold releaseSlot
  split
  · exact ha.del _ i
  · exact ha

end

theorem off_dropAllFrom (keys : List Nat) : ∀ {s : State}, OffAll s → OffAll (dropAllFrom keys s) := by
  induction keys with
  | nil => intro s ha; exact ha
  | cons k r ih =>
    intro s ha
    simp only [dropAllFrom, List.foldl_cons]
    exact ih (off_releaseSlot ha k)

theorem transientOf_off {m : Mem} {api : CbApi} {h t : HV} (ht : transientOf m api h = some t) (ho : OffOk h) :
    OffOk t := by
  cases api <;> simp only [transientOf] at ht
  case rawOffset =>
    split at ht
    · rename_i hc; cases ht
      exact ho.toData (m := m) hc.1 rfl rfl rfl rfl
    · cases ht
  case offsetWithArc =>
    split at ht
    · rename_i hc; cases ht
      exact ho.toBlk (by rw [hc]; rfl) rfl (Off.from_raw_off m (p := { h with kind := .raw }) rfl)
    · cases ht
  case borrowWithArc =>
    split at ht
    · rename_i hc; cases ht
      apply OffOk.of_blk (h := Arc.from_raw m (ArcBorrow.of_arc m h)) rfl
      have hnt : h.kind.isThin = false := by rw [hc.1]; rfl
      rw [Off.from_raw_off m (p := ArcBorrow.of_arc m h) rfl]
      show (Arc.into_raw m h).off - h.ty.dataOff (fatLen h) = 0
      rw [Off.into_raw_off m hnt, ho.blk (by rw [hc.1]; rfl), Nat.zero_add]
      exact Nat.sub_self _
    · split at ht
      · rename_i hc; cases ht
        have hd : h.kind.isBlockAddr = false := by rcases hc with hc | hc <;> rw [hc] <;> rfl
        exact ho.toBlk hd rfl (Off.from_raw_off m (p := { h with kind := .raw }) rfl)
      · cases ht
  case thinWithArc =>
    split at ht
    · rename_i hc; cases ht
      exact ho.blkBlk (by rw [hc]; rfl) rfl rfl
    · cases ht
  case thinWithArcMut =>
    split at ht
    · rename_i hc; cases ht
      exact ho.blkBlk (by rw [hc]; rfl) rfl rfl
    · cases ht

theorem cloneHandle_arc_kind {m m' : Mem} {t c : HV} (hk : t.kind = .arc) (hc : cloneHandle m t = some (m', c)) :
    c.kind = .arc := by
  unfold cloneHandle at hc
  rw [hk] at hc
  simp only [Option.some.injEq] at hc
  have := congrArg (fun p => p.2.kind) hc
  exact this.symm

theorem off_withCb {s : State} (ha : OffAll s) (src : Nat) (api : CbApi) (script : List CbAct) :
    OffAll (step s (.withCb src api script)).1 := by
  simp only [step]
  split
  · rename_i h hs
    split
    · rename_i t ht
      have hkind : api = .thinWithArcMut → t.kind = .arc := by
        intro hapi
        subst hapi
        simp only [transientOf] at ht
        split at ht
        · cases ht; rfl
        · cases ht
      obtain ⟨t', hres, _⟩ := runCb_ind api src
        (fun s t => OffAll s ∧ OffOk t ∧ (api = .thinWithArcMut → t.kind = .arc))
        (by
          intro s t k m c hp _ hc
          refine ⟨hp.1.put m k ?_, hp.2⟩
          have hoc := cloneHandle_off hc hp.2.1
          split
          · rename_i hapi
            have hck : c.kind = .arc := cloneHandle_arc_kind (hp.2.2 hapi) hc
            exact hoc.blkBlk (by rw [hck]; rfl) (h' := ThinArc.of_arc c) rfl rfl
          · exact hoc)
        (by
          intro s t k hp _ _
          refine ⟨hp.1.put _ k ?_, hp.2⟩
          apply OffOk.of_blk (h := { OffsetArc.transient s.mem t with kind := .arc }) rfl
          show (Arc.from_raw s.mem { t with kind := .raw }).off = 0
          rw [Off.from_raw_off s.mem (p := { t with kind := .raw }) rfl]
          show t.off - t.ty.dataOff (fatLen t) = 0
          cases hb : t.kind.isBlockAddr with
          | true => rw [hp.2.1.blk hb]; exact Nat.zero_sub _
          | false => rw [hp.2.1.data hb]; exact Nat.sub_self _)
        (fun s t v hp => ⟨hp.1.frame _, hp.2⟩)
        (by
          intro s t k h2 hp hne hlk hthin
          have ho2 := hp.1.slot hlk
          have hb2 : h2.kind.isBlockAddr = true := by rw [hthin]; rfl
          exact ⟨(hp.1.del _ k).set _ src (ho2.blkBlk hb2 (h' := ThinArc.of_arc (ThinArc.thick s.mem h2)) rfl rfl),
            ho2.blkBlk hb2 (h' := ThinArc.thick s.mem h2) rfl rfl, fun _ => rfl⟩)
        (by
          intro s t k h2 hp hne hlk hthin hapi
          have ho2 := hp.1.slot hlk
          have hb2 : h2.kind.isBlockAddr = true := by rw [hthin]; rfl
          have hbt : t.kind.isBlockAddr = true := by rw [hp.2.2 hapi]; rfl
          exact ⟨((hp.1.set _ k (hp.2.1.blkBlk hbt (h' := ThinArc.of_arc t) rfl rfl)).set _ src
              (ho2.blkBlk hb2 (h' := ThinArc.of_arc (ThinArc.thick s.mem h2)) rfl rfl)),
            ho2.blkBlk hb2 (h' := ThinArc.thick s.mem h2) rfl rfl, fun _ => rfl⟩)
        script s t "" ⟨ha, transientOf_off ht (ha.slot hs), hkind⟩
      exact hres
    · exact ha
  · exact ha

/-- every op keeps the stored addresses right -/
theorem off_step {s : State} (ha : OffAll s) (op : Op) : OffAll (step s op).1 := by
  cases op with
  | create dst c => exact off_create ha dst c
  | iterCtor dst w h sc => exact off_iterCtor ha dst w h sc
  | clone dst src => exact off_clone ha dst src
  | drop src => exact off_drop ha src
  | conv src c => exact off_conv ha src c
  | intoThin src => exact off_intoThin ha src
  | cloneArc dst src => exact off_cloneArc ha dst src
  | isUnique src => exact off_isUnique ha src
  | getMut src v => exact off_getMut ha src v
  | getUnique src v => exact off_getUnique ha src v
  | makeMut src v cp => exact off_makeMut ha src v cp
  | makeUnique src v cp => exact off_makeUnique ha src v cp
  | tryUnwrap src => exact off_tryUnwrap ha src
  | unwrapOrClone src cp => exact off_unwrapOrClone ha src cp
  | intoInner src => exact off_intoInner ha src
  | tryUnique src => exact off_tryUnique ha src
  | uniqWrite src v => exact off_uniqWrite ha src v
  | writeSlot src i v => exact off_writeSlot ha src i v
  | withCb src api script => exact off_withCb ha src api script
  | dropAll => exact off_dropAllFrom _ ha

/-! ## blocks never change shape along a step -/

theorem stable_closed (m0 : Mem) : MemClosed (Stable m0) where
  hIncr := fun m b _ hp _ _ => hp.trans (Ext.incr (wd := False) m b).st
  hDecr := fun m b t l hp _ => hp.trans (Ext.decr (wd := False) m b t l False.elim).st
  hWriteVal := fun m b v hp => hp.trans (Ext.writeVal (wd := False) m b v).st
  hCloneValue := fun m b hp => hp.trans (Ext.cloneValue (wd := False) m b).st
  hCloneNew := fun m b _ hp =>
    (hp.trans (Ext.cloneValue (wd := False) m b).st).trans (Ext.alloc (wd := False) _ _ _ _ _).st
  hIntoInner := fun m u hp => hp.trans (Ext.into_inner (wd := False) m u False.elim).st

/-- the shape (slot count, stored length word, requested layout) of every existing block is the
same after any op -/
theorem step_stable {s : State} (hi : Inv' s) (op : Op) : Stable s.mem (step s op).1.mem := by
  cases hp : op.plain with
  | true => exact closed_step (stable_closed s.mem) hi (Stable.refl _) op hp
  | false =>
    cases op with
    | create dst c =>
      simp only [step]
      split
      · exact Stable.refl _
      · split
        · exact Stable.refl _
        · rename_i m h hc
          rw [runCtor_eq, Option.map_eq_some_iff] at hc
          obtain ⟨lay, _, he⟩ := hc
          cases he
          exact Stable.append _ _ _ _
    | iterCtor dst w h sc =>
      simp only [step]
      split
      · exact Stable.refl _
      · have hs := runIterCtor_spec s.mem true w h sc
        generalize runIterCtor s.mem true w h sc = r at hs
        cases hs with
        | built lay hal => exact Stable.append _ _ _ _
        | noBlock k cls => exact Stable.same_blocks rfl
        | noAlloc n hal => exact Stable.same_blocks rfl
        | leaked lay rl es k cls hes => exact Stable.append _ _ _ _
        | thinMismatch lay n1 hw hn hal => exact Stable.append _ _ _ _
    | writeSlot src i v =>
      simp only [step]
      split
      · split
        · split
          · simp only
            split
            · exact Stable.same_blocks rfl
            · exact Stable.refl _
          · exact Stable.upd _ _ _ (fun k => by simp [Block.shape])
        · exact Stable.refl _
      · exact Stable.refl _
    | _ => cases hp

end M1
