//! C02: handles are converted between kinds (into_raw/from_raw, into_raw_offset/from_raw_offset,
//! ArcUnion::from_first, from_thin/into_thin, ThinArc::into_raw/from_raw) while other threads hold
//! clones; the handle that is finally dropped is of a different kind than the one created.
use litmus::*;
use triomphe::{Arc, ArcUnion, HeaderSlice, HeaderWithLength, ThinArc};

fn main() {
    let mut t = Tally::new();
    for r in 0..rounds(3) {
        let tag = 80 + r as u64;
        // sized payload: raw, offset, union
        let a = Arc::new(Payload::new(tag));
        t.shared(3);
        let b = a.clone();
        let c = a.clone();
        std::thread::scope(|s| {
            s.spawn(move || {
                let p = Arc::into_raw(b);
                let b = unsafe { Arc::from_raw(p) };
                b.read_expect(tag);
                let o = Arc::into_raw_offset(b);
                o.read_expect(tag);
                let o2 = o.clone();
                let b = Arc::from_raw_offset(o);
                b.read_expect(tag);
                drop(b);
                drop(o2);
            });
            s.spawn(move || {
                let u: ArcUnion<Payload, Other> = ArcUnion::from_first(c);
                let u2 = u.clone();
                drop(u);
                u2.as_first().unwrap().read_expect(tag);
                drop(u2);
            });
            a.read_expect(tag);
            let o = Arc::into_raw_offset(a);
            drop(o);
        });

        // header+slice payload: thin <-> fat, raw thin pointer
        let th = Thin::make(tag + 100);
        t.shared(2);
        let th2 = th.clone();
        std::thread::scope(|s| {
            s.spawn(move || {
                let fat: Arc<HeaderSlice<HeaderWithLength<Payload>, [Box<u64>]>> = Arc::from_thin(th2);
                fat.header.header.read_expect(tag + 100);
                let fat2 = fat.clone();
                let back = Arc::into_thin(fat);
                back.read();
                let raw = back.into_raw();
                let back: Thin = unsafe { ThinArc::from_raw(raw) };
                drop(back);
                check(fat2.slice.len() == 3, "fat view length");
                drop(fat2);
            });
            th.read();
            let fat = Arc::from_thin(th);
            drop(fat);
        });
    }
    t.finish();
}
