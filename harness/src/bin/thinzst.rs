//! C10 with ZERO-SIZED elements and lengths beyond any byte-size boundary: a slice of a zero-sized type may have any
//! length up to `usize::MAX` (its byte size is 0), and the constructors that do not refuse zero-sized elements
//! (`from_header_and_vec`, hence `From<Vec<T>>`) accept it.  Every view of such an allocation — the ThinArc's own
//! `Deref`, the transient fat Arc of `with_arc`, the fat Arc from `from_thin`, the recorded length word — must report
//! the same length: the model's `viewLen` is the recorded length for every n (Lean: `C10.C10_thin_eq_fat_view`).
//!
//! One case per input line:  `tz <elem class: unit | z16 | zd> <length (decimal)>`
//! Output: `st=ok thin_len=.. hdr_len=.. with_arc_len=.. fat_len=.. back_len=.. hdr=.. cnt=..` or `st=panic:<msg>`.
use std::io::{BufRead, Write};
use std::panic::{catch_unwind, AssertUnwindSafe};
use triomphe::*;

#[repr(align(16))]
#[derive(Clone, Copy)]
struct Z16;
struct Zd;
impl Drop for Zd { fn drop(&mut self) {} }

fn vec_of<T>(n: usize, mk: impl Fn() -> T) -> Vec<T> {
    // a Vec of a zero-sized type never allocates: set_len is enough (and `mk` is never needed more than conceptually)
    assert_eq!(std::mem::size_of::<T>(), 0);
    let mut v: Vec<T> = Vec::new();
    let _ = &mk;
    unsafe { v.set_len(n) };
    v
}

fn run<T>(n: usize, mk: impl Fn() -> T) -> String {
    let r = catch_unwind(AssertUnwindSafe(|| {
        let v = vec_of::<T>(n, &mk);
        let a = Arc::from_header_and_vec(HeaderWithLength::new(77u32, n), v);
        let fat0 = a.slice.len();
        let t: ThinArc<u32, T> = Arc::into_thin(a);
        let thin_len = t.slice.len();
        let hdr_len = t.header.length;
        let with_arc_len = t.with_arc(|x| x.slice.len());
        let c = t.clone();
        let fat = Arc::from_thin(c);
        let fat_len = fat.slice.len();
        let cnt = Arc::count(&fat);
        let back = Arc::into_thin(fat);
        let back_len = back.slice.len();
        let hdr = t.header.header;
        let s = format!("st=ok fat0_len={} thin_len={} hdr_len={} with_arc_len={} fat_len={} back_len={} hdr={} cnt={}",
                        fat0, thin_len, hdr_len, with_arc_len, fat_len, back_len, hdr, cnt);
        // zero-sized elements with a destructor: do not run usize::MAX destructors
        std::mem::forget(back);
        std::mem::forget(t);
        s
    }));
    match r {
        Ok(s) => s,
        Err(e) => {
            let m = if let Some(s) = e.downcast_ref::<&str>() { s.to_string() } else if let Some(s) = e.downcast_ref::<String>() { s.clone() } else { String::new() };
            format!("st=panic:{}", m.replace(' ', "_").chars().take(80).collect::<String>())
        }
    }
}

fn main() {
    std::panic::set_hook(Box::new(|_| {}));
    let stdin = std::io::stdin();
    let out = std::io::stdout();
    for line in stdin.lock().lines() {
        let line = line.unwrap();
        let f: Vec<&str> = line.split_whitespace().collect();
        let res = if f.len() == 3 && f[0] == "tz" {
            match f[2].parse::<usize>() {
                Ok(n) => match f[1] {
                    "unit" => run::<()>(n, || ()),
                    "z16" => run::<Z16>(n, || Z16),
                    "zd" => run::<Zd>(n, || Zd),
                    _ => "st=bad".to_string(),
                },
                Err(_) => "st=bad".to_string(),
            }
        } else { "st=bad".to_string() };
        let mut l = out.lock();
        let _ = writeln!(l, "{}", res);
        let _ = l.flush();
    }
}
