import TriompheModel.Proofs.HistVal
/-!
# C15 — uninitialised construction never destroys or exposes what was not written
-/
namespace M1
namespace C15

/-- **dropping through a `MaybeUninit` view runs no element destructor** — whether or not slots
were written — and the (initialised) header is destroyed exactly once -/
theorem C15_drop_uninit_no_element_drop (b : Nat) (k : Block) (t : Ty) (len : Nat) (ht : t.elemsInit = false) :
    payloadDrops b k t len = (match k.hdr with | some h => [Event.drop h.id] | none => []) := by
  cases hh : k.hdr <;> simp [payloadDrops, ht, hh]

/-- the three uninitialised views -/
theorem C15_uninit_views : Ty.mu.elemsInit = false ∧ Ty.muSlice.elemsInit = false ∧ Ty.hsMu.elemsInit = false :=
  ⟨rfl, rfl, rfl⟩

/-- **`assume_init` is a cast**: same block, same address, same length, same kind; memory (contents
and count) is not touched at all -/
theorem C15_assume_init_is_cast (m : Mem) (h h' : HV) (hc : runConv m h .assumeInit = some h') :
    h'.blk = h.blk ∧ h'.off = h.off ∧ h'.len = h.len ∧ h'.kind = h.kind ∧
    (h.ty = .mu → h'.ty = .sized) ∧ (h.ty = .muSlice → h'.ty = .slice) ∧ (h.ty = .hsMu → h'.ty = .hs) := by
  simp only [runConv] at hc
  split at hc
  · rename_i hcond
    cases hty : h.ty <;> rw [hty] at hc <;> simp at hc
    · subst hc; simp
    · subst hc; simp
    · obtain ⟨_, rfl⟩ := hc; simp
  · cases hc

theorem C15_step_assume_init (s : State) (src : Nat) (h h' : HV) (hs : lookup s src = some h)
    (hc : runConv s.mem h .assumeInit = some h') :
    (step s (.conv src .assumeInit)).1.mem = s.mem := by
  simp [step, hs, hc, State.set]

theorem zipIdx_drops (b : Nat) (items : List Item) (n : Nat) :
    ((items.map some).zipIdx n).map (fun (e, i) =>
      match e with
      | some it => Event.drop it.id
      | none => Event.dropUninit b i) = items.map (fun it => Event.drop it.id) := by
  induction items generalizing n with
  | nil => simp
  | cons x xs ih => simp [List.zipIdx_cons, ih]

/-- **after `assume_init` every element is destroyed exactly once together with the allocation**:
through an initialised view whose slots are all written, the payload destructor emits one `drop`
per element, in order, and no `dropUninit` -/
theorem C15_after_init_each_once (b : Nat) (k : Block) (t : Ty) (ht : t.elemsInit = true)
    (items : List Item) (hk : k.elems = items.map some) :
    payloadDrops b k t items.length =
      (match k.hdr with | some h => [Event.drop h.id] | none => []) ++ items.map (fun it => Event.drop it.id) := by
  have htake : (List.map some items).take items.length = List.map some items := by
    rw [List.take_of_length_le]; simp
  have h := zipIdx_drops b items 0
  unfold payloadDrops
  rw [hk, htake, if_pos ht]
  exact congrArg (_ ++ ·) h

/-- **the deprecated `Arc::write` / `as_mut_slice` on a shared handle panics instead of mutating**:
no block is changed (the only memory effect is that the value passed to `write` is dropped) -/
theorem C15_deprecated_write_panics_when_shared (s : State) (src i : Nat) (v : Item) (h : HV)
    (hs : lookup s src = some h) (hk : h.kind = .arc) (hty : h.ty = .mu ∨ h.ty = .muSlice)
    (hi : i < viewLen s.mem h) (hu : Arc.is_unique s.mem h = false) :
    (step s (.writeSlot src i v)).2.status = "panic:not-unique" ∧
    (step s (.writeSlot src i v)).1.mem.blocks = s.mem.blocks ∧
    (step s (.writeSlot src i v)).1.slots = s.slots := by
  rcases hty with hty | hty <;> simp [step, hs, hk, hty, hi, hu, panicked, Mem.emit]

/-- **over histories**: the header of an uninitialised handle, and after `assume_init` every element,
is destroyed at most once — no value is ever destroyed twice along any history, whatever subset of
slots was written and wherever the handle was dropped -/
theorem C15_destroyed_at_most_once (ops : List Op) (h : FreshIds ops) : (dropIds (run ops).mem.log).Nodup :=
  drop_at_most_once ops h

/-- a written slot that is never assumed initialised is simply forgotten: what a still-live block
stores (e.g. after other handles dropped through uninitialised views) has not been destroyed -/
theorem C15_written_not_destroyed_while_live (ops : List Op) (h : FreshIds ops) (b : Nat) (k : Block)
    (hk : (run ops).mem.blocks[b]? = some k) (hl : k.live = true) :
    ∀ i, i ∈ k.ids → i ∉ dropIds (run ops).mem.log :=
  live_values_not_destroyed ops h b k hk hl

/-- `assume_init` over histories: allocation, contents and count are untouched (the op changes only
the slot's type tag) and the count still equals the number of owners afterwards -/
theorem C15_assume_init_over_histories (ops : List Op) (src : Nat) (h h' : HV)
    (hs : lookup (run ops) src = some h) (hc : runConv (run ops).mem h .assumeInit = some h') :
    (step (run ops) (.conv src .assumeInit)).1.mem = (run ops).mem ∧ h'.blk = h.blk ∧
    Inv (step (run ops) (.conv src .assumeInit)).1 :=
  ⟨C15_step_assume_init _ src h h' hs hc, (C15_assume_init_is_cast _ h h' hc).1, inv_step _ _ (inv_run ops)⟩

end C15
end M1
