import TriompheModel.Props.Gates
import TriompheModel.WM.ExGateRelaxed
/-!
# C03, schedule half — mutable access is ordered after all former sharers

For every API that grants mutable access on the basis of uniqueness, the translator resolves the
call chain down to the count load; the obligations below say each of them is gated by an Acquire load
compared with 1.  `C03_exclusive_after_verdict` is then the weak-memory theorem
`WM.unique_verdict_exclusive` at those generated facts.
-/
open Facts WM Gates
namespace C03

theorem obl_gate_is_unique : gateOk "Arc::is_unique" = true := by decide
theorem obl_gate_get_mut : gateOk "Arc::get_mut" = true := by decide
theorem obl_gate_get_unique : gateOk "Arc::get_unique" = true := by decide
theorem obl_gate_try_unique : gateOk "Arc::try_unique" = true := by decide
theorem obl_gate_try_as_unique : gateOk "Arc::try_as_unique" = true := by decide
theorem obl_gate_try_unwrap : gateOk "Arc::try_unwrap" = true := by decide
theorem obl_gate_try_from : gateOk "UniqueArc::try_from" = true := by decide
theorem obl_gate_make_mut : gateOk "Arc::make_mut" = true := by decide
theorem obl_gate_make_unique : gateOk "Arc::make_unique" = true := by decide
theorem obl_gate_write : gateOk "Arc::write" = true := by decide
theorem obl_gate_as_mut_slice : gateOk "Arc::as_mut_slice" = true := by decide
theorem obl_gate_must_be_unique : gateOk "must_be_unique" = true := by decide
theorem obl_verdict_is_eq_one : Generated.isUniqueGuard = ⟨.eq, some 1⟩ := Gates.obl_verdict_is_eq_one
theorem obl_dec_release : Generated.decOrd.isRel = true := Gates.obl_dec_release
theorem obl_no_weak_gate : Generated.gates.all (fun g => g.loads.all (·.isAcq)) = true := Gates.obl_no_weak_gate

variable {X : CountExec} {fenceOrd : Option MemOrd}

/-- **C03 (schedules).**  In every consistent execution, when `get_mut` (and likewise every gate
above) sees the count 1 through handle `h`, every access other threads made through handles they
have since released happens-before the gate's load, so before the mutable access it grants: two
threads never access the value concurrently with one of them writing. -/
theorem C03_exclusive_after_verdict (hc : Consistent X) (hp : Protocol X Generated.decOrd fenceOrd)
    (hrw : CoRW X) (hvb : ViaBorn X) {l : X.A} {h : H} {o : MemOrd} {rf : Option Nat}
    (hl : X.kind l = .load h o rf)
    (ho : ∀ g ∈ Generated.gates, g.name = "Arc::get_mut" → o ∈ g.loads)
    (hone : valRead X.ops rf = 1) :
    ∀ (a : X.A) (h' : H), (X.kind a).via = some h' → h' ≠ h →
      (h' = 0 ∨ ∃ j, rf = some j ∧ h' ∈ kids (X.ops.take (j+1))) → X.hb (.oth a) (.oth l) :=
  exclusive_after_verdict obl_gate_get_mut hc hp hrw hvb hl ho hone

/-- the same for any named gate whose obligation holds -/
theorem C03_exclusive_after_verdict_any {name : String} (hg : gateOk name = true)
    (hc : Consistent X) (hp : Protocol X Generated.decOrd fenceOrd)
    (hrw : CoRW X) (hvb : ViaBorn X) {l : X.A} {h : H} {o : MemOrd} {rf : Option Nat}
    (hl : X.kind l = .load h o rf) (ho : ∀ g ∈ Generated.gates, g.name = name → o ∈ g.loads)
    (hone : valRead X.ops rf = 1) :
    ∀ (a : X.A) (h' : H), (X.kind a).via = some h' → h' ≠ h →
      (h' = 0 ∨ ∃ j, rf = some j ∧ h' ∈ kids (X.ops.take (j+1))) → X.hb (.oth a) (.oth l) :=
  exclusive_after_verdict hg hc hp hrw hvb hl ho hone

/-- **C03 (schedules), both directions.**  No access through any other handle is concurrent with the
write a successful gate grants: former sharers' accesses happen-before it (`C03_exclusive_after_verdict`),
and every handle that comes into existence afterwards descends from the gate's own handle and is
born after the write (`WM.later_births_after_write`), so its accesses happen-after it. -/
theorem C03_no_concurrent_access {name : String} (hg : gateOk name = true)
    (hc : Consistent X) (hp : Protocol X Generated.decOrd fenceOrd)
    (hrw : CoRW X) (hvb : ViaBorn X) {l w : X.A} {h : H} {o : MemOrd} {rf : Option Nat}
    (hl : X.kind l = .load h o rf) (ho : ∀ g ∈ Generated.gates, g.name = name → o ∈ g.loads)
    (hone : valRead X.ops rf = 1) (hlw : X.hb (.oth l) (.oth w)) (hex : MutExcl X l w h) :
    ∀ (a : X.A) (h' : H), (X.kind a).via = some h' → h' ≠ h →
      X.hb (.oth a) (.oth w) ∨ X.hb (.oth w) (.oth a) :=
  no_concurrent_access_after_verdict hg hc hp hrw hvb hl ho hone hlw hex

/-- later sharers: a handle created beyond the point the gate's load read from sees the write -/
theorem C03_later_sharers_after_write (hc : Consistent X) (hp : Protocol X Generated.decOrd fenceOrd)
    (hrw : CoRW X) (hvb : ViaBorn X) {l w : X.A} {h : H} {o : MemOrd} {rf : Option Nat}
    (hl : X.kind l = .load h o rf) (hone : valRead X.ops rf = 1) (hex : MutExcl X l w h) :
    ∀ (a : X.A) (h' : H), (X.kind a).via = some h' → h' ≠ 0 →
      (∀ i s, X.ops[i]? = some (Op.inc h' s) → Beyond rf i) → X.hb (.oth w) (.oth a) :=
  later_sharers_after_write hc hp hrw hvb hl hone hex

/-- non-vacuity: the concrete two-thread execution of `WM/ExampleConsume.lean` (clone, hand over,
read ‖ —, drop, acquire gate load reading 1) meets every hypothesis -/
example : ExC.exX.hb (.oth (0 : ExC.EA)) (.oth (1 : ExC.EA)) :=
  unique_verdict_exclusive ExC.ex_consistent ExC.ex_protocol ExC.ex_corw ExC.ex_viaborn rfl
    (l := (1 : ExC.EA)) rfl rfl (by decide) (0 : ExC.EA) 1 rfl (by decide) (Or.inr ⟨1, rfl, by decide⟩)

/-- Necessity of the Acquire in the gate (model-level witness printed in replay files): a Relaxed gate
load may read 1 while another thread's payload access is unordered with it. -/
theorem C03_acquire_needed :
    Consistent ExGateRelaxed.exX ∧ Protocol ExGateRelaxed.exX .release (some .acquire) ∧
    CoRW ExGateRelaxed.exX ∧ ViaBorn ExGateRelaxed.exX ∧
    valRead ExGateRelaxed.exX.ops (some 1) = 1 ∧
    ¬ ExGateRelaxed.exX.hb (.oth (0 : ExGateRelaxed.EA)) (.oth (1 : ExGateRelaxed.EA)) :=
  ⟨ExGateRelaxed.ex_consistent, ExGateRelaxed.ex_protocol, ExGateRelaxed.ex_corw, ExGateRelaxed.ex_viaborn,
   ExGateRelaxed.gate_acquire_needed.1, ExGateRelaxed.gate_acquire_needed.2.1⟩

end C03
