import TriompheModel.Proofs.Layout
/-!
# C12 (arithmetic half) — bit 0 of every data address is free; tag / untag

`ArcUnion` stores `Arc::into_raw(a)` for the first variant and `Arc::into_raw(b) | 1` for the
second, tests `word & 1`, and strips the tag with `word & !1`.  That is sound iff every data
address is even — for *every* payload type, including byte-aligned and zero-sized ones.
The history half (typed clone/drop on the right block) lives in `Props/C12.lean` of the lead.
-/
namespace LY
namespace C12

variable {bits k : Nat} {p : Layout} {e : Nat}

/-- **bit 0 is free**: for every payload alignment `2^e` (incl. 1), every payload size (incl. 0),
every word width `8·2^k` (`k ≥ 1`), and every block address aligned as requested, the data
address is even -/
theorem C12_data_addr_even (hb : WordBits bits k) (hp : p.AlignIs e) {base : Nat}
    (hbase : (arcInnerLayout bits p).1.align ∣ base) :
    (base + (arcInnerLayout bits p).2) % 2 = 0 := by
  have h1 : 2 ∣ base := Nat.dvd_trans (block_align_even hb hp) hbase
  have h2 : 2 ∣ (arcInnerLayout bits p).2 := dataOff_even hb hp
  exact Nat.mod_eq_zero_of_dvd ((Nat.dvd_add_right h1).mpr h2)

/-- the same through the accessor `ArcUnion::from_*` actually calls (`Arc::into_raw`) and for the
three real widths -/
theorem C12_into_raw_even (hbits : bits = 16 ∨ bits = 32 ∨ bits = 64) (hp : p.AlignIs e) {base : Nat}
    (hbase : (arcInnerLayout bits p).1.align ∣ base) : intoRaw bits base p % 2 = 0 := by
  obtain ⟨k, hb⟩ : ∃ k, WordBits bits k := by
    rcases hbits with rfl | rfl | rfl
    · exact ⟨1, wordBits16⟩
    · exact ⟨2, wordBits32⟩
    · exact ⟨3, wordBits64⟩
  exact C12_data_addr_even hb hp hbase

theorem tagSecond_even {x : Nat} (hx : x % 2 = 0) : tagSecond x = x + 1 := by
  unfold tagSecond
  have h1 : (x ||| 1) % 2 = 1 := Nat.or_mod_two_eq_one.mpr (Or.inr rfl)
  have h2 : (x ||| 1) / 2 = x / 2 := by rw [Nat.or_div_two]; simp
  have h3 := Nat.div_add_mod (x ||| 1) 2
  have h4 := Nat.div_add_mod x 2
  omega

/-- Rust's `word & !1` is `word - (word & 1)`, which is the model's `untag` -/
theorem untag_eq_clear_bit0 (x : Nat) : untag x = x - (x &&& 1) := by
  unfold untag
  rw [Nat.and_one_is_mod]
  have := Nat.div_add_mod x 2
  omega

/-- **the variant is remembered**: for an even data address, `is_first` answers `true` on the
first-variant word and `false` on the second-variant word -/
theorem C12_variant_remembered {x : Nat} (hx : x % 2 = 0) :
    isFirst (unionFromFirst x) = true ∧ isFirst (unionFromSecond x) = false := by
  unfold unionFromFirst unionFromSecond isFirst
  rw [tagSecond_even hx]
  constructor
  · simp [hx]
  · have : (x + 1) % 2 = 1 := by omega
    simp [this]

/-- **untag ∘ tag = id** on even addresses, and `untag` is the identity on them -/
theorem C12_untag_tag {x : Nat} (hx : x % 2 = 0) : untag (tagSecond x) = x ∧ untag x = x := by
  rw [tagSecond_even hx]
  unfold untag
  have := Nat.div_add_mod x 2
  have := Nat.div_add_mod (x + 1) 2
  constructor <;> omega

/-- `borrow` hands `ArcBorrow::from_ptr` the original data address, with the right variant -/
theorem C12_borrow_recovers {x : Nat} (hx : x % 2 = 0) :
    unionBorrow (unionFromFirst x) = (true, x) ∧ unionBorrow (unionFromSecond x) = (false, x) := by
  obtain ⟨h1, h2⟩ := C12_variant_remembered hx
  unfold unionBorrow
  rw [h1, h2]
  simp only [if_true, Bool.false_eq_true, if_false]
  exact ⟨rfl, by unfold unionFromSecond; rw [(C12_untag_tag hx).1]⟩

/-- words of different variants are never equal (so `ptr_eq` across variants is `false`), and the
word determines the address -/
theorem C12_words_distinct {x y : Nat} (hx : x % 2 = 0) (hy : y % 2 = 0) :
    unionFromFirst x ≠ unionFromSecond y ∧
    (unionFromSecond x = unionFromSecond y → x = y) := by
  unfold unionFromFirst unionFromSecond
  rw [tagSecond_even hy, tagSecond_even hx]
  constructor <;> omega

/-- why evenness is needed: on an odd address the tag is lost (`from_first` of an odd address
would read back as the second variant, at another address) -/
theorem C12_odd_breaks : isFirst (unionFromFirst 4105) = false ∧ (unionBorrow (unionFromFirst 4105)).2 = 4104 := by
  decide

/-! ### non-vacuity -/

-- byte-aligned, zero-sized, odd-sized and over-aligned payloads, 16/32/64-bit words
example : (4096 + (arcInnerLayout 64 ⟨0, 1⟩).2) % 2 = 0 := by decide
example : (4096 + (arcInnerLayout 64 ⟨3, 1⟩).2) % 2 = 0 := by decide
example : (4096 + (arcInnerLayout 64 ⟨64, 64⟩).2) % 2 = 0 := by decide
example : (4098 + (arcInnerLayout 16 ⟨1, 1⟩).2) % 2 = 0 ∧ (arcInnerLayout 16 ⟨1, 1⟩).1.align = 2 := by decide
example : (4100 + (arcInnerLayout 32 ⟨0, 1⟩).2) % 2 = 0 ∧ (arcInnerLayout 32 ⟨0, 1⟩).1.align = 4 := by decide
-- a hypothetical 8-bit word (k = 0, excluded by WordBits) would give odd data addresses
example : (4096 + (arcInnerLayout 8 ⟨1, 1⟩).2) % 2 = 1 ∧ (arcInnerLayout 8 ⟨1, 1⟩).1.align ∣ 4096 ∧ ¬ WordBits 8 0 := by decide
-- the hypotheses of C12_data_addr_even are satisfiable by non-trivial shapes
example : (⟨3, 1⟩ : Layout).AlignIs 0 ∧ (⟨0, 32⟩ : Layout).AlignIs 5 ∧ WordBits 16 1 ∧ WordBits 32 2 ∧ WordBits 64 3 ∧
    (arcInnerLayout 16 ⟨3, 1⟩).1.align ∣ 4098 ∧ (arcInnerLayout 64 ⟨0, 32⟩).1.align ∣ 4096 := by decide
example : unionFromSecond 4104 = 4105 ∧ unionBorrow 4105 = (false, 4104) ∧ unionBorrow 4104 = (true, 4104) := by decide

end C12
end LY
