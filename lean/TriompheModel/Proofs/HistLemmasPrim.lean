import TriompheModel.Proofs.HistLemmas
/-!
# Helper lemmas, part 2: the invariant in pointwise form and its primitive transitions

`InvC c sl` is the invariant stated over the core view `c` of memory and the slot list `sl`.
Every op of the machine is a composition of the primitive transitions proved here:
acquire, release, retag, allocate-and-put, allocate-junk, redirect, replace.
-/
namespace M1

/-- what the invariant demands of one block whose core is `v` and which has `n` owners -/
def Good (v : Option Core) (n : Nat) : Prop :=
  ∀ c lv lk, v = some (c, lv, lk) →
    (lv = true → lk = false → c = n ∧ 0 < c) ∧ (lv = false → n = 0) ∧ (lk = true → n = 0)

theorem Good_none (n : Nat) : Good none n := by
  intro c lv lk h; cases h

theorem Good_live {c n : Nat} (h1 : c = n) (h2 : 0 < c) : Good (some (c, true, false)) n := by
  intro c' lv lk h
  simp only [Option.some.injEq, Prod.mk.injEq] at h
  obtain ⟨rfl, rfl, rfl⟩ := h
  simp [h1]; omega

theorem Good_junk {c : Nat} {lv lk : Bool} (h : lv = false ∨ lk = true) : Good (some (c, lv, lk)) 0 := by
  intro c' lv' lk' h'
  simp only [Option.some.injEq, Prod.mk.injEq] at h'
  obtain ⟨rfl, rfl, rfl⟩ := h'
  rcases h with h | h <;> simp [h]

theorem Good_owned {v : Option Core} {n : Nat} (hg : Good v n) (hn : 0 < n) (hv : v ≠ none) :
    v = some (n, true, false) := by
  cases v with
  | none => exact absurd rfl hv
  | some x =>
    obtain ⟨c, lv, lk⟩ := x
    obtain ⟨h1, h2, h3⟩ := hg c lv lk rfl
    cases lv with
    | false => have := h2 rfl; omega
    | true =>
      cases lk with
      | true => have := h3 rfl; omega
      | false => have := h1 rfl rfl; simp [this.1]

structure InvC (c : Nat → Option Core) (sl : Slots) : Prop where
  good : ∀ b, Good (c b) (ownersL sl b)
  inb : ∀ e, e ∈ sl → c e.2.blk ≠ none
  keys : (sl.map (·.1)).Nodup
  uniq : ∀ e, e ∈ sl → e.2.kind = .uniq → ownersL sl e.2.blk = 1

namespace InvC
variable {c : Nat → Option Core} {sl : Slots}

/-- a block referred to by a slot is live, not abandoned, and its count is its number of owners -/
theorem owned (hi : InvC c sl) {e : Nat × HV} (he : e ∈ sl) :
    c e.2.blk = some (ownersL sl e.2.blk, true, false) :=
  Good_owned (hi.good _) (ownersL_pos he) (hi.inb e he)

theorem fresh_unowned (hi : InvC c sl) {n : Nat} (hn : c n = none) : ∀ e ∈ sl, e.2.blk ≠ n := by
  intro e he heq
  exact hi.inb e he (heq ▸ hn)

theorem init : InvC (fun _ => none) [] where
  good := fun _ => Good_none _
  inb := fun e he => by cases he
  keys := by simp
  uniq := fun e he => by cases he

/-- `fetch_add` on a block some non-unique slot already refers to, plus one new (non-unique) owner -/
theorem acquire (hi : InvC c sl) {dst b : Nat} {h : HV} {e0 : Nat × HV}
    (hdst : ∀ e ∈ sl, e.1 ≠ dst) (he0 : e0 ∈ sl) (hb0 : e0.2.blk = b) (hk0 : e0.2.kind ≠ .uniq)
    (hb : h.blk = b) (hk : h.kind ≠ .uniq) :
    InvC (setAt c b ((c b).map incC)) ((dst, h) :: sl) := by
  have hcb : c b = some (ownersL sl b, true, false) := hb0 ▸ hi.owned he0
  have hpos : 0 < ownersL sl b := hb0 ▸ ownersL_pos he0
  refine ⟨?_, ?_, ?_, ?_⟩
  · intro j
    rw [ownersL_cons]
    by_cases hj : j = b
    · subst hj
      simp only [setAt_same, hcb, Option.map_some, incC, hb, if_true]
      exact Good_live rfl (by omega)
    · rw [setAt_ne _ _ hj]
      have : ¬ h.blk = j := fun e => hj (e.symm.trans hb)
      simp only [this, if_false, Nat.add_zero]
      exact hi.good j
  · intro e he
    have hne : ∀ x, c x ≠ none → setAt c b ((c b).map incC) x ≠ none := by
      intro x hx
      by_cases hxb : x = b
      · subst hxb; simp [hcb]
      · rw [setAt_ne _ _ hxb]; exact hx
    rcases List.mem_cons.1 he with rfl | he
    · apply hne; simp only [hb, hcb]; simp
    · exact hne _ (hi.inb e he)
  · simp only [List.map_cons, List.nodup_cons, List.mem_map, not_exists, not_and]
    exact ⟨fun x hx hxe => hdst x hx hxe, hi.keys⟩
  · intro e he hu
    rcases List.mem_cons.1 he with rfl | he
    · exact absurd hu hk
    · rw [ownersL_cons]
      have h1 := hi.uniq e he hu
      have : ¬ h.blk = e.2.blk := by
        intro heq
        have := ownersL_one_unique h1 he rfl he0 (by rw [hb0, ← hb, heq])
        subst this
        exact hk0 hu
      simp only [this, if_false]; omega

/-- `drop_inner` on the block of a slot, and that slot emptied -/
theorem release (hi : InvC c sl) {src : Nat} {h : HV} (hm : (src, h) ∈ sl) :
    InvC (setAt c h.blk ((c h.blk).map decC)) (delL sl src) := by
  have hcb : c h.blk = some (ownersL sl h.blk, true, false) := hi.owned hm
  have hpos : 0 < ownersL sl h.blk := ownersL_pos hm
  have hdel := ownersL_del hi.keys hm
  refine ⟨?_, ?_, keys_delL hi.keys src, ?_⟩
  · intro j
    have hd := hdel j
    by_cases hj : j = h.blk
    · subst hj
      simp only [if_true] at hd
      simp only [setAt_same, hcb, Option.map_some, decC]
      by_cases h1 : ownersL sl h.blk = 1
      · simp only [h1, if_true]
        have : ownersL (delL sl src) h.blk = 0 := by omega
        rw [this]; exact Good_junk (Or.inl rfl)
      · simp only [h1, if_false]
        exact Good_live (by omega) (by omega)
    · rw [setAt_ne _ _ hj]
      have : ¬ h.blk = j := fun e => hj e.symm
      simp only [this, if_false, Nat.add_zero] at hd
      rw [hd]; exact hi.good j
  · intro e he
    have he' := (mem_delL.1 he).1
    by_cases hxb : e.2.blk = h.blk
    · rw [hxb]; simp [hcb]
    · rw [setAt_ne _ _ hxb]; exact hi.inb e he'
  · intro e he hu
    obtain ⟨he', hne⟩ := mem_delL.1 he
    have h1 := hi.uniq e he' hu
    have hd := hdel e.2.blk
    have : ¬ h.blk = e.2.blk := by
      intro heq
      have := ownersL_one_unique h1 he' rfl hm heq
      subst this
      exact hne rfl
    simp only [this, if_false, Nat.add_zero] at hd
    omega

/-- the handle in a slot is replaced by another handle to the same block -/
theorem retag (hi : InvC c sl) {src : Nat} {h h' : HV} (hm : (src, h) ∈ sl) (hb : h'.blk = h.blk)
    (hu : h'.kind = .uniq → ownersL sl h.blk = 1) :
    InvC c (setL sl src h') := by
  have hset : ∀ j, ownersL (setL sl src h') j = ownersL sl j := by
    intro j
    have := ownersL_set (h' := h') hi.keys hm j
    rw [hb] at this; omega
  refine ⟨?_, ?_, ?_, ?_⟩
  · intro j; rw [hset]; exact hi.good j
  · intro e he
    rcases mem_setL he with ⟨he', _⟩ | ⟨rfl, _⟩
    · exact hi.inb e he'
    · simp only [hb]; exact hi.inb _ hm
  · rw [keys_setL]; exact hi.keys
  · intro e he hk
    rw [hset]
    rcases mem_setL he with ⟨he', _⟩ | ⟨rfl, _⟩
    · exact hi.uniq e he' hk
    · simp only [hb]; exact hu hk

/-- a fresh block with count 1 and one new slot referring to it -/
theorem alloc_put (hi : InvC c sl) {dst n : Nat} {h : HV} (hn : c n = none)
    (hdst : ∀ e ∈ sl, e.1 ≠ dst) (hb : h.blk = n) :
    InvC (setAt c n (some (1, true, false))) ((dst, h) :: sl) := by
  have hfr := hi.fresh_unowned hn
  have h0 : ownersL sl n = 0 := ownersL_eq_zero hfr
  refine ⟨?_, ?_, ?_, ?_⟩
  · intro j
    rw [ownersL_cons]
    by_cases hj : j = n
    · subst hj
      simp only [setAt_same, hb, if_true, h0]
      exact Good_live rfl (by omega)
    · rw [setAt_ne _ _ hj]
      have : ¬ h.blk = j := fun e => hj (e.symm.trans hb)
      simp only [this, if_false, Nat.add_zero]
      exact hi.good j
  · intro e he
    rcases List.mem_cons.1 he with rfl | he
    · simp [hb]
    · rw [setAt_ne _ _ (hfr e he)]; exact hi.inb e he
  · simp only [List.map_cons, List.nodup_cons, List.mem_map, not_exists, not_and]
    exact ⟨fun x hx hxe => hdst x hx hxe, hi.keys⟩
  · intro e he hu
    rw [ownersL_cons]
    rcases List.mem_cons.1 he with rfl | he
    · simp only [hb, if_true, h0]
    · have : ¬ h.blk = e.2.blk := fun heq => hfr e he (heq.symm.trans hb)
      simp only [this, if_false, Nat.add_zero]
      exact hi.uniq e he hu

/-- a fresh block that is dead or abandoned, no slot refers to it -/
theorem alloc_junk (hi : InvC c sl) {n x : Nat} {lv lk : Bool} (hn : c n = none)
    (hj : lv = false ∨ lk = true) :
    InvC (setAt c n (some (x, lv, lk))) sl := by
  have hfr := hi.fresh_unowned hn
  have h0 : ownersL sl n = 0 := ownersL_eq_zero hfr
  refine ⟨?_, ?_, hi.keys, hi.uniq⟩
  · intro j
    by_cases hjn : j = n
    · subst hjn
      simp only [setAt_same, h0]
      exact Good_junk hj
    · rw [setAt_ne _ _ hjn]; exact hi.good j
  · intro e he
    rw [setAt_ne _ _ (hfr e he)]; exact hi.inb e he

/-- `*this = Arc::new(..)`: a fresh block, the slot's handle redirected to it, one `drop_inner` on
the block it referred to before -/
theorem redirect (hi : InvC c sl) {src n : Nat} {h h' : HV} (hm : (src, h) ∈ sl) (hn : c n = none)
    (hb : h'.blk = n) :
    InvC (setAt (setAt c n (some (1, true, false))) h.blk ((c h.blk).map decC)) (setL sl src h') := by
  have hfr := hi.fresh_unowned hn
  have h0 : ownersL sl n = 0 := ownersL_eq_zero hfr
  have hcb : c h.blk = some (ownersL sl h.blk, true, false) := hi.owned hm
  have hpos : 0 < ownersL sl h.blk := ownersL_pos hm
  have hne : h.blk ≠ n := hfr _ hm
  have hset := ownersL_set (h' := h') hi.keys hm
  refine ⟨?_, ?_, ?_, ?_⟩
  · intro j
    have hd := hset j
    by_cases hj : j = h.blk
    · subst hj
      have : ¬ h'.blk = h.blk := fun e => hne (e.symm.trans hb)
      simp only [if_true, this, if_false] at hd
      simp only [setAt_same, hcb, Option.map_some, decC]
      by_cases h1 : ownersL sl h.blk = 1
      · simp only [h1, if_true]
        have : ownersL (setL sl src h') h.blk = 0 := by omega
        rw [this]; exact Good_junk (Or.inl rfl)
      · simp only [h1, if_false]
        exact Good_live (by omega) (by omega)
    · rw [setAt_ne _ _ hj]
      have h2 : ¬ h.blk = j := fun e => hj e.symm
      by_cases hjn : j = n
      · subst hjn
        simp only [h2, hb, if_true, if_false, h0] at hd
        simp only [setAt_same]
        exact Good_live (by omega) (by omega)
      · rw [setAt_ne _ _ hjn]
        have h3 : ¬ h'.blk = j := fun e => hjn (e.symm.trans hb)
        simp only [h2, h3, if_false, Nat.add_zero] at hd
        rw [hd]; exact hi.good j
  · intro e he
    have key : ∀ x, (x = n ∨ c x ≠ none) →
        setAt (setAt c n (some (1, true, false))) h.blk ((c h.blk).map decC) x ≠ none := by
      intro x hx
      by_cases hxb : x = h.blk
      · subst hxb; simp [hcb]
      · rw [setAt_ne _ _ hxb]
        by_cases hxn : x = n
        · subst hxn; simp
        · rw [setAt_ne _ _ hxn]; rcases hx with hx | hx
          · exact absurd hx hxn
          · exact hx
    rcases mem_setL he with ⟨he', _⟩ | ⟨rfl, _⟩
    · exact key _ (Or.inr (hi.inb e he'))
    · exact key _ (Or.inl hb)
  · rw [keys_setL]; exact hi.keys
  · intro e he hk
    have hd := hset e.2.blk
    rcases mem_setL he with ⟨he', hne'⟩ | ⟨rfl, _⟩
    · have h1 := hi.uniq e he' hk
      have h2 : ¬ h.blk = e.2.blk := by
        intro heq
        have := ownersL_one_unique h1 he' rfl hm heq
        subst this
        exact hne' rfl
      have h3 : ¬ h'.blk = e.2.blk := fun heq => hfr e he' (heq.symm.trans hb)
      simp only [h2, h3, if_false, Nat.add_zero] at hd
      omega
    · simp only [hb] at hd ⊢
      simp only [hne, if_true, if_false, h0] at hd
      omega

/-- `with_arc_mut(|a| *a = <thin taken out of slot k>)`: slot `k` emptied, slot `src` now refers to
`k`'s block, one `drop_inner` on the block `src` referred to before -/
theorem replace (hi : InvC c sl) {src k : Nat} {hs h2 h' : HV} (hms : (src, hs) ∈ sl)
    (hmk : (k, h2) ∈ sl) (hne : k ≠ src) (hb : h'.blk = h2.blk) (hk' : h'.kind ≠ .uniq) :
    InvC (setAt c hs.blk ((c hs.blk).map decC)) (setL (delL sl k) src h') := by
  have hcb : c hs.blk = some (ownersL sl hs.blk, true, false) := hi.owned hms
  have hpos : 0 < ownersL sl hs.blk := ownersL_pos hms
  have hkd := keys_delL hi.keys k
  have hms' : (src, hs) ∈ delL sl k := mem_delL.2 ⟨hms, fun e => hne e.symm⟩
  have hdel := ownersL_del hi.keys hmk
  have hset := ownersL_set (h' := h') hkd hms'
  have how : ∀ j, ownersL (setL (delL sl k) src h') j + (if hs.blk = j then 1 else 0) = ownersL sl j := by
    intro j
    have h1 := hdel j
    have h2' := hset j
    rw [hb] at h2'
    omega
  refine ⟨?_, ?_, ?_, ?_⟩
  · intro j
    have hd := how j
    by_cases hj : j = hs.blk
    · subst hj
      simp only [if_true] at hd
      simp only [setAt_same, hcb, Option.map_some, decC]
      by_cases h1 : ownersL sl hs.blk = 1
      · simp only [h1, if_true]
        have : ownersL (setL (delL sl k) src h') hs.blk = 0 := by omega
        rw [this]; exact Good_junk (Or.inl rfl)
      · simp only [h1, if_false]
        exact Good_live (by omega) (by omega)
    · rw [setAt_ne _ _ hj]
      have : ¬ hs.blk = j := fun e => hj e.symm
      simp only [this, if_false, Nat.add_zero] at hd
      rw [hd]; exact hi.good j
  · intro e he
    have key : ∀ x, c x ≠ none → setAt c hs.blk ((c hs.blk).map decC) x ≠ none := by
      intro x hx
      by_cases hxb : x = hs.blk
      · subst hxb; simp [hcb]
      · rw [setAt_ne _ _ hxb]; exact hx
    rcases mem_setL he with ⟨he', _⟩ | ⟨rfl, _⟩
    · exact key _ (hi.inb e (mem_delL.1 he').1)
    · simp only [hb]; exact key _ (hi.inb _ hmk)
  · rw [keys_setL]; exact hkd
  · intro e he hk
    rcases mem_setL he with ⟨he', hne'⟩ | ⟨rfl, _⟩
    · obtain ⟨he'', _⟩ := mem_delL.1 he'
      have h1 := hi.uniq e he'' hk
      have hd := how e.2.blk
      have h2 : ¬ hs.blk = e.2.blk := by
        intro heq
        have := ownersL_one_unique h1 he'' rfl hms heq
        subst this
        exact hne' rfl
      simp only [h2, if_false, Nat.add_zero] at hd
      omega
    · exact absurd hk hk'

/-- two distinct slots exchange the blocks they refer to: every block keeps its number of owners -/
theorem _root_.M1.ownersL_swap {sl : Slots} (hkeys : (sl.map (·.1)).Nodup) {src k : Nat} {hs h2 hk' hs' : HV}
    (hms : (src, hs) ∈ sl) (hmk : (k, h2) ∈ sl) (hne : k ≠ src) (hbk : hk'.blk = hs.blk)
    (hbs : hs'.blk = h2.blk) (j : Nat) :
    ownersL (setL (setL sl k hk') src hs') j = ownersL sl j := by
  have hk1 : ((setL sl k hk').map (·.1)).Nodup := by rw [keys_setL]; exact hkeys
  have hms' : (src, hs) ∈ setL sl k hk' := mem_setL_of_ne hms (fun e => hne e.symm)
  have h1 := ownersL_set (h' := hk') hkeys hmk j
  have h2' := ownersL_set (h' := hs') hk1 hms' j
  rw [hbk] at h1
  rw [hbs] at h2'
  omega

/-- `with_arc_mut(|a| mem::swap(a, &mut <thin taken out of slot k>))`, the spare going back into
slot `k`: slots `k` and `src` exchange the blocks they refer to, no count changes -/
theorem swap (hi : InvC c sl) {src k : Nat} {hs h2 hk' hs' : HV} (hms : (src, hs) ∈ sl)
    (hmk : (k, h2) ∈ sl) (hne : k ≠ src) (hbk : hk'.blk = hs.blk) (hbs : hs'.blk = h2.blk)
    (hkk : hk'.kind ≠ .uniq) (hks : hs'.kind ≠ .uniq) :
    InvC c (setL (setL sl k hk') src hs') := by
  have hk1 : ((setL sl k hk').map (·.1)).Nodup := by rw [keys_setL]; exact hi.keys
  have how := ownersL_swap hi.keys hms hmk hne hbk hbs
  refine ⟨?_, ?_, ?_, ?_⟩
  · intro j; rw [how]; exact hi.good j
  · intro e he
    rcases mem_setL he with ⟨he', _⟩ | ⟨rfl, _⟩
    · rcases mem_setL he' with ⟨he'', _⟩ | ⟨rfl, _⟩
      · exact hi.inb e he''
      · simp only [hbk]; exact hi.inb _ hms
    · simp only [hbs]; exact hi.inb _ hmk
  · rw [keys_setL]; exact hk1
  · intro e he hu
    rw [how]
    rcases mem_setL he with ⟨he', _⟩ | ⟨rfl, _⟩
    · rcases mem_setL he' with ⟨he'', _⟩ | ⟨rfl, _⟩
      · exact hi.uniq e he'' hu
      · exact absurd hu hkk
    · exact absurd hu hks

end InvC

end M1
