"""C15 — uninitialised construction never destroys or exposes what was not written.

Deciding method: Lean theorems in Props/C15.lean over the sequential handle machine M1/M3 (invariant
`Inv` preserved by every op, by induction over histories of any length), tied to the code by the
history correspondence (Tie B): the same op lines run on the Lean driver and on the real library.
"""
from vlib import histcheck

MODULE = "TriompheModel.Props.C15"
EXTRA = []
TAGS = ['C15']
WEIGHTS = {'create': 20, 'writeSlot': 26, 'conv': 18, 'drop': 12, 'clone': 8, 'tryUnique': 6}


def run(ctx):
    histcheck.run(ctx, MODULE, WEIGHTS, TAGS, lean_extra=EXTRA)


def replay(ctx, path):
    histcheck.replay(ctx, path, TAGS)
