import TriompheModel.Props.C09
import TriompheModel.WM.OwnershipConsume
/-!
# C09 (schedule half) stated about PROGRAMS

`C09_one_winner`, `C09_moved_out_never_destroyed` and `C09_after_all_former_sharers` with `Protocol` and `ViaBorn` supplied by
`WM/Ownership.lean` for every run of the operational ownership semantics.  What is left as hypothesis is the memory-model
fragment (`Consistent`, `CoRW`) and `Consume` itself — the description of the unwrapping gate in the execution: an Acquire load
through `h` that read 1, after which `h` is never released (the gate forgets it) and before which every clone taken from `h`
was made (the gate takes `h` by value).  A run that has such a gate, with every hypothesis below discharged, is
`WM/OwnershipExUnwrap.lean` (`ExUnwrap.ex_consume`, `ExUnwrap.ex_not_destroyed`).
-/
open Facts WM WM.Own Gates
namespace C09

variable {fenceOrd : Option MemOrd} (r : Run Generated.decOrd fenceOrd)
variable {hb : Ev (Fin r.final.kinds.length) → Ev (Fin r.final.kinds.length) → Prop}

/-- **at most one winner, in every program**: two unwrapping gates that both succeed on the same allocation were called
through the same handle -/
theorem C09_one_winner_in_every_program
    (hpo : ∀ x y, (lift x, lift y) ∈ r.final.po → hb x y)
    (hsw : ∀ x y, (lift x, lift y) ∈ r.final.sw → hb x y)
    (htrans : ∀ x y z, hb x y → hb y z → hb x z)
    (hc : Consistent (execOf r.final hb)) (hrw : CoRW (execOf r.final hb))
    {l₁ l₂ : Fin r.final.kinds.length} {h₁ h₂ : H} {o₁ o₂ : MemOrd} {rf₁ rf₂ : Option Nat}
    (c₁ : Consume (execOf r.final hb) l₁ h₁ o₁ rf₁) (c₂ : Consume (execOf r.final hb) l₂ h₂ o₂ rf₂) : h₁ = h₂ :=
  C09_one_winner hc (protocol_of_run r hb hpo hsw htrans) hrw (viaBorn_of_run r hb hpo hsw htrans) c₁ c₂

/-- **moved out ⇒ never destroyed, in every program** -/
theorem C09_moved_out_never_destroyed_in_every_program
    (hpo : ∀ x y, (lift x, lift y) ∈ r.final.po → hb x y)
    (hsw : ∀ x y, (lift x, lift y) ∈ r.final.sw → hb x y)
    (htrans : ∀ x y z, hb x y → hb y z → hb x z)
    (hc : Consistent (execOf r.final hb)) (hrw : CoRW (execOf r.final hb))
    {l : Fin r.final.kinds.length} {h : H} {o : MemOrd} {rf : Option Nat}
    (c : Consume (execOf r.final hb) l h o rf) : ¬ ∃ f k, (execOf r.final hb).kind f = .destroy k :=
  C09_moved_out_never_destroyed hc (protocol_of_run r hb hpo hsw htrans) hrw (viaBorn_of_run r hb hpo hsw htrans) c

/-- **the move-out is ordered after every former sharer's accesses, in every program** -/
theorem C09_after_all_former_sharers_in_every_program
    (hpo : ∀ x y, (lift x, lift y) ∈ r.final.po → hb x y)
    (hsw : ∀ x y, (lift x, lift y) ∈ r.final.sw → hb x y)
    (htrans : ∀ x y z, hb x y → hb y z → hb x z)
    (hc : Consistent (execOf r.final hb)) (hrw : CoRW (execOf r.final hb))
    {l : Fin r.final.kinds.length} {h : H} {o : MemOrd} {rf : Option Nat}
    (c : Consume (execOf r.final hb) l h o rf) :
    ∀ (a : Fin r.final.kinds.length) (h' : H), ((execOf r.final hb).kind a).via = some h' → h' ≠ h →
      (h' = 0 ∨ ∃ j, rf = some j ∧ h' ∈ kids (r.final.ops.take (j+1))) → hb (.oth a) (.oth l) :=
  C09_after_all_former_sharers hc (protocol_of_run r hb hpo hsw htrans) hrw (viaBorn_of_run r hb hpo hsw htrans) c


/-! ## with `Consume` itself derived from the program (`WM/OwnershipConsume.lean`)

What is assumed about the unwrapping gate is now only what the *program* does: the gate `name` (all of whose loads are
Acquire in the source of this run, obligation `gateOk`) loaded the count through `h` and read 1; the program never drops `h`
(the gate forgets it after moving the value out) and issues no clone of `h` after the gate (the gate took `h` by value). -/

/-- the gate of such a program is a `Consume` -/
theorem consume_in_every_program {name : String} (hg : gateOk name = true)
    (hpo : ∀ x y, (lift x, lift y) ∈ r.final.po → hb x y)
    (hsw : ∀ x y, (lift x, lift y) ∈ r.final.sw → hb x y)
    (htrans : ∀ x y z, hb x y → hb y z → hb x z)
    {l : Fin r.final.kinds.length} {h : H} {o : MemOrd} {rf : Option Nat}
    (hl : (execOf r.final hb).kind l = .load h o rf)
    (ho : ∀ g ∈ Generated.gates, g.name = name → o ∈ g.loads)
    (hone : valRead r.final.ops rf = 1)
    (hkeep : ∀ m : Nat, r.final.ops[m]? ≠ some (Op.dec h))
    (hno : ∀ (i : Nat) (ch : H), r.final.ops[i]? = some (Op.inc ch h) → i < stamp r.final l) :
    Consume (execOf r.final hb) l h o rf := by
  obtain ⟨g, hgm, hn, _, hacq, _⟩ := acq_of_gateOk hg
  exact consume_of_run r hb hpo hsw htrans hl (hacq o (ho g hgm hn)) hone hkeep hno

/-- **C09 for every program**: the value a successful unwrapping gate moved out is never destroyed, every access any other
thread made through a handle that existed where the gate read from happens-before the gate's load, and no second gate
succeeds through another handle. -/
theorem C09_for_every_program {name : String} (hg : gateOk name = true)
    (hpo : ∀ x y, (lift x, lift y) ∈ r.final.po → hb x y)
    (hsw : ∀ x y, (lift x, lift y) ∈ r.final.sw → hb x y)
    (htrans : ∀ x y z, hb x y → hb y z → hb x z)
    (hc : Consistent (execOf r.final hb)) (hrw : CoRW (execOf r.final hb))
    {l : Fin r.final.kinds.length} {h : H} {o : MemOrd} {rf : Option Nat}
    (hl : (execOf r.final hb).kind l = .load h o rf)
    (ho : ∀ g ∈ Generated.gates, g.name = name → o ∈ g.loads)
    (hone : valRead r.final.ops rf = 1)
    (hkeep : ∀ m : Nat, r.final.ops[m]? ≠ some (Op.dec h))
    (hno : ∀ (i : Nat) (ch : H), r.final.ops[i]? = some (Op.inc ch h) → i < stamp r.final l) :
    (¬ ∃ f k, (execOf r.final hb).kind f = .destroy k) ∧
    (∀ (a : Fin r.final.kinds.length) (h' : H), ((execOf r.final hb).kind a).via = some h' → h' ≠ h →
      (h' = 0 ∨ ∃ j, rf = some j ∧ h' ∈ kids (r.final.ops.take (j+1))) → hb (.oth a) (.oth l)) ∧
    (∀ (l₂ : Fin r.final.kinds.length) (h₂ : H) (o₂ : MemOrd) (rf₂ : Option Nat),
      Consume (execOf r.final hb) l₂ h₂ o₂ rf₂ → h₂ = h) := by
  have c := consume_in_every_program r hg hpo hsw htrans hl ho hone hkeep hno
  exact ⟨C09_moved_out_never_destroyed_in_every_program r hpo hsw htrans hc hrw c,
    C09_after_all_former_sharers_in_every_program r hpo hsw htrans hc hrw c,
    fun l₂ h₂ o₂ rf₂ c₂ => C09_one_winner_in_every_program r hpo hsw htrans hc hrw c₂ c⟩

end C09
