//! C03 / C08 / C09: a SOLE owner is always granted — "succeeds if and only if no other owning handle exists".  One thread,
//! no sharing at the moment of the gate (a second thread held a clone earlier and released it): every uniqueness gate
//! must say "unique", on every run, whatever the platform lets an atomic operation do (a gate built on an operation
//! that may fail spuriously — a weak compare-exchange — declines a sole owner on LL/SC hardware and under Miri).
use litmus::*;
use std::convert::TryFrom;
use triomphe::{Arc, UniqueArc};

fn main() {
    let mut t = Tally::new();
    for r in 0..rounds(4) {
        let tag = 1200 + r as u64;
        let mut a = Arc::new(Payload::new(tag));
        t.shared(2);
        let b = a.clone();
        std::thread::scope(|s| {
            s.spawn(move || {
                b.read_expect(tag);
                drop(b);
            });
        });
        // the other owner is gone and its thread joined: `a` is the sole owner
        let c0 = clones();
        check(Arc::is_unique(&a), "is_unique declined a sole owner");
        check(Arc::get_mut(&mut a).is_some(), "get_mut declined a sole owner");
        check(Arc::get_unique(&mut a).is_some(), "get_unique declined a sole owner");
        let before = a.heap_ptr();
        Arc::make_mut(&mut a).rewrite(tag + 1);
        check(a.heap_ptr() == before && clones() == c0, "make_mut on a sole owner cloned / moved the value");
        Arc::make_unique(&mut a).rewrite(tag + 2);
        check(a.heap_ptr() == before && clones() == c0, "make_unique on a sole owner cloned / moved the value");
        let u = match Arc::try_unique(a) {
            Ok(u) => u,
            Err(_) => { check(false, "try_unique declined a sole owner"); unreachable!() }
        };
        let a = u.shareable();
        let u = match UniqueArc::try_from(a) {
            Ok(u) => u,
            Err(_) => { check(false, "TryFrom<Arc> for UniqueArc declined a sole owner"); unreachable!() }
        };
        let a = u.shareable();
        let a2 = a.clone();
        drop(a2);
        let v = match r % 2 {
            0 => match Arc::try_unwrap(a) {
                Ok(v) => v,
                Err(_) => { check(false, "try_unwrap declined a sole owner"); unreachable!() }
            },
            _ => Arc::unwrap_or_clone(a),
        };
        check(clones() == c0, "unwrap_or_clone cloned the value of a sole owner instead of moving it out");
        v.read_expect(tag + 2);
        drop(v);
    }
    t.finish();
}
