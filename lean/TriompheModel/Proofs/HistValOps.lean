import TriompheModel.Proofs.HistValStep
/-!
# The three ops that hand in new values, and the step theorem for `ValInvM`
(helper file 4 for `Proofs/HistVal.lean`)
-/
namespace M1
open LY

/-- the identities of all `Item`s an op mentions -/
def opIds : Op → List Nat
  | .create _ c => optId c.hdr ++ c.vals.map (·.id)
  | .iterCtor _ _ h sc => optId h ++ sc.items.map (·.id)
  | .writeSlot _ _ v => [v.id]
  | _ => []

def histIds (ops : List Op) : List Nat := ops.flatMap opIds

theorem opIds_plain {op : Op} (h : op.plain = true) : opIds op = [] := by
  cases op <;> first | rfl | cases h

theorem ctor_elemIds (c : Ctor) : elemIds c.elems = c.vals.map (·.id) := by
  cases c <;> simp [Ctor.elems, Ctor.takesValues, Ctor.vals, Ctor.slots, elemIds_map_some, elemIds_replicate_none] <;> rfl

theorem optId_hdrDrops (h : Option Item) : dropIds (hdrDrops h) = optId h := by
  cases h <;> rfl

theorem optId_hdrOf_sublist (w : IterCtor) (h : Option Item) : (optId (w.hdrOf h)).Sublist (optId h) := by
  cases w <;> first | exact List.Sublist.refl _ | exact List.nil_sublist _

theorem mem_elemIds {l : List (Option Item)} {i : Nat} (h : i ∈ elemIds l) : ∃ v : Item, some v ∈ l ∧ v.id = i := by
  simp only [elemIds, List.mem_filterMap] at h
  obtain ⟨e, he, hi⟩ := h
  cases e with
  | none => cases hi
  | some v => simp only [Option.map_some, Option.some.injEq] at hi; exact ⟨v, he, hi⟩

/-- an item before index `k` and an item from index `k` on have different identities -/
theorem take_drop_ids_ne {items : List Item} (hn : (items.map (·.id)).Nodup) {k : Nat} {a b : Item}
    (ha : a ∈ items.take k) (hb : b ∈ items.drop k) : a.id ≠ b.id := by
  rw [← List.take_append_drop k items, List.map_append, List.nodup_append] at hn
  exact hn.2.2 _ (List.mem_map_of_mem ha) _ (List.mem_map_of_mem hb)

/-- the blocks of a memory with one block appended -/
theorem append_get (bs : List Block) (k0 : Block) (j : Nat) (k : Block) (hk : (bs ++ [k0])[j]? = some k) :
    bs[j]? = some k ∨ (j = bs.length ∧ k = k0) := by
  rcases Nat.lt_or_ge j bs.length with hlt | hge
  · rw [List.getElem?_append_left hlt] at hk; exact Or.inl hk
  · rw [List.getElem?_append_right hge] at hk
    rcases Nat.eq_or_lt_of_le hge with h | h
    · rw [← h] at hk
      simp only [Nat.sub_self, List.getElem?_cons_zero, Option.some.injEq] at hk
      exact Or.inr ⟨h.symm, hk.symm⟩
    · rw [List.getElem?_eq_none (by simp; omega)] at hk; cases hk

section
variable {seen : List Nat} {s : State}

/-- what the step theorem assumes about the identities an op hands in -/
structure NewIds (seen : List Nat) (op : Op) : Prop where
  fresh : ∀ i, i ∈ opIds op → i ∉ seen ∧ i < cloneBase
  nodup : (opIds op).Nodup

theorem NewIds.seen_lt {op : Op} (hn : NewIds seen op) (hv : ValInvM seen s.mem) :
    ∀ i, i ∈ seen ++ opIds op → i < cloneBase := by
  intro i hi
  rcases List.mem_append.1 hi with h | h
  · exact hv.seen_lt i h
  · exact (hn.fresh i h).2

theorem ValInvM.widen {op : Op} (hv : ValInvM seen s.mem) (hn : NewIds seen op) :
    ValInvM (seen ++ opIds op) s.mem :=
  hv.weaken (fun _ h => List.mem_append_left _ h) (hn.seen_lt hv)

theorem ValInvM.fresh_op {op : Op} (hv : ValInvM seen s.mem) (hn : NewIds seen op) {i : Nat}
    (hi : i ∈ opIds op) : FreshIn (seen ++ opIds op) s.mem i :=
  hv.fresh_of_new (hn.fresh i hi).1 (hn.fresh i hi).2 (List.mem_append_right _ hi)

theorem val_create (hv : ValInvM seen s.mem) (dst : Nat) (c : Ctor) (hn : NewIds seen (.create dst c)) :
    ValInvM (seen ++ opIds (.create dst c)) (step s (.create dst c)).1.mem := by
  simp only [step]
  split
  · exact hv.widen hn
  · split
    · exact hv.widen hn
    · rename_i m h hc
      rw [runCtor_eq, Option.map_eq_some_iff] at hc
      obtain ⟨lay, _, he⟩ := hc
      cases he
      have hids : (⟨1, true, lay, c.hdr, c.recLen, c.elems, false⟩ : Block).ids = opIds (.create dst c) := by
        simp only [Block.ids, ctor_elemIds, opIds]
      refine (hv.widen hn).append_block _ _ rfl (fun h => by cases h) (fun _ _ => ?_) ?_
      · rw [hids]; exact hn.nodup
      · intro i hi; rw [hids] at hi; exact hv.fresh_op hn hi

theorem val_writeSlot (hv : ValInvM seen s.mem) (src i : Nat) (v : Item) (hn : NewIds seen (.writeSlot src i v)) :
    ValInvM (seen ++ opIds (.writeSlot src i v)) (step s (.writeSlot src i v)).1.mem := by
  have hfr : FreshIn (seen ++ opIds (.writeSlot src i v)) s.mem v.id :=
    hv.fresh_op hn (List.mem_singleton.2 rfl)
  simp only [step]
  split
  · split
    · split
      · simp only
        split
        · apply (hv.widen hn).emit_drops [Event.drop v.id] (by simp [dropIds, Event.dropId?])
          intro j hj
          simp only [dropIds, List.filterMap_cons, Event.dropId?, List.filterMap_nil, List.mem_singleton] at hj
          subst hj
          exact ⟨hfr.1, fun b k hk _ => hfr.2.1 b k hk, hfr.2.2⟩
        · exact hv.widen hn
      · exact (hv.widen hn).set_elem _ i v hfr
    · exact hv.widen hn
  · exact hv.widen hn

theorem val_iterCtor (hv : ValInvM seen s.mem) (dst : Nat) (w : IterCtor) (h : Option Item) (sc : IterScript)
    (hn : NewIds seen (.iterCtor dst w h sc)) :
    ValInvM (seen ++ opIds (.iterCtor dst w h sc)) (step s (.iterCtor dst w h sc)).1.mem := by
  have hw := hv.widen hn
  have hnd : (optId h ++ sc.items.map (·.id)).Nodup := hn.nodup
  have hitems : (sc.items.map (·.id)).Nodup := (List.nodup_append.1 hnd).2.1
  have hfr : ∀ i, i ∈ optId h ++ sc.items.map (·.id) → FreshIn (seen ++ opIds (.iterCtor dst w h sc)) s.mem i :=
    fun i hi => hv.fresh_op hn hi
  have hhdr : ∀ i, i ∈ optId (w.hdrOf h) → i ∈ optId h ++ sc.items.map (·.id) :=
    fun i hi => List.mem_append_left _ ((optId_hdrOf_sublist w h).subset hi)
  have hdropk : ∀ k i, i ∈ (sc.items.drop k).map (·.id) → i ∈ optId h ++ sc.items.map (·.id) := by
    intro k i hi
    obtain ⟨v, hv', rfl⟩ := List.mem_map.1 hi
    exact List.mem_append_right _ (List.mem_map_of_mem (List.mem_of_mem_drop hv'))
  have hdropn : ∀ k, ((sc.items.drop k).map (·.id)).Nodup := fun k =>
    List.Nodup.sublist ((List.drop_sublist k sc.items).map _) hitems
  simp only [step]
  split
  · exact hw
  · have hs := runIterCtor_spec s.mem true w h sc
    generalize runIterCtor s.mem true w h sc = r at hs
    cases hs with
    | built lay hal =>
      simp only
      refine hw.append_block _ _ rfl (fun h => by cases h) (fun _ _ => ?_) ?_
      · simp only [Block.ids, elemIds_map_some]
        exact List.Nodup.sublist (List.Sublist.append (optId_hdrOf_sublist w h) (List.Sublist.refl _)) hnd
      · intro i hi
        simp only [Block.ids, elemIds_map_some, List.mem_append] at hi
        rcases hi with hi | hi
        · exact hfr i (hhdr i hi)
        · exact hfr i (List.mem_append_right _ hi)
    | noBlock k cls =>
      simp only
      apply hw.emit_drops (dropsOf (sc.items.drop k))
      · rw [dropIds_dropsOf]; exact hdropn k
      · intro i hi
        rw [dropIds_dropsOf] at hi
        have := hfr i (hdropk k i hi)
        exact ⟨this.1, fun b kb hk _ => this.2.1 b kb hk, this.2.2⟩
    | noAlloc n hal =>
      -- the layout panic: all the items (the iterator) and then the header are destroyed — every
      -- value handed in, each once
      simp only
      have hD : dropIds (dropsOf sc.items ++ hdrDrops (w.hdrOf h)) =
          sc.items.map (·.id) ++ optId (w.hdrOf h) := by
        rw [dropIds_append, dropIds_dropsOf, optId_hdrDrops]
      have hsl : (sc.items.map (·.id) ++ optId (w.hdrOf h)).Sublist (sc.items.map (·.id) ++ optId h) :=
        List.Sublist.append (List.Sublist.refl _) (optId_hdrOf_sublist w h)
      have hperm : (sc.items.map (·.id) ++ optId h).Perm (optId h ++ sc.items.map (·.id)) :=
        List.perm_append_comm
      apply hw.emit_drops (dropsOf sc.items ++ hdrDrops (w.hdrOf h))
      · rw [hD]; exact (hperm.symm.nodup hnd).sublist hsl
      · intro i hi
        rw [hD] at hi
        have := hfr i (hperm.subset (hsl.subset hi))
        exact ⟨this.1, fun b kb hk _ => this.2.1 b kb hk, this.2.2⟩
    | leaked lay rl es k cls hes =>
      simp only
      have h1 : ValInvM (seen ++ opIds (.iterCtor dst w h sc))
          ⟨s.mem.blocks ++ [⟨1, true, lay, w.hdrOf h, rl, es, true⟩],
            s.mem.log ++ [Event.alloc s.mem.blocks.length lay.size lay.align], s.mem.nextClone⟩ := by
        refine hw.append_block _ _ rfl (fun h => by cases h) (fun _ h => by cases h) ?_
        intro i hi
        simp only [Block.ids, List.mem_append] at hi
        rcases hi with hi | hi
        · exact hfr i (hhdr i hi)
        · obtain ⟨v, hv', rfl⟩ := mem_elemIds hi
          exact hfr _ (List.mem_append_right _ (List.mem_map_of_mem (List.mem_of_mem_take (hes v hv'))))
      apply h1.emit_drops (dropsOf (sc.items.drop k))
      · rw [dropIds_dropsOf]; exact hdropn k
      · intro i hi
        rw [dropIds_dropsOf] at hi
        have hf := hfr i (hdropk k i hi)
        refine ⟨?_, ?_, hf.2.2⟩
        · show i ∉ dropIds (s.mem.log ++ [_])
          rw [dropIds_append]; simpa [dropIds, Event.dropId?] using hf.1
        · intro b kb hk _ hik
          rcases append_get _ _ b kb hk with hold | ⟨_, rfl⟩
          · exact hf.2.1 b kb hold hik
          · obtain ⟨x, hx, rfl⟩ := List.mem_map.1 hi
            simp only [Block.ids, List.mem_append] at hik
            rcases hik with hik | hik
            · -- the header's identity is not an item's identity
              have h1' : x.id ∈ optId h := (optId_hdrOf_sublist w h).subset hik
              have h2' : x.id ∈ sc.items.map (·.id) := List.mem_map_of_mem (List.mem_of_mem_drop hx)
              exact (List.nodup_append.1 hnd).2.2 _ h1' _ h2' rfl
            · obtain ⟨v, hv', hvid⟩ := mem_elemIds hik
              exact take_drop_ids_ne hitems (hes v hv') hx hvid
    | thinMismatch lay n1 hwt hne hal =>
      simp only
      have h1 : ValInvM (seen ++ opIds (.iterCtor dst w h sc))
          ⟨s.mem.blocks ++ [⟨0, false, lay, h, some n1, sc.items.map some, false⟩],
            s.mem.log ++ [Event.alloc s.mem.blocks.length lay.size lay.align], s.mem.nextClone⟩ := by
        refine hw.append_block _ _ rfl (fun _ => rfl) (fun h => by cases h) ?_
        intro i hi
        simp only [Block.ids, elemIds_map_some] at hi
        exact hfr i hi
      have hD : dropIds (hdrDrops h ++ dropsOf sc.items ++
          [Event.dealloc s.mem.blocks.length (Ty.hwl.releaseLayout sc.items.length).size
            (Ty.hwl.releaseLayout sc.items.length).align]) = optId h ++ sc.items.map (·.id) := by
        rw [dropIds_append, dropIds_append, optId_hdrDrops, dropIds_dropsOf]
        simp [dropIds, Event.dropId?]
      apply h1.emit_drops _ (by rw [hD]; exact hnd)
      intro i hi
      rw [hD] at hi
      have hf := hfr i hi
      refine ⟨?_, ?_, hf.2.2⟩
      · show i ∉ dropIds (s.mem.log ++ [_])
        rw [dropIds_append]; simpa [dropIds, Event.dropId?] using hf.1
      · intro b kb hk hl hik
        rcases append_get _ _ b kb hk with hold | ⟨_, rfl⟩
        · exact hf.2.1 b kb hold hik
        · cases hl

/-- every op preserves the value invariant -/
theorem val_step (hi : Inv' s) (hv : ValInvM seen s.mem) (op : Op) (hn : NewIds seen op) :
    ValInvM (seen ++ opIds op) (step s op).1.mem := by
  cases hp : op.plain with
  | true =>
    rw [opIds_plain hp, List.append_nil]
    exact closed_step (valinvM_closed seen) hi hv op hp
  | false =>
    cases op with
    | create dst c => exact val_create hv dst c hn
    | iterCtor dst w h sc => exact val_iterCtor hv dst w h sc hn
    | writeSlot src i v => exact val_writeSlot hv src i v hn
    | _ => cases hp

end

end M1
