"""Miri litmus suite for the schedule parts of C02 / C03 / C08 / C09.

Role (DESIGN §5): the claim "for every schedule and every legal load outcome" rests on the Lean
theorems over the axiomatic model M4.  Miri is used only as
  (a) supporting validation that the unchanged code is race-free on the litmus programs, and
  (b) the SEARCH for a concrete failing input (program + scheduler seed) once a Lean obligation on
      the extracted atomic orderings no longer checks.
It interprets the UNMODIFIED crate at ctx.repo (no hooks).  Aliasing checks are off
(-Zmiri-disable-stacked-borrows): `ArcUnion::drop` derives its pointer from `&*borrow`, which Miri
flags under Stacked/Tree Borrows on the unchanged tree; pointer provenance is not among the
properties.  The data-race detector, the weak-memory emulation, use-after-free and leak checks
stay on.

Statuses of one run (program x seed):
  ok            exit 0 and the program printed its `LITMUS threads=.. destroyed=..` line
  ub            Miri diagnosed Undefined Behavior (data race, use after free, ...)        FAILING INPUT
  assert-failed the program's own check failed (`LITMUS-ASSERT-FAILED`, any panic) or
                Miri's leak check fired: a logic failure of the property                   FAILING INPUT
  timeout       did not finish within timeout_s                                            (tooling)
  tool-error    anything else: sysroot/compile failure, unsupported operation, deadlock    (tooling)
A tooling failure is never reported as `ub`.

CLI (for mutation experiments in scratch copies):
  python3 -m vlib.miri --repo /tmp/x --programs all|C02|name,name --seeds 8 [--seed 1] [--stop-first] [--clean]
  exit 0: every run ok; 1: at least one failing input (ub / assert-failed); 2: only tooling failures.
"""
import hashlib
import os
import random
import re
import shlex
import shutil
import signal
import subprocess
import sys
import time
from concurrent.futures import ThreadPoolExecutor

from vlib import common

LITMUS_SRC = os.path.join(common.VERIF, "litmus")
SYSROOT = os.path.join(common.BUILD, "miri-sysroot")
TOOLCHAIN = "+nightly"
BASE_FLAGS = "-Zmiri-disable-stacked-borrows"
MAX_WORKERS = 14
SLOTS = 14            # machine-wide cap on concurrent Miri processes (flock slots under .build)
DEFAULT_TIMEOUT = 240

PROGRAMS = {
    "C02": ["clone_read_drop_2t", "clone_read_drop_3t", "clone_in_thread_then_drop", "thin_offset_union_2t",
            "thin_2t", "offset_2t", "union_2t", "borrow_clone_arc_2t", "handoff_chain_4t", "convert_under_sharing", "nodrop_payload_2t", "arcswap_cell_last_owner"],
    "C03": ["poll_get_mut_write", "poll_is_unique_then_write", "thin_with_arc_mut_get_mut", "declining_try_unwrap_vs_gates",
            "poll_get_mut_write@release", "deprecated_write_vs_reader@release"],
    "C12": ["union_shapes"],
    "C04": ["convert_vs_count_observer"],
    "C10": ["convert_vs_count_observer"],
    "C15": ["deprecated_write_vs_reader", "deprecated_write_vs_reader@release"],
    "C08": ["make_mut_vs_readers", "offset_make_mut_vs_readers", "offset_make_mut_overaligned", "unwrap_or_clone_vs_make_mut"],
    "C09": ["racing_try_unwrap_2t", "racing_try_unwrap_3t", "try_unwrap_vs_drop", "unwrap_or_clone_vs_drop",
            "try_unique_vs_drop", "declining_try_unwrap_vs_gates", "try_unique_vs_drop@release", "try_unwrap_vs_drop@release", "sole_owner_gates", "unwrap_or_clone_vs_make_mut"],
}
# programs of another property that exercise the same gate / hand-over and are worth running too
ALSO = {
    "C03": ["make_mut_vs_readers", "try_unique_vs_drop", "sole_owner_gates"],
    "C08": ["poll_get_mut_write", "sole_owner_gates"],
    "C09": ["poll_is_unique_then_write"],
}
FAILING = ("ub", "assert-failed")

# an actual Miri diagnosis: its UB reports start `error: Undefined Behavior: ...`; older/other wordings
# are accepted only on an `error` line, never anywhere else in the output
UB_RE = re.compile(r"^error: Undefined Behavior|^error.*(Data race detected|has been freed|dereferenced after|"
                   r"dangling (pointer|reference)|use-after-free)", re.M)
LEAK_RE = re.compile(r"error: memory leaked|the evaluated program leaked memory")
ASSERT_RE = re.compile(r"LITMUS-ASSERT-FAILED|panicked at ")
LITMUS_RE = re.compile(r"^LITMUS threads=(\d+) destroyed=([01])\s*$", re.M)
RUNNING_RE = re.compile(r"^\s*Running `[^`]*cargo-miri runner [^`]*`\s*$", re.M)


def all_programs():
    seen = []
    for k in ("C02", "C03", "C08", "C09"):
        for p in PROGRAMS[k]:
            if p not in seen:
                seen.append(p)
    return seen


def programs_for(prop):
    """All litmus program names relevant to one of "C02" | "C03" | "C08" | "C09" (own ones first)."""
    prop = prop.upper()
    if prop not in PROGRAMS:
        raise KeyError("no litmus programs for %s" % prop)
    return list(PROGRAMS[prop]) + [p for p in ALSO.get(prop, []) if p not in PROGRAMS[prop]]


def seeds(ctx, n):
    """n distinct Miri scheduler seeds derived from ctx.seed (prefix-stable: seeds(ctx,2) == seeds(ctx,16)[:2])."""
    rng = random.Random(ctx.seed)
    out = []
    while len(out) < n:
        s = rng.randrange(0, 1 << 31)
        if s not in out:
            out.append(s)
    return out


# ------------------------------------------------------------------------------------------------
def repo_tag(repo):
    return "default" if repo == "/repo" else hashlib.sha1(repo.encode()).hexdigest()[:8]


def litmus_dir(repo):
    """Instantiate the litmus manifest for `repo` under .build/litmus-<tag>; return (dir, target dir)."""
    tag = repo_tag(repo)
    dst = os.path.join(common.BUILD, "litmus-" + tag)
    with common.Lock("litmus-inst-" + tag):
        os.makedirs(os.path.join(dst, "src", "bin"), exist_ok=True)
        want = set()
        for root, _, files in os.walk(os.path.join(LITMUS_SRC, "src")):
            for f in files:
                s = os.path.join(root, f)
                rel = os.path.relpath(s, LITMUS_SRC)
                want.add(rel)
                common.write_if_changed(os.path.join(dst, rel), open(s).read())
        for root, _, files in os.walk(os.path.join(dst, "src")):
            for f in files:
                rel = os.path.relpath(os.path.join(root, f), dst)
                if rel not in want:
                    os.unlink(os.path.join(dst, rel))
        man = open(os.path.join(LITMUS_SRC, "Cargo.toml.in")).read().replace("@REPO@", repo)
        common.write_if_changed(os.path.join(dst, "Cargo.toml"), man)
        lock = os.path.join(LITMUS_SRC, "Cargo.lock")
        if os.path.exists(lock) and not os.path.exists(os.path.join(dst, "Cargo.lock")):
            shutil.copy(lock, os.path.join(dst, "Cargo.lock"))
    return dst, os.path.join(common.BUILD, "miri-target-" + tag)


def clean(repo):
    """Remove the instantiated crate and Miri target dir of a (scratch) repository copy."""
    tag = repo_tag(os.path.abspath(repo))
    for d in ("litmus-" + tag, "miri-target-" + tag):
        shutil.rmtree(os.path.join(common.BUILD, d), ignore_errors=True)
    if tag != "default":
        try:
            os.unlink(os.path.join(common.BUILD, "litmus-inst-%s.lock" % tag))
        except OSError:
            pass


def base_env():
    e = dict(os.environ)
    e.update(common.OFFLINE_ENV)
    e["MIRI_SYSROOT"] = SYSROOT
    e["CARGO_INCREMENTAL"] = "0"      # 20 small bins: incremental caches only cost disk
    for k in ("MIRIFLAGS", "RUSTFLAGS", "CARGO_TARGET_DIR", "RUSTC_WRAPPER"):
        e.pop(k, None)
    return e


_sysroot_state = {}


def ensure_sysroot():
    """Build (once, ~30 s, offline from rust-src) or validate (0.1 s) the Miri sysroot in
    .build/miri-sysroot.  Returns (ok, output)."""
    if "ok" in _sysroot_state:
        return _sysroot_state["ok"], _sysroot_state["out"]
    with common.Lock("miri-sysroot"):
        rc, out = _run(["cargo", TOOLCHAIN, "miri", "setup"], cwd=common.BUILD, env=base_env(), timeout=900)
    ok = rc == 0 and os.path.isdir(os.path.join(SYSROOT, "lib"))
    _sysroot_state["ok"], _sysroot_state["out"] = ok, out[-3000:]
    if not ok:
        common.log("miri: sysroot unavailable (tooling failure, not a verdict):\n" + out[-1500:])
    return ok, out[-3000:]


def _run(cmd, cwd, env, timeout):
    """Run in its own process group so a timeout kills cargo, cargo-miri and the miri driver."""
    try:
        p = subprocess.Popen(cmd, cwd=cwd, env=env, stdout=subprocess.PIPE, stderr=subprocess.STDOUT,
                             text=True, errors="replace", start_new_session=True)
    except OSError as ex:
        return 127, "cannot start %s: %s" % (cmd[0], ex)
    try:
        out, _ = p.communicate(timeout=timeout)
        return p.returncode, out
    except subprocess.TimeoutExpired:
        try:
            os.killpg(p.pid, signal.SIGKILL)
        except OSError:
            pass
        out, _ = p.communicate()
        return 124, (out or "") + "\n[timeout after %ds]" % timeout


class _Slot:
    """Machine-wide limiter: at most SLOTS Miri processes over all concurrently running checks."""

    def __enter__(self):
        import fcntl
        os.makedirs(common.BUILD, exist_ok=True)
        order = list(range(SLOTS))
        random.shuffle(order)
        for k in order:
            f = open(os.path.join(common.BUILD, "miri-slot-%d.lock" % k), "w")
            try:
                fcntl.flock(f, fcntl.LOCK_EX | fcntl.LOCK_NB)
                self.f = f
                return self
            except OSError:
                f.close()
        self.f = open(os.path.join(common.BUILD, "miri-slot-%d.lock" % order[0]), "w")
        fcntl.flock(self.f, fcntl.LOCK_EX)
        return self

    def __exit__(self, *a):
        import fcntl
        fcntl.flock(self.f, fcntl.LOCK_UN)
        self.f.close()


def miri_flags(seed, extra=""):
    return ("-Zmiri-seed=%d %s %s" % (seed, BASE_FLAGS, extra)).strip()


def command(ldir, tdir, program, seed, extra_flags="", args=()):
    """(argv, env additions, exact shell command to reproduce)."""
    # `name@release`: the same program interpreted as a release build (debug_assert!s compiled out: some of the crate's
    # debug assertions re-load the count with Acquire and mask a missing ordering in the dev profile)
    rel = program.endswith("@release")
    argv = ["cargo", TOOLCHAIN, "miri", "run", "--offline", "--target-dir", tdir, "--bin", program.split("@")[0]] + (["--release"] if rel else [])
    if args:
        argv += ["--"] + list(args)
    flags = miri_flags(seed, extra_flags)
    shell = "cd %s && MIRI_SYSROOT=%s MIRIFLAGS=%s %s" % (
        shlex.quote(ldir), shlex.quote(SYSROOT), shlex.quote(flags), " ".join(shlex.quote(a) for a in argv))
    return argv, {"MIRIFLAGS": flags}, shell


def program_output(out):
    """The part of cargo's output that belongs to the interpreted program (after the `Running` line);
    None if the program never started (build failure)."""
    m = None
    for m in RUNNING_RE.finditer(out):
        pass
    if m is None:
        return None
    return out[m.end():].lstrip("\n")


def trim_report(text, limit=40):
    lines = [l.rstrip() for l in text.split("\n")]
    # start at Miri's diagnosis / the failed check if there is one
    start = 0
    for i, l in enumerate(lines):
        if l.startswith("error") or "LITMUS-ASSERT-FAILED" in l or "panicked at" in l:
            start = i
            break
    lines = [l for l in lines[start:] if l.strip()]
    if len(lines) > limit:
        lines = lines[:limit] + ["[... %d more lines]" % (len(lines) - limit)]
    return "\n".join(lines)


def classify(rc, out):
    """-> (status, report, threads, destroyed).  `ub` only on an actual Miri diagnosis."""
    prog = program_output(out)
    if rc == 124:
        return "timeout", trim_report(prog if prog is not None else out[-3000:]), None, None
    if prog is None:
        return "tool-error", "program was not started (build / toolchain failure):\n" + trim_report(out[-4000:]), None, None
    m = LITMUS_RE.search(prog)
    threads = int(m.group(1)) if m else None
    destroyed = int(m.group(2)) if m else None
    if UB_RE.search(prog):
        return "ub", trim_report(prog), threads, destroyed
    if LEAK_RE.search(prog):
        return "assert-failed", "Miri leak check: an allocation was never released\n" + trim_report(prog), threads, destroyed
    if ASSERT_RE.search(prog):
        return "assert-failed", trim_report(prog), threads, destroyed
    if rc == 0 and m:
        return "ok", "", threads, destroyed
    if rc == 0:
        return "tool-error", "program ended without its LITMUS line:\n" + trim_report(prog), threads, destroyed
    # unsupported operation, deadlock, resource exhaustion, ICE, missing sysroot ...: tooling, not a verdict
    return "tool-error", trim_report(prog), threads, destroyed


def run_one(ldir, tdir, program, seed, timeout_s=DEFAULT_TIMEOUT, extra_flags="", args=()):
    argv, envadd, shell = command(ldir, tdir, program, seed, extra_flags, args)
    env = base_env()
    env.update(envadd)
    t0 = time.time()
    with _Slot():
        rc, out = _run(argv, cwd=ldir, env=env, timeout=timeout_s)
    status, report, threads, destroyed = classify(rc, out)
    return {"program": program, "seed": seed, "status": status, "cmd": shell, "report": report,
            "wall_s": round(time.time() - t0, 2), "rc": rc, "threads": threads, "destroyed": destroyed}


def _tool_error(program, seed, why, ldir="", tdir=""):
    shell = command(ldir, tdir, program, seed)[2] if ldir else ""
    return {"program": program, "seed": seed, "status": "tool-error", "cmd": shell, "report": why,
            "wall_s": 0.0, "rc": None, "threads": None, "destroyed": None}


def prepare(ctx, programs):
    """Sysroot + instantiate + compile the requested binaries once (each is started with
    `--build-only`, which returns at once).  -> (ldir, tdir, {program: error text})."""
    ok, out = ensure_sysroot()
    if not ok:
        return None, None, {p: "Miri sysroot could not be built (tooling failure):\n" + trim_report(out) for p in programs}
    for p in programs:
        if not os.path.exists(os.path.join(LITMUS_SRC, "src", "bin", p.split("@")[0] + ".rs")):
            raise KeyError("unknown litmus program: " + p)
    ldir, tdir = litmus_dir(ctx.repo)
    broken = {}
    progs = list(dict.fromkeys(programs))
    if not progs:
        return ldir, tdir, broken
    # the first one compiles triomphe + the shared lib; the others then only their own bin
    res = [_build_one(ldir, tdir, progs[0])]
    if len(progs) > 1:
        with ThreadPoolExecutor(max_workers=min(MAX_WORKERS, len(progs) - 1)) as ex:
            res += list(ex.map(lambda p: _build_one(ldir, tdir, p), progs[1:]))
    for p, (ok, text) in zip(progs, res):
        if not ok:
            broken[p] = "litmus program does not build/start against %s (tooling failure):\n%s" % (ctx.repo, text)
    return ldir, tdir, broken


def _build_one(ldir, tdir, program):
    argv, envadd, _ = command(ldir, tdir, program, 0, args=("--build-only",))
    env = base_env()
    env.update(envadd)
    with _Slot():
        rc, out = _run(argv, cwd=ldir, env=env, timeout=900)
    prog = program_output(out)
    if rc == 0 and prog is not None and "LITMUS build-only" in prog:
        return True, ""
    return False, trim_report(prog if prog else out[-4000:])


def run_suite(ctx, programs, seeds, timeout_s=DEFAULT_TIMEOUT, stop_first=False):
    """Run every program x seed under Miri against ctx.repo, in parallel.  List of result dicts
    {"program","seed","status","cmd","report","wall_s",...}, in program-major order."""
    programs = list(dict.fromkeys(programs))
    seeds = list(seeds)
    t0 = time.time()
    ldir, tdir, broken = prepare(ctx, programs)
    jobs = [(p, s) for p in programs for s in seeds]
    results = {}
    for p, s in jobs:
        if p in broken:
            results[(p, s)] = _tool_error(p, s, broken[p], ldir or "", tdir or "")
    todo = [j for j in jobs if j not in results]
    stop = {"flag": False}

    def work(j):
        if stop["flag"]:
            return j, None
        r = run_one(ldir, tdir, j[0], j[1], timeout_s=timeout_s)
        if stop_first and r["status"] in FAILING:
            stop["flag"] = True
        return j, r

    if todo:
        # seed-major submission order: every program gets its first seed early
        order = sorted(todo, key=lambda j: (seeds.index(j[1]), programs.index(j[0])))
        with ThreadPoolExecutor(max_workers=min(MAX_WORKERS, len(order))) as ex:
            for j, r in ex.map(work, order):
                if r is not None:
                    results[j] = r
    out = [results[j] for j in jobs if j in results]
    common.log("miri: %d runs (%d programs x %d seeds) against %s in %.1fs: %s" % (
        len(out), len(programs), len(seeds), ctx.repo, time.time() - t0, status_counts(out)))
    # a litmus program that does not build / start is never silently skipped: it is an undischarged obligation
    # (the public API the program uses changed, or the tooling is broken)
    te = sorted({r["program"] for r in out if r.get("status") == "tool-error"})
    if hasattr(ctx, "oblige"):
        ctx.oblige("miri:litmus-programs-build-and-start", not te, "tool errors: %s" % te)
    return out


def simple_pass(ctx, prop, programs, nseeds, what):
    """Run litmus programs under Miri as one more pass of a check whose main body is elsewhere; a Miri diagnosis or a
    failed program check is a concrete failing input (program + seed).  Returns True if all runs were clean."""
    res = run_suite(ctx, programs, seeds(ctx, nseeds))
    bad = failing(res)
    ctx.oblige("miri:%s" % what, not bad, "%d failing runs" % len(bad))
    cov = coverage(res)
    ctx.coverage["miri_" + what.replace("-", "_")] = {k: cov[k] for k in cov if k != "samples"}
    ctx.coverage["evaluations"] = ctx.coverage.get("evaluations", 0) + len(res)
    if bad and not any(v["found_input"] for v in ctx.violations):
        r = bad[0]
        ctx.violation("miri", "\n".join(["%s: Miri program `%s` with -Zmiri-seed=%d reports:" % (prop, r["program"], r["seed"]), "  replay: " + r["cmd"], r["report"]]), True)
    return not bad


def run_native(ctx, programs, rounds=20000, timeout_s=60, debug_assertions=False):
    """Native stress runs of the litmus programs (release build, real threads, many rounds): a second
    failing-input search for atomicity bugs whose window is a few instructions wide — the programs'
    own checks (exactly one destructor run per value, at most one winner, tag consistency) or a crash
    are the failure.  A build failure is a tool-error, never a finding."""
    programs = list(dict.fromkeys(programs))
    ldir, _ = litmus_dir(ctx.repo)
    tdir = os.path.join(os.path.dirname(ldir), ("native-dbgassert-target-" if debug_assertions else "native-target-") + repo_tag(ctx.repo))
    env = dict(os.environ)
    env.update({"CARGO_NET_OFFLINE": "true"})
    if debug_assertions:
        # optimised code WITH the crate's debug_assert!s (what `cargo test` / a dev build of a client runs): assertions that read
        # the count a second time, or that hold only sequentially, fire under real concurrency
        env.update({"CARGO_PROFILE_RELEASE_DEBUG_ASSERTIONS": "true", "CARGO_PROFILE_RELEASE_OVERFLOW_CHECKS": "true"})
    rc, out = _run(["cargo", "build", "--release", "--offline", "--target-dir", tdir] + sum([["--bin", p] for p in programs], []),
                   cwd=ldir, env=env, timeout=900)
    res = []
    if rc != 0:
        return [dict(program=p, seed=0, status="tool-error", cmd="", report=trim_report(out), wall_s=0.0) for p in programs]

    def one(p):
        exe = os.path.join(tdir, "release", p)
        t = time.time()
        cmd = [exe, "--rounds=%d" % rounds]
        rc2, o2 = _run(cmd, cwd=ldir, env=env, timeout=timeout_s)
        # liveness heuristics of the programs ("never succeeded / never reached") depend on scheduling
        # fairness under load: natively they are not findings, only safety checks and crashes are
        live = re.search(r"LITMUS-ASSERT-FAILED: [^\n]*(never|polls)", o2) is not None
        st = "ok" if rc2 == 0 else ("timeout" if rc2 in (124, -999) or live else "assert-failed")
        return dict(program=p, seed=0, status=st, cmd="cd %s && %s   # native stress, real threads%s" % (ldir, " ".join(cmd), " (built with debug assertions: CARGO_PROFILE_RELEASE_DEBUG_ASSERTIONS=true)" if debug_assertions else ""),
                    report=trim_report(o2[-3000:]), wall_s=round(time.time() - t, 2), native=True, rounds=rounds)
    with ThreadPoolExecutor(max_workers=4) as ex:
        res = list(ex.map(one, programs))
    return res


def status_counts(results):
    c = {}
    for r in results:
        c[r["status"]] = c.get(r["status"], 0) + 1
    return c


def failing(results):
    """Runs that are failing inputs (Miri diagnosis or failed program-level check)."""
    return [r for r in results if r["status"] in FAILING]


def coverage(results):
    """Evidence figures for ctx.coverage."""
    done = [r for r in results if r["status"] in ("ok",) + FAILING]
    nontrivial = {(r["program"], r["seed"]) for r in results
                  if r["status"] == "ok" and (r.get("threads") or 0) >= 2 and r.get("destroyed") == 1}
    progs = list(dict.fromkeys(r["program"] for r in results))
    tool = [r for r in results if r["status"] in ("tool-error", "timeout")]
    firsts, seen = [], set()
    for r in results:                      # one sample per program first, then failing runs
        if r["program"] not in seen:
            seen.add(r["program"])
            firsts.append(r)
    picked = [r for r in results if r["status"] in FAILING][:3] + firsts[:8]
    samples = [{"program": r["program"], "miri_seed": r["seed"],
                "result": "no race, no use-after-free, checks passed" if r["status"] == "ok" else r["status"],
                "threads": r.get("threads"), "destroyed": r.get("destroyed"), "wall_s": r["wall_s"]}
               for r in picked]
    cov = {
        "evaluations": len(done),
        "distinct_nontrivial": len(nontrivial),
        "samples": samples,
        "programs": progs,
        "status_counts": status_counts(results),
        "miri_available": bool(done) or not results,
        "miri_seeds": list(dict.fromkeys(r["seed"] for r in results)),
        "miri_flags": BASE_FLAGS + " -Zmiri-seed=<seed>",
        "miri_wall_s": round(sum(r["wall_s"] for r in results), 1),
    }
    if tool:
        cov["miri_tooling_failures"] = [{"program": r["program"], "seed": r["seed"], "status": r["status"],
                                         "report": r["report"][:600]} for r in tool[:4]]
    return cov


# ------------------------------------------------------------------------------------------------
def parse_replay(path):
    """[(program, seed, cmd)] from the `replay: <cmd>` lines of a replay file."""
    found = []
    for line in open(path):
        m = re.match(r"\s*replay:\s*(.+)$", line)
        if not m:
            continue
        cmd = m.group(1).strip()
        mb = re.search(r"--bin\s+(\S+)", cmd)
        ms = re.search(r"-Zmiri-seed=(\d+)", cmd)
        if mb and ms:
            found.append((mb.group(1).strip("'\""), int(ms.group(1)), cmd))
    return found


def replay(ctx, path):
    """Re-run the program/seed named in a replay file against ctx.repo; VIOLATION if it still fails."""
    items = parse_replay(path)
    if not items:
        raise RuntimeError("no `replay: <cmd>` line with --bin and -Zmiri-seed in %s" % path)
    ctx.coverage["rule"] = "replay of recorded Miri litmus program x seed"
    allres = []
    for program, seed, cmd in items:
        ldir, tdir, broken = prepare(ctx, [program])
        if program in broken:
            raise RuntimeError(broken[program])
        r = run_one(ldir, tdir, program, seed)
        allres.append(r)
        common.log("replay %s seed %d: %s" % (program, seed, r["status"]))
        if r["status"] in FAILING:
            body = ["replayed failing input: Miri litmus program `%s` with -Zmiri-seed=%d (%s):" % (program, seed, r["status"]),
                    "  replay: " + r["cmd"], r["report"]]
            ctx.violation("miri", "\n".join(body), True, tag="r")
        elif r["status"] != "ok":
            raise RuntimeError("replay could not be evaluated (%s):\n%s" % (r["status"], r["report"]))
    ctx.coverage.update(coverage(allres))
    ctx.oblige("miri:replay-race-free", not failing(allres), "%d of %d replayed runs still fail" % (len(failing(allres)), len(allres)))
    return allres


# ------------------------------------------------------------------------------------------------
class _CliCtx:
    def __init__(self, repo, seed):
        self.repo = os.path.abspath(repo)
        self.seed = seed


def main(argv=None):
    import argparse
    import json
    ap = argparse.ArgumentParser(prog="python3 -m vlib.miri", description=__doc__.split("\n\n")[0])
    ap.add_argument("--repo", default=os.environ.get("VERIF_REPO", "/repo"))
    ap.add_argument("--programs", default="all", help="all | C02|C03|C08|C09 | comma-separated program names")
    ap.add_argument("--seeds", type=int, default=8, help="number of seeds (derived from --seed)")
    ap.add_argument("--seed", type=int, default=int(os.environ.get("VERIF_SEED", "1") or 1))
    ap.add_argument("--timeout", type=int, default=DEFAULT_TIMEOUT)
    ap.add_argument("--stop-first", action="store_true", help="stop scheduling new runs after the first failing one")
    ap.add_argument("--json", action="store_true")
    ap.add_argument("--clean", action="store_true", help="afterwards remove .build/litmus-<tag> and miri-target-<tag> of --repo")
    ap.add_argument("--show", type=int, default=1, help="print the report of the first N failing runs")
    a = ap.parse_args(argv)
    ctx = _CliCtx(a.repo, a.seed)
    if a.programs == "all":
        progs = all_programs()
    elif a.programs.upper() in PROGRAMS:
        progs = programs_for(a.programs)
    else:
        progs = [p.strip() for p in a.programs.split(",") if p.strip()]
    sds = seeds(ctx, a.seeds)
    t0 = time.time()
    res = run_suite(ctx, progs, sds, timeout_s=a.timeout, stop_first=a.stop_first)
    wall = time.time() - t0
    if a.clean:
        clean(ctx.repo)
    if a.json:
        print(json.dumps({"results": res, "coverage": coverage(res), "wall_s": round(wall, 1)}, indent=1))
        return 0
    print("repo %s  seeds %s" % (ctx.repo, sds))
    print("%-30s %5s %-28s %s" % ("program", "runs", "statuses", "first failing seed (index)"))
    for p in progs:
        rs = [r for r in res if r["program"] == p]
        bad = [r for r in rs if r["status"] in FAILING]
        first = "-"
        if bad:
            first = "%d (#%d, %s)" % (bad[0]["seed"], sds.index(bad[0]["seed"]) + 1, bad[0]["status"])
        print("%-30s %5d %-28s %s" % (p, len(rs), ",".join("%s=%d" % kv for kv in sorted(status_counts(rs).items())), first))
    print("total %d runs, %.1fs wall, %s" % (len(res), wall, status_counts(res)))
    shown = 0
    for r in res:
        if r["status"] != "ok" and shown < a.show:
            shown += 1
            print("\n--- %s seed %d: %s\n  replay: %s\n%s" % (r["program"], r["seed"], r["status"], r["cmd"], r["report"]))
    return 1 if failing(res) else (2 if any(r["status"] != "ok" for r in res) else 0)


if __name__ == "__main__":
    sys.exit(main())


def observer_pass(ctx, prop, programs=("convert_vs_count_observer",), native_rounds=20000, nseeds=2):
    """count-neutral operations under concurrent observation (C04: "not even while the borrow is in use"; C10:
    "thin->fat->thin conversions ... without touching the count"): the litmus program under Miri (a few seeds) and natively
    (real threads, many rounds).  A failing run is a concrete failing input (program + seed / native command)."""
    programs = list(programs)
    res = run_suite(ctx, programs, seeds(ctx, nseeds if not ctx.thorough() else 12))
    nat = run_native(ctx, programs, rounds=native_rounds if not ctx.thorough() else native_rounds * 10, timeout_s=120)
    bad = failing(res) + failing(nat)
    ctx.coverage["observer_litmus"] = {"programs": programs, "miri": status_counts(res), "native": status_counts(nat), "native_rounds": native_rounds}
    ctx.coverage["evaluations"] = ctx.coverage.get("evaluations", 0) + len([r for r in res + nat if r["status"] in ("ok",) + FAILING])
    ctx.oblige("litmus:count-neutral-under-observation", not bad, "%d failing runs" % len(bad))
    if bad:
        r = bad[0]
        how = "run natively (%d rounds, real threads)" % r.get("rounds", 0) if r.get("native") else "under Miri with -Zmiri-seed=%d" % r["seed"]
        body = ["failing input: litmus program `%s` %s:" % (r["program"], how), "  replay: " + r["cmd"], r["report"]]
        ctx.violation("native" if r.get("native") else "miri", "\n".join(body), True)
    return bad
