import TriompheModel.WM.Unique
/-!
# Moving the value out (try_unwrap / try_unique / into_inner) in the weak-memory model

`try_unique` performs an Acquire load of the count through the handle `h` it owns; if the load
returns 1 the handle is *consumed*: wrapped in `ManuallyDrop` / turned into a `UniqueArc`, so its
decrement never happens, and the value is moved out (or sole ownership is taken).  `Consume X l h`
describes such an event on top of an execution `X`.  The theorems show that a consumption excludes
any destruction and any other consumption: under every schedule and every legal load outcome the
value ends up moved out to exactly one thread, or destroyed exactly once — never both, never twice.
-/
open Facts
namespace WM

/-- a successful uniqueness gate that takes the value / sole ownership away through handle `h` -/
structure Consume (X : CountExec) (l : X.A) (h : H) (ord : MemOrd) (rf : Option Nat) : Prop where
  isLoad : X.kind l = .load h ord rf
  acq : ord.isAcq = true
  /-- the gate saw the value 1 -/
  one : valRead X.ops rf = 1
  /-- the consumed handle is never released (`ManuallyDrop`) -/
  never_released : ∀ m : Nat, X.ops[m]? ≠ some (Op.dec h)
  /-- the handle is owned by value: every clone made from it precedes the gate's load -/
  clones_before : ∀ (j : Nat) (c : H), X.ops[j]? = some (Op.inc c h) → X.hb (.rmw j) (.oth l)

variable {X : CountExec} {decOrd : MemOrd} {fenceOrd : Option MemOrd}

/-- length of the mo-prefix a load reads from -/
def prefixLen : Option Nat → Nat
  | none => 0
  | some j => j + 1

theorem valRead_eq (ops : List Op) (rf : Option Nat) : valRead ops rf = (run (ops.take (prefixLen rf))).val := by
  cases rf with
  | none => simp [valRead, prefixLen, run, St.init]
  | some j => rfl

/-- After a successful consuming gate the modification order of the count ends where the gate's
load read from: no clone and no drop of any handle to this allocation can exist after it. -/
theorem consume_is_end (hc : Consistent X) (hp : Protocol X decOrd fenceOrd)
    (hrw : CoRW X) (hvb : ViaBorn X) {l : X.A} {h : H} {ord : MemOrd} {rf : Option Nat} (c : Consume X l h ord rf) :
    X.ops.length ≤ prefixLen rf ∧ (run X.ops).live = [h] := by
  have hli : (X.kind l).loadInfo = some (ord, rf) := by rw [c.isLoad]; rfl
  have hvl : (X.kind l).via = some h := by rw [c.isLoad]; rfl
  let n := prefixLen rf
  have hwP : WF (X.ops.take n) := wf_take hc hp n
  have hvalP : (run (X.ops.take n)).val = 1 := by rw [← valRead_eq]; exact c.one
  have hiP := inv_run hwP
  obtain ⟨hl1, _⟩ := live_iff hwP
  have hlen : (run (X.ops.take n)).live.length = 1 := by
    have := hiP.val; rw [hvalP] at this; omega
  -- `h` is live in the prefix
  have hhlive : h ∈ (run (X.ops.take n)).live := by
    rw [hl1, born_run]
    refine ⟨?_, ?_⟩
    · by_cases h0 : h = 0
      · exact Or.inl h0
      · obtain ⟨i, s, hi, hhb⟩ := hvb hvl h0
        obtain ⟨j, hj, hij⟩ := hc.coWR hli hhb
        refine Or.inr (mem_kids.2 ⟨s, mem_take_of_lt hi ?_⟩)
        show i < prefixLen rf
        rw [hj]; simp [prefixLen]; omega
    · intro hd
      obtain ⟨m, _, hmd⟩ := exists_lt_of_mem_take (mem_deads.1 hd)
      exact c.never_released m hmd
  have hlive_eq : (run (X.ops.take n)).live = [h] := by
    match hL : (run (X.ops.take n)).live, hlen, hhlive with
    | [x], _, hm => simp at hm; rw [hm]
  -- nothing follows the prefix
  have hend : X.ops.length ≤ n := by
    cases Nat.lt_or_ge n X.ops.length with
    | inr hge => exact hge
    | inl hlt =>
      exfalso
      have hget : X.ops[n]? = some X.ops[n] := List.getElem?_eq_getElem hlt
      have hw := wf_take hc hp (n + 1)
      rw [take_succ_of_get hget] at hw
      obtain ⟨_, hen⟩ := wf_snoc_inv hw
      cases ho : X.ops[n] with
      | inc ch s =>
        rw [ho] at hen hget
        have hs : s ∈ (run (X.ops.take n)).live := hen.1
        rw [hlive_eq] at hs
        simp at hs
        subst hs
        have hhb := c.clones_before n ch hget
        obtain ⟨j, hj, hnj⟩ := hc.coWR hli hhb
        have : n = j + 1 := by show prefixLen rf = j + 1; rw [hj]; rfl
        omega
      | dec k =>
        rw [ho] at hen hget
        have hk : k ∈ (run (X.ops.take n)).live := hen
        rw [hlive_eq] at hk
        simp at hk
        subst hk
        exact c.never_released n hget
  refine ⟨hend, ?_⟩
  rw [List.take_of_length_le hend] at hlive_eq
  exact hlive_eq

/-- **C09 (schedules): moved out ⇒ never destroyed.**  If some thread's gate succeeded and took the
value, no destruction event exists in the execution. -/
theorem consume_excludes_destroy (hc : Consistent X) (hp : Protocol X decOrd fenceOrd)
    (hrw : CoRW X) (hvb : ViaBorn X) {l : X.A} {h : H} {ord : MemOrd} {rf : Option Nat} (c : Consume X l h ord rf)
    {f : X.A} {k : Nat} (hf : X.kind f = .destroy k) : False := by
  obtain ⟨_, hlive⟩ := consume_is_end hc hp hrw hvb c
  obtain ⟨⟨h', hk⟩, hval, _⟩ := hp.destroy_shape hf
  have hlast := destroyer_is_last hc hp hf
  have hw := wf_ops hc hp
  have hi := inv_run hw
  have hops : X.ops = X.ops.take k ++ [Op.dec h'] := by
    rw [← take_succ_of_get hk, hlast, List.take_length]
  have hv0 : (run X.ops).val = 0 := by
    rw [hops, run_snoc]; simp [St.step, stepVal, hval]
  have := hi.val
  rw [hv0, hlive] at this
  simp at this

/-- **C09 (schedules): at most one thread takes the value.**  Two successful consuming gates on the
same allocation are the same handle's. -/
theorem consume_unique (hc : Consistent X) (hp : Protocol X decOrd fenceOrd)
    (hrw : CoRW X) (hvb : ViaBorn X) {l₁ l₂ : X.A} {h₁ h₂ : H} {o₁ o₂ : MemOrd} {rf₁ rf₂ : Option Nat}
    (c₁ : Consume X l₁ h₁ o₁ rf₁) (c₂ : Consume X l₂ h₂ o₂ rf₂) : h₁ = h₂ := by
  obtain ⟨_, hl1⟩ := consume_is_end hc hp hrw hvb c₁
  obtain ⟨_, hl2⟩ := consume_is_end hc hp hrw hvb c₂
  rw [hl1] at hl2
  simpa using hl2

/-- and every access other threads made through their (former) handles happens-before the gate's
load, hence before the value is moved: this is `unique_verdict_exclusive` at the consuming load. -/
theorem consume_after_all_former_sharers (hc : Consistent X) (hp : Protocol X decOrd fenceOrd)
    (hrw : CoRW X) (hvb : ViaBorn X) (hrel : decOrd.isRel = true) {l : X.A} {h : H} {ord : MemOrd} {rf : Option Nat} (c : Consume X l h ord rf) :
    ∀ (a : X.A) (h' : H), (X.kind a).via = some h' → h' ≠ h →
      (h' = 0 ∨ ∃ j, rf = some j ∧ h' ∈ kids (X.ops.take (j+1))) → X.hb (.oth a) (.oth l) :=
  unique_verdict_exclusive hc hp hrw hvb hrel c.isLoad c.acq c.one

end WM
