//! C08: make_mut_vs_readers through `OffsetArc::make_mut` (read-out / write-back around
//! `Arc::make_mut`), readers holding OffsetArc clones.
use litmus::*;
use triomphe::{Arc, OffsetArc};

fn main() {
    let mut t = Tally::new();
    for r in 0..rounds(3) {
        for phase_b in [false, true] {
            let old = 450 + 2 * r as u64 + phase_b as u64;
            let new = old + 500;
            let mut a: OffsetArc<Payload> = Arc::into_raw_offset(Arc::new(Payload::new(old)));
            t.shared(3);
            let readers: Vec<_> = (0..2).map(|_| a.clone()).collect();
            let clones_before = clones();
            let ptr_before = &*a as *const Payload;
            std::thread::scope(|s| {
                for h in readers {
                    s.spawn(move || {
                        h.read_expect(old);
                        drop(h);
                    });
                }
                if phase_b {
                    let mut polls = 0u32;
                    while OffsetArc::strong_count(&a) != 1 {
                        polls += 1;
                        check(polls < 100_000, "strong_count never reached 1");
                        spin();
                    }
                }
                a.make_mut().rewrite(new);
                a.read_expect(new);
            });
            let cloned = clones() - clones_before;
            let moved = (&*a as *const Payload) != ptr_before;
            check(cloned == moved as usize, "OffsetArc::make_mut: clone count does not match the branch taken");
            check(!(phase_b && cloned != 0), "OffsetArc::make_mut cloned a solely owned value");
            t.extra_values(cloned);
            check(a.with_arc(|x| Arc::count(x)) == 1, "make_mut result is not solely owned");
            a.read_expect(new);
            drop(a);
        }
    }
    t.finish();
}
