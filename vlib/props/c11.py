"""C11 — raw pointers round-trip to the same allocation; handles are one word wide.

Deciding method: Lean theorems of `Props/C11.lean` over M2 (`as_ptr`/`into_raw`/OffsetArc/ArcBorrow
word = Deref address; `from_raw(into_raw)` recovers the block for sized, slice and dyn payloads;
`offset_of_data` recomputes the repr(C) offset).  Tie B: `drv_layout` vs the harness binary `layout`
on the shape matrix x constructors x into/from pairings, with and without `unsize` / `arc-swap`.
Known deviation (known_findings.json `ThinArc-raw-is-block-address`): ThinArc's raw accessors
return the block address; reported as KNOWN-FINDING only when the observation matches the recorded
pattern exactly.
"""
from vlib import layout_corr

MODULE = "TriompheModel.Props.C11"
ASSUME = [
    "addresses are modelled as natural numbers relative to the block the allocator returned; pointer provenance is out of scope",
    "Layout::for_value of a dyn pointee returns the concrete type's (size, align) (rustc vtable layout, trusted; observed for every shape)",
    "handle widths (one word / two words, null niche) are measured with size_of on the real types for every shape; the model only tabulates them",
    "'same contents and count, stable across clones and moves along every history' is the history model's invariant I4; here every into/from pairing is exercised once per case",
    "the harness runs on a 64-bit target; other word widths are covered by the theorems only",
]


def run(ctx):
    layout_corr.run_property(ctx, "C11", MODULE, ASSUME,
                             extra_modules=["TriompheModel.Props.C11Hist", "TriompheModel.Proofs.HistOff"])
    # history clause (Props/C11Hist.lean): stored words along histories — block-address kinds store the
    # block start, data-address kinds the value's address, identical across clones / conversions /
    # handle kinds and stable while the allocation lives; the history correspondence prints the stored
    # word of every slot after every op (incl. the over-aligned TrackedB, data offset 16)
    from vlib import histcheck
    histcheck.run(ctx, MODULE, dict(create=16, conv=30, clone=16, cloneArc=10, cb=8, makeMut=5, drop=8, intoThin=4),
                  ["C11"], lean=False, cov_key="history_pass", n_quick=150)


def replay(ctx, path):
    layout_corr.replay(ctx, "C11", path)
