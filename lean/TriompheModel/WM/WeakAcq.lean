import TriompheModel.WM.Unique
open Facts
namespace WM
namespace WeakAcq
/-! Necessity witness for the ACQUIRE before destruction: release decrements, but the load between
the decrement and `drop_slow` is `Relaxed` (or missing its acquire semantics).  The execution is
consistent and follows the protocol, yet thread B's payload read is not ordered before destruction. -/
deriving instance DecidableEq for Ev
abbrev EA := Fin 4     -- 0 = a0, 1 = a1, 2 = l, 3 = f
def exOps : List Op := [.inc 1 0, .dec 1, .dec 0]
def exKind : EA → AKind
  | 0 => .access 0
  | 1 => .access 1
  | 2 => .fenceLoad 2 .relaxed (some 2)
  | 3 => .destroy 2
def exOrd : Nat → MemOrd
  | 0 => .relaxed
  | _ => .release

def r (i : Nat) : Ev EA := .rmw i
def e (a : EA) : Ev EA := .oth a
/-- happens-before, transitively closed by hand -/
def exPairs : List (Ev EA × Ev EA) :=
  [ (r 0, e 0), (r 0, r 2), (r 0, e 2), (r 0, e 3), (e 0, r 2), (e 0, e 2), (e 0, e 3),
    (r 2, e 2), (r 2, e 3), (e 2, e 3),                      -- thread A program order
    (e 1, r 1),                                              -- thread B program order
    (r 0, e 1), (r 0, r 1) ]                                 -- h1 handed to B after the clone; NO sw edge

def exX : CountExec where
  A := EA
  ops := exOps
  ordR := exOrd
  kind := exKind
  hb := fun x y => (x, y) ∈ exPairs

theorem ex_trans : ∀ p ∈ exPairs, ∀ q ∈ exPairs, p.2 = q.1 → (p.1, q.2) ∈ exPairs := by decide
theorem ex_irrefl : ∀ p ∈ exPairs, p.1 ≠ p.2 := by decide

/-- executable coherence checks over the finite relation -/
def coWWok : Bool := exPairs.all fun p => match p with
  | (.rmw i, .rmw j) => decide (i < j)
  | _ => true
def coWRok : Bool := exPairs.all fun p => match p with
  | (.rmw i, .oth a) => match (exKind a).loadInfo with
      | some (_, some j) => decide (i ≤ j)
      | some (_, none) => false
      | none => true
  | _ => true
theorem coWWok_true : coWWok = true := by decide
theorem coWRok_true : coWRok = true := by decide

theorem ex_consistent : Consistent exX where
  hb_trans := by
    intro a b c h1 h2
    exact ex_trans (a, b) h1 (b, c) h2 rfl
  hb_irrefl := by
    intro a h
    exact ex_irrefl (a, a) h rfl
  coWW := by
    intro i j h
    have := List.all_eq_true.1 coWWok_true _ h
    simpa using this
  coWR := by
    intro i a o rf hl h
    have := List.all_eq_true.1 coWRok_true _ h
    change (exKind a).loadInfo = some (o, rf) at hl
    simp only [hl] at this
    cases rf with
    | none => simp at this
    | some j => exact ⟨j, rfl, by simpa using this⟩
  sw_load := by
    intro i j a o hrel hl hacq hij
    change (exKind a).loadInfo = some (o, some j) at hl
    match a, hl with
    | ⟨0, _⟩, hl => simp [exKind, AKind.loadInfo] at hl
    | ⟨1, _⟩, hl => simp [exKind, AKind.loadInfo] at hl
    | ⟨3, _⟩, hl => simp [exKind, AKind.loadInfo] at hl
    | ⟨2, _⟩, hl =>
      simp [exKind, AKind.loadInfo] at hl
      obtain ⟨rfl, rfl⟩ := hl
      simp [MemOrd.isAcq] at hacq
  sw_rmw := by
    intro i j hrel hacq hij hj
    change (exOrd j).isAcq = true at hacq
    change j < 3 at hj
    match j, hj, hacq with
    | 0, _, h => simp [exOrd, MemOrd.isAcq] at h
    | 1, _, h => simp [exOrd, MemOrd.isAcq] at h
    | 2, _, h => simp [exOrd, MemOrd.isAcq] at h

theorem exOps_get (i : Nat) (o : Op) (h : exOps[i]? = some o) :
    (i = 0 ∧ o = .inc 1 0) ∨ (i = 1 ∧ o = .dec 1) ∨ (i = 2 ∧ o = .dec 0) := by
  match i, h with
  | 0, h => simp [exOps] at h; exact Or.inl ⟨rfl, h.symm⟩
  | 1, h => simp [exOps] at h; exact Or.inr (Or.inl ⟨rfl, h.symm⟩)
  | 2, h => simp [exOps] at h; exact Or.inr (Or.inr ⟨rfl, h.symm⟩)
  | n+3, h => simp [exOps] at h

theorem ex_protocol : Protocol exX .release (some .relaxed) where
  fresh := by
    intro i j c s s' hi hj
    rcases exOps_get i _ hi with ⟨rfl, h⟩ | ⟨rfl, h⟩ | ⟨rfl, h⟩ <;> cases h
    rcases exOps_get j _ hj with ⟨rfl, h⟩ | ⟨rfl, h⟩ | ⟨rfl, h⟩ <;> cases h
    rfl
  kid_ne_zero := by
    intro i c s hi
    rcases exOps_get i _ hi with ⟨rfl, h⟩ | ⟨rfl, h⟩ | ⟨rfl, h⟩ <;> cases h
    decide
  dec_once := by
    intro i j h hi hj
    rcases exOps_get i _ hi with ⟨rfl, h1⟩ | ⟨rfl, h1⟩ | ⟨rfl, h1⟩ <;> cases h1 <;>
    rcases exOps_get j _ hj with ⟨rfl, h2⟩ | ⟨rfl, h2⟩ | ⟨rfl, h2⟩ <;> cases h2 <;> rfl
  birth_before_death := by
    intro j h hj hne
    rcases exOps_get j _ hj with ⟨rfl, h1⟩ | ⟨rfl, h1⟩ | ⟨rfl, h1⟩ <;> cases h1
    · exact ⟨0, 0, rfl, by show (r 0, r 1) ∈ exPairs; simp [exPairs, r, e]⟩
    · exact absurd rfl hne
  src_born := by
    intro j c s hj hne
    rcases exOps_get j _ hj with ⟨rfl, h1⟩ | ⟨rfl, h1⟩ | ⟨rfl, h1⟩ <;> cases h1
    exact absurd rfl hne
  src_alive := by
    intro j c s k hj hk
    rcases exOps_get j _ hj with ⟨rfl, h1⟩ | ⟨rfl, h1⟩ | ⟨rfl, h1⟩ <;> cases h1
    rcases exOps_get k _ hk with ⟨rfl, h2⟩ | ⟨rfl, h2⟩ | ⟨rfl, h2⟩ <;> cases h2
    show (r 0, r 2) ∈ exPairs; simp [exPairs, r, e]
  dec_ord := by
    intro i h hi
    rcases exOps_get i _ hi with ⟨rfl, h1⟩ | ⟨rfl, h1⟩ | ⟨rfl, h1⟩ <;> cases h1 <;> rfl
  via_real := by
    intro a h hv
    change (exKind a).via = some h at hv
    match a, hv with
    | ⟨0, _⟩, hv => simp [exKind, AKind.via] at hv; exact Or.inl hv.symm
    | ⟨1, _⟩, hv => simp [exKind, AKind.via] at hv; subst hv; exact Or.inr (by decide)
    | ⟨2, _⟩, hv => simp [exKind, AKind.via] at hv
    | ⟨3, _⟩, hv => simp [exKind, AKind.via] at hv
  via_alive := by
    intro a h k hv hk
    change (exKind a).via = some h at hv
    change (e a, r k) ∈ exPairs
    match a, hv with
    | ⟨0, _⟩, hv =>
      simp [exKind, AKind.via] at hv; subst hv
      rcases exOps_get k _ hk with ⟨rfl, h2⟩ | ⟨rfl, h2⟩ | ⟨rfl, h2⟩ <;> cases h2
      simp [exPairs, r, e]
    | ⟨1, _⟩, hv =>
      simp [exKind, AKind.via] at hv; subst hv
      rcases exOps_get k _ hk with ⟨rfl, h2⟩ | ⟨rfl, h2⟩ | ⟨rfl, h2⟩ <;> cases h2
      simp [exPairs, r, e]
    | ⟨2, _⟩, hv => simp [exKind, AKind.via] at hv
    | ⟨3, _⟩, hv => simp [exKind, AKind.via] at hv
  destroy_shape := by
    intro f k hf
    change exKind f = .destroy k at hf
    match f, hf with
    | ⟨0, _⟩, hf => simp [exKind] at hf
    | ⟨1, _⟩, hf => simp [exKind] at hf
    | ⟨2, _⟩, hf => simp [exKind] at hf
    | ⟨3, _⟩, hf =>
      simp [exKind] at hf; subst hf
      refine ⟨⟨0, rfl⟩, by decide, ⟨(2 : EA), some 2, rfl, ?_, ?_⟩⟩
      · show (r 2, e 2) ∈ exPairs; simp [exPairs, r, e]
      · show (e 2, e 3) ∈ exPairs; simp [exPairs, r, e]
  destroy_inj := by
    intro f₁ f₂ k h1 h2
    change exKind f₁ = .destroy k at h1
    change exKind f₂ = .destroy k at h2
    match f₁, f₂, h1, h2 with
    | ⟨3, _⟩, ⟨3, _⟩, _, _ => rfl
    | ⟨0, _⟩, _, h1, _ => simp [exKind] at h1
    | ⟨1, _⟩, _, h1, _ => simp [exKind] at h1
    | ⟨2, _⟩, _, h1, _ => simp [exKind] at h1
    | ⟨3, _⟩, ⟨0, _⟩, _, h2 => simp [exKind] at h2
    | ⟨3, _⟩, ⟨1, _⟩, _, h2 => simp [exKind] at h2
    | ⟨3, _⟩, ⟨2, _⟩, _, h2 => simp [exKind] at h2


/-- with release decrements but no acquire before destruction there is a consistent
protocol-following execution with a data race between a payload read and the destruction -/
theorem acquire_needed : ¬ exX.hb (.oth (1 : EA)) (.oth (3 : EA)) ∧ ¬ exX.hb (.oth (3 : EA)) (.oth (1 : EA)) := by
  constructor <;> (show ¬ (_ ∈ exPairs); decide)
end WeakAcq
end WM
