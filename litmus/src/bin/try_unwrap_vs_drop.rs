//! C09: T1 calls `try_unwrap` (even rounds: once; odd rounds: polls until it wins) while T2/T3
//! read through their handles and drop them.  On failure the same handle comes back.
use litmus::*;
use triomphe::Arc;

fn main() {
    let mut t = Tally::new();
    for r in 0..rounds(6) {
        let tag = 600 + r as u64;
        let a = Arc::new(Payload::new(tag));
        t.shared(3);
        let others: Vec<_> = (0..2).map(|_| a.clone()).collect();
        let d0 = drops();
        std::thread::scope(|s| {
            for h in others {
                s.spawn(move || {
                    h.read_expect(tag);
                    drop(h);
                });
            }
            let before = a.heap_ptr();
            let mut cur = a;
            let mut polls = 0u32;
            loop {
                match Arc::try_unwrap(cur) {
                    Ok(mut v) => {
                        v.read_expect(tag);
                        v.rewrite(tag + 500);
                        v.read_expect(tag + 500);
                        drop(v);
                        break;
                    }
                    Err(back) => {
                        check(back.heap_ptr() == before, "try_unwrap failure returned a different handle");
                        back.read_expect(tag);
                        if r % 2 == 0 {
                            drop(back);
                            break;
                        }
                        cur = back;
                    }
                }
                polls += 1;
                check(polls < 100_000, "try_unwrap never succeeded although every other owner is gone");
                spin();
            }
        });
        check(drops() - d0 == 1, "value neither moved out once nor destroyed once");
    }
    t.finish();
}
