"""Shared machinery of /verif/bin/check.

One check = (1) regenerate the facts the Lean theorems are instantiated at from the *current*
working tree of the repository (Tie A), (2) re-check the property's Lean theorems, audit axioms,
(3) run the property's correspondence between the executable Lean model and the real code (Tie B),
(4) on any broken obligation / disagreement: search for a concrete failing input, report
VIOLATION (with replay) or VIOLATION ... no-failing-input-found, honouring known_findings.json.
"""
import fcntl
import hashlib
import json
import os
import re
import shutil
import subprocess
import sys
import time

VERIF = os.path.dirname(os.path.dirname(os.path.abspath(__file__)))
LEAN = os.path.join(VERIF, "lean")
BUILD = os.path.join(VERIF, ".build")
EVID = os.path.join(VERIF, "evidence")
REPLAYS = os.path.join(VERIF, "replays")
ALLOWED_AXIOMS = {"propext", "Classical.choice", "Quot.sound"}
DRIVERS = ["drv_hist", "drv_layout", "drv_cmp", "drv_ovf", "drv_serde", "drv_traits", "drv_wm", "drv_mon"]
HARNESS_BINS = ["hist", "cmp", "ovf", "serdecorr", "uninit", "thinzst", "cow"]
OFFLINE_ENV = {"CARGO_NET_OFFLINE": "true", "GOPROXY": "off", "PIP_NO_INDEX": "1"}

TRUSTED_BASE = [
    "Lean 4.33.0 kernel (theorems elaborated by `lake build`; thorough tier re-checks the .olean with leanchecker)",
    "axioms allowed: propext, Classical.choice, Quot.sound (audited with #print axioms on every run); no sorry/admit/native_decide/bv_decide/axiom",
    "translator /verif/extract (syn): trusted to report the listed source facts faithfully; fails closed to `unknown`",
    "correspondence harness /verif/harness + generators: differential testing, bounds which disagreements can be seen",
    "modelled, not verified: rustc's compilation of the source, core/alloc (Layout, Box, Vec, ptr::copy), the global allocator and OS",
]


def log(msg):
    sys.stderr.write(msg + "\n")
    sys.stderr.flush()


def sh(cmd, cwd=None, timeout=None, env=None, stdin=None, env_drop=None):
    """Run a command (list or string); return (rc, stdout+stderr as str).  `env_drop(name) -> bool`
    removes inherited variables before `env` is applied."""
    e = dict(os.environ)
    if env_drop:
        e = {k: v for k, v in e.items() if not env_drop(k)}
    e.update(OFFLINE_ENV)
    if env:
        e.update(env)
    try:
        p = subprocess.run(cmd, cwd=cwd, shell=isinstance(cmd, str), env=e, input=stdin,
                           stdout=subprocess.PIPE, stderr=subprocess.STDOUT, timeout=timeout,
                           text=True, errors="replace")
        return p.returncode, p.stdout
    except subprocess.TimeoutExpired as ex:
        out = ex.stdout or ""
        if isinstance(out, bytes):
            out = out.decode(errors="replace")
        return 124, out + "\n[timeout]"


def sh2(cmd, cwd=None, timeout=None, env=None, stdin=None):
    """Like sh but stdout and stderr separately: (rc, out, err)."""
    e = dict(os.environ)
    e.update(OFFLINE_ENV)
    if env:
        e.update(env)
    try:
        p = subprocess.run(cmd, cwd=cwd, shell=isinstance(cmd, str), env=e, input=stdin,
                           stdout=subprocess.PIPE, stderr=subprocess.PIPE, timeout=timeout,
                           text=True, errors="replace")
        return p.returncode, p.stdout, p.stderr
    except subprocess.TimeoutExpired as ex:
        out = ex.stdout or ""
        if isinstance(out, bytes):
            out = out.decode(errors="replace")
        return 124, out, "[timeout]"


class Lock:
    """flock-based mutex shared by concurrently running checks; re-entrant within one thread of one
    process (a nested `with Lock(name)` by the holder does not block)."""
    _held = {}          # name -> [file, depth, owner thread id]
    _guard = None

    def __init__(self, name):
        os.makedirs(BUILD, exist_ok=True)
        self.name = name
        self.path = os.path.join(BUILD, name + ".lock")

    def __enter__(self):
        import threading
        if Lock._guard is None:
            Lock._guard = threading.Lock()
        me = threading.get_ident()
        with Lock._guard:
            h = Lock._held.get(self.name)
            if h and h[2] == me:
                h[1] += 1
                return self
        f = open(self.path, "w")
        fcntl.flock(f, fcntl.LOCK_EX)       # blocks: another process, or another thread of this one
        with Lock._guard:
            Lock._held[self.name] = [f, 1, me]
        return self

    def __exit__(self, *a):
        with Lock._guard:
            h = Lock._held[self.name]
            h[1] -= 1
            if h[1] > 0:
                return
            del Lock._held[self.name]
        fcntl.flock(h[0], fcntl.LOCK_UN)
        h[0].close()


def write_if_changed(path, text):
    try:
        if open(path).read() == text:
            return False
    except FileNotFoundError:
        pass
    os.makedirs(os.path.dirname(path), exist_ok=True)
    tmp = path + ".tmp%d" % os.getpid()
    open(tmp, "w").write(text)
    os.replace(tmp, path)
    return True


def repo_tree_hash(repo):
    h = hashlib.sha256()
    src = os.path.join(repo, "src")
    for root, _, files in sorted(os.walk(src)):
        for f in sorted(files):
            p = os.path.join(root, f)
            h.update(p[len(repo):].encode())
            h.update(open(p, "rb").read())
    for f in ("Cargo.toml",):
        h.update(open(os.path.join(repo, f), "rb").read())
    return h.hexdigest()[:16]


# ------------------------------------------------------------------------------------------------
class Ctx:
    def __init__(self, prop, tier, seed, repo):
        self.prop = prop
        self.tier = tier
        self.seed = seed
        self.repo = repo
        self.t0 = time.time()
        self.coverage = {}
        self.assumptions = []
        self.violations = []      # list of dicts {replay, found_input, what}
        self.known_hits = []      # KNOWN-FINDING lines printed
        self.obligations = []     # (name, ok: bool)
        self.notes = []
        self.tree = repo_tree_hash(repo)

    def thorough(self):
        return self.tier == "thorough"

    # --- obligations -----------------------------------------------------------------------------
    def oblige(self, name, ok, detail=None):
        self.obligations.append((name, bool(ok)))
        if not ok:
            log("OBLIGATION FAILED: %s %s" % (name, detail or ""))

    def failed_obligations(self):
        return [n for n, ok in self.obligations if not ok]

    # --- violations ------------------------------------------------------------------------------
    def violation(self, kind, body, found_input, tag="v"):
        """Record a violation; writes the replay file and prints the VIOLATION line."""
        os.makedirs(REPLAYS, exist_ok=True)
        n = len(self.violations)
        # checks of scratch copies (bin/seedtest run, --repo) may run concurrently: their replays carry the tree hash
        suffix = "" if os.path.realpath(self.repo) == "/repo" else "-" + self.tree[:8]
        path = os.path.join(REPLAYS, "%s-%s-%d%s-%s%d.txt" % (self.prop, self.tier, self.seed, suffix, tag, n))
        head = "property: %s\nkind: %s\nrepo_tree: %s\nseed: %d\ntier: %s\nfound_failing_input: %s\n---\n" % (
            self.prop, kind, self.tree, self.seed, self.tier, "yes" if found_input else "no")
        open(path, "w").write(head + body + ("\n" if not body.endswith("\n") else ""))
        self.violations.append({"replay": path, "found_input": found_input, "kind": kind})
        line = "VIOLATION property=%s replay=%s" % (self.prop, path)
        if not found_input:
            line += " no-failing-input-found"
        print(line)
        sys.stdout.flush()
        return path

    def defer_nfi(self, body):
        """a `no-failing-input-found` verdict that is only reported if, at the end of the check, no
        concrete failing input has been reported for this property (bin/check flushes it)"""
        self.pending_nfi = getattr(self, "pending_nfi", [])
        self.pending_nfi.append(body)

    def flush_nfi(self):
        pend = getattr(self, "pending_nfi", [])
        if pend and not any(v["found_input"] for v in self.violations):
            self.violation("theorem", "\n\n".join(pend), False)
        self.pending_nfi = []

    def known_finding(self, key, what):
        line = "KNOWN-FINDING: property=%s %s [%s]" % (self.prop, what, key)
        if line not in self.known_hits:
            self.known_hits.append(line)
            print(line)
            sys.stdout.flush()

    # --- evidence --------------------------------------------------------------------------------
    def finish(self):
        os.makedirs(EVID, exist_ok=True)
        cov = dict(self.coverage)
        cov["obligations"] = len(self.obligations)
        cov["discharged"] = sum(1 for _, ok in self.obligations if ok)
        cov.setdefault("obligation_names", [n for n, _ in self.obligations])
        cov.setdefault("failed_obligations", self.failed_obligations())
        cov.setdefault("checker_cmd", "cd /verif/lean && lake build TriompheModel.Props.%s && lake env lean <axiom audit>" % self.prop)
        cov.setdefault("trusted_base", TRUSTED_BASE)
        cov.setdefault("evaluations", 0)
        cov.setdefault("distinct_nontrivial", 0)
        cov.setdefault("rule", "")
        cov.setdefault("samples", [])
        if isinstance(cov.get("programs"), list):      # schema: `programs` is a count
            cov["program_names"] = cov["programs"]
            cov["programs"] = len(cov["program_names"])
        cov["repo_tree"] = self.tree
        cov["known_findings_hit"] = self.known_hits
        cov["notes"] = self.notes
        ev = {
            "property_id": self.prop, "tier": self.tier, "seed": self.seed, "level": "proof",
            "coverage": cov, "assumptions": self.assumptions,
            "wall_s": round(time.time() - self.t0, 2), "violations": len(self.violations),
        }
        # evidence/ holds records about /repo only; runs against scratch copies (--repo) go elsewhere
        evdir = EVID if self.repo == "/repo" else os.path.join(BUILD, "evidence-scratch")
        os.makedirs(evdir, exist_ok=True)
        path = os.path.join(evdir, self.prop + ".json")
        tmp = path + ".tmp%d" % os.getpid()
        json.dump(ev, open(tmp, "w"), indent=1, default=str)
        os.replace(tmp, path)
        return 1 if self.violations else 0


# ------------------------------------------------------------------------------------------------
# Tie A: the translator
def extractor_bin():
    return os.path.join(BUILD, "extract-target", "release", "extract")


def build_extractor():
    with Lock("cargo-extract"):
        rc, out = sh(["cargo", "build", "--release", "--offline", "--target-dir",
                      os.path.join(BUILD, "extract-target")], cwd=os.path.join(VERIF, "extract"), timeout=900)
    if rc != 0:
        raise RuntimeError("extractor build failed:\n" + out[-4000:])


def regen_facts(ctx):
    """Run the translator on ctx.repo; rewrite Generated/*.lean; return facts dict."""
    if not os.path.exists(extractor_bin()):
        build_extractor()
    outdir = os.path.join(LEAN, "TriompheModel", "Generated")
    tmpd = os.path.join(BUILD, "gen-%d" % os.getpid())
    os.makedirs(tmpd, exist_ok=True)
    rc, out = sh([extractor_bin(), "--repo", ctx.repo, "--out", tmpd], timeout=120)
    if rc != 0:
        shutil.rmtree(tmpd, ignore_errors=True)
        raise RuntimeError("translator failed (rc=%d):\n%s" % (rc, out[-4000:]))
    facts = json.load(open(os.path.join(tmpd, "facts.json")))
    # "gen": nobody rewrites Generated/* while another check is between its regeneration and the end of its
    # Lean build + audit (lean_obligations holds it for that whole span)
    with Lock("gen"), Lock("lake"):
        for f in sorted(os.listdir(tmpd)):
            if f.endswith(".lean"):
                write_if_changed(os.path.join(outdir, f), open(os.path.join(tmpd, f)).read())
    write_if_changed(os.path.join(BUILD, "facts.json"), json.dumps(facts, indent=1))
    shutil.rmtree(tmpd, ignore_errors=True)
    return facts


# ------------------------------------------------------------------------------------------------
# Lean
def lake_build(targets, timeout=1800):
    if isinstance(targets, str):
        targets = [targets]
    with Lock("lake"):
        rc, out = sh(["lake", "build"] + targets, cwd=LEAN, timeout=timeout)
    return rc == 0, out


THEOREM_RE = re.compile(r"^\s*(?:private\s+|protected\s+)?(?:theorem|lemma)\s+([A-Za-z_][\w'.?!]*)", re.M)
NS_RE = re.compile(r"^namespace\s+(\S+)", re.M)


def theorems_in(module):
    """[(qualified name, line)] of theorems declared in a module file (simple single-namespace files)."""
    path = os.path.join(LEAN, module.replace(".", "/") + ".lean")
    src = open(path).read()
    res = []
    ns = []
    for i, line in enumerate(src.split("\n"), 1):
        m = re.match(r"^namespace\s+(\S+)", line)
        if m:
            ns.append(m.group(1))
            continue
        m = re.match(r"^end\s+(\S+)", line)
        if m and ns and ns[-1] == m.group(1):
            ns.pop()
            continue
        m = re.match(r"^\s*(?:private\s+|protected\s+)?(?:theorem|lemma)\s+([A-Za-z_][\w'.?!]*)", line)
        if m:
            res.append((".".join(ns + [m.group(1)]), i))
    return res


def failing_theorems(module, build_output):
    """Map `error:` lines of a failed build of `module` back to the theorems they fall in."""
    rel = module.replace(".", "/") + ".lean"
    ths = theorems_in(module)
    bad = []
    for m in re.finditer(r"(?:error: " + re.escape(rel) + r":(\d+):\d+:)|(?:" + re.escape(rel) + r":(\d+):\d+: error)", build_output):
        ln = int(m.group(1) or m.group(2))
        owner = None
        for name, l in ths:
            if l <= ln:
                owner = name
        if owner and owner not in bad:
            bad.append(owner)
    return bad


FORBIDDEN = re.compile(r"\b(sorry|admit|native_decide|bv_decide|implemented_by|maxHeartbeats\s+0)\b|^\s*axiom\s|\bunsafe\s", re.M)


def strip_comments(src):
    src = re.sub(r"/-.*?-/", "", src, flags=re.S)
    src = re.sub(r"--.*", "", src)
    return src


def grep_forbidden(modules):
    hits = []
    seen = set()

    def visit(mod):
        if mod in seen or not mod.startswith("TriompheModel"):
            return
        seen.add(mod)
        path = os.path.join(LEAN, mod.replace(".", "/") + ".lean")
        if not os.path.exists(path):
            return
        src = open(path).read()
        for m in re.finditer(r"^import\s+(\S+)", src, re.M):
            visit(m.group(1))
        body = strip_comments(src)
        for m in FORBIDDEN.finditer(body):
            hits.append("%s: %s" % (mod, m.group(0).strip()))
    for m in modules:
        visit(m)
    return hits, sorted(seen)


def axiom_audit(module, names=None):
    """#print axioms for every theorem of `module`; returns (ok, {name: [axioms]}, raw)."""
    if names is None:
        names = [n for n, _ in theorems_in(module)]
    if not names:
        return True, {}, ""
    src = "import %s\n" % module + "".join("#print axioms %s\n" % n for n in names)
    os.makedirs(BUILD, exist_ok=True)
    f = os.path.join(BUILD, "audit-%s-%d.lean" % (module.split(".")[-1], os.getpid()))
    open(f, "w").write(src)
    with Lock("lake"):
        rc, out = sh(["lake", "env", "lean", f], cwd=LEAN, timeout=900)
    os.unlink(f)
    res = {}
    ok = rc == 0
    for m in re.finditer(r"'(\S+)' depends on axioms: \[([^\]]*)\]", out, re.S):
        axs = [a.strip() for a in m.group(2).replace("\n", " ").split(",") if a.strip()]
        res[m.group(1)] = axs
        if not set(axs) <= ALLOWED_AXIOMS:
            ok = False
    for m in re.finditer(r"'(\S+)' does not depend on any axioms", out):
        res[m.group(1)] = []
    if len(res) != len(names):
        ok = False
    return ok, res, out


def lean_obligations(ctx, module, extra_modules=()):
    """Build the property module (and `extra_modules`, further modules holding theorems of the same
    property), audit them; records one obligation per theorem.  Returns (ok, build_output)."""
    with Lock("gen"):
        # the facts the obligations are evaluated at are those of ctx.repo, regenerated inside the same
        # critical section as the build and the axiom audit (checks of different trees may run concurrently)
        regen_facts(ctx)
        from vlib import traits_facts
        traits_facts.regen(ctx)
        return _lean_obligations_locked(ctx, module, extra_modules)


def _lean_obligations_locked(ctx, module, extra_modules=()):
    mods_all = [module] + [m for m in extra_modules if os.path.exists(os.path.join(LEAN, m.replace(".", "/") + ".lean"))]
    ok, out = lake_build(mods_all)
    ctx.coverage["lean_module"] = module
    ctx.coverage["lean_modules_audited"] = mods_all
    per_mod = [(m, [n for n, _ in theorems_in(m)]) for m in mods_all]
    ths = [t for _, l in per_mod for t in l]
    if not ok:
        bad = []
        for m in mods_all:
            bad += failing_theorems(m, out)
        for t in ths:
            ctx.oblige("lean:" + t, bool(bad) and t not in bad, "build error")
        if not bad:
            ctx.oblige("lean:build:" + module, False, out[-1500:])
        ctx.coverage["lean_errors"] = out[-3000:]
        ctx.coverage["lean_failing_declarations"] = bad
        return False, out
    hits, mods = grep_forbidden(mods_all)
    ctx.oblige("lean:no-sorry-no-axiom-grep", not hits, str(hits))
    aok = True
    allres = {}
    for m, names in per_mod:
        a, res, raw = axiom_audit(m, names)
        aok = aok and a
        allres.update(res)
    for t in ths:
        ctx.oblige("lean:" + t, t in allres and set(allres[t]) <= ALLOWED_AXIOMS, "axioms: %s" % allres.get(t))
    ctx.coverage["axioms_found"] = sorted({a for v in allres.values() for a in v})
    ctx.coverage["theorems"] = ths
    ctx.coverage["lean_modules_in_cone"] = mods
    if ctx.thorough():
        for m in mods_all:
            with Lock("lake"):
                rc, o = sh(["lake", "env", "leanchecker", m], cwd=LEAN, timeout=1800)
            ctx.oblige("leanchecker:" + m, rc == 0, o[-800:])
    return ok and aok and not hits, out


# ------------------------------------------------------------------------------------------------
# Rust harness
def harness_dir(repo):
    """Instantiate the harness manifest for `repo` (default /repo) and return its directory."""
    src = os.path.join(VERIF, "harness")
    tag = "default" if repo == "/repo" else hashlib.sha1(repo.encode()).hexdigest()[:8]
    dst = os.path.join(BUILD, "harness-" + tag)
    with Lock("harness-inst-" + tag):
        os.makedirs(dst, exist_ok=True)
        for name in os.listdir(src):
            s = os.path.join(src, name)
            d = os.path.join(dst, name)
            if name in ("Cargo.toml.in", "target"):
                continue
            if os.path.isdir(s):
                # sync source dirs
                sh(["rsync", "-a", "--delete", s + "/", d + "/"])
            else:
                write_if_changed(d, open(s).read())
        man = open(os.path.join(src, "Cargo.toml.in")).read().replace("@REPO@", repo)
        write_if_changed(os.path.join(dst, "Cargo.toml"), man)
        lock = os.path.join(src, "Cargo.lock")
        if os.path.exists(lock) and not os.path.exists(os.path.join(dst, "Cargo.lock")):
            shutil.copy(lock, os.path.join(dst, "Cargo.lock"))
    return dst


def cargo_build_bin(ctx, bin_name, features=("std", "serde", "stable_deref_trait", "unsize", "arc-swap"),
                    release=False, extra_tag="", env=None, env_drop=None):
    """Build one harness binary against ctx.repo; returns (path or None, output)."""
    d = harness_dir(ctx.repo)
    tag = ("rel" if release else "dbg") + "-" + hashlib.sha1(",".join(sorted(features)).encode()).hexdigest()[:6] + extra_tag
    tdir = os.path.join(BUILD, "cargo-target", os.path.basename(d), tag)
    cmd = ["cargo", "build", "--offline", "--bin", bin_name, "--target-dir", tdir,
           "--no-default-features", "--features", ",".join("t_" + f.replace("-", "_") for f in features)]
    if release:
        cmd.append("--release")
    with Lock("cargo-" + os.path.basename(d) + "-" + tag):
        rc, out = sh(cmd, cwd=d, timeout=1800, env=env, env_drop=env_drop)
    if rc != 0:
        return None, out
    return os.path.join(tdir, "release" if release else "debug", bin_name), out


class HarnessBuildChanged(Exception):
    """raised after harness_build_failed() has recorded the (deferred) verdict: the check should stop"""


class _RepoOnly:
    def __init__(self, repo):
        self.repo = repo


def pristine_copy(repo):
    """export of the repository's HEAD (the last committed tree) under .build, or None if `repo` is not
    a git repository with a HEAD"""
    rc, sha = sh(["git", "-C", repo, "rev-parse", "HEAD"])
    if rc != 0:
        return None
    sha = sha.strip()[:12]
    dst = os.path.join(BUILD, "pristine-" + sha)
    with Lock("pristine-" + sha):
        if not os.path.exists(os.path.join(dst, "Cargo.toml")):
            os.makedirs(dst, exist_ok=True)
            rc, out = sh("git -C %s archive HEAD | tar -x -C %s" % (repo, dst))
            if rc != 0:
                return None
    return dst


def harness_build_failed(ctx, bin_name, out, features=None, release=False, what="the correspondence harness"):
    """A harness binary does not build against ctx.repo.  If it builds against the repository's HEAD,
    the working tree changed a public API that the property's correspondence uses: the property is no
    longer shown to hold (deferred `no-failing-input-found`).  If it does not build against HEAD
    either, the machinery is broken: raise."""
    pr = pristine_copy(ctx.repo)
    if pr is not None:
        kw = {}
        if features is not None:
            kw["features"] = features
        p2, o2 = cargo_build_bin(_RepoOnly(pr), bin_name, release=release, **kw)
        if p2 is not None:
            ctx.oblige("corr:harness-%s-builds-against-working-tree" % bin_name, False, "build error")
            errs = "\n".join(l for l in out.split("\n") if l.startswith("error") or l.strip().startswith("-->"))[:3000]
            ctx.defer_nfi("%s (`%s`) no longer builds against the working tree of %s although it builds against its HEAD: a public "
                          "item the property talks about was removed or its signature / trait bounds changed, so the correspondence "
                          "cannot be established.\ncompiler errors:\n%s" % (what, bin_name, ctx.repo, errs or out[-2500:]))
            return
    raise RuntimeError("harness `%s` does not build against %s (and no buildable HEAD to compare with):\n%s" % (bin_name, ctx.repo, out[-3000:]))


def lean_exe(name):
    """Build (if needed) and return the path of a lean_exe driver."""
    ok, out = lake_build([name])
    if not ok:
        raise RuntimeError("driver build failed: %s\n%s" % (name, out[-3000:]))
    return os.path.join(LEAN, ".lake", "build", "bin", name)


# ------------------------------------------------------------------------------------------------
# known findings
def load_known():
    p = os.path.join(VERIF, "known_findings.json")
    if not os.path.exists(p):
        return {"findings": [], "fixed": []}
    return json.load(open(p))


def known_match(prop, key):
    for f in load_known().get("findings", []):
        if f.get("property") == prop and f.get("key") == key:
            return f
    return None


def wm_orderings(facts):
    """the three orderings the weak-memory search is parametrised by, from the translator's facts: the decrement in
    drop_inner, the load / fence between the decrement and destruction (`none` if absent or if destruction does not come
    after it), and the weakest load any uniqueness gate reaches"""
    a = facts.get("atomics", {})
    dec = a.get("decOrd") or "unknown"
    f = a.get("fence")
    fence = (f.get("ord") or "unknown") if isinstance(f, dict) else "none"
    if a.get("dropSkeleton") != ["decGuard", "fence", "destroy"] and not (a.get("dropSkeleton") == ["decGuard", "destroy"] and fence == "none"):
        fence = "none"
    gate = "acquire"
    for g in a.get("gates", []) or []:
        for o in g.get("loads", []) or []:
            if o not in ("acquire", "acqrel", "seqcst"):
                gate = o
    return dec, fence, gate


def wm_search(ctx, facts):
    """MODEL-side search (Lean, WM/Search.lean, exe drv_wm): enumerate the template family of small executions at the
    orderings found in the source; every witness printed is a proved race (`Search.raceWitnesses_sound`: the execution is
    Consistent, follows Protocol, and the two events are unordered by happens-before).  Returns (number of witnesses, text)."""
    dec, fence, gate = wm_orderings(facts)
    try:
        p = subprocess.run([lean_exe("drv_wm"), dec, fence, gate], stdout=subprocess.PIPE, stderr=subprocess.STDOUT, text=True, timeout=300)
    except Exception as e:
        return None, "model-side search could not run: %s" % e
    m = re.search(r"witnesses=(\d+)", p.stdout)
    n = int(m.group(1)) if m else None
    ctx.coverage["model_search"] = {"orderings": {"decOrd": dec, "fence": fence, "gateOrd": gate}, "witnesses": n,
                                    "what": "template family P1-P3 (2 threads, every mo order and rf choice) of WM/Search.lean; emptiness is a test, not a theorem"}
    head = "model-side search (drv_wm %s %s %s): " % (dec, fence, gate)
    return n, head + p.stdout[:6000]
