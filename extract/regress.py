#!/usr/bin/env python3
"""Regression suite of the translator (`/verif/extract`).

For the unmodified /repo, every harmless rewrite (/verif/harmless/<id>/patch.diff) and a list of
breaking changes (/verif/seeded/<id>/patch.diff):

  1. make a scratch copy of /repo under /tmp/xr/src-<id>, apply the patch;
  2. run the extractor on it, writing facts to /tmp/xr/out-<id>/ (never to lean/TriompheModel/Generated);
  3. evaluate the translator obligations at those facts: the facts are copied into the Generated/
     directory of a *private copy* of the lake package (/tmp/xr/lean-<worker>, rsync'ed once from
     /verif/lean under the lake lock, build products included) and the modules that hold obligations
     on generated facts are built there with `lake build`.  Same Lean sources, same `decide` proofs as
     `bin/check`, but nothing in /verif/lean is touched and no lock is held while building.

Expectation: base and harmless/* build cleanly; every seed listed in MUST_FAIL has at least one
failing obligation in the modules of its own property's check.

usage: regress.py [--extractor BIN] [--label NAME] [--jobs N] [--keep] [--json OUT] [id ...]
       ids: base | harmless/<id> | seeded/<id>     (default: the whole suite)
"""
import argparse
import concurrent.futures as cf
import fcntl
import json
import os
import re
import shutil
import subprocess
import sys
import threading

VERIF = "/verif"
REPO = "/repo"
SCRATCH = "/tmp/xr"
LEAN_SRC = os.path.join(VERIF, "lean")
DEFAULT_BIN = os.path.join(VERIF, ".build", "extract-target", "release", "extract")

P = "TriompheModel.Props."
ALL_MODULES = [P + m for m in ("ModelShape", "Gates", "C03Sched", "C02", "C03", "C08", "C09", "C16")]
# modules with obligations on translator facts that `bin/check Cxx` builds (vlib/props/cXX.py, vlib/histcheck.py)
HIST = ["ModelShape"]
PROP_MODULES = {
    "C01": HIST, "C04": HIST, "C06": HIST, "C07": HIST, "C10": HIST, "C12": HIST, "C15": HIST,
    "C02": ["C02", "Gates"],
    "C03": ["C03", "C03Sched", "Gates"] + HIST,
    "C08": ["C08", "Gates"] + HIST,
    "C09": ["C09", "Gates"] + HIST,
    "C16": ["C16"],
}
# imports among the obligation modules (a failure in an import fails the importer's build)
IMPORTS = {
    "ModelShape": [], "Gates": [], "C03Sched": ["Gates"], "C02": ["Gates"], "C03": ["C03Sched"],
    "C08": ["Gates", "C03"], "C09": ["Gates"], "C16": [],
}

HARMLESS = ["h1", "h2", "A-h1", "A-h2", "A-h3", "A-h4", "B-h1", "B-h2", "B-h3", "B-h4", "C-h1", "C-h2", "C-h3", "C-h4"]
MUST_FAIL = ["C01-m2", "C02-m1", "C02-m2", "C02-m3", "C02-m4", "C03-m1", "C04-m2", "C08-m1", "C08-m3", "C09-m1",
             "C09-m4", "C12-m3", "C16-m2", "C16-m3", "C16-m4"]
# further seeds of the properties whose checks contain translator obligations: recorded, expectation =
# whatever the baseline did
ALSO = ["C03-m3", "C03-m4", "C03-m5", "C16-m1", "C01-m1", "C01-m3", "C01-m4", "C03-m2", "C04-m1", "C04-m3", "C04-m4",
        "C08-m2", "C08-m4", "C09-m2", "C09-m3", "C12-m1", "C12-m2", "C12-m4"]


def sh(cmd, cwd=None, timeout=1800):
    p = subprocess.run(cmd, cwd=cwd, stdout=subprocess.PIPE, stderr=subprocess.STDOUT, text=True, timeout=timeout)
    return p.returncode, p.stdout


def closure(mods):
    seen = []
    todo = list(mods)
    while todo:
        m = todo.pop()
        if m not in seen:
            seen.append(m)
            todo += IMPORTS[m]
    return seen


def make_src(ident):
    """scratch copy of /repo with the patch applied; returns (dir, error or None)"""
    d = os.path.join(SCRATCH, "src-" + ident.replace("/", "-"))
    shutil.rmtree(d, ignore_errors=True)
    os.makedirs(d)
    rc, out = sh(["rsync", "-a", "--exclude", "target", "--exclude", ".git", REPO + "/", d + "/"])
    if rc != 0:
        return d, "rsync: " + out
    if ident != "base":
        patch = os.path.join(VERIF, ident, "patch.diff")
        sh(["git", "init", "-q"], cwd=d)
        rc, out = sh(["git", "apply", patch], cwd=d)
        if rc != 0:
            return d, "git apply: " + out
    return d, None


def prepare_lean(worker):
    d = os.path.join(SCRATCH, "lean-%d" % worker)
    if os.path.isdir(os.path.join(d, ".lake")):
        return d
    os.makedirs(d, exist_ok=True)
    lock = open(os.path.join(VERIF, ".build", "lake.lock"), "w")
    fcntl.flock(lock, fcntl.LOCK_EX)
    try:
        rc, out = sh(["rsync", "-a", "--delete", LEAN_SRC + "/", d + "/"])
    finally:
        fcntl.flock(lock, fcntl.LOCK_UN)
        lock.close()
    if rc != 0:
        raise RuntimeError("rsync of the lake package failed: " + out)
    return d


def theorems_in(path):
    res = []
    ns = []
    for i, line in enumerate(open(path).read().split("\n"), 1):
        m = re.match(r"^namespace\s+(\S+)", line)
        if m:
            ns.append(m.group(1))
            continue
        m = re.match(r"^end\s+(\S+)", line)
        if m and ns and ns[-1] == m.group(1):
            ns.pop()
            continue
        m = re.match(r"^\s*(?:private\s+|protected\s+)?(?:theorem|lemma|example)\b\s*([A-Za-z_][\w'.]*)?", line)
        if m:
            res.append((".".join(ns + [m.group(1) or "example@%d" % i]), i))
    return res


def failing(lean_dir, out):
    """{module short name: [failing theorem]} from lake's error lines"""
    bad = {}
    for m in re.finditer(r"error: (?:\./)?(?:[^\s:]*/)?TriompheModel/(\S+?)\.lean:(\d+):(\d+)", out):
        rel, line = m.group(1), int(m.group(2))
        ths = theorems_in(os.path.join(lean_dir, "TriompheModel", rel + ".lean"))
        name = None
        for n, l in ths:
            if l <= line:
                name = n
        key = rel.split("/")[-1]
        bad.setdefault(key, [])
        if name and name not in bad[key]:
            bad[key].append(name)
    # `example`s that merely evaluate the model at the facts follow from the obligations: drop the noise
    for k, v in bad.items():
        named = [t for t in v if ".example@" not in t and not t.startswith("example@")]
        if named:
            bad[k] = named
    return bad


def fix_header(text):
    # the first line names the scratch directory; keep the file content independent of it
    lines = text.split("\n")
    if lines and lines[0].startswith("-- GENERATED"):
        lines[0] = "-- GENERATED by /verif/extract (regression run) — do not edit"
    return "\n".join(lines)


_tls = threading.local()
_wid = [0]
_wlock = threading.Lock()


def worker_dir():
    if not hasattr(_tls, "d"):
        with _wlock:
            _wid[0] += 1
            w = _wid[0]
        _tls.d = prepare_lean(w)
    return _tls.d


def run_one(ident, extractor, keep):
    res = {"id": ident, "extract_rc": None, "failing": {}, "build_ok": None, "note": ""}
    src, err = make_src(ident)
    try:
        if err:
            res["note"] = err
            return res
        outd = os.path.join(SCRATCH, "out-" + ident.replace("/", "-"))
        shutil.rmtree(outd, ignore_errors=True)
        rc, out = sh([extractor, "--repo", src, "--out", outd], timeout=120)
        res["extract_rc"] = rc
        if rc != 0:
            res["note"] = "extractor: " + out[-500:]
            return res
        facts = json.load(open(os.path.join(outd, "facts.json")))
        res["facts"] = {"atomics": {k: v for k, v in facts["atomics"].items() if k not in ("sites",)}, "consts": facts["consts"],
                        "write_sites": [s for s in facts["atomics"]["sites"] if s["kind"] not in ("load", "newInit")]}
        lean = worker_dir()
        gen = os.path.join(lean, "TriompheModel", "Generated")
        for f in ("Atomics.lean", "Consts.lean"):
            new = fix_header(open(os.path.join(outd, f)).read())
            p = os.path.join(gen, f)
            if not os.path.exists(p) or open(p).read() != new:
                open(p, "w").write(new)
        rc, out = sh(["lake", "build"] + ALL_MODULES, cwd=lean, timeout=3600)
        res["build_ok"] = rc == 0
        res["failing"] = failing(lean, out)
        if rc != 0 and not res["failing"]:
            res["note"] = "build failed without a located error: " + out[-1500:]
        return res
    finally:
        if not keep:
            shutil.rmtree(src, ignore_errors=True)


def own_failures(ident, res):
    """failing theorems in the modules of the seed's own property check (imports included)"""
    prop = ident.split("/")[1].split("-")[0]
    mods = closure(PROP_MODULES.get(prop, []))
    return {m: t for m, t in res["failing"].items() if m in mods}


def main():
    ap = argparse.ArgumentParser()
    ap.add_argument("--extractor", default=DEFAULT_BIN)
    ap.add_argument("--label", default="run")
    ap.add_argument("--jobs", type=int, default=6)
    ap.add_argument("--keep", action="store_true", help="keep the scratch source copies")
    ap.add_argument("--json", default=None)
    ap.add_argument("--baseline", default=None, help="JSON of an earlier run: every seed that failed there must fail now")
    ap.add_argument("ids", nargs="*")
    a = ap.parse_args()
    ids = a.ids or (["base"] + ["harmless/" + h for h in HARMLESS] + ["seeded/" + s for s in MUST_FAIL + ALSO])
    os.makedirs(SCRATCH, exist_ok=True)
    base = json.load(open(a.baseline)) if a.baseline else {}
    results = {}
    with cf.ThreadPoolExecutor(max_workers=a.jobs) as ex:
        futs = {ex.submit(run_one, i, a.extractor, a.keep): i for i in ids}
        for f in cf.as_completed(futs):
            i = futs[f]
            try:
                results[i] = f.result()
            except Exception as e:          # noqa
                results[i] = {"id": i, "extract_rc": None, "failing": {}, "build_ok": None, "note": "exception: %r" % (e,)}
            r = results[i]
            sys.stderr.write("[%s] %-18s build_ok=%s failing=%s %s\n" % (a.label, i, r["build_ok"], json.dumps(r["failing"]), r["note"][:300]))
    bad = 0
    print("%-20s %-9s %-8s %s" % ("id", "expected", "verdict", "failing obligations (module: theorems)"))
    for i in ids:
        r = results[i]
        fl = "; ".join("%s: %s" % (m, ", ".join(t) or "(build)") for m, t in sorted(r["failing"].items()))
        if i == "base" or i.startswith("harmless/"):
            exp = "pass"
            ok = r["build_ok"] is True
        else:
            sid = i.split("/")[1]
            own = own_failures(i, r)
            r["own_failing"] = own
            caught = bool(own) or (r["build_ok"] is False and not r["failing"])
            r["caught"] = caught
            was = base.get(i, {}).get("caught")
            if sid in MUST_FAIL or was:
                exp = "fail"
                ok = caught
            else:
                exp = "any"
                ok = True
            fl = ("own: " + ("; ".join("%s: %s" % (m, ", ".join(t)) for m, t in sorted(own.items())) or "-")) + ("   | all: " + fl if fl else "")
        verdict = ("OK" if ok else "WRONG") + ("/fails" if r["build_ok"] is False else "/holds" if r["build_ok"] else "/error")
        if not ok:
            bad += 1
        print("%-20s %-9s %-8s %s %s" % (i, exp, verdict, fl, r["note"][:200].replace("\n", " ")))
    if a.json:
        json.dump(results, open(a.json, "w"), indent=1, sort_keys=True)
    print("%d unexpected" % bad)
    sys.exit(1 if bad else 0)


if __name__ == "__main__":
    main()
